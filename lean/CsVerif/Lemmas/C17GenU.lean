import CsVerif.Model.C17Gen
import CsVerif.Lemmas.C17
import CsVerif.Lemmas.C17Gen
import CsVerif.Props.C20Gen
/-! Helper lemmas for Props/C17Gen.lean: the operations of `PyU` (run-time library of the untyped translator: Model/PyU.lean,
PyU_T15.lean file objects, PyU_T02.lean cstruct structures, PyU_T17.lean) against the primitives of the C17 model, and the definitions
of `Gen/PyGuardU.lean` translated from `iter_guardrail_configs_with_beacon`, `find_xor_key_candidates` and `iter_guardrail_configs`
against `C17.selectKey` / `withBeaconOne`, `C17.findXorKeyCandidates` and `C17.iterGuardrailConfigs` — loop by loop (the lemma about
the translated definition `<f>_loop<k>` / `<f>_comp<k>` is `gen_<f>_loop<k>` / `gen_<f>_comp<k>`):
`gen_iter_guardrail_configs_with_beacon_loop2` (the `for … else` over the candidate keys), `…_loop1` / `…_records` (the loop over the
records); `gen_find_xor_key_candidates_loop2` (the `iter(partial(fh.read, n), b"")` loop), `…_comp1` (`counter.update(<generator
expression>)`), `mostCommon_enc`, `…_loop3` (the yield loop), `…_loop1` / `…_keylens`; `gen_iter_guardrail_configs_loop2` (the guard
settings loop against `C17.settingsPure`), `…_loop1` (one run of the scan loop against `C17.probeAt`), `…_scan`.
No property statements. -/
namespace C17Gen
open PyU
set_option linter.unusedSimpArgs false

/-! ## the selection loop (`iter_guardrail_configs_with_beacon`) -/
theorem pure_ok {α : Type} (a : α) : (pure a : Py α) = .ok a := rfl

theorem eq_int (a b : Int) : PyU.eq (.int a) (.int b) = (a == b) := rfl
theorem add_int (a b : Int) : PyU.add (.int a) (.int b) = .ok (.int (a + b)) := rfl

theorem xor_enc (a b : Bytes) : Gen.PyGuardU.xor (.bytes a) (.bytes b) = .ok (.bytes (C20.xor a b)) := by
  simp only [Gen.PyGuardU.xor, liftXor, C20Gen.gen_xor, Except.map]

theorem payload_checksum_enc (d : Bytes) :
    Gen.PyGuardU.payload_checksum (.bytes d) = .ok (.int ((C17.payloadChecksum d : Nat) : Int)) := by
  simp only [Gen.PyGuardU.payload_checksum, liftBytesNat, payload_checksum_eq', Except.map]

section attrs
variable (a b c d e f g h i j k x : V)
theorem getAttr_meta_checksum : getAttr (.inst Gen.PyGuardU.GuardrailMetadata [a, b, c, d, e, f, g, h, i, j, k]) "checksum" = .ok h := by
  simp [getAttr, lookupField, Gen.PyGuardU.GuardrailMetadata]
theorem getAttr_meta_mbc : getAttr (.inst Gen.PyGuardU.GuardrailMetadata [a, b, c, d, e, f, g, h, i, j, k]) "masked_beacon_config" = .ok c := by
  simp [getAttr, lookupField, Gen.PyGuardU.GuardrailMetadata]
theorem getAttr_meta_bxk : getAttr (.inst Gen.PyGuardU.GuardrailMetadata [a, b, c, d, e, f, g, h, i, j, k]) "beacon_xor_key" = .ok e := by
  simp [getAttr, lookupField, Gen.PyGuardU.GuardrailMetadata]
theorem setAttr_meta_bxk : instSetAttr (.inst Gen.PyGuardU.GuardrailMetadata [a, b, c, d, e, f, g, h, i, j, k]) "beacon_xor_key" x
    = .ok (.inst Gen.PyGuardU.GuardrailMetadata [a, b, c, d, x, f, g, h, i, j, k]) := by
  simp [instSetAttr, setField, Gen.PyGuardU.GuardrailMetadata]
theorem setAttr_meta_pxk : instSetAttr (.inst Gen.PyGuardU.GuardrailMetadata [a, b, c, d, e, f, g, h, i, j, k]) "payload_xor_key" x
    = .ok (.inst Gen.PyGuardU.GuardrailMetadata [a, b, c, d, e, f, g, h, x, j, k]) := by
  simp [instSetAttr, setField, Gen.PyGuardU.GuardrailMetadata]
theorem setAttr_meta_ubc : instSetAttr (.inst Gen.PyGuardU.GuardrailMetadata [a, b, c, d, e, f, g, h, i, j, k]) "unmasked_beacon_config" x
    = .ok (.inst Gen.PyGuardU.GuardrailMetadata [a, b, c, d, e, f, g, h, i, x, k]) := by
  simp [instSetAttr, setField, Gen.PyGuardU.GuardrailMetadata]
end attrs

/-- what the inner `for xorkey in …: … else: …` leaves: (the `else` clause runs, the yields so far, the record) -/
def selResult (guarded : Bytes) (m : C17.Meta) (ys : List V) (ks : List Bytes) : Bool × V × V :=
  match C17.selectKey guarded m.checksum ks with
  | some (k, u) =>
    let m' := { m with payloadXorKey := some k, unmaskedBeaconConfig := some u }
    (false, .list (ys ++ [encMeta m']), encMeta m')
  | none => (true, .list ys, encMeta m)

theorem gen_iter_guardrail_configs_with_beacon_loop2 (xi xc : V → Py V) (guarded : Bytes) (m : C17.Meta) (ys : List V) (ks : List Bytes) :
    forListElse (ks.map V.bytes) (Gen.PyGuardU.iter_guardrail_configs_with_beacon_loop2 xi xc (.bytes guarded)) (.list ys, encMeta m)
      = .ok (selResult guarded m ys ks) := by
  induction ks with
  | nil => rfl
  | cons k ks ih =>
    simp only [List.map_cons, forListElse, Gen.PyGuardU.iter_guardrail_configs_with_beacon_loop2, xor_enc, payload_checksum_enc,
      PyRt.ok_bind, add_int, encMeta, getAttr_meta_checksum, setAttr_meta_pxk, setAttr_meta_ubc, eq_int, pure_ok, yieldTo]
    unfold selResult
    simp only [C17.selectKey]
    by_cases hc : m.checksum = C17.payloadChecksum (C20.xor guarded k) + 1
    · have hi : ((m.checksum : Int) == ((C17.payloadChecksum (C20.xor guarded k) : Nat) : Int) + 1) = true := by
        simp only [beq_iff_eq]; omega
      simp only [hi, if_true]
      simp only [hc, if_true, encMeta, encOptBytes]
    · have hi : ((m.checksum : Int) == ((C17.payloadChecksum (C20.xor guarded k) : Nat) : Int) + 1) = false := by
        simp only [beq_eq_false_iff_ne, ne_eq]; omega
      simp only [hi, if_false, Bool.false_eq_true]
      simp only [hc, if_false]
      have := ih
      simp only [encMeta, selResult] at this
      exact this


theorem gen_iter_guardrail_configs_with_beacon_loop1 (xi xc : V → Py V) (cands : Bytes → List Bytes)
    (hc : ∀ g : Bytes, xc (.bytesIO g 0) = .ok (.list ((cands g).map V.bytes))) (m : C17.Meta) (ys : List V) :
    Gen.PyGuardU.iter_guardrail_configs_with_beacon_loop1 xi xc (encMeta m) (.list ys)
      = .ok (Ctl.cont, .list (ys ++ [encMeta (withBeaconOneC cands m)])) := by
  have hk : (V.bytes [46]) = V.bytes Gen.Guardrails.beaconXorKey := rfl
  have hm : ∀ x : Bytes, (V.inst Gen.PyGuardU.GuardrailMetadata
      [V.int ↑m.beaconConfigOffset, V.int ↑m.guardConfigOffset, V.bytes m.maskedBeaconConfig, V.bytes m.maskedGuardConfig,
        V.bytes x, V.bytes m.guardrailXorKey, V.bytes m.unmaskedGuardConfig, V.int ↑m.checksum,
        encOptBytes m.payloadXorKey, encOptBytes m.unmaskedBeaconConfig, V.list (List.map encSetting m.settings)])
      = encMeta { m with beaconXorKey := x } := fun _ => rfl
  simp only [Gen.PyGuardU.iter_guardrail_configs_with_beacon_loop1, encMeta, setAttr_meta_bxk, getAttr_meta_mbc, getAttr_meta_bxk,
    PyRt.ok_bind, hk, xor_enc, newBytesIO, hc, iterList]
  simp only [hm, gen_iter_guardrail_configs_with_beacon_loop2, PyRt.ok_bind, pure_ok]
  cases hs : C17.selectKey (C20.xor m.maskedBeaconConfig Gen.Guardrails.beaconXorKey) m.checksum
      (cands (C20.xor m.maskedBeaconConfig Gen.Guardrails.beaconXorKey)) with
  | none => simp [selResult, withBeaconOneC, hs, yieldTo]; rfl
  | some p =>
    obtain ⟨k, u⟩ := p
    simp [selResult, withBeaconOneC, hs, yieldTo]; rfl

theorem gen_iter_guardrail_configs_with_beacon_records (xi xc : V → Py V) (cands : Bytes → List Bytes)
    (hc : ∀ g : Bytes, xc (.bytesIO g 0) = .ok (.list ((cands g).map V.bytes))) (ms : List C17.Meta) (ys : List V) :
    forList (ms.map encMeta) (Gen.PyGuardU.iter_guardrail_configs_with_beacon_loop1 xi xc) (.list ys)
      = .ok (.list (ys ++ (ms.map (withBeaconOneC cands)).map encMeta)) := by
  induction ms generalizing ys with
  | nil => simp [forList]
  | cons m ms ih =>
    simp only [List.map_cons, forList, gen_iter_guardrail_configs_with_beacon_loop1 xi xc cands hc, ih]
    simp

theorem gen_iter_guardrail_configs_with_beacon_proof (xi xc : V → Py V) (fh fh' : V) (ms : List C17.Meta) (cands : Bytes → List Bytes)
    (hi : xi fh = .ok (.tuple [.list (ms.map encMeta), fh']))
    (hc : ∀ g : Bytes, xc (.bytesIO g 0) = .ok (.list ((cands g).map V.bytes))) :
    Gen.PyGuardU.iter_guardrail_configs_with_beacon xi xc fh
      = .ok (.tuple [.list ((ms.map (withBeaconOneC cands)).map encMeta), fh']) := by
  simp only [Gen.PyGuardU.iter_guardrail_configs_with_beacon, hi, PyRt.ok_bind, unpack2, iterList, pure_ok,
    gen_iter_guardrail_configs_with_beacon_records xi xc cands hc ms [], List.nil_append]


/-! ## the candidate keys (`find_xor_key_candidates`) -/

/-! ### grouper -/
def toV (b : UInt8) : V := .int (b.toNat : Int)

theorem groupsOf_eq (n : Nat) (hn : 0 < n) : ∀ (fuel : Nat) (d : Bytes), d.length ≤ fuel →
    groupsOf n (V.int 0) fuel (d.map toV) = (C17.grouper n d).map (fun g => g.map toV) := by
  intro fuel
  induction fuel with
  | zero =>
    intro d hd
    have : d = [] := List.length_eq_zero_iff.mp (by omega)
    subst this
    unfold C17.grouper
    simp [groupsOf]
  | succ fuel ih =>
    intro d hd
    cases d with
    | nil => unfold C17.grouper; simp [groupsOf]
    | cons x xs =>
      rw [C17.grouper]
      have h0 : ¬ (n = 0 ∨ x :: xs = []) := by simp; omega
      simp only [h0, dite_false, List.map_cons, groupsOf]
      have hl : ((x :: xs).drop n).length ≤ fuel := by
        simp only [List.length_drop, List.length_cons] at hd ⊢; omega
      have := ih ((x :: xs).drop n) hl
      simp only [List.map_drop, List.map_cons] at this
      rw [this]
      congr 1
      simp only [← List.map_cons, ← List.map_take, List.length_map, List.map_append, List.map_replicate]
      rfl

theorem grouper_enc (chunk : Bytes) (L : Nat) (hL : 0 < L) :
    PyU.grouper (.bytes chunk) (.int (L : Int)) (.int 0)
      = .ok (.list ((C17.grouper L chunk).map fun g => V.tuple (g.map toV))) := by
  have h1 : ¬ ((L : Int) ≤ 0) := by omega
  have := groupsOf_eq L hL chunk.length chunk (Nat.le_refl _)
  simp only [PyU.grouper, iterList, asInt, h1, if_false, Int.toNat_natCast, List.length_map]
  have e : (List.map (fun x => V.int ↑x.toNat) chunk) = chunk.map toV := rfl
  rw [e, this, List.map_map]
  rfl

theorem bytesItems_toV (g : Bytes) : bytesItems17 (g.map toV) = .ok g := by
  induction g with
  | nil => rfl
  | cons b bs ih =>
    have hb : (0 : Int) ≤ (b.toNat : Int) ∧ (b.toNat : Int) < 256 := by
      have := b.toNat_lt; omega
    simp only [List.map_cons, toV, bytesItems17, asInt, hb, and_self, if_true, ih, Except.map, Int.toNat_natCast]
    simp

theorem bytesOf_tuple (g : Bytes) : bytesOf17 (.tuple (g.map toV)) = .ok (.bytes g) := by
  simp only [bytesOf17, bytesItems_toV, Except.map]

/-! ### Counter -/
def encCounter (c : C17.Counter) : V := .dict (c.map fun p => V.bytes p.1) (c.map fun p => V.int (p.2 : Int))

theorem counterIncr_cons_ne (k k' : Bytes) (n : Int) (ks vs : List V) (h : k' ≠ k) :
    counterIncr (.dict (.bytes k' :: ks) (.int n :: vs)) (.bytes k)
      = (counterIncr (.dict ks vs) (.bytes k)).map fun r =>
          match r with
          | .dict ks' vs' => .dict (.bytes k' :: ks') (.int n :: vs')
          | v => v := by
  have hk : keyEq (.bytes k) (.bytes k') = false := by
    simp only [keyEq, PyU.eq, Bool.and_true, beq_eq_false_iff_ne, ne_eq]
    exact fun e => h e.symm
  simp only [counterIncr, hashable, if_true, findKey, hk, Bool.false_eq_true, if_false, setKey]
  cases hf : findKey (.bytes k) ks vs with
  | none => simp [Except.map]
  | some v =>
    simp only []
    cases PyU.add v (.int 1) <;> simp [Except.map]

theorem counterIncr_enc (c : C17.Counter) (k : Bytes) :
    counterIncr (encCounter c) (.bytes k) = .ok (encCounter (c.incr k)) := by
  induction c with
  | nil => simp [encCounter, counterIncr, hashable, findKey, C17.Counter.incr]
  | cons p rest ih =>
    obtain ⟨k', n⟩ := p
    by_cases h : k' = k
    · subst h
      have hk : keyEq (.bytes k') (.bytes k') = true := by simp [keyEq, PyU.eq]
      simp only [encCounter, List.map_cons, counterIncr, hashable, if_true, findKey, hk, PyU.add, asInt, setKey,
        C17.Counter.incr, if_true]
      rfl
    · have := counterIncr_cons_ne k k' (n : Int) (rest.map fun p => V.bytes p.1) (rest.map fun p => V.int (p.2 : Int)) h
      simp only [encCounter, List.map_cons] at ih ⊢
      rw [this, ih]
      simp only [Except.map, C17.Counter.incr, h, if_false, List.map_cons]

theorem gen_find_xor_key_candidates_comp1 (B : V) (gs : List Bytes) (c : C17.Counter) :
    forList (gs.map fun g => V.tuple (g.map toV)) (Gen.PyGuardU.find_xor_key_candidates_comp1 B) (encCounter c)
      = .ok (encCounter (C17.Counter.update c gs)) := by
  induction gs generalizing c with
  | nil => rfl
  | cons g gs ih =>
    simp only [List.map_cons, forList, Gen.PyGuardU.find_xor_key_candidates_comp1, bytesOf_tuple, PyRt.ok_bind, counterIncr_enc, pure_ok,
      ih, C17.Counter.update, List.foldl_cons]


/-! ### file objects -/
theorem asFile_enc (f : PyFile) : asFile (encFile f) = some (f.data, f.pos, kindNat f.kind) := by
  cases hk : f.kind <;> simp [asFile, encFile, mkFile, kindNat, hk]

theorem fileRead_nat (f : PyFile) (n : Nat) :
    fileRead (encFile f) (.int (n : Int)) = .ok (.bytes ((f.data.drop f.pos).take n), encFile { f with pos := f.pos + ((f.data.drop f.pos).take n).length }) := by
  have h1 : ¬ ((n : Int) < -1 ∧ kindNat f.kind = 1) := by omega
  have h2 : ¬ ((n : Int) < 0) := by omega
  simp only [fileRead, asFile_enc, asInt, h1, h2, if_false, Int.toNat_natCast]
  rfl

theorem fileSeek_nat (f : PyFile) (n : Nat) :
    fileSeek (encFile f) (.int (n : Int)) (.int 0) = .ok (.int (n : Int), encFile { f with pos := n }) := by
  have h2 : ¬ ((n : Int) < 0) := by omega
  simp only [fileSeek, asFile_enc, asInt, if_true, h2, if_false, Int.toNat_natCast]
  rfl

theorem eq_bytes_nil (b : Bytes) : PyU.eq (.bytes b) (.bytes []) = b.isEmpty := by
  cases b <;> rfl

/-- the chunk loop: `for chunk in iter(functools.partial(fh.read, B), b"")` -/
theorem gen_find_xor_key_candidates_loop2 (B L : Nat) (hL : 0 < L) : ∀ (n : Nat) (f : PyFile) (c : C17.Counter) (fuel : Nat),
    f.data.length - f.pos = n → f.pos ≤ f.data.length → n < fuel →
    whileFuel fuel (Gen.PyGuardU.find_xor_key_candidates_loop2 (.int (B : Int)) (.int (L : Int))) (encFile f, encCounter c)
      = .ok (encFile { f with pos := if B = 0 then f.pos else f.data.length },
             encCounter ((C17.chunks B (f.data.drop f.pos)).foldl (fun c chunk => c.update (C17.grouper L chunk)) c)) := by
  intro n
  induction n using Nat.strongRecOn with
  | _ n ih =>
    intro f c fuel hn hp hf
    obtain ⟨fu, rfl⟩ : ∃ fu, fuel = fu + 1 := ⟨fuel - 1, by omega⟩
    by_cases hB : B = 0
    · have ht : (f.data.drop f.pos).take B = [] := by simp [hB]
      rw [C17.chunks]
      simp only [whileFuel, Gen.PyGuardU.find_xor_key_candidates_loop2, fileRead_nat, eq_bytes_nil, pure_ok, ht, PyRt.ok_bind,
        List.isEmpty_nil, if_true, List.length_nil, Nat.add_zero]
      simp [hB]
    · by_cases he : f.pos = f.data.length
      · have hd : f.data.drop f.pos = [] := List.drop_eq_nil_of_le (by omega)
        rw [C17.chunks]
        simp [whileFuel, Gen.PyGuardU.find_xor_key_candidates_loop2, fileRead_nat, eq_bytes_nil, pure_ok, hd, hB, he]
      · have hlt : f.pos < f.data.length := by omega
        have hne : f.data.drop f.pos ≠ [] := by
          intro h0; have := congrArg List.length h0; simp at this; omega
        have hc0 : ¬ (B = 0 ∨ f.data.drop f.pos = []) := by simp [hB, hne]
        have hchunk : ((f.data.drop f.pos).take B).isEmpty = false := by
          cases hx : (f.data.drop f.pos).take B with
          | nil =>
            have := congrArg List.length hx
            simp at this
            omega
          | cons _ _ => rfl
        have hlen : ((f.data.drop f.pos).take B).length = min B (f.data.length - f.pos) := by simp
        rw [C17.chunks]
        simp only [hc0, dite_false, List.foldl_cons]
        have hnext := ih (f.data.length - (f.pos + ((f.data.drop f.pos).take B).length)) (by rw [hlen]; omega)
          { f with pos := f.pos + ((f.data.drop f.pos).take B).length }
          (c.update (C17.grouper L ((f.data.drop f.pos).take B))) fu rfl (by simp only [hlen]; omega) (by simp only [hlen]; omega)
        have hdd : (f.data.drop f.pos).drop B = f.data.drop (f.pos + ((f.data.drop f.pos).take B).length) := by
          rw [List.drop_drop, hlen]
          by_cases hle : B ≤ f.data.length - f.pos
          · rw [Nat.min_eq_left hle, Nat.add_comm]
          · rw [Nat.min_eq_right (by omega)]
            rw [List.drop_eq_nil_of_le (by omega), List.drop_eq_nil_of_le (by omega)]
        simp only [whileFuel, Gen.PyGuardU.find_xor_key_candidates_loop2, fileRead_nat, eq_bytes_nil, hchunk, PyRt.ok_bind,
          Bool.false_eq_true, if_false, grouper_enc _ L hL, iterList, gen_find_xor_key_candidates_comp1, pure_ok]
        rw [hnext, hdd]
        simp [hB]


/-! ### most_common(2) -/
def encItem (p : Bytes × Nat) : V × Int := (V.bytes p.1, (p.2 : Int))

theorem maxFirst_none {c : C17.Counter} (h : C17.maxFirst c = none) : c = [] := by
  cases c with
  | nil => rfl
  | cons x rest =>
    simp only [C17.maxFirst] at h
    split at h
    · cases h
    · split at h <;> cases h

theorem takeMaxFirst_enc (c : C17.Counter) :
    takeMaxFirst (c.map encItem) = (C17.maxFirst c).map fun a => (encItem a, (c.erase a).map encItem) := by
  induction c with
  | nil => rfl
  | cons x rest ih =>
    simp only [List.map_cons, takeMaxFirst, ih, C17.maxFirst]
    cases hm : C17.maxFirst rest with
    | none =>
      have := maxFirst_none hm
      subst this
      simp
    | some y =>
      simp only [Option.map_some]
      by_cases hgt : y.2 > x.2
      · have h1 : (encItem y).2 > (encItem x).2 := by simp only [encItem]; omega
        have hne : x ≠ y := by intro e; subst e; omega
        have hb : (x == y) = false := by simpa using hne
        simp only [h1, if_true, hgt, Option.map_some, List.erase_cons, hb, Bool.false_eq_true, if_false, List.map_cons]
      · have h1 : ¬ (encItem y).2 > (encItem x).2 := by simp only [encItem]; omega
        simp only [h1, if_false, hgt, Option.map_some, List.erase_cons_head]

theorem mostCommonGo_two (c : C17.Counter) : mostCommonGo 2 (c.map encItem) = (C17.mostCommon2 c).map encItem := by
  simp only [mostCommonGo, takeMaxFirst_enc, C17.mostCommon2]
  cases C17.maxFirst c with
  | none => rfl
  | some a =>
    simp only [Option.map_some, takeMaxFirst_enc, List.map_cons]
    cases C17.maxFirst (c.erase a) <;> rfl

theorem counterItems_enc (c : C17.Counter) :
    counterItems (c.map fun p => V.bytes p.1) (c.map fun p => V.int (p.2 : Int)) = some (c.map encItem) := by
  induction c with
  | nil => rfl
  | cons p rest ih => simp only [List.map_cons, counterItems, ih, Option.map_some, encItem]

def encPair (p : Bytes × Nat) : V := .tuple [.bytes p.1, .int (p.2 : Int)]

theorem mostCommon_enc (c : C17.Counter) :
    mostCommon (encCounter c) (.int 2) = .ok (.list ((C17.mostCommon2 c).map encPair)) := by
  simp only [mostCommon, encCounter, counterItems_enc, asInt, Option.map_some]
  have : (2 : Int).toNat = 2 := rfl
  simp only [this, mostCommonGo_two, List.map_map]
  rfl

/-! ### the yield loop -/
theorem ge_int (a b : Int) : PyU.ge (.int a) (.int b) = .ok (!decide (a < b)) := rfl

theorem gen_find_xor_key_candidates_loop3 (B : V) (l : List (Bytes × Nat)) : ∀ (ys : List V) (fc : Nat),
    ∃ x, forList (l.map encPair) (Gen.PyGuardU.find_xor_key_candidates_loop3 B) (.list ys, .int (fc : Int))
      = .ok (.list (ys ++ (C17.yieldLoop fc l).map V.bytes), x) := by
  induction l with
  | nil => intro ys fc; exact ⟨.int (fc : Int), by simp [forList, C17.yieldLoop]⟩
  | cons p rest ih =>
    intro ys fc
    obtain ⟨k, n⟩ := p
    by_cases hge : n ≥ fc
    · obtain ⟨x, hx⟩ := ih (ys ++ [.bytes k]) n
      refine ⟨x, ?_⟩
      have hd : decide ((n : Int) < (fc : Int)) = false := by simp; omega
      simp only [List.map_cons, forList, Gen.PyGuardU.find_xor_key_candidates_loop3, encPair, unpack2, iterList, PyRt.ok_bind, pure_ok,
        ge_int, hd, Bool.not_false, if_true, yieldTo, hx, C17.yieldLoop, hge, List.map_cons, List.append_assoc, List.singleton_append]
    · refine ⟨.int (fc : Int), ?_⟩
      have hd : decide ((n : Int) < (fc : Int)) = true := by simp; omega
      simp only [List.map_cons, forList, Gen.PyGuardU.find_xor_key_candidates_loop3, encPair, unpack2, iterList, PyRt.ok_bind, pure_ok,
        ge_int, hd, Bool.not_true, Bool.false_eq_true, if_false, C17.yieldLoop, hge, List.map_nil, List.append_nil]

/-! ### one key length, all key lengths -/
/-- where `find_xor_key_candidates` leaves the file: at its end, or at 0 when `io.DEFAULT_BUFFER_SIZE` is 0 (every read is empty) -/
def candEnd (B : Nat) (f : PyFile) : PyFile := { f with pos := if B = 0 then 0 else f.data.length }

theorem gen_find_xor_key_candidates_loop1 (B L fuel : Nat) (hL : 0 < L) (f : PyFile) (hf : f.data.length < fuel) (ys : List V) :
    Gen.PyGuardU.find_xor_key_candidates_loop1 (.int (B : Int)) fuel (.int (L : Int)) (encFile f, .list ys)
      = .ok (Ctl.cont, encFile (candEnd B f), .list (ys ++ (C17.candidatesAt B f.data L).map V.bytes)) := by
  have h0 := fileSeek_nat f 0
  have hl := gen_find_xor_key_candidates_loop2 B L hL f.data.length { f with pos := 0 } [] fuel (by simp) (by simp) hf
  obtain ⟨x, hx⟩ := gen_find_xor_key_candidates_loop3 (.int (B : Int)) (C17.mostCommon2 (C17.counterFor B L f.data)) ys 0
  have he : encCounter [] = V.dict [] [] := rfl
  simp only [List.drop_zero, he] at hl
  simp only [Int.natCast_zero] at h0 hx
  simp only [Gen.PyGuardU.find_xor_key_candidates_loop1, h0, PyRt.ok_bind, hl, pure_ok]
  have hc : (List.foldl (fun (c : C17.Counter) chunk => c.update (C17.grouper L chunk)) [] (C17.chunks B f.data)) = C17.counterFor B L f.data := rfl
  simp only [hc, mostCommon_enc, iterList, PyRt.ok_bind, hx, pure_ok, C17.candidatesAt, candEnd]


theorem candEnd_idem (B : Nat) (f : PyFile) : candEnd B (candEnd B f) = candEnd B f := rfl
theorem candEnd_data (B : Nat) (f : PyFile) : (candEnd B f).data = f.data := rfl

theorem gen_find_xor_key_candidates_keylens (B fuel : Nat) (Ls : List Nat) (hLs : ∀ L ∈ Ls, 0 < L) : ∀ (f : PyFile) (ys : List V), f.data.length < fuel →
    forList (Ls.map fun (L : Nat) => V.int (L : Int)) (Gen.PyGuardU.find_xor_key_candidates_loop1 (.int (B : Int)) fuel) (encFile f, .list ys)
      = .ok (encFile (if Ls = [] then f else candEnd B f), .list (ys ++ (Ls.flatMap (C17.candidatesAt B f.data)).map V.bytes)) := by
  induction Ls with
  | nil => intro f ys _; simp [forList]
  | cons L Ls ih =>
    intro f ys hf
    have hL : 0 < L := hLs L (by simp)
    have := ih (fun L' h => hLs L' (by simp [h])) (candEnd B f) (ys ++ (C17.candidatesAt B f.data L).map V.bytes) (by rw [candEnd_data]; exact hf)
    simp only [List.map_cons, forList, gen_find_xor_key_candidates_loop1 B L fuel hL f hf ys, this, candEnd_data, candEnd_idem]
    by_cases hn : Ls = [] <;> simp [hn]

theorem range2_eq : PyU.range2V (.int 2) (.int 257) = .ok (.list ((List.range' 2 255).map fun (L : Nat) => V.int (L : Int))) := by
  decide +kernel

theorem gen_find_xor_key_candidates_proof (B : Nat) (f : PyFile) (fuel : Nat) (hf : f.data.length < fuel) :
    Gen.PyGuardU.find_xor_key_candidates (.int (B : Int)) fuel (encFile f)
      = .ok (encCands (C17.findXorKeyCandidates f.data B) (candEnd B f)) := by
  have hLs : ∀ L ∈ List.range' 2 255, 0 < L := by
    intro L h; simp [List.mem_range'] at h; omega
  have := gen_find_xor_key_candidates_keylens B fuel (List.range' 2 255) hLs f [] hf
  simp only [Gen.PyGuardU.find_xor_key_candidates, range2_eq, PyRt.ok_bind, iterList, this, pure_ok, List.nil_append]
  rfl


/-! ## the marker scan (`iter_guardrail_configs`) -/

/-! ### slices -/
theorem slice_to_nat (d : Bytes) (n : Nat) : PyU.slice (.bytes d) .none (.int (n : Int)) = .ok (.bytes (d.take n)) := by
  have h : ¬ ((n : Int) < 0) := by omega
  simp only [PyU.slice, bound, asInt, PyRt.ok_bind, pure_ok, PyRt.slice, PyRt.Bound.bound, PyRt.clampIdx, h, if_false, id,
    Int.toNat_natCast, List.drop_zero]
  congr 2
  rw [List.take_eq_take_iff]
  omega

theorem slice_from_nat (d : Bytes) (n : Nat) : PyU.slice (.bytes d) (.int (n : Int)) .none = .ok (.bytes (d.drop n)) := by
  have h : ¬ ((n : Int) < 0) := by omega
  simp only [PyU.slice, bound, asInt, PyRt.ok_bind, pure_ok, PyRt.slice, PyRt.Bound.bound, PyRt.clampIdx, h, if_false, id,
    Int.toNat_natCast, List.take_length]
  congr 2
  by_cases hle : n ≤ d.length
  · rw [Nat.min_eq_left hle]
  · rw [Nat.min_eq_right (by omega), List.drop_eq_nil_of_le (by omega), List.drop_eq_nil_of_le (by omega)]

/-! ### one `GuardrailSetting(fh_guard)` -/
theorem parseSetting_cons (a b c e g h : UInt8) (tail : Bytes) :
    C17.parseSetting (a :: b :: c :: e :: g :: h :: tail)
      = if tail.length < g.toNat * 256 + h.toNat then .error .eofError
        else .ok ({ option := a.toNat * 256 + b.toNat, type := c.toNat * 256 + e.toNat, length := g.toNat * 256 + h.toNat,
                    value := tail.take (g.toNat * 256 + h.toNat) }, tail.drop (g.toNat * 256 + h.toNat)) := by
  simp only [C17.parseSetting, C17.readU16, C17.readExact]
  by_cases hlt : tail.length < g.toNat * 256 + h.toNat <;> simp [hlt]

theorem parseSetting_short (d : Bytes) (h : d.length < 6) : C17.parseSetting d = .error .eofError := by
  match d, h with
  | [], _ => rfl
  | [_], _ => rfl
  | [_, _], _ => rfl
  | [_, _, _], _ => rfl
  | [_, _, _, _], _ => rfl
  | [_, _, _, _, _], _ => rfl

theorem structRead_cons (ug : Bytes) (p : Nat) (a b c e g h : UInt8) (tail : Bytes) (hd : ug.drop p = a :: b :: c :: e :: g :: h :: tail) :
    structRead Gen.PyGuardU.GuardrailSetting (.bytesIO ug p)
      = if tail.length < g.toNat * 256 + h.toNat then .error .eofError
        else .ok (encSetting { option := a.toNat * 256 + b.toNat, type := c.toNat * 256 + e.toNat, length := g.toNat * 256 + h.toNat,
                               value := tail.take (g.toNat * 256 + h.toNat) }, .bytesIO ug (p + 6 + (g.toNat * 256 + h.toNat))) := by
  have hlen : ug.length = p + 6 + tail.length := by
    have := congrArg List.length hd
    simp at this
    omega
  simp only [structRead, Gen.PyGuardU.GuardrailSetting, Gen.PyGuardU.GuardrailSettingCls, hd, readFields, Gen.PyGuardU.GuardOption,
    Gen.PyGuardU.SettingsType, List.length_cons]
  simp only [uintOf, beNat, List.find?, asInt, if_true, List.length_drop, List.length_cons, List.take, List.drop, Nat.zero_mul,
    Nat.zero_add, beq_self_eq_true, Option.map_some]
  have h1 : ¬ (tail.length + 1 + 1 + 1 + 1 + 1 + 1 < 2) := by omega
  have h2 : ¬ (tail.length + 1 + 1 + 1 + 1 < 2) := by omega
  have h3 : ¬ (tail.length + 1 + 1 < 2) := by omega
  have hN : (((g.toNat * 256 + h.toNat : Nat) : Int)).toNat = g.toNat * 256 + h.toNat := Int.toNat_natCast _
  simp only [h1, h2, h3, if_false, hN]
  by_cases hlt : tail.length < g.toNat * 256 + h.toNat
  · simp only [hlt, if_true]
  · simp only [hlt, if_false, encSetting, List.length_drop]
    have hp : ug.length - (tail.length - (g.toNat * 256 + h.toNat)) = p + 6 + (g.toNat * 256 + h.toNat) := by omega
    rw [hp]
    rfl


theorem structRead_short (ug : Bytes) (p : Nat) (h : (ug.drop p).length < 6) :
    structRead Gen.PyGuardU.GuardrailSetting (.bytesIO ug p) = .error .eofError := by
  simp only [structRead, Gen.PyGuardU.GuardrailSetting, Gen.PyGuardU.GuardrailSettingCls]
  generalize ug.drop p = d at h
  match d, h with
  | [], _ => rfl
  | [_], _ => rfl
  | [_, _], _ => rfl
  | [_, _, _], _ => rfl
  | [_, _, _, _], _ => rfl
  | [_, _, _, _, _], _ => rfl

theorem settingsPure_step (d : Bytes) (ss : List C17.Setting) (ck : Nat) :
    C17.settingsPure d ss ck =
      if d.take 2 = [0, 0] then (ss, ck)
      else match C17.parseSetting d with
        | .error _ => (ss, ck)
        | .ok (s, rest) => C17.settingsPure rest (ss ++ [s])
            (if s.option = Gen.Guardrails.GUARD_PAYLOAD_CHECKSUM then C17.u32be s.value else ck) := by
  rw [C17.settingsPure]
  split
  · rfl
  · split <;> rename_i he <;> simp only [he]

theorem member_checksum : enumMember Gen.PyGuardU.GuardOption "GUARD_PAYLOAD_CHECKSUM"
    = .ok (.enum Gen.PyGuardU.GuardOption (Gen.Guardrails.GUARD_PAYLOAD_CHECKSUM : Nat)) := by decide +kernel

theorem u32be_enc (v : Bytes) : Gen.PyGuardU.u32be (.bytes v) = .ok (.int (C17.u32be v : Nat)) := by
  simp only [Gen.PyGuardU.u32be, liftBytesInt, C20Gen.gen_u32be, Except.map, C20.unpack, C17.u32be, C20.fromBytes, pySliceTo]
  simp

section sattrs
variable (a b c d : V)
theorem getAttr_set_option : getAttr (.inst Gen.PyGuardU.GuardrailSettingCls [a, b, c, d]) "option" = .ok a := by
  simp [getAttr, lookupField, Gen.PyGuardU.GuardrailSettingCls]
theorem getAttr_set_value : getAttr (.inst Gen.PyGuardU.GuardrailSettingCls [a, b, c, d]) "value" = .ok d := by
  simp [getAttr, lookupField, Gen.PyGuardU.GuardrailSettingCls]
end sattrs

theorem getAttr_enum_name (c : EnumCls) (v : Int) : ∃ x, getAttr (.enum c v) "name" = .ok x := by
  simp only [getAttr]
  exact ⟨_, rfl⟩

theorem eq_enum_same (c : EnumCls) (a b : Nat) : PyU.eq (.enum c (a : Int)) (.enum c (b : Int)) = decide (a = b) := by
  simp only [PyU.eq, beq_self_eq_true, Bool.true_and]
  by_cases h : a = b
  · subst h; simp
  · have : ¬ ((a : Int) = (b : Int)) := by omega
    simp [h, this]

theorem eq_bytes (a b : Bytes) : PyU.eq (.bytes a) (.bytes b) = (a == b) := rfl


theorem peek_nat (ug : Bytes) (p : Nat) : PyU.peek (.bytesIO ug p) (.int 2) = .ok (.bytes (ug.drop p)) := rfl

theorem attempt_ok {α : Type} (l : List PyExc) (a : α) : attempt l (.ok a : Py α) = .ok (some a) := rfl
theorem attempt_eof {α : Type} : attempt [PyExc.eofError] (.error .eofError : Py α) = .ok none := rfl

theorem drop6 {α : Type} (a b c e g h : α) (tail : List α) (N : Nat) :
    (a :: b :: c :: e :: g :: h :: tail).drop (6 + N) = tail.drop N := by
  rw [Nat.add_comm]; rfl

theorem slice_to2 (d : Bytes) : PyU.slice (.bytes d) .none (.int 2) = .ok (.bytes (d.take 2)) := slice_to_nat d 2

/-- the guard settings loop -/
theorem gen_iter_guardrail_configs_loop2 (ug : Bytes) : ∀ (fuel p : Nat) (ss : List C17.Setting) (ck : Nat), ug.length - p < 6 * fuel →
    ∃ x, whileFuel fuel Gen.PyGuardU.iter_guardrail_configs_loop2 (.bytesIO ug p, .int (ck : Int), .list (ss.map encSetting))
      = .ok (x, .int ((C17.settingsPure (ug.drop p) ss ck).2 : Int), .list ((C17.settingsPure (ug.drop p) ss ck).1.map encSetting)) := by
  intro fuel
  induction fuel with
  | zero => intro p ss ck h; omega
  | succ fu ih =>
    intro p ss ck hf
    by_cases hz : (ug.drop p).take 2 = [0, 0]
    · refine ⟨.bytesIO ug p, ?_⟩
      have hstep : C17.settingsPure (ug.drop p) ss ck = (ss, ck) := by rw [settingsPure_step, if_pos hz]
      have hb : ((ug.drop p).take 2 == [0, 0]) = true := by simp [hz]
      simp only [hstep, whileFuel, Gen.PyGuardU.iter_guardrail_configs_loop2, peek_nat, PyRt.ok_bind, slice_to2, eq_bytes, hb, if_true,
        pure_ok]
    · have hb : ((ug.drop p).take 2 == [0, 0]) = false := by simp [hz]
      by_cases hs : (ug.drop p).length < 6
      · refine ⟨.bytesIO ug p, ?_⟩
        have hstep : C17.settingsPure (ug.drop p) ss ck = (ss, ck) := by rw [settingsPure_step, if_neg hz, parseSetting_short _ hs]
        simp only [hstep, whileFuel, Gen.PyGuardU.iter_guardrail_configs_loop2, peek_nat, PyRt.ok_bind, slice_to2, eq_bytes, hb,
          Bool.false_eq_true, if_false, structRead_short ug p hs, attempt_eof, pure_ok]
      · obtain ⟨a, b, c, e, g, h, tail, hd⟩ : ∃ a b c e g h tail, ug.drop p = a :: b :: c :: e :: g :: h :: tail := by
          match hdd : ug.drop p, hs with
          | a :: b :: c :: e :: g :: h :: tail, _ => exact ⟨a, b, c, e, g, h, tail, rfl⟩
          | [], h0 => simp at h0
          | [_], h0 => simp at h0
          | [_, _], h0 => simp at h0
          | [_, _, _], h0 => simp at h0
          | [_, _, _, _], h0 => simp at h0
          | [_, _, _, _, _], h0 => simp at h0
        have hlen : ug.length = p + 6 + tail.length := by
          have := congrArg List.length hd
          simp at this
          omega
        by_cases hlt : tail.length < g.toNat * 256 + h.toNat
        · refine ⟨.bytesIO ug p, ?_⟩
          have hstep : C17.settingsPure (ug.drop p) ss ck = (ss, ck) := by
            rw [settingsPure_step, if_neg hz, hd, parseSetting_cons, if_pos hlt]
          simp only [hstep, whileFuel, Gen.PyGuardU.iter_guardrail_configs_loop2, peek_nat, PyRt.ok_bind, slice_to2, eq_bytes, hb,
            Bool.false_eq_true, if_false, structRead_cons ug p a b c e g h tail hd, hlt, if_true, attempt_eof, pure_ok]
        · have hdrop : ug.drop (p + 6 + (g.toNat * 256 + h.toNat)) = tail.drop (g.toNat * 256 + h.toNat) := by
            have : ug.drop (p + 6 + (g.toNat * 256 + h.toNat)) = (ug.drop p).drop (6 + (g.toNat * 256 + h.toNat)) := by
              rw [List.drop_drop]; congr 1; omega
            rw [this, hd, drop6]
          have hstep : C17.settingsPure (ug.drop p) ss ck
              = C17.settingsPure (tail.drop (g.toNat * 256 + h.toNat))
                  (ss ++ [⟨a.toNat * 256 + b.toNat, c.toNat * 256 + e.toNat, g.toNat * 256 + h.toNat, tail.take (g.toNat * 256 + h.toNat)⟩])
                  (if a.toNat * 256 + b.toNat = Gen.Guardrails.GUARD_PAYLOAD_CHECKSUM then C17.u32be (tail.take (g.toNat * 256 + h.toNat)) else ck) := by
            rw [settingsPure_step, if_neg hz, hd, parseSetting_cons, if_neg hlt]
          obtain ⟨x, hx⟩ := ih (p + 6 + (g.toNat * 256 + h.toNat))
            (ss ++ [⟨a.toNat * 256 + b.toNat, c.toNat * 256 + e.toNat, g.toNat * 256 + h.toNat, tail.take (g.toNat * 256 + h.toNat)⟩])
            (if a.toNat * 256 + b.toNat = Gen.Guardrails.GUARD_PAYLOAD_CHECKSUM then C17.u32be (tail.take (g.toNat * 256 + h.toNat)) else ck) (by omega)
          obtain ⟨nm, hnm⟩ := getAttr_enum_name Gen.PyGuardU.GuardOption ((a.toNat * 256 + b.toNat : Nat) : Int)
          refine ⟨x, ?_⟩
          rw [hdrop] at hx
          simp only [List.map_append, List.map_cons, List.map_nil, encSetting] at hx
          simp only [hstep, whileFuel, Gen.PyGuardU.iter_guardrail_configs_loop2, peek_nat, PyRt.ok_bind, slice_to2, eq_bytes, hb,
            Bool.false_eq_true, if_false, structRead_cons ug p a b c e g h tail hd, hlt, attempt_ok, pure_ok, PyU.append, encSetting,
            getAttr_set_option, member_checksum, eq_enum_same, getAttr_set_value, u32be_enc, hnm]
          by_cases ho : a.toNat * 256 + b.toNat = Gen.Guardrails.GUARD_PAYLOAD_CHECKSUM
          · simp only [ho, decide_true, if_true, PyRt.ok_bind] at hx hnm ⊢
            exact hx
          · simp only [ho, decide_false, Bool.false_eq_true, if_false] at hx ⊢
            exact hx


/-! ### pieces of one run of the scan loop -/
theorem iadd_int (a b : Int) : PyU.iadd (.int a) (.int b) = .ok (.int (a + b)) := rfl
theorem sub_int (a b : Int) : PyU.sub (.int a) (.int b) = .ok (.int (a - b)) := rfl
theorem mul_int (a b : Int) : PyU.mul (.int a) (.int b) = .ok (.int (a * b)) := rfl
theorem lt_int (a b : Int) : PyU.lt (.int a) (.int b) = .ok (decide (a < b)) := rfl
theorem truthy_bytes (b : Bytes) : truthy (.bytes b) = !b.isEmpty := rfl
theorem len_bytes (b : Bytes) : PyU.len (.bytes b) = .ok (.int (b.length : Int)) := rfl
theorem gen_iter_guardrail_configs_comp1 (key : Bytes) (l : List Bytes) (acc : List V) :
    forList (l.map V.bytes) (Gen.PyGuardU.iter_guardrail_configs_comp1 (.bytes key)) (.list acc)
      = .ok (.list (acc ++ (l.map (C20.xor · key)).map V.bytes)) := by
  induction l generalizing acc with
  | nil => simp [forList]
  | cons x l ih =>
    simp only [List.map_cons, forList, Gen.PyGuardU.iter_guardrail_configs_comp1, xor_enc, PyRt.ok_bind, PyU.append, pure_ok, ih]
    simp

theorem contains_bytes (l : List Bytes) (x : Bytes) :
    PyU.contains (.list (l.map V.bytes)) (.bytes x) = .ok (decide (x ∈ l)) := by
  simp only [PyU.contains]
  congr 1
  induction l with
  | nil => simp
  | cons y l ih =>
    simp only [List.map_cons, List.any_cons, ih, eq_bytes, List.mem_cons]
    by_cases h : x = y <;> simp [h]

theorem masked_first (key : Bytes) :
    ∃ s0 rest, C17.maskedStarts key = s0 :: rest ∧ s0.length = 6 := by
  cases hm : C17.maskedStarts key with
  | nil => simp [C17.maskedStarts, Gen.Guardrails.GUARD_CONFIG_STARTS] at hm
  | cons s0 rest =>
    refine ⟨s0, rest, rfl, ?_⟩
    have : s0 ∈ C17.maskedStarts key := by rw [hm]; simp
    simp only [C17.maskedStarts, List.mem_map] at this
    obtain ⟨s, hs, rfl⟩ := this
    rw [C17.xor_length_model]; exact C17.starts_length_model s hs


theorem slice_to6 (d : Bytes) : PyU.slice (.bytes d) .none (.int 6) = .ok (.bytes (d.take 6)) := slice_to_nat d 6
theorem slice_from6 (d : Bytes) : PyU.slice (.bytes d) (.int 6) .none = .ok (.bytes (d.drop 6)) := slice_from_nat d 6
theorem sliceRev_bytes (d : Bytes) : sliceRev (.bytes d) = .ok (.bytes d.reverse) := rfl

theorem newBytesIO_bytes (b : Bytes) : newBytesIO (.bytes b) = .ok (.bytesIO b 0) := rfl
theorem newBufReader_ok (d : Bytes) (h : d.length - 0 ≤ readerBufferSize) : newBufReader (.bytesIO d 0) = .ok (.bytesIO d 0) := by
  simp only [newBufReader, h, if_true]

set_option maxRecDepth 4096 in
open Gen.Guardrails in
/-- one run of the body of the scan loop at an offset inside the file -/
theorem gen_iter_guardrail_configs_loop1 (key : Bytes) (fuel : Nat) (hfuel : settingsFuel ≤ fuel) (g : PyFile) (o : Nat) (ho : o < g.data.length) (ys : List V) :
    ∃ g' : PyFile, g'.data = g.data ∧ g'.kind = g.kind ∧
      Gen.PyGuardU.iter_guardrail_configs_loop1 fuel (.bytes key) (.list ((C17.maskedStarts key).map V.bytes)) (.int 6)
          (encFile g, .list ys, .int (o : Int))
        = .ok (Ctl.cont, encFile g', .list (ys ++ (C17.probeAt g.data (C17.maskedStarts key) 6 key o).toList.map encMeta), .int ((o + 1 : Nat) : Int)) := by
  have hblock : ((g.data.drop o).take 12).isEmpty = false := by
    cases hx : (g.data.drop o).take 12 with
    | nil => have := congrArg List.length hx; simp at this; omega
    | cons _ _ => rfl
  have hmul : PyU.mul (.int 6) (.int 2) = .ok (.int ((12 : Nat) : Int)) := rfl
  have hcast : ((o : Int) + 1) = ((o + 1 : Nat) : Int) := by omega
  by_cases hm : C17.markerAt g.data (C17.maskedStarts key) 6 o
  · have hm' : C20.xor (((g.data.drop o).take 12).take 6).reverse (((g.data.drop o).take 12).drop 6) ∈ C17.maskedStarts key := hm
    by_cases hlt : o + 6 < BEACON_CONFIG_PATCH_SIZE
    · -- a marker too close to the start: skipped
      refine ⟨{ g with pos := o + ((g.data.drop o).take 12).length }, rfl, rfl, ?_⟩
      have hp : C17.probeAt g.data (C17.maskedStarts key) 6 key o = none := by
        unfold C17.probeAt; rw [if_neg]; intro h; omega
      have hl : decide ((o : Int) + 6 - ((BEACON_CONFIG_PATCH_SIZE : Nat) : Int) < 0) = true := by simp; omega
      simp only [Gen.PyGuardU.iter_guardrail_configs_loop1, fileSeek_nat, PyRt.ok_bind, hmul, fileRead_nat, truthy_bytes, hblock,
        Bool.not_false, Bool.not_true, Bool.false_eq_true, if_false, slice_to6, slice_from6, unpack2, iterList, sliceRev_bytes, xor_enc,
        contains_bytes, hm', decide_true, if_true, add_int, sub_int, lt_int, hl, iadd_int, pure_ok, hp, Option.toList, List.map_nil,
        List.append_nil, hcast]
    · -- a marker with a 6144-byte area in front: a record
      have hge : BEACON_CONFIG_PATCH_SIZE ≤ o + 6 := by omega
      let bco := o + 6 - BEACON_CONFIG_PATCH_SIZE
      have hbco : ((o : Int) + 6 - ((BEACON_CONFIG_PATCH_SIZE : Nat) : Int)) = ((o + 6 - BEACON_CONFIG_PATCH_SIZE : Nat) : Int) := by omega
      have hgco : ((o : Int) + 6) = ((o + 6 : Nat) : Int) := by omega
      have hl : decide ((((o + 6 - BEACON_CONFIG_PATCH_SIZE : Nat) : Int)) < 0) = false := by simp
      have hp : C17.probeAt g.data (C17.maskedStarts key) 6 key o
          = some (C17.metaAt g.data key (o + 6) (o + 6 - BEACON_CONFIG_PATCH_SIZE)) := by
        unfold C17.probeAt; rw [if_pos ⟨hm, hge⟩]
      -- the two areas and the unmasked guard configuration
      let mb := (g.data.drop (o + 6 - BEACON_CONFIG_PATCH_SIZE)).take BEACON_CONFIG_PATCH_SIZE
      let mg := (g.data.drop (o + 6 - BEACON_CONFIG_PATCH_SIZE + mb.length)).take GUARD_PATCH_SIZE
      let ug := C20.xor (C20.xor mg mb.reverse) key
      have hug : ug.length ≤ GUARD_PATCH_SIZE := by
        simp only [ug, mg, C17.xor_length_model, List.length_take]; omega
      have hrd : ug.length - 0 ≤ readerBufferSize := by
        have : GUARD_PATCH_SIZE ≤ readerBufferSize := by unfold GUARD_PATCH_SIZE readerBufferSize; omega
        omega
      have hfu : ug.length - 0 < 6 * fuel := by
        have : GUARD_PATCH_SIZE < 6 * settingsFuel := by unfold settingsFuel GUARD_PATCH_SIZE; omega
        omega
      obtain ⟨x, hx⟩ := gen_iter_guardrail_configs_loop2 ug fuel 0 [] 0 hfu
      simp only [List.drop_zero, List.map_nil, Int.natCast_zero] at hx
      simp only [ug, mg, mb] at hx hrd
      refine ⟨{ g with pos := o + 6 - BEACON_CONFIG_PATCH_SIZE + mb.length + mg.length }, rfl, rfl, ?_⟩
      simp only [Gen.PyGuardU.iter_guardrail_configs_loop1, fileSeek_nat, PyRt.ok_bind, hmul, fileRead_nat, truthy_bytes, hblock,
        Bool.not_false, Bool.not_true, Bool.false_eq_true, if_false, slice_to6, slice_from6, unpack2, iterList, sliceRev_bytes, xor_enc,
        contains_bytes, hm', decide_true, if_true, add_int, sub_int, hbco, lt_int, hl, iadd_int, pure_ok, hp, Option.toList,
        newBytesIO_bytes, newBufReader_ok _ hrd, hx, yieldTo, hcast]
      have hk : (V.bytes [46]) = V.bytes metaBeaconXorKey := rfl
      simp only [hgco, hk, List.map_cons, List.map_nil, encMeta, C17.metaAt, encOptBytes, mb, mg]
  · -- no marker at this offset
    refine ⟨{ g with pos := o + ((g.data.drop o).take 12).length }, rfl, rfl, ?_⟩
    have hm' : ¬ C20.xor (((g.data.drop o).take 12).take 6).reverse (((g.data.drop o).take 12).drop 6) ∈ C17.maskedStarts key := hm
    have hp : C17.probeAt g.data (C17.maskedStarts key) 6 key o = none := by
      unfold C17.probeAt; rw [if_neg]; intro h; exact hm h.1
    simp only [Gen.PyGuardU.iter_guardrail_configs_loop1, fileSeek_nat, PyRt.ok_bind, hmul, fileRead_nat, truthy_bytes, hblock,
      Bool.not_false, Bool.not_true, Bool.false_eq_true, if_false, slice_to6, slice_from6, unpack2, iterList, sliceRev_bytes, xor_enc,
      contains_bytes, hm', decide_false, iadd_int, pure_ok, hp, Option.toList, List.map_nil, List.append_nil, hcast]


theorem gen_iter_guardrail_configs_loop1_end (key : Bytes) (fuel : Nat) (g : PyFile) (ys : List V) :
    Gen.PyGuardU.iter_guardrail_configs_loop1 fuel (.bytes key) (.list ((C17.maskedStarts key).map V.bytes)) (.int 6)
        (encFile g, .list ys, .int (g.data.length : Int))
      = .ok (Ctl.brk, encFile { g with pos := g.data.length }, .list ys, .int (g.data.length : Int)) := by
  have hmul : PyU.mul (.int 6) (.int 2) = .ok (.int ((12 : Nat) : Int)) := rfl
  have hd : (g.data.drop g.data.length).take 12 = [] := by simp
  simp only [Gen.PyGuardU.iter_guardrail_configs_loop1, fileSeek_nat, PyRt.ok_bind, hmul, fileRead_nat, hd, truthy_bytes,
    List.isEmpty_nil, Bool.not_true, Bool.not_false, if_true, pure_ok, List.length_nil, Nat.add_zero]

/-- the scan loop -/
theorem gen_iter_guardrail_configs_scan (key : Bytes) (fuel0 : Nat) (hfuel0 : settingsFuel ≤ fuel0) (data : Bytes) :
    ∀ (n : Nat) (g : PyFile) (o : Nat) (ys : List V) (fuel : Nat), g.data = data → data.length - o = n → o ≤ data.length → n < fuel →
    ∃ x, whileFuel fuel (Gen.PyGuardU.iter_guardrail_configs_loop1 fuel0 (.bytes key) (.list ((C17.maskedStarts key).map V.bytes)) (.int 6))
        (encFile g, .list ys, .int (o : Int))
      = .ok (encFile { g with pos := data.length },
             .list (ys ++ ((List.range' o n).filterMap (C17.probeAt data (C17.maskedStarts key) 6 key)).map encMeta), x) := by
  intro n
  induction n with
  | zero =>
    intro g o ys fuel hg hn ho hf
    obtain ⟨fu, rfl⟩ : ∃ fu, fuel = fu + 1 := ⟨fuel - 1, by omega⟩
    subst hg
    have ho' : o = g.data.length := by omega
    subst ho'
    refine ⟨.int (g.data.length : Int), ?_⟩
    simp only [whileFuel, gen_iter_guardrail_configs_loop1_end]
    simp
  | succ n ih =>
    intro g o ys fuel hg hn ho hf
    obtain ⟨fu, rfl⟩ : ∃ fu, fuel = fu + 1 := ⟨fuel - 1, by omega⟩
    obtain ⟨g', hd', hk', hb⟩ := gen_iter_guardrail_configs_loop1 key fuel0 hfuel0 g o (by rw [hg]; omega) ys
    obtain ⟨x, hx⟩ := ih g' (o + 1) (ys ++ (C17.probeAt g.data (C17.maskedStarts key) 6 key o).toList.map encMeta) fu
      (by rw [hd', hg]) (by omega) (by omega) (by omega)
    refine ⟨x, ?_⟩
    simp only [whileFuel, hb, hx]
    have hr : List.range' o (n + 1) = o :: List.range' (o + 1) n := by simp [List.range']
    have hfile : ({ g' with pos := data.length } : PyFile) = { g with pos := data.length } := by
      cases g; cases g'; simp_all
    rw [hr, List.filterMap_cons, hfile, hg]
    cases C17.probeAt data (C17.maskedStarts key) 6 key o <;> simp


theorem getItem_list_zero (x : V) (xs : List V) : getItem (.list (x :: xs)) (.int 0) = .ok x := by
  simp [getItem, asInt, PyRt.normIdx, Except.map]

theorem gen_iter_guardrail_configs_proof (f : PyFile) (key : Bytes) (fuel : Nat) (hf : f.data.length + settingsFuel + 2 ≤ fuel) :
    Gen.PyGuardU.iter_guardrail_configs fuel (encFile f) (.bytes key)
      = (C17.iterGuardrailConfigs f key).map (fun ms => encMetas ms (atEnd f)) := by
  obtain ⟨s0, rest, hms, h6⟩ := masked_first key
  obtain ⟨x, hx⟩ := gen_iter_guardrail_configs_scan key fuel (by omega) f.data f.data.length f 0 [] fuel rfl (by omega) (by omega) (by omega)
  have hst := gen_iter_guardrail_configs_comp1 key Gen.Guardrails.GUARD_CONFIG_STARTS []
  have hm : (Gen.Guardrails.GUARD_CONFIG_STARTS.map (C20.xor · key)) = C17.maskedStarts key := rfl
  rw [List.nil_append, hm] at hst
  have h6' : PyU.len (.bytes s0) = .ok (.int 6) := by rw [len_bytes, h6]; rfl
  rw [C17.iterGuardrailConfigs_eq_probe]
  simp only [Gen.PyGuardU.iter_guardrail_configs, iterList, PyRt.ok_bind, hst, pure_ok]
  rw [hms] at hx ⊢
  simp only [List.map_cons, getItem_list_zero, PyRt.ok_bind, h6', pure_ok]
  simp only [List.map_cons, Int.natCast_zero] at hx
  simp only [hx, PyRt.ok_bind, pure_ok, Except.map, encMetas, atEnd, List.nil_append, List.range_eq_range']

end C17Gen

import CsVerif.Model.Basic
import CsVerif.Gen.Grammar
import CsVerif.Gen.ProfileApi
import CsVerif.Model.C10
import CsVerif.Model.C12
/-
C11 — the dictionary view reports exactly what the profile says
  dissect/cobaltstrike/c2profile.py   C2Profile.as_dict / properties (724-795), ConfigBlock and the block-builder
                                      classes (113-400), C2Profile.set_option, string_token_to_bytes (42-83, model: C12)

What is modelled
* `Item'`, `step`, `run`, `asDict`   the token walk of `as_dict` over the items yielded by
      `Reconstructor(c2profile_parser)._reconstruct(self.tree)`: an item is a plain Python `str` (keyword or
      punctuation, printed by the Reconstructor for filtered-out terminals) or a `Token` (named terminal, type STRING
      or another one).  Every raising primitive is a branch: `line[-1]` / `stack.pop()` / `line.pop()` on an empty
      list (`IndexError`), `x.type` on a plain `str` (`AttributeError`), `string_token_to_bytes` (`ValueError`).
* `printItems`   the items of a tree: `C10.printTree` (the Reconstructor model) with token types resolved;
* `Stms`, `stmsOfKids`, `specStms`, `specDict`, `group`   the declarative reading of a profile tree: statements and
      blocks found by structural recursion over the C10 tree (keywords looked up in the grammar table by tree label
      and number of children), paths from block keywords and variants, one entry per statement;
* `Calls`, `BlockV`, `build`, `buildProfile`   the block-builder API as a call language, dispatched through the
      GENERATED attribute tables (`ProfileApi.classes`) exactly as `ConfigBlock.init_kwargs` does;
* `derive`       a tree → derivation checker ("this tree is the tree of a sentence of the grammar");
* `PState`, `asDictCached`, `runHist`   the cache of `as_dict` keyed by `hash(self.tree)` with an abstract hash.

Text is a list of Unicode code points (`C10.Text`).  Python facts used: `Token` is a `str` subclass that compares and
hashes as its text; `x in "{};"` on strings is a SUBSTRING test (true for "", "{", "}", ";", "{}", "};", "{};").
-/
namespace C11
open Grammar (Item Form)
open C10 (Table Tok Forest Tree Parts Deriv Text)

/-! ### items, values, dictionary -/

/-- One item yielded by `Reconstructor._reconstruct`: a plain `str`, or a `Token` (`isStr` = its type is "STRING"). -/
inductive Item' where
  | plain (s : Text)
  | token (isStr : Bool) (s : Text)
  deriving DecidableEq, Repr, Inhabited

def Item'.text : Item' → Text
  | .plain s => s
  | .token _ s => s

/-- `isinstance(x, Token)` -/
def Item'.isToken : Item' → Bool
  | .plain _ => false
  | .token _ _ => true

/-- a component of a dictionary value -/
inductive Atom where
  /-- a Python `str`: a keyword, or the text of a STRING token without its quotes -/
  | str (s : Text)
  /-- a `Token` that is not of type STRING, kept as it is -/
  | tok (s : Text)
  /-- `bytes` decoded by `string_token_to_bytes` -/
  | bytes (b : Bytes)
  deriving DecidableEq, Repr

inductive Value where
  | atom (a : Atom)
  | tuple (as : List Atom)
  deriving DecidableEq, Repr

/-- `dict` in insertion order: key → list of values -/
abbrev Dict := List (Text × List Value)

/-- `properties[key].append(value)` on a `defaultdict(list)` -/
def Dict.add : Dict → Text → Value → Dict
  | [], k, v => [(k, [v])]
  | (k', vs) :: r, k, v => if k' = k then (k', vs ++ [v]) :: r else (k', vs) :: Dict.add r k v

/-- `"set"` -/
def setKw : Text := [115, 101, 116]
/-- `'"default"'` -/
def dqDefault : Text := [34, 100, 101, 102, 97, 117, 108, 116, 34]
/-- `"STRING"` -/
def stringName : Text := [83, 84, 82, 73, 78, 71]

/-- `".".join(xs)` -/
def joinDot : List Text → Text
  | [] => []
  | [x] => x
  | x :: y :: r => x ++ 46 :: joinDot (y :: r)

/-- `xs.pop()`: last element and the remaining list -/
def pop (xs : List α) : Py (α × List α) :=
  match xs.getLast? with
  | none => .error .indexError
  | some x => .ok (x, xs.dropLast)

/-- `str(x)[1:-1]` -/
def strip (s : Text) : Text := pySliceTo (pySliceFrom s 1) (some (-1))

/-- list comprehension / generator with a raising body: the first exception wins -/
def mapPy (f : α → Py β) : List α → Py (List β)
  | [] => .ok []
  | x :: xs =>
    match f x with
    | .error e => .error e
    | .ok y =>
      match mapPy f xs with
      | .error e => .error e
      | .ok ys => .ok (y :: ys)

/-- `string_token_to_bytes(x)` inside a list property: STRING tokens are decoded, everything else is kept -/
def listAtom : Item' → Py Atom
  | .plain s => .ok (.str s)
  | .token true s =>
    match C12.stringTokenToBytesCP s with
    | .ok b => .ok (.bytes b)
    | .error e => .error e
  | .token false s => .ok (.tok s)

/-- body of `for x in line[-2:]`: `x.type` raises AttributeError on a plain `str` -/
def pairAtom : Item' → Py Atom
  | .plain _ => .error .attributeError
  | .token true s => .ok (.str (strip s))
  | .token false s => .ok (.tok s)

/-- `value = line.pop()` followed by `if isinstance(value, Token) and value.type == "STRING": value = str(value)[1:-1]` -/
def lastAtom : Item' → Atom
  | .plain s => .str s
  | .token true s => .str (strip s)
  | .token false s => .tok s

/-- The `elif item == ";"` branch after `line.pop()`: key and value appended to `properties`.
`path` = the texts of `stack` (only `".".join` looks at it). -/
def semiCase (lp : List Text) (path : List Text) (line : List Item') : Py (Text × Value) :=
  if lp.contains (joinDot path) then
    match mapPy listAtom line with
    | .error e => .error e
    | .ok [a] => .ok (joinDot path, .atom a)          -- `len(value) == 1`; `line = []`, key = join(stack)
    | .ok as => .ok (joinDot path, .tuple as)
  else if line.length > 2 then
    match mapPy pairAtom (line.drop (line.length - 2)) with            -- `line[-2:]`
    | .error e => .error e
    | .ok as => .ok (joinDot (path ++ (line.take (line.length - 2)).map Item'.text), .tuple as)   -- `line[:-2]`
  else
    match pop line with
    | .error e => .error e
    | .ok (x, line') => .ok (joinDot (path ++ line'.map Item'.text), .atom (lastAtom x))

/-- state of the walk -/
structure St where
  line : List Item'
  stack : List Item'
  props : Dict
  deriving DecidableEq, Repr

/-- one iteration of `for item in items:` -/
def step (lp : List Text) (st : St) (item : Item') : Py St :=
  if item.text = setKw then .ok st                                  -- `if item == "set": continue`
  else
    let line := st.line ++ [item]
    if C10.isFlush item.text then                                   -- `if item in "{};":` (substring test)
      if item.text = C10.lbrace then
        match pop line with                                         -- pop '{'
        | .error e => .error e
        | .ok (_, line) =>
          match line.getLast? with                                  -- `x = line[-1]`
          | none => .error .indexError
          | some x =>
            let line := if x.isToken && x.text == dqDefault then line.dropLast else line
            .ok ⟨[], st.stack ++ line, st.props⟩
      else if item.text = C10.rbrace then
        match pop st.stack with
        | .error e => .error e
        | .ok (x, stack) =>
          if x.isToken then
            match pop stack with                                    -- pop variant token: one more
            | .error e => .error e
            | .ok (_, stack) => .ok ⟨[], stack, st.props⟩
          else .ok ⟨[], stack, st.props⟩
      else if item.text = C10.semi then
        match pop line with                                         -- pop ';'
        | .error e => .error e
        | .ok (_, line) =>
          match semiCase lp (st.stack.map Item'.text) line with
          | .error e => .error e
          | .ok (k, v) => .ok ⟨[], st.stack, st.props.add k v⟩
      else .ok ⟨[], st.stack, st.props⟩                              -- "", "{}", "};", "{};": only `line = []`
    else .ok ⟨line, st.stack, st.props⟩

def run (lp : List Text) : St → List Item' → Py St
  | st, [] => .ok st
  | st, i :: is =>
    match step lp st i with
    | .error e => .error e
    | .ok st' => run lp st' is

/-- `as_dict` on the item stream (cache aside) -/
def asDict (lp : List Text) (items : List Item') : Py Dict :=
  match run lp ⟨[], [], []⟩ items with
  | .error e => .error e
  | .ok st => .ok st.props

/-! ### items of a tree -/

/-- position of a name in the table of interned names (`names.length` when absent) -/
def nameId (G : Table) (nm : Text) : Nat := G.names.idxOf nm

/-- is terminal `t` the one called "STRING"?  (`x.type == "STRING"`) -/
def isStrTerm (G : Table) (t : Nat) : Bool := G.names[t]? == some stringName

def itemOfTok (G : Table) : Tok → Item'
  | .kw k => .plain (G.keywords.getD k [])
  | .named t s => .token (isStrTerm G t) s

/-- `Reconstructor(c2profile_parser)._reconstruct(tree)`; `none` = Lark cannot match the tree -/
def printItems (G : Table) (t : Tree) : Option (List Item') :=
  (C10.printTree G t).map fun ts => ts.map (itemOfTok G)

/-! ### declarative reading of a tree -/

/-- statements of a block, first-child / next-sibling form -/
inductive Stms where
  | nil
  /-- a statement: the items before its `;` -/
  | stmt (its : List Item') (rest : Stms)
  /-- `kw variant? { body }` -/
  | block (kw : Text) (variant : Option Item') (body : Stms) (rest : Stms)
  deriving DecidableEq, Repr

def Stms.append : Stms → Stms → Stms
  | .nil, b => b
  | .stmt i r, b => .stmt i (r.append b)
  | .block k v bd r, b => .block k v bd (r.append b)

/-- the items a block contributes to the enclosing path: keyword and variant; the variant `"default"` is dropped -/
def header (kw : Text) (v : Option Item') : List Item' :=
  .plain kw :: (match v with
    | some x => if x.text == dqDefault then [] else [x]
    | none => [])

/-- the item stream of a statement list -/
def Stms.flatten : Stms → List Item'
  | .nil => []
  | .stmt its r => its ++ .plain C10.semi :: r.flatten
  | .block kw v b r =>
    .plain kw :: (v.toList ++ .plain C10.lbrace :: (b.flatten ++ .plain C10.rbrace :: r.flatten))

def notSet (i : Item') : Bool := i.text != setKw

/-- no item can be mistaken for punctuation or dropped as `set` by accident -/
def plainOK (i : Item') : Bool := !C10.isFlush i.text

def Stms.OK : Stms → Bool
  | .nil => true
  | .stmt its r => its.all plainOK && r.OK
  | .block kw v b r =>
    !C10.isFlush kw && kw != setKw &&
      (match v with
        | some x => x.isToken && !C10.isFlush x.text && x.text != setKw
        | none => true) && b.OK && r.OK

/-- What one statement contributes, given the path of the enclosing blocks and its words (`set` removed):
* inside a list property (`path` ∈ `list_props`): one value under the block's own key — the bare word, or the tuple
  of the words with STRING tokens decoded to bytes;
* otherwise the last word is the value (a STRING token without its quotes) and the words before it extend the key;
  with more than two words the last two form a pair — both must be tokens. -/
def specStmt (lp : List Text) (path : List Text) (line : List Item') : Py (Text × Value) :=
  if lp.contains (joinDot path) then
    match mapPy listAtom line with
    | .error e => .error e
    | .ok [a] => .ok (joinDot path, .atom a)
    | .ok as => .ok (joinDot path, .tuple as)
  else
    match line.reverse with
    | [] => .error .indexError
    | [x] => .ok (joinDot path, .atom (lastAtom x))
    | [x, k] => .ok (joinDot (path ++ [k.text]), .atom (lastAtom x))
    | b :: a :: pre =>
      match pairAtom a with
      | .error e => .error e
      | .ok x =>
        match pairAtom b with
        | .error e => .error e
        | .ok y => .ok (joinDot (path ++ pre.reverse.map Item'.text), .tuple [x, y])

/-- entries in source order; the first raising statement decides the exception -/
def specStms (lp : List Text) : List Text → Stms → Py (List (Text × Value))
  | _, .nil => .ok []
  | p, .stmt its r =>
    match specStmt lp p (its.filter notSet) with
    | .error e => .error e
    | .ok en =>
      match specStms lp p r with
      | .error e => .error e
      | .ok es => .ok (en :: es)
  | p, .block kw v b r =>
    match specStms lp (p ++ (header kw v).map Item'.text) b with
    | .error e => .error e
    | .ok es =>
      match specStms lp p r with
      | .error e => .error e
      | .ok fs => .ok (es ++ fs)

/-- group entries by key: keys in order of first occurrence, values in source order -/
def group (es : List (Text × Value)) : Dict := es.foldl (fun d e => d.add e.1 e.2) []

/-! #### shapes of the grammar's forms -/

inductive Shape where
  /-- `kw … kw  arg … arg  ;` : keyword ids (including `set`), number of arguments -/
  | stmt (kws : List Nat) (nvis : Nat)
  /-- `kw variant? { n* }` : keyword id, the variant nonterminal if the form has one -/
  | block (k : Nat) (m : Option Nat)
  /-- only sub-statements (`start`, `data_transform`, `steps`, `termination`) -/
  | seq
  /-- exactly one named token (`string`, `variant`) -/
  | leaf
  | bad
  deriving DecidableEq, Repr

/-- every sentence of nonterminal `n` is a single named token -/
def leafy (G : Table) : Nat → Nat → Bool
  | 0, _ => false
  | fuel + 1, n => G.forms.all fun f => f.origin != n ||
      (match f.items with
        | [.tok _] => true
        | [.nt m] => leafy G fuel m
        | _ => false)

def leadKws : List Item → List Nat
  | .kw k :: is => k :: leadKws is
  | _ => []

def visOK (G : Table) : Item → Bool
  | .tok _ => true
  | .nt n => leafy G 4 n
  | _ => false

/-- keyword `k` exists and is not (a substring of) punctuation -/
def kwPlain (G : Table) (k : Nat) : Bool :=
  match G.keywords[k]? with
  | some t => !C10.isFlush t
  | none => false

def kwIs (G : Table) (k : Nat) (t : Text) : Bool := G.keywords[k]? == some t

def isNtStar : Item → Bool
  | .nt _ => true
  | .star _ => true
  | _ => false

def blockKwOK (G : Table) (k lb rb : Nat) : Bool :=
  kwPlain G k && !kwIs G k setKw && kwIs G lb C10.lbrace && kwIs G rb C10.rbrace

def shapeOf (G : Table) (f : Form) : Shape :=
  match f.items with
  | [.kw k, .opt m, .kw lb, .star _, .kw rb] => if blockKwOK G k lb rb && leafy G 4 m then .block k (some m) else .bad
  | [.kw k, .kw lb, .star _, .kw rb] => if blockKwOK G k lb rb then .block k none else .bad
  | [.tok _] => .leaf
  | is =>
    match is.getLast? with
    | some (.kw s) =>
      let pre := is.dropLast
      let kws := leadKws pre
      let vis := pre.drop kws.length
      if kwIs G s C10.semi && kws.all (kwPlain G) && vis.all (visOK G) then .stmt kws vis.length else .bad
    | _ =>
      match is with
      | [.nt m] => if leafy G 4 m then .leaf else .seq
      | _ => if is.all isNtStar then .seq else .bad

def Shape.isStmtish : Shape → Bool
  | .stmt _ _ => true
  | .block _ _ => true
  | .seq => true
  | _ => false

/-- every form of nonterminal `n` is a statement, a block or a sequence of those -/
def stmtNt (G : Table) (n : Nat) : Bool := G.forms.all fun f => f.origin != n || (shapeOf G f).isStmtish

def bodyItem (G : Table) : Item → Bool
  | .nt n => stmtNt G n
  | .star n => stmtNt G n
  | _ => false

/-- `ShapesOK`: every form of the grammar has one of the shapes, blocks and sequences contain statements only,
and a profile is a sequence of statements. -/
def ShapesOK (G : Table) : Bool :=
  stmtNt G G.start &&
  G.forms.all fun f =>
    match shapeOf G f with
    | .bad => false
    | .seq => f.items.all (bodyItem G)
    | .block _ _ =>
      (match f.items with
        | [_, _, _, .star n, _] => stmtNt G n
        | [_, _, .star n, _] => stmtNt G n
        | _ => false)
    | _ => true

def arityOK : Shape → Nat → Bool
  | .stmt _ nv, nk => nv == nk
  | .block _ _, _ => true
  | .seq, _ => true
  | _, _ => false

/-- the shape of a node with tree label `l` and `nk` children: first statement-like form with that label that can
have that many children -/
def lookupShape (G : Table) (l nk : Nat) : Option Shape :=
  (G.forms.find? fun f => C10.label f == l && arityOK (shapeOf G f) nk).map (shapeOf G)

def compatible : Shape → Shape → Bool
  | .stmt _ a, .stmt _ b => a == b
  | a, b => a.isStmtish && b.isStmtish

/-- `LookupWF`: the lookup is unambiguous — statement-like forms that share a tree label and can have the same
number of children have the same keywords and the same shape. -/
def LookupWF (G : Table) : Bool :=
  G.forms.all fun f => G.forms.all fun g =>
    C10.label f != C10.label g || !compatible (shapeOf G f) (shapeOf G g) || shapeOf G f == shapeOf G g

def forestLen : Forest → Nat
  | .nil => 0
  | .leaf _ _ r => forestLen r + 1
  | .node _ _ r => forestLen r + 1

/-- all tokens below, left to right -/
def leaves (G : Table) : Forest → List Item'
  | .nil => []
  | .leaf t s r => itemOfTok G (.named t s) :: leaves G r
  | .node _ ks r => leaves G ks ++ leaves G r

def kwItem (G : Table) (k : Nat) : Item' := .plain (G.keywords.getD k [])

/-- Statements of a list of sibling trees (structural recursion over the tree).  `none` = not profile-shaped. -/
def stmsOfKids (G : Table) : Forest → Option Stms
  | .nil => some .nil
  | .leaf _ _ _ => none
  | .node l ks r =>
    match lookupShape G l (forestLen ks) with
    | some (.stmt kws _) =>
      match stmsOfKids G r with
      | some r' => some (.stmt (kws.map (kwItem G) ++ leaves G ks) r')
      | none => none
    | some (.block k none) =>
      match stmsOfKids G ks, stmsOfKids G r with
      | some b, some r' => some (.block (G.keywords.getD k []) none b r')
      | _, _ => none
    | some (.block k (some m)) =>
      match ks with
      | .node lv kv rv =>
        if G.isLabelOf m lv then
          match leaves G kv, stmsOfKids G rv, stmsOfKids G r with
          | [v], some b, some r' => some (.block (G.keywords.getD k []) (some v) b r')
          | _, _, _ => none
        else
          match stmsOfKids G (.node lv kv rv), stmsOfKids G r with
          | some b, some r' => some (.block (G.keywords.getD k []) none b r')
          | _, _ => none
      | other =>
        match stmsOfKids G other, stmsOfKids G r with
        | some b, some r' => some (.block (G.keywords.getD k []) none b r')
        | _, _ => none
    | some .seq =>
      match stmsOfKids G ks, stmsOfKids G r with
      | some a, some b => some (a.append b)
      | _, _ => none
    | _ => none

/-- the statements of a whole profile tree -/
def stmsOfTree (G : Table) (t : Tree) : Option Stms := stmsOfKids G (.node t.label t.kids .nil)

/-- no token of the tree can be mistaken for punctuation or for the keyword `set` (true of every lexed profile:
STRING literals start with a double quote, OPTION words are neither) -/
def tokensOK (G : Table) (t : Tree) : Bool :=
  (leaves G t.kids).all fun i => !C10.isFlush i.text && i.text != setKw

/-- The specification: entries (key, value) of a profile tree in source order, by structural recursion over the
tree; `none` = the tree is not profile-shaped, `.error` = the exception the first offending statement raises. -/
def specDict (G : Table) (lp : List Text) (t : Tree) : Option (Py (List (Text × Value))) :=
  (stmsOfTree G t).map (specStms lp [])

/-- `as_dict()` of a tree, cache aside: `none` = the Reconstructor fails -/
def asDictTree (G : Table) (lp : List Text) (t : Tree) : Option (Py Dict) :=
  (printItems G t).map (asDict lp)

/-- statement forms on which the pair branch meets a plain keyword (`x.type` → AttributeError): after dropping
`set`, more than two words of which fewer than two are tokens -/
def riskyForm (G : Table) (f : Form) : Bool :=
  match shapeOf G f with
  | .stmt kws nv =>
    let n := (kws.filter fun k => G.keywords[k]? != some setKw).length
    n + nv > 2 && nv < 2
  | _ => false

/-! ### the block-builder API -/

/-- a value handed to the builder: `str` (code points) or `bytes` -/
inductive PyVal where
  | str (s : Text)
  | bytes (b : Bytes)
  deriving DecidableEq, Repr

/-- `str.replace(old, new)` scanner (as `C12.replaceGo`, over code points) -/
def replaceGo (old new : Text) : Text → Nat → Text
  | [], _ => []
  | _ :: cs, skip + 1 => replaceGo old new cs skip
  | c :: cs, 0 =>
    if old.isPrefixOf (c :: cs) then new ++ replaceGo old new cs (old.length - 1)
    else c :: replaceGo old new cs 0

/-- `s.replace(old, new)` for non-empty `old` -/
def strReplace (old new s : Text) : Text := replaceGo old new s 0

/-- `value_to_string(value)` for a `str`: escape `"`, un-escape `\'`, add the quotes -/
def valueToStringStr (value : Text) : Text :=
  [34] ++ strReplace [92, 39] [39] (strReplace [34] [92, 34] value) ++ [34]

/-- `value_to_string(value)`; the `bytes` case is C12's model (`repr` + the same two replaces) -/
def valueToString : PyVal → Text
  | .str s => valueToStringStr s
  | .bytes b => (C12.valueToString b).map (·.toNat)

def Forest.append : Forest → Forest → Forest
  | .nil, b => b
  | .leaf t s r, b => .leaf t s (Forest.append r b)
  | .node l k r, b => .node l k (Forest.append r b)

def nmString : Text := [115, 116, 114, 105, 110, 103]
def nmOPTION : Text := [79, 80, 84, 73, 79, 78]
def nmOption : Text := [111, 112, 116, 105, 111, 110]
def nmHeader : Text := [104, 101, 97, 100, 101, 114]
def nmParameter : Text := [112, 97, 114, 97, 109, 101, 116, 101, 114]
def nmDataTransform : Text := [100, 97, 116, 97, 95, 116, 114, 97, 110, 115, 102, 111, 114, 109]
def nmSteps : Text := [115, 116, 101, 112, 115]
def nmTermination : Text := [116, 101, 114, 109, 105, 110, 97, 116, 105, 111, 110]
def nmSetOption : Text := [115, 101, 116, 95, 111, 112, 116, 105, 111, 110]
def nmC2Profile : String := "C2Profile"

/-- `Tree("string", [Token("STRING", value_to_string(v))])` followed by `rest` -/
def strNode (G : Table) (v : PyVal) (rest : Forest) : Forest :=
  .node (nameId G nmString) (.leaf (nameId G stringName) (valueToString v) .nil) rest

/-- `ConfigBlock.set_option(option, value)` -/
def optNode (G : Table) (name : Text) (v : PyVal) : Forest :=
  .node (nameId G name) (strNode G v .nil) .nil

/-- `C2Profile.set_option(option, value)`: `Tree("option", [Token("OPTION", option), Tree("string", …)])` -/
def globalOptNode (G : Table) (name : Text) (v : PyVal) : Forest :=
  .node (nameId G nmOption) (.leaf (nameId G nmOPTION) name (strNode G v .nil)) .nil

/-- `_pair` / `_header` / `_parameter`: one two-string node per pair -/
def pairNodes (G : Table) (label : Text) : List (PyVal × PyVal) → Forest
  | [] => .nil
  | (a, b) :: ps => .node (nameId G label) (strNode G a (strNode G b .nil)) (pairNodes G label ps)

def enableNode (G : Table) (name : Text) : Forest := .node (nameId G name) .nil .nil

/-- one element of `DataTransformBlock(steps=[…])`: a bare name or a `(name, value)` 2-tuple -/
inductive Step where
  | bare (name : Text)
  | arg (name : Text) (v : PyVal)
  deriving DecidableEq, Repr

/-- one element of `ExecuteOptionsBlock.from_execute_list([…])` -/
inductive ExecItem where
  | bare (name : Text)
  | pair (name : Text) (v : PyVal)
  deriving DecidableEq, Repr

mutual
/-- calls made on ONE block object, in order (keyword arguments of the constructor first, by convention) -/
inductive Calls where
  | done
  /-- keyword argument `name=<str or bytes>` of the constructor (dispatched by `init_kwargs`) -/
  | kwVal (name : Text) (v : PyVal) (rest : Calls)
  /-- keyword argument `name=[(a, b), …]` -/
  | kwPairs (name : Text) (ps : List (PyVal × PyVal)) (rest : Calls)
  /-- keyword argument `name=<block>` -/
  | kwBlock (name : Text) (b : BlockV) (rest : Calls)
  /-- `obj.set_option(name, v)` (on a `C2Profile`: the overriding global-option method) -/
  | setOption (name : Text) (v : PyVal) (rest : Calls)
  /-- `obj._pair(name, ps)` -/
  | pair (name : Text) (ps : List (PyVal × PyVal)) (rest : Calls)
  /-- `obj._enable(name, _)` -/
  | enable (name : Text) (rest : Calls)
  /-- `obj._header(_, ps)` -/
  | headerC (ps : List (PyVal × PyVal)) (rest : Calls)
  /-- `obj._parameter(_, ps)` -/
  | parameterC (ps : List (PyVal × PyVal)) (rest : Calls)
  | setConfigBlock (name : Text) (b : BlockV) (rest : Calls)
  | setNonEmptyConfigBlock (name : Text) (b : BlockV) (rest : Calls)
/-- a block object: a class (index into the generated class table) with the calls made on it, or one of the special
constructors -/
inductive BlockV where
  | cls (c : Nat) (calls : Calls)
  | dt (steps : List Step)
  | exec (xs : List ExecItem)
  | gate (xs : List Text)
end

/-- ASCII `str.lower()` (names outside ASCII are outside the modelled domain) -/
def lowerAscii (s : Text) : Text := s.map fun c => if 65 ≤ c && c ≤ 90 then c + 32 else c
/-- `.replace("-", "_")` -/
def dashToUnderscore (s : Text) : Text := s.map fun c => if c == 45 then 95 else c

/-- `add_step` / `add_termination`: `Tree(option, [string value] or [])` -/
def stepNode (G : Table) (name : Text) (v : Option PyVal) : Forest :=
  .node (nameId G name) (match v with
    | some x => strNode G x .nil
    | none => .nil) .nil

/-- loop body of `DataTransformBlock.__init__` on (steps, termination) -/
def dtAdd (G : Table) (st : Forest × Forest) : Step → Forest × Forest
  | .bare name =>
    if ProfileApi.dtBareSteps.contains name then (Forest.append st.1 (stepNode G name none), st.2)
    else if ProfileApi.dtBareTerminations.contains name then (st.1, Forest.append st.2 (stepNode G (dashToUnderscore name) none))
    else
      match name with
      | [c0, c1] =>      -- `len(option) == 2` holds for a two-character string: it is unpacked into two characters
        if ProfileApi.dtArgTerminations.contains [c0] then (st.1, Forest.append st.2 (stepNode G [c0] (some (.str [c1]))))
        else (Forest.append st.1 (stepNode G [c0] (some (.str [c1]))), st.2)
      | _ => st
  | .arg name v =>
    if ProfileApi.dtArgTerminations.contains name then (st.1, Forest.append st.2 (stepNode G name (some v)))
    else (Forest.append st.1 (stepNode G name (some v)), st.2)

/-- `DataTransformBlock(steps).tree.children` -/
def dtForest (G : Table) (steps : List Step) : Forest :=
  let st := steps.foldl (dtAdd G) (.nil, .nil)
  .node (nameId G nmDataTransform) (.node (nameId G nmSteps) st.1 (.node (nameId G nmTermination) st.2 .nil)) .nil

/-- `ExecuteOptionsBlock.from_execute_list(xs).tree.children` -/
def execForest (G : Table) : List ExecItem → Py Forest
  | [] => .ok .nil
  | x :: xs =>
    let one : Py Forest := match x with
      | .pair name v =>
        match ProfileApi.executeSpecial.lookup name with
        | some label => .ok (optNode G label v)
        | none => .error .valueError
      | .bare name =>
        if ProfileApi.executeBare.contains name then .ok (enableNode G (dashToUnderscore (lowerAscii name)))
        else .error .valueError
    match one with
    | .error e => .error e
    | .ok f =>
      match execForest G xs with
      | .error e => .error e
      | .ok r => .ok (Forest.append f r)

/-- `BeaconGateBlock.from_beacon_gate_option_strings(xs).tree.children` -/
def gateForest (G : Table) : List Text → Forest
  | [] => .nil
  | x :: xs => Forest.append (enableNode G (lowerAscii x)) (gateForest G xs)

/-- iterating a `str`/`bytes` VALUE where `[(a, b), …]` is expected: nothing happens for the empty value, the first
element of a non-empty `str` is a 1-character string (`ValueError` on unpacking), of `bytes` an int (`TypeError`) -/
def pairsFromVal : PyVal → Py Unit
  | .str [] => .ok ()
  | .str _ => .error .valueError
  | .bytes [] => .ok ()
  | .bytes _ => .error .typeError

/-- which `set_option` an object of class `c` has -/
def setOptionNode (G : Table) (c : ProfileApi.Cls) (name : Text) (v : PyVal) : Forest :=
  match c.attrs.lookup nmSetOption with
  | some .globalOption => globalOptNode G name v
  | _ => optNode G name v

/-- children appended by one call, then the rest -/
def seqF (a : Py Forest) (b : Py Forest) : Py Forest :=
  match a with
  | .error e => .error e
  | .ok x =>
    match b with
    | .error e => .error e
    | .ok y => .ok (Forest.append x y)

mutual
/-- `tree.children` of an object of class `c` after the calls.  The keyword-argument constructors follow
`ConfigBlock.init_kwargs`: a callable attribute named like the keyword is called as `func(option, value)`, else a
block value goes to `set_config_block`, anything else to `set_option`.  Combinations the API is not meant for
(keywords named like other methods, a block where a value is expected, …) are outside the modelled domain and
answered with `TypeError`; the generators never produce them. -/
def buildCalls (api : List ProfileApi.Cls) (G : Table) (c : ProfileApi.Cls) : Calls → Py Forest
  | .done => .ok .nil
  | .kwVal name v rest =>
    let one : Py Forest := match c.attrs.lookup name with
      | some .setOption => .ok (optNode G name v)
      | some .globalOption => .ok (globalOptNode G name v)
      | some .enable => .ok (enableNode G name)
      | some .pair | some .header | some .parameter =>
        match pairsFromVal v with
        | .ok _ => .ok .nil
        | .error e => .error e
      | some .other => .error .typeError
      | none => .ok (setOptionNode G c name v)
    seqF one (buildCalls api G c rest)
  | .kwPairs name ps rest =>
    let one : Py Forest := match c.attrs.lookup name with
      | some .pair => .ok (pairNodes G name ps)
      | some .header => .ok (pairNodes G nmHeader ps)
      | some .parameter => .ok (pairNodes G nmParameter ps)
      | some .enable => .ok (enableNode G name)
      | _ => .error .typeError
    seqF one (buildCalls api G c rest)
  | .kwBlock name b rest =>
    -- the block object is an argument: it is constructed (and may raise) before `init_kwargs` looks at the keyword
    match buildBlock api G b with
    | .error e => .error e
    | .ok kids =>
      match c.attrs.lookup name with
      | some .enable => seqF (.ok (enableNode G name)) (buildCalls api G c rest)
      | none => seqF (.ok (.node (nameId G name) kids .nil)) (buildCalls api G c rest)
      | _ => .error .typeError
  | .setOption name v rest => seqF (.ok (setOptionNode G c name v)) (buildCalls api G c rest)
  | .pair name ps rest => seqF (.ok (pairNodes G name ps)) (buildCalls api G c rest)
  | .enable name rest => seqF (.ok (enableNode G name)) (buildCalls api G c rest)
  | .headerC ps rest => seqF (.ok (pairNodes G nmHeader ps)) (buildCalls api G c rest)
  | .parameterC ps rest => seqF (.ok (pairNodes G nmParameter ps)) (buildCalls api G c rest)
  | .setConfigBlock name b rest =>
    match buildBlock api G b with
    | .error e => .error e
    | .ok kids => seqF (.ok (.node (nameId G name) kids .nil)) (buildCalls api G c rest)
  | .setNonEmptyConfigBlock name b rest =>
    match buildBlock api G b with
    | .error e => .error e
    | .ok .nil => buildCalls api G c rest
    | .ok kids => seqF (.ok (.node (nameId G name) kids .nil)) (buildCalls api G c rest)
/-- `block.tree.children` -/
def buildBlock (api : List ProfileApi.Cls) (G : Table) : BlockV → Py Forest
  | .cls c calls =>
    match api[c]? with
    | some cl => buildCalls api G cl calls
    | none => .error .typeError
  | .dt steps => .ok (dtForest G steps)
  | .exec xs => execForest G xs
  | .gate xs => .ok (gateForest G xs)
end

/-- the tree of `C2Profile(**kwargs)` followed by further calls on the profile object -/
def buildProfile (api : List ProfileApi.Cls) (G : Table) (calls : Calls) : Py Tree :=
  match api.find? (·.pyName == nmC2Profile) with
  | none => .error .typeError
  | some c =>
    match buildCalls api G c calls with
    | .error e => .error e
    | .ok kids => .ok ⟨nameId G c.treeName, kids⟩

/-! ### tree → derivation ("is this the tree of a sentence of the grammar?") -/

/-- match the items of a form against children, building the derivation; `dn n l ks` derives a node with label `l`
and children `ks` from nonterminal `n` -/
def deriveItems (G : Table) (dn : Nat → Nat → Forest → Option (Form × Parts)) : List Item → Forest → Option Parts
  | [], .nil => some .done
  | [], _ => none
  | .kw k :: is, ks => (deriveItems G dn is ks).map (Parts.kw k)
  | .tok t :: is, .leaf t' s r => if t == t' then (deriveItems G dn is r).map (Parts.tok t s) else none
  | .tok _ :: _, _ => none
  | .nt n :: is, .node l ks r =>
    match dn n l ks with
    | some (f, b) => (deriveItems G dn is r).map (Parts.sub f b)
    | none => none
  | .nt _ :: _, _ => none
  | .star n :: is, .node l ks r =>
    match dn n l ks with
    | some (f, b) => (deriveItems G dn (.star n :: is) r).map (Parts.sub f b)
    | none => (deriveItems G dn is (.node l ks r)).map Parts.stop
  | .star _ :: is, ks => (deriveItems G dn is ks).map Parts.stop
  | .opt n :: is, .node l ks r =>
    match dn n l ks with
    | some (f, b) => (deriveItems G dn is r).map (Parts.sub f b)
    | none => (deriveItems G dn is (.node l ks r)).map Parts.stop
  | .opt _ :: is, ks => (deriveItems G dn is ks).map Parts.stop
termination_by is ks => is.length + forestLen ks
decreasing_by all_goals (simp only [List.length_cons, forestLen]; omega)

/-- derive a node from nonterminal `n` (nesting depth bounded by the first argument) -/
def deriveNode (G : Table) : Nat → Nat → Nat → Forest → Option (Form × Parts)
  | 0, _, _, _ => none
  | fuel + 1, n, l, ks =>
    G.forms.findSome? fun f =>
      if f.origin == n && C10.label f == l && G.has f then
        (deriveItems G (deriveNode G fuel) f.items ks).map fun b => (f, b)
      else none

/-- a derivation from the start symbol whose tree is `t` -/
def derive (G : Table) (t : Tree) : Option Deriv :=
  (deriveNode G (G.forms.length + 1) G.start t.label t.kids).map fun fb => ⟨fb.1, fb.2⟩

/-! ### the cache of `as_dict` -/

/-- a profile object: its tree, `_dict_hash`, `_dict_cache` -/
structure PState (H : Type) where
  tree : Tree
  dictHash : Option H
  dictCache : Dict

/-- `C2Profile.as_dict()` with its cache: `hash` models `hash(self.tree)`, `compute` the uncached walk
(`none` = the Reconstructor raises).  The cache is only written when the walk returns. -/
def asDictCached [DecidableEq H] (hash : Tree → H) (compute : Tree → Option (Py Dict)) (s : PState H) :
    Option (Py Dict) × PState H :=
  if s.dictHash = some (hash s.tree) then (some (.ok s.dictCache), s)
  else
    match compute s.tree with
    | some (.ok d) => (some (.ok d), ⟨s.tree, some (hash s.tree), d⟩)
    | r => (r, s)

/-- an operation on a profile object: any change of the tree, or a call of `as_dict()` / `.properties` -/
inductive Op where
  | modify (f : Tree → Tree)
  | access

/-- the results of the accesses of a history -/
def runHist [DecidableEq H] (hash : Tree → H) (compute : Tree → Option (Py Dict)) :
    PState H → List Op → List (Option (Py Dict))
  | _, [] => []
  | s, .modify f :: ops => runHist hash compute ⟨f s.tree, s.dictHash, s.dictCache⟩ ops
  | s, .access :: ops =>
    let r := asDictCached hash compute s
    r.1 :: runHist hash compute r.2 ops

/-- a freshly constructed profile (`_dict_cache = {}`, `_dict_hash = None`) -/
def PState.fresh (t : Tree) : PState H := ⟨t, none, []⟩

/-- the trees a history goes through -/
def treesOf : Tree → List Op → List Tree
  | t, [] => [t]
  | t, .modify f :: ops => t :: treesOf (f t) ops
  | t, .access :: ops => treesOf t ops

/-! #### concrete modifications used by the driver -/

def forestToList : Forest → List Forest
  | .nil => []
  | .leaf t s r => .leaf t s .nil :: forestToList r
  | .node l k r => .node l k .nil :: forestToList r

def forestOfList : List Forest → Forest
  | [] => .nil
  | f :: fs => Forest.append f (forestOfList fs)

/-- append `sub` to the children of the node reached by the child-index path -/
def appendAtF : List Nat → Forest → Forest → Forest
  | [], sub, kids => Forest.append kids sub
  | i :: p, sub, kids =>
    forestOfList ((forestToList kids).zipIdx.map fun (k, j) =>
      if j == i then
        match k with
        | .node l ks r => .node l (appendAtF p sub ks) r
        | other => other
      else k)

/-- delete the child reached by the child-index path -/
def deleteAtF : List Nat → Forest → Forest
  | [], kids => kids
  | [i], kids => forestOfList ((forestToList kids).zipIdx.filterMap fun (k, j) => if j == i then none else some k)
  | i :: p, kids =>
    forestOfList ((forestToList kids).zipIdx.map fun (k, j) =>
      if j == i then
        match k with
        | .node l ks r => .node l (deleteAtF p ks) r
        | other => other
      else k)

end C11

import CsVerif.Model.C04
import CsVerif.Model.C05
import CsVerif.Model.C06
import CsVerif.Model.C16
/-
C07 — end-to-end session decoding
(dissect/cobaltstrike/c2.py: class C2Http — `__init__`, `get_transform_for_http`, `iter_recover_http`;
 dissect/cobaltstrike/client.py: `_initial_get_request`, `_initial_post_request`, `get_task`, `send_callback`;
 dissect/cobaltstrike/c_c2.py: `TaskPacket`, `CallbackPacket`)

This model is a COMPOSITION.  It imports and reuses
  * C04 — `HttpDataTransform` (`mkTransform`, `transform`, `recover`, the reference language `Ref.*`),
  * C05 — packet crypto and framing (`encryptPacket`, `decryptPacketT`, `dumps`, `iterClient`, `iterServerPacket`),
  * C06 — metadata over RSA and key derivation (`encryptMetadata`, `decryptMetadata`, `deriveKeys`),
  * C16 — `parseRawHttp`, `renderRequest`, `renderResponse`,
and adds what is specific to `C2Http` and the beacon client: key validation in the constructor, routing by verb
and URI prefix, the metadata cache, on-the-fly key derivation (with the evaluation order of the code: the keys used
for the packets of a message are read BEFORE the metadata of that message is processed), the generator protocol of
`iter_recover_http` (items yielded, then normal end or the exception), the two cstruct packet layouts, and the
requests the client builds.

AES-CBC, HMAC-SHA256, SHA-256 and RSA/PKCS#1 v1.5 stay parameters (`Crypto` = the C05 and the C06 parameter
records); `CryptoLaws` = the C05 and C06 laws, nothing else is assumed.

What is NOT modelled (stated in the harness' ASSUMPTIONS and checked there on every captured message): the way
httpx/h11 serialise a request (method upper-cased, dot-segments of the path normalised, default headers added,
space in a query rendered as `+`).  `wireRequest` is C16's `renderRequest`; the decoder side of the model is run on
the bytes that were really captured.
-/
namespace C07

/-! ### exceptions -/

/-- `PyExc` plus `AssertionError` (C04: `assert isinstance(http, HttpRequest)`; `assert self.priv.n == self.pub.n`)
plus `struct.error` (C06: an integer field that does not fit its width). -/
inductive Exc
  | py (e : PyExc)
  | assertion
  | structError
  deriving DecidableEq, Repr

def Exc.name : Exc → String
  | .py e => e.name
  | .assertion => "AssertionError"
  | .structError => "error"

abbrev X (α : Type) := Except Exc α

def ofPy : Py α → X α
  | .ok a => .ok a
  | .error e => .error (.py e)

def ofC04 : C04.R α → X α
  | .ok a => .ok a
  | .error (.py e) => .error (.py e)
  | .error .assertion => .error .assertion

def ofC06 : C06.PyS α → X α
  | .ok a => .ok a
  | .error (.py e) => .error (.py e)
  | .error .structError => .error .structError

/-! ### primitives -/

structure Crypto where
  sym : C05.Crypto
  asym : C06.Crypto

/-- exactly the C05 and C06 assumptions -/
structure CryptoLaws (c : Crypto) : Prop where
  sym : C05.CryptoLaws c.sym
  asym : C06.CryptoLaws c.asym

/-- one invocation of a primitive -/
inductive Call
  | sym (c : C05.Call)
  | rsaDec (blob : Bytes)
  | sha256 (x : Bytes)
  deriving DecidableEq, Repr

/-! ### configuration (what `C2Http.__init__` reads from the BeaconConfig) -/

structure HttpCfg where
  /-- `SETTING_C2_VERB_GET.encode()` -/
  getVerb : Bytes
  /-- `tuple(uri.encode() for uri in bconfig.uris)` -/
  getUris : List Bytes
  /-- `SETTING_C2_VERB_POST.encode()` -/
  submitVerb : Bytes
  /-- `SETTING_SUBMITURI.encode()` -/
  submitUri : Bytes
  /-- `SETTING_C2_REQUEST` (setting 12) -/
  getProg : List C04.Step
  /-- `SETTING_C2_POSTREQ` (setting 13) -/
  postProg : List C04.Step
  /-- `SETTING_C2_RECOVER` (setting 11) -/
  recoverProg : List C04.Step
  deriving DecidableEq, Repr

/-- `HttpDataTransform(steps=bconfig.settings["SETTING_C2_REQUEST"])` -/
def transformGet (cfg : HttpCfg) : C04.Transform := C04.mkTransform cfg.getProg false none
/-- `HttpDataTransform(steps=bconfig.settings["SETTING_C2_POSTREQ"])` -/
def transformSubmit (cfg : HttpCfg) : C04.Transform := C04.mkTransform cfg.postProg false none
/-- `HttpDataTransform(steps=bconfig.settings["SETTING_C2_RECOVER"], reverse=True, build="output")` -/
def transformResponse (cfg : HttpCfg) : C04.Transform :=
  C04.mkTransform cfg.recoverProg true (some (some .output))

/-! ### keys -/

/-- `BeaconKeys(aes_key, hmac_key, iv=DEFAULT_AES_IV)` -/
structure Keys where
  aesKey : Option Bytes
  hmacKey : Option Bytes
  iv : Bytes := Gen.C2Struct.defaultAesIv
  deriving DecidableEq, Repr

/-- Python truthiness of an `Optional[bytes]` -/
def truthy : Option Bytes → Bool
  | some (_ :: _) => true
  | _ => false

/-- `derive_aes_hmac_keys(aes_rand)` as a `BeaconKeys` -/
def derivedKeys (c : Crypto) (aesRand : Bytes) : Keys :=
  let k := C06.deriveKeys c.asym aesRand
  { aesKey := some k.1, hmacKey := some k.2 }

/-! ### the decoder object -/

structure Decoder where
  cfg : HttpCfg
  /-- `self.beacon_keys` -/
  keys : Keys
  /-- `bool(self.priv)` -/
  hasPriv : Bool
  /-- `self.verify_hmac` -/
  verify : Bool
  /-- `self.metadata_cache` (insertion ordered; keys are unique) -/
  cache : List (Bytes × C06.Metadata)
  deriving DecidableEq, Repr

/-- the key arguments of `C2Http(bconfig, aes_key, hmac_key, aes_rand, rsa_private_key, verify_hmac)`.
`priv = none`: no private key; `priv = some b`: a key object (always truthy), `b ↔ priv.n == pub.n`. -/
structure KeyArgs where
  aesKey : Option Bytes := none
  hmacKey : Option Bytes := none
  aesRand : Option Bytes := none
  priv : Option Bool := none
  verify : Bool := true
  deriving DecidableEq, Repr

/-- `C2Http.__init__`, in the order of the code.  `pubOk`: `RSA.import_key(bconfig.public_key)` succeeds
(ValueError otherwise); `trial`: `bconfig.is_trial`.  (A configuration lacking one of the settings read here
raises `KeyError`/`AttributeError` in the real constructor; `HttpCfg` is the well-typed result of those reads.) -/
def mkDecoder (c : Crypto) (cfg : HttpCfg) (a : KeyArgs) (pubOk trial : Bool) : X Decoder :=
  if truthy a.aesRand && truthy a.aesKey then .error (.py .valueError)
  else if !(truthy a.aesKey || truthy a.aesRand || a.priv.isSome) then .error (.py .valueError)
  else
    let k0 : Option Bytes × Option Bytes :=
      if truthy a.aesRand then
        let k := C06.deriveKeys c.asym (a.aesRand.getD [])
        (some k.1, some k.2)
      else (a.aesKey, a.hmacKey)
    if k0.1.any (·.length != 16) then .error (.py .valueError)
    else if k0.2.any (·.length != 16) then .error (.py .valueError)
    else if !pubOk then .error (.py .valueError)
    else if a.priv == some false then .error .assertion
    else if trial then .error (.py .valueError)
    else .ok { cfg := cfg, keys := { aesKey := k0.1, hmacKey := k0.2 }, hasPriv := a.priv.isSome,
               verify := a.verify, cache := [] }

/-! ### routing -/

inductive Route | get | submit | response
  deriving DecidableEq, Repr

/-- `bytes.startswith(tuple)`: any element is a prefix (`False` for the empty tuple) -/
def startsWithAny (uri : Bytes) (prefixes : List Bytes) : Bool := prefixes.any (·.isPrefixOf uri)

/-- the `if … elif …` of `get_transform_for_http` on an `HttpRequest`; the ORDER of the two tests is the code's -/
def routeRequest (cfg : HttpCfg) (method uri : Bytes) : Option Route :=
  if method == cfg.getVerb && startsWithAny uri cfg.getUris then some .get
  else if method == cfg.submitVerb && cfg.submitUri.isPrefixOf uri then some .submit
  else none

def routeHttp (cfg : HttpCfg) : C04.Http → Option Route
  | .request r => routeRequest cfg r.method r.uri
  | .response _ _ => some .response

def transformOf (cfg : HttpCfg) : Route → C04.Transform
  | .get => transformGet cfg
  | .submit => transformSubmit cfg
  | .response => transformResponse cfg

/-- `HttpRequest` / `HttpResponse` object out of `parse_raw_http`'s result (status and reason are never read) -/
def msgToHttp : C16.Msg → C04.Http
  | .request m u ps hs b => .request ⟨m, u, ps, hs, b⟩
  | .response _ _ hs b => .response hs b

/-- what is handed to the decoder: raw bytes or an already parsed object -/
inductive Input
  | raw (data : Bytes)
  | msg (http : C04.Http)
  deriving DecidableEq, Repr

/-- `http = parse_raw_http(http) if isinstance(http, bytes) else http` -/
def parseInput : Input → X C04.Http
  | .raw d => (ofPy (C16.parseRawHttp d)).map msgToHttp
  | .msg h => .ok h

/-- `C2Http.get_transform_for_http(http)`: the transform, or ValueError for an unrelated request -/
def getTransformForHttp (cfg : HttpCfg) (inp : Input) : X C04.Transform :=
  match parseInput inp with
  | .error e => .error e
  | .ok http =>
    match routeHttp cfg http with
    | some rt => .ok (transformOf cfg rt)
    | none => .error (.py .valueError)

/-! ### the two packet layouts (c_c2.py, big endian) -/

/-- `struct TaskPacket { uint32 epoch; uint32 total_size; BeaconCommand command; uint32 size; char data[size]; }` -/
structure Task where
  epoch : Nat
  totalSize : Nat
  command : Nat
  size : Nat
  data : Bytes
  deriving DecidableEq, Repr

/-- `struct CallbackPacket { uint32 counter; uint32 size; BeaconCallback callback; char data[size]; }` -/
structure Callback where
  counter : Nat
  size : Nat
  callback : Nat
  data : Bytes
  deriving DecidableEq, Repr

def u32be (n : Nat) : Bytes := C20.toBytesU .big 4 n
def u32At (b : Bytes) (off : Nat) : Nat := C20.fromBytesU .big ((b.drop off).take 4)

/-- `TaskPacket(data)`: EOFError when the 16 byte header or the `size` data bytes are not there; trailing bytes ignored -/
def parseTask (b : Bytes) : Py Task :=
  if b.length < 16 then .error .eofError
  else if b.length - 16 < u32At b 12 then .error .eofError
  else .ok ⟨u32At b 0, u32At b 4, u32At b 8, u32At b 12, (b.drop 16).take (u32At b 12)⟩

/-- `CallbackPacket(data)` -/
def parseCallback (b : Bytes) : Py Callback :=
  if b.length < 12 then .error .eofError
  else if b.length - 12 < u32At b 4 then .error .eofError
  else .ok ⟨u32At b 0, u32At b 4, u32At b 8, (b.drop 12).take (u32At b 4)⟩

/-- `packet.dumps()`: `struct.error` when an integer does not fit 32 bits; `data` is written as it is -/
def Task.dumps (t : Task) : X Bytes :=
  if t.epoch < 2 ^ 32 ∧ t.totalSize < 2 ^ 32 ∧ t.command < 2 ^ 32 ∧ t.size < 2 ^ 32 then
    .ok (u32be t.epoch ++ (u32be t.totalSize ++ (u32be t.command ++ (u32be t.size ++ t.data))))
  else .error .structError

def Callback.dumps (cb : Callback) : X Bytes :=
  if cb.counter < 2 ^ 32 ∧ cb.size < 2 ^ 32 ∧ cb.callback < 2 ^ 32 then
    .ok (u32be cb.counter ++ (u32be cb.size ++ (u32be cb.callback ++ cb.data)))
  else .error .structError

/-! ### iter_recover_http -/

/-- a `C2Packet` -/
inductive Item
  | metadata (m : C06.Metadata)
  | task (t : Task)
  | callback (cb : Callback)
  deriving DecidableEq, Repr

/-- observable behaviour of one `list(c2http.iter_recover_http(http))`: the packets yielded, the exception that ended
the generator (if any), the decoder object afterwards, the primitive calls made -/
structure Out where
  items : List Item
  exc : Option Exc
  dec : Decoder
  calls : List Call
  deriving DecidableEq, Repr

/-- `transform = self.get_transform_for_http(http); c2data = transform.recover(http)` -/
def recoverStage (cfg : HttpCfg) (http : C04.Http) : X C04.C2Data :=
  match routeHttp cfg http with
  | none => .error (.py .valueError)
  | some rt => ofC04 (C04.recover (transformOf cfg rt) http)

structure MetaOut where
  items : List Item
  exc : Option Exc
  dec : Decoder
  calls : List Call

/-- the `if c2data.metadata and self.priv:` block -/
def metadataStep (c : Crypto) (dec : Decoder) (md : Option Bytes) : MetaOut :=
  if truthy md && dec.hasPriv then
    let blob := md.getD []
    match dec.cache.lookup blob with
    | some m => ⟨[.metadata m], none, dec, []⟩
    | none =>
      match C06.decryptMetadata c.asym blob with
      | .error e => ⟨[], some (.py e), dec, [.rsaDec blob]⟩
      | .ok m =>
        let dec1 := { dec with cache := dec.cache ++ [(blob, m)] }
        -- `if not all([self.beacon_keys.aes_key, self.beacon_keys.hmac_key])`
        if truthy dec.keys.aesKey && truthy dec.keys.hmacKey then
          ⟨[.metadata m], none, dec1, [.rsaDec blob]⟩
        else
          ⟨[.metadata m], none, { dec1 with keys := derivedKeys c m.aes_rand }, [.rsaDec blob, .sha256 m.aes_rand]⟩
  else ⟨[], none, dec, []⟩

/-- `c2data.iter_encrypted_packets()`: `ClientC2Data` for a request, `ServerC2Data` for a response -/
def frames (isRequest : Bool) (output : Option Bytes) : C05.GenResult C05.Packet :=
  if isRequest then C05.iterClient output else (C05.iterServerPacket output, none)

structure PktOut where
  items : List Item
  exc : Option Exc
  calls : List Call

/-- `CallbackPacket(plaintext)` / `TaskPacket(plaintext)` -/
def parseItem (isRequest : Bool) (pt : Bytes) : Py Item :=
  if isRequest then (parseCallback pt).map Item.callback else (parseTask pt).map Item.task

/-- the `for enc_packet in …:` loop: decrypt, parse, yield; the first exception ends the generator -/
def decodePackets (c : Crypto) (keys : Keys) (verify isRequest : Bool) : List C05.Packet → PktOut
  | [] => ⟨[], none, []⟩
  | p :: ps =>
    let r := C05.decryptPacketT c.sym p keys.aesKey keys.hmacKey keys.iv verify
    match r.1 with
    | .error e => ⟨[], some (.py e), r.2.map .sym⟩
    | .ok pt =>
      match parseItem isRequest pt with
      | .error e => ⟨[], some (.py e), r.2.map .sym⟩
      | .ok it =>
        let rest := decodePackets c keys verify isRequest ps
        ⟨it :: rest.items, rest.exc, r.2.map .sym ++ rest.calls⟩

def isRequest : C04.Http → Bool
  | .request _ => true
  | .response _ _ => false

/-- `iter_recover_http` on a parsed object.  `ext`: the optional `keys` argument.
`keys = keys or self.beacon_keys` is evaluated first: the packets of THIS message are decrypted with the keys the
decoder had before the metadata of this message was looked at. -/
def iterRecoverMsg (c : Crypto) (dec : Decoder) (ext : Option Keys) (http : C04.Http) : Out :=
  let keys := ext.getD dec.keys
  match recoverStage dec.cfg http with
  | .error e => ⟨[], some e, dec, []⟩
  | .ok c2 =>
    let ms := metadataStep c dec c2.metadata
    match ms.exc with
    | some e => ⟨ms.items, some e, ms.dec, ms.calls⟩
    | none =>
      let fr := frames (isRequest http) c2.output
      let ps := decodePackets c keys dec.verify (isRequest http) fr.1
      ⟨ms.items ++ ps.items,
       match ps.exc with
       | some e => some e
       | none => fr.2.map Exc.py,
       ms.dec, ms.calls ++ ps.calls⟩

/-- `list(C2Http.iter_recover_http(http, keys))` -/
def iterRecoverHttp (c : Crypto) (dec : Decoder) (inp : Input) (ext : Option Keys := none) : Out :=
  match parseInput inp with
  | .error e => ⟨[], some e, dec, []⟩
  | .ok http => iterRecoverMsg c dec ext http

/-- a capture decoded message by message with one decoder object -/
def decodeAll (c : Crypto) : Decoder → List Input → List Out × Decoder
  | dec, [] => ([], dec)
  | dec, m :: ms =>
    let o := iterRecoverHttp c dec m
    let r := decodeAll c o.dec ms
    (o :: r.1, r.2)

/-! ### the client (client.py) -/

structure Client where
  cfg : HttpCfg
  /-- `self.metadata` (mutated by `encrypt_metadata`: `size`) -/
  metadata : C06.Metadata
  beaconId : Nat
  /-- `self.c2http.beacon_keys` of the client's own `C2Http(bconfig, aes_key=…, hmac_key=…)` -/
  keys : Keys
  /-- `self.get_uri.encode()` -/
  getUri : Bytes
  /-- `self.user_agent.encode()` -/
  userAgent : Bytes
  /-- `self.host_header.encode()` -/
  hostHeader : Bytes
  counter : Nat
  deriving DecidableEq, Repr

def hUserAgent : Bytes := [85, 115, 101, 114, 45, 65, 103, 101, 110, 116]   -- b"User-Agent"
def hHost : Bytes := [72, 111, 115, 116]                                     -- b"Host"

def initialHeaders (cl : Client) : C04.Dict := [(hUserAgent, cl.userAgent), (hHost, cl.hostHeader)]

/-- `_initial_get_request()` -/
def initialGetRequest (cl : Client) : C04.Req :=
  ⟨cl.cfg.getVerb, cl.getUri, [], initialHeaders cl, []⟩

/-- `_initial_post_request()` -/
def initialPostRequest (cl : Client) : C04.Req :=
  ⟨cl.cfg.submitVerb, cl.cfg.submitUri, [], initialHeaders cl, []⟩

/-- the request `get_task` hands to `httpx.request`, and the client afterwards (`metadata.size` assigned) -/
def getTaskRequest (c : Crypto) (cl : Client) (rsaRand : C06.Rand) (rand : C04.Rand) : X (C04.Req × Client) :=
  match ofC06 (C06.sized cl.metadata) with
  | .error e => .error e
  | .ok m' =>
    match ofC06 (C06.encryptMetadata c.asym cl.metadata rsaRand) with
    | .error e => .error e
    | .ok blob =>
      (ofC04 (C04.transform (transformGet cl.cfg) rand ⟨none, some blob, none⟩ (some (initialGetRequest cl)))).map
        fun r => (r, { cl with metadata := m' })

/-- `str(self.beacon_id).encode()` -/
def idBytes (cl : Client) : Bytes := C16.natDigits cl.beaconId

/-- the callback packets of one POST: `counter` is incremented before each packet is built -/
def callbackPackets (counter : Nat) : List (Nat × Bytes) → List Callback
  | [] => []
  | (cb, data) :: rest => ⟨counter + 1, data.length, cb, data⟩ :: callbackPackets (counter + 1) rest

/-- `encrypt_packet(packet.dumps(), **beacon_keys._asdict()).dumps()`: one framed, encrypted callback -/
def encryptCallback (c : Crypto) (keys : Keys) (cb : Callback) : X Bytes :=
  match cb.dumps with
  | .error e => .error e
  | .ok pt =>
    match ofPy (C05.encryptPacket c.sym pt keys.aesKey keys.hmacKey keys.iv) with
    | .error e => .error e
    | .ok pkt => ofPy (C05.dumps pkt)

/-- the frames of all packets of one POST, concatenated -/
def encryptCallbacks (c : Crypto) (keys : Keys) : List Callback → X Bytes
  | [] => .ok []
  | cb :: rest =>
    match encryptCallback c keys cb with
    | .error e => .error e
    | .ok frame => (encryptCallbacks c keys rest).map (frame ++ ·)

/-- The POST request carrying the given callbacks.  `send_callback(callback_id, data)` of the library is the
one-element case; a real Beacon batches several callbacks in one POST (the general case). -/
def callbackRequest (c : Crypto) (cl : Client) (cbs : List (Nat × Bytes)) (rand : C04.Rand) : X (C04.Req × Client) :=
  match encryptCallbacks c cl.keys (callbackPackets cl.counter cbs) with
  | .error e => .error e
  | .ok out =>
    (ofC04 (C04.transform (transformSubmit cl.cfg) rand ⟨some out, none, some (idBytes cl)⟩
      (some (initialPostRequest cl)))).map fun r => (r, { cl with counter := cl.counter + cbs.length })

/-- the decoder inside the client: `C2Http(bconfig, aes_key=self.aes_key, hmac_key=self.hmac_key)` -/
def clientDecoder (cl : Client) : Decoder :=
  { cfg := cl.cfg, keys := cl.keys, hasPriv := false, verify := true, cache := [] }

def firstNonNoop : List Item → Option Task
  | [] => none
  | .task t :: rest => if t.command = 6 then firstNonNoop rest else some t
  | _ :: rest => firstNonNoop rest

/-- what `get_task()` returns for a response (`COMMAND_NOOP = 6` packets are skipped; an exception of the generator
propagates unless a packet was returned before it) -/
def getTaskResult (c : Crypto) (cl : Client) (headers : C04.Dict) (body : Bytes) : X (Option Task) :=
  let o := iterRecoverMsg c (clientDecoder cl) none (.response headers body)
  match firstNonNoop o.items with
  | some t => .ok (some t)
  | none =>
    match o.exc with
    | some e => .error e
    | none => .ok none

/-! ### the wire and the reference team server -/

def httpVersion : Bytes := [72, 84, 84, 80, 47, 49, 46, 49]   -- b"HTTP/1.1"

/-- `METHOD path?percent-encoded-params HTTP/1.1 CRLF Key: value … CRLFCRLF body` -/
def wireRequest (r : C04.Req) : Bytes :=
  C16.renderRequest httpVersion r.method r.uri r.params r.headers r.body

/-- `HTTP/1.1 200 OK CRLF headers CRLFCRLF body` -/
def wireResponse (headers : C04.Dict) (body : Bytes) : Bytes :=
  C16.renderResponse httpVersion [50, 48, 48] [79, 75] headers body

/-- Reference team server (independent of `HttpDataTransform.transform`): the body of a response carrying
`plaintext` (a task, or nothing when `none`), for the profile's `http-get.server.output { es…; print; }` block with
its real prepend/append strings.  The beacon configuration only holds `Ref.serverSteps es` (lengths). -/
def serverBody (c : Crypto) (es : List C04.Enc) (keys : Keys) (plaintext : Option Bytes) (rand : C04.Rand) : X Bytes :=
  match plaintext with
  | none => .ok (C04.Ref.encode [.block ⟨.output, es, .print⟩] rand ⟨some [], none, none⟩ C04.emptyReq).body
  | some pt =>
    (ofPy (C05.encryptPacket c.sym pt keys.aesKey keys.hmacKey keys.iv)).map fun pkt =>
      (C04.Ref.encode [.block ⟨.output, es, .print⟩] rand ⟨some (pkt.ciphertext ++ pkt.signature), none, none⟩
        C04.emptyReq).body

/-! ### sessions (vocabulary of the history theorem) -/

inductive Event
  /-- the client's check-in (`get_task` request) -/
  | checkin (rsaRand : C06.Rand) (rand : C04.Rand)
  /-- the server's answer: a task or nothing -/
  | task (t : Option Task) (rand : C04.Rand)
  /-- one POST with one or more callbacks `(callback id, data)` -/
  | callbacks (cbs : List (Nat × Bytes)) (rand : C04.Rand)

/-- the sending side: the client and the team server's view of the profile -/
structure Sender where
  client : Client
  /-- the statements of the server's `output` block -/
  serverEncs : List C04.Enc
  /-- headers the server adds to a response -/
  respHeaders : C04.Dict

/-- one message of a session: the object, the sender afterwards, the packets that were sent in it -/
def emit (c : Crypto) (s : Sender) : Event → X (C04.Http × Sender × List Item)
  | .checkin rr rand =>
    (getTaskRequest c s.client rr rand).map fun p =>
      (.request p.1, { s with client := p.2 }, [.metadata p.2.metadata])
  | .task t rand =>
    match t with
    | none => (serverBody c s.serverEncs s.client.keys none rand).map fun b => (.response s.respHeaders b, s, [])
    | some t =>
      match t.dumps with
      | .error e => .error e
      | .ok pt =>
        (serverBody c s.serverEncs s.client.keys (some pt) rand).map fun b =>
          (.response s.respHeaders b, s, [.task t])
  | .callbacks cbs rand =>
    (callbackRequest c s.client cbs rand).map fun p =>
      (.request p.1, { s with client := p.2 }, (callbackPackets s.client.counter cbs).map Item.callback)

/-- a whole history: the messages in order with the packets sent in each -/
def emitAll (c : Crypto) : Sender → List Event → X (List (C04.Http × List Item))
  | _, [] => .ok []
  | s, ev :: evs =>
    match emit c s ev with
    | .error e => .error e
    | .ok (h, s', items) => (emitAll c s' evs).map ((h, items) :: ·)

/-- the wire form of a message -/
def wireOf : C04.Http → Bytes
  | .request r => wireRequest r
  | .response hs b => wireResponse hs b

end C07

import CsVerif.Model.PyFile
import CsVerif.Model.C15
import CsVerif.Model.C09
import CsVerif.Model.C18
import CsVerif.Model.C02
import CsVerif.Model.C17
import CsVerif.Model.C16
import CsVerif.Model.C01
/-
C08 — untrusted input never crashes or hangs the parsers

A COMPOSITION of the finished models; nothing is re-modelled here.  The entry points of the library that accept
untrusted bytes, as `Py`-valued functions over `PyFile` (io.BytesIO / OS file opened "rb"):

  dissect/cobaltstrike/beacon.py     BeaconConfig.from_bytes / from_file / from_path        → `fromBytes` `fromFile` `fromPath`
  dissect/cobaltstrike/xordecode.py  XorEncodedFile.from_file                               → `xorEncodedFromFile`
  dissect/cobaltstrike/pe.py         find_mz_offset find_architecture find_compile_stamps
                                     find_magic_mz find_magic_pe find_stage_prepend_append  → `peFind*`
  dissect/cobaltstrike/artifact.py   iter_artifactkit_payloads (run to completion)          → `iterArtifactkitPayloads`
  dissect/cobaltstrike/c2.py         parse_raw_http                                         → `parseRawHttp`

Pieces used (read-only): `C15.iterFindNeedle` / `C15.iterArtifactkit` (block scan, ArtifactKit scan),
`C09.iterNonceOffsets` / `mk'` / `findMzOffset` / `candidates` through `C01.detectRun` (the XorEncoded detector),
`C01.pass` / `C01.leftKeys` (the two search phases and the all-keys retry of `iter_beacon_config_blocks`),
`C02.iterSettingsE` (`BeaconConfig.__init__`), `C17.fromFileFallback` (Guardrails fallback), the `C18` PE helpers,
`C16.parseRawHttp`.

Totality: every function below and every function it calls was accepted by Lean with a termination proof.
Two imported loops carry an explicit guard instead of a bare measure:
  * `C02.iterLoop` / `uaLoop` use fuel `remaining + 1`; `C02.iterSettingsE_eq` proves it always suffices;
  * `C01.scanLoop` / `countLoop` test `F.remaining s' < F.remaining s` and would answer `timeoutDiverge` otherwise;
    `C01.pass_spec` and `Lemmas/C08.lean` (`countLoop_ok`) prove the test never fails.
No other fuel exists; `Props/C08.lean` proves that `timeoutDiverge` (and every other non-ValueError) is unreachable.

The XorEncoded view.  After a successful detection at nonce offset `c`, `from_file` hands the *view* to
`pe.find_compile_stamps`, `pe.find_architecture` and `iter_guardrail_configs_with_beacon`.  C09 proves
(`history_refines`) that for every history of `seek`/`read`/`tell` whose seeks land at logical positions ≥ 0 the view
is indistinguishable from an ordinary file over the decoded bytes; those three clients only seek to non-negative
absolute offsets (proved for the PyFile models in `Lemmas/C08.lean`).  `viewFile` is that ordinary file, and the three
clients are run on it (the same modelling step as `Driver/C17.lean` `ffx`).  The block search itself runs on the real
view model (`C01.xorView`), with C01's simulation proof.
-/
namespace C08

/-- `io.DEFAULT_BUFFER_SIZE` -/
def BUF : Nat := 8192

/-- default `maxrange` of the `pe.find_*` helpers and of `XorEncodedFile.from_file` -/
def MAXRANGE : Nat := 1024

/-! ### `XorEncodedFile.from_file(fh)` -/

/-- `XorEncodedFile.from_file(fh)`; the value is the nonce offset of the returned view
(`ValueError("MZ header not found …")` when no candidate passes the MZ check). -/
def xorEncodedFromFile (B : Nat) (f : PyFile) : Py Nat :=
  match C01.detectRun B f with
  | .error e => .error e
  | .ok (some x, _) => .ok x.nonceOff
  | .ok (none, _) => .error .valueError

/-! ### `pe.find_*(fh)` with the default `start_offset=0, maxrange=1024` -/

def peFindMzOffset (f : PyFile) : Py (Option Nat) := .ok (C18.findMzOffset f (some 0) MAXRANGE).1

def peFindArchitecture (f : PyFile) : Py (Option C18.Arch) := .ok (C18.findArchitecture f (some 0) MAXRANGE).1

def peFindCompileStamps (f : PyFile) : Py (Option Int × Option Int) := (C18.findCompileStamps f (some 0) MAXRANGE).1

def peFindMagicMz (f : PyFile) : Py (Option Bytes) := .ok (C18.findMagicMz f (some 0) MAXRANGE).1

def peFindMagicPe (f : PyFile) : Py (Option Bytes) := (C18.findMagicPe f (some 0) MAXRANGE).1

def peFindStagePrependAppend (f : PyFile) : Py (Option Bytes × Option Bytes) :=
  (C18.findStagePrependAppend f (some 0) MAXRANGE).1

/-! ### `pe.find_stage_prepend_append` on a file object with a largest seekable offset

`PyFile.seekSet` accepts every non-negative offset.  A real file does not: `lseek` fails with EINVAL (→ `OSError`) for an
offset above the file system's largest file offset `L` (measured in the sandbox, ext4 with 4 KiB blocks:
`L = 2^44 - 4096`; tmpfs / xfs: `2^63 - 1`), and every file object raises `OverflowError` above `2^63 - 1`.  Every seek
argument of the anchored code is below `2^34` — except `fh.seek(mz_offset + size)` of `find_stage_prepend_append`, whose
`size` sums up to 65535 attacker-chosen `SizeOfRawData` dwords (≈ 2^48).

The code as it is now (fix ce8ae1d) wraps exactly that seek:

    try:
        fh.seek(mz_offset + size)
    except (OSError, OverflowError, ValueError):
        return (prepend, None)

`prependAppendAtG guarded seekFinal` is `C18.prependAppendAt` with that one seek as a parameter; `guarded = true` is the
code as it stands, `guarded = false` the code before the fix (kept for `Props/C08.lean` `…_refutes_old`).
`Lemmas/C08.lean` proves that instantiated with `PyFile.seekSet` both coincide with `C18.prependAppendAt`.
`seekL L` is the seek of a file object with limit `L`. -/

/-- `fh.seek(off)` where offsets above `L` are rejected: EINVAL → `OSError` on an OS file (file-system limit),
`OverflowError` on io.BytesIO (`L = 2^63 - 1`: Py_ssize_t) -/
def seekL (L : Nat) (f : PyFile) (off : Int) : Py (Nat × PyFile) :=
  if off > (L : Int) then
    match f.kind with
    | .osFile => .error .osError
    | .bytesIO => .error .overflowError
  else f.seekSet off

/-- `except (OSError, OverflowError, ValueError)` -/
def seekCaught (e : PyExc) : Bool := e = .osError || e = .overflowError || e = .valueError

open Gen.PeStruct C18 in
def prependAppendAtG (guarded : Bool) (seekFinal : PyFile → Int → Py (Nat × PyFile)) (f : PyFile) (mzOff : Nat) :
    Py (Option Bytes × Option Bytes) × PyFile :=
  let pf : Option Bytes × PyFile :=
    if mzOff > 0 then
      let r := (seekNat f 0).read mzOff
      (some r.1, r.2)
    else (none, f)
  let prepend := pf.1
  match readStruct (seekNat pf.2 mzOff) dosHeaderSize with
  | (none, f2) => (.ok (prepend, none), f2)
  | (some mz, f2) =>
    match f2.seekSet (fieldVal mz dosLfanew + (mzOff : Int) + 4) with
    | .error e => (.error e, f2)
    | .ok (_, f3) =>
      match readStruct f3 fileHeaderSize with
      | (none, f4) => (.ok (prepend, none), f4)
      | (some img, f4) =>
        let m := fieldVal img fhMachine
        if m = (machineAmd64 : Int) ∨ m = (machineI386 : Int) then
          let is64 := decide (m = (machineAmd64 : Int))
          match readStruct f4 (optSize is64) with
          | (none, f5) => (.ok (prepend, none), f5)
          | (some opt, f5) =>
            match readSections (fieldVal img fhNumberOfSections).toNat f5 with
            | (none, f6) => (.ok (prepend, none), f6)
            | (some secs, f6) =>
              match seekFinal f6 ((mzOff : Int) + totalSize opt is64 secs) with   -- try: fh.seek(mz_offset + size)
              | .error e =>
                if guarded && seekCaught e then (.ok (prepend, none), f6)         -- except (OSError, OverflowError, ValueError)
                else (.error e, f6)
              | .ok (_, f7) =>
                let r := f7.read 1024
                if r.1.isEmpty then (.ok (prepend, none), r.2)
                else (.ok (prepend, some (rstrip0 r.1)), r.2)
        else (.ok (prepend, none), f4)

/-- `pe.find_stage_prepend_append(fh)` with the final seek as a parameter (`guarded`: with / without the `try`) -/
def peFindStagePrependAppendG (guarded : Bool) (seekFinal : PyFile → Int → Py (Nat × PyFile)) (f : PyFile) :
    Py (Option Bytes × Option Bytes) :=
  match C18.findMzOffset f (some 0) MAXRANGE with
  | (none, _) => .ok (none, none)
  | (some mzOff, f1) => (prependAppendAtG guarded seekFinal f1 mzOff).1

/-- `pe.find_stage_prepend_append(fh)` (the code as it stands) on a file object that accepts offsets up to `L` -/
def peFindStagePrependAppendL (L : Nat) (f : PyFile) : Py (Option Bytes × Option Bytes) :=
  peFindStagePrependAppendG true (seekL L) f

/-- the same function BEFORE fix ce8ae1d (bare `fh.seek(mz_offset + size)`) -/
def peFindStagePrependAppendLOld (L : Nat) (f : PyFile) : Py (Option Bytes × Option Bytes) :=
  peFindStagePrependAppendG false (seekL L) f

/-- measured on the sandbox's ext4 (`open(p, "rb").seek(2**44 - 4096)` succeeds, `seek(2**44 - 4095)` is EINVAL) -/
def ext4MaxOffset : Nat := 2 ^ 44 - 4096

/-! ### `list(iter_artifactkit_payloads(fobj))` -/

def iterArtifactkitPayloads (f : PyFile) : Py (List C15.Hit) :=
  match C15.iterArtifactkit f (some 0) none with
  | .error e => .error e
  | .ok (hits, _) => .ok hits

/-! ### `parse_raw_http(data)` -/

def parseRawHttp (data : Bytes) : Py C16.Msg := C16.parseRawHttp data

/-! ### `BeaconConfig.from_file` -/

/-- what `from_file` returns, as far as the caller can observe it on the new object -/
structure Extracted where
  /-- `bconfig.guardrails is not None` -/
  guardrails : Bool
  xorkey : Bytes
  xorencoded : Bool
  block : Bytes
  settings : List C02.Setting
  compileStamp : Option Int
  exportStamp : Option Int
  arch : Option C18.Arch
  deriving DecidableEq, Repr

/-- the ordinary file the XorEncoded view at nonce offset `c` refines (C09 `history_refines`) -/
def viewFile (f : PyFile) (c : Nat) : PyFile := { data := C01.decodedView f.data c, pos := 0, kind := f.kind }

/-- `try: XorEncodedFile.from_file(fobj) except ValueError: fobj` -/
def fhFor (f : PyFile) (det : Option Nat) : PyFile :=
  match det with
  | some c => viewFile f c
  | none => f

/-- `bconfig.pe_compile_stamp, bconfig.pe_export_stamp = pe.find_compile_stamps(fh)`
    `bconfig.architecture = pe.find_architecture(fh)` -/
def peArtifacts (fh : PyFile) : Py ((Option Int × Option Int) × Option C18.Arch) :=
  match C18.findCompileStamps fh (some 0) MAXRANGE with
  | (.error e, _) => .error e
  | (.ok st, fh1) => .ok (st, (C18.findArchitecture fh1 (some 0) MAXRANGE).1)

/-- `bconfig = cls(config_block)` followed by the metadata assignments and the PE artifacts -/
def finish (guard : Bool) (xorkey : Bytes) (xorenc : Bool) (block : Bytes) (fh : PyFile) : Py Extracted :=
  match C02.iterSettingsE block with                       -- self.settings_tuple = tuple(iter_settings(config_block))
  | .error e => .error e
  | .ok ss =>
    match peArtifacts fh with
    | .error e => .error e
    | .ok (st, arch) =>
      .ok { guardrails := guard, xorkey := xorkey, xorencoded := xorenc, block := block, settings := ss,
            compileStamp := st.1, exportStamp := st.2, arch := arch }

/-- `next(iter_beacon_config_blocks(fobj, xor_keys, all_xor_keys=…), None)`: the first yielded block, if any.
`det` = answer of the detector, `failPos` = where a failing detection leaves `fobj` (the 4-gram counter of the
all-keys retry reads from there).  An exception raised before the first yield propagates. -/
def search (B : Nat) (f : PyFile) (ks : List Bytes) (allKeys : Bool) (det : Option Nat) (failPos : Nat) :
    Py (Option C01.Result) :=
  let first := C01.pass B f (C01.effKeys ks) true det
  match first.1 with
  | y :: _ => .ok (some y)
  | [] =>
    match first.2 with
    | some e => .error e
    | none =>
      if allKeys then                                       -- if not found and all_xor_keys:
        match C01.leftKeys B f det failPos ks with
        | .error e => .error e
        | .ok left =>
          let second := C01.pass B f (C01.effKeys left) true det
          match second.1 with
          | y :: _ => .ok (some y)
          | [] =>
            match second.2 with
            | some e => .error e
            | none => .ok none
      else .ok none

/-- `BeaconConfig.from_file(fobj, xor_keys, all_xor_keys)` -/
def fromFile (B : Nat) (f : PyFile) (ks : List Bytes) (allKeys : Bool) : Py Extracted :=
  match C01.detectRun B f with                              -- XorEncodedFile.from_file(fobj) (inside try/except ValueError)
  | .error e => .error e
  | .ok (dx, fFail) =>
    let det := dx.map (·.nonceOff)
    match search B f ks allKeys det fFail.pos with
    | .error e => .error e
    | .ok (some y) =>
      -- fh = XorEncodedFile.from_file(fobj) if bconfig.xorencoded else fobj   (except ValueError: fh = fobj)
      finish false y.xorkey y.xorencoded y.block (if y.xorencoded then fhFor f det else f)
    | .ok none =>
      let fxor := fhFor f det                               -- try: fxor = XorEncodedFile.from_file(fobj) except ValueError: fxor = fobj
      match C17.fromFileFallback fxor B with                -- for grconfig in iter_guardrail_configs_with_beacon(fxor): …
      | .error e => .error e                                -- raise ValueError("No valid Beacon configuration found")
      | .ok m =>
        match m.unmaskedBeaconConfig with
        | some cfg => finish true m.beaconXorKey false cfg fxor
        | none => .error .valueError

/-- `BeaconConfig.from_bytes(data, …)` = `from_file(io.BytesIO(data), …)` -/
def fromBytes (B : Nat) (data : Bytes) (ks : List Bytes) (allKeys : Bool) : Py Extracted :=
  fromFile B { data := data, pos := 0, kind := .bytesIO } ks allKeys

/-- `BeaconConfig.from_path(path, …)` = `with open(path, "rb") as fobj: from_file(fobj, …)` on a file holding `data` -/
def fromPath (B : Nat) (data : Bytes) (ks : List Bytes) (allKeys : Bool) : Py Extracted :=
  fromFile B { data := data, pos := 0, kind := .osFile } ks allKeys

end C08

import CsVerif.Model.C13
import CsVerif.Model.PyUShow
import CsVerif.Gen.PyC2Prof
import CsVerif.Gen.PyC2Gen
/-!
C13 — glue between the hand-written model (`Model/C13.lean`) and the definitions translated from the source of
`C2Profile.from_beacon_config` (`Gen/PyC2Gen.lean`, untyped translator, plug-in `tools/gen/py_c2gen.py`).

* the encoding of the model's types as Python values: pretty values (`encPVal`), `config.uris` (`encUris`), the configuration
  object (`encConfig`: an instance with the attributes `settings_by_index` — a dict from setting numbers to pretty values —
  and `uris`), Lark trees (`encForest`: `Tree(data, children)` = `V.inst TreeCls [data, V.list children]`,
  `Token(type, value)` = `V.inst Gen.PyC2Prof.Token [type, value]`); a block object is the value of its `tree.children`
  list (`encBlock`);
* the EXTERNAL functions of the translated definitions — the builder API of c2profile.py (`ConfigBlock.set_option`, `_pair`,
  `_enable`, `set_config_block`, `set_non_empty_config_block`, `C2Profile.set_option`, the constructors,
  `DataTransformBlock(steps=…)`, `HttpOptionsBlock(output=…)`, `BeaconGateBlock.from_beacon_gate_option_strings`) —
  instantiated with the builder functions of the C13 model, written on values (`xSetOption`, …).  `value_to_string` inside them
  is the TRANSLATED `Gen.PyC2Prof.value_to_string` (proved equal to the C12 model in `Props/C12Gen.lean`);
  `DataTransformBlock.__init__` is the model's `dtKids` on the decoded step list.  These instantiations are tied to the real
  builder classes by correspondence only (the `g-*` streams; C11's subject / another translation unit);
* `fromBeaconConfigG`: the translated `from_beacon_config` with these instantiations.

Used by the driver (`g-*` streams) and by `Props/C13Gen.lean`.
-/
namespace C13Gen
open PyU (V)
open C13

/-! ### encodings -/

/-- `lark.Tree` as an object with the attributes `data` and `children` -/
def TreeCls : PyU.Cls := { cid := 7301, fields := ["data", "children"], isTuple := false, bases := [] }

/-- `Tree(data, children)` -/
def treeV (label : V) (kids : List V) : V := .inst TreeCls [label, .list kids]

/-- `Token(type, value)` -/
def tokenV (ty : String) (text : V) : V := .inst Gen.PyC2Prof.Token [PyU.lit ty, text]

/-- latin-1 text (the model's `Bytes`) as the `str` with the same numbers -/
def txt (s : Bytes) : V := .str (s.map (·.toNat))

/-- a tree label: a `str` or `None` -/
def encLabel : Option Bytes → V
  | some l => txt l
  | Option.none => .none

/-- the children list of a block -/
def encForest : PForest → List V
  | .nil => []
  | .tok o t r => tokenV (if o then "OPTION" else "STRING") (txt t) :: encForest r
  | .node l k r => treeV (encLabel l) (encForest k) :: encForest r

/-- a block object, as far as the generator looks at it: its `tree.children` -/
def encBlock (f : PForest) : V := .list (encForest f)

def encTStep : TStep → V
  | .build a => .tuple [PyU.lit "BUILD", txt a]
  | .en e => .tuple [txt e.pyName, .bool true]
  | .arg a v => .tuple [txt a.pyName, .bytes v]
  | .static s v => .tuple [txt s.pyName, .bytes v]

def encRStep : RStep → V
  | .append n => .tuple [PyU.lit "append", .int n]
  | .prepend n => .tuple [PyU.lit "prepend", .int n]
  | .base64 => .tuple [PyU.lit "base64", .bool true]
  | .print => .tuple [PyU.lit "print", .bool true]
  | .netbios => .tuple [PyU.lit "netbios", .bool true]
  | .netbiosu => .tuple [PyU.lit "netbiosu", .bool true]
  | .base64url => .tuple [PyU.lit "base64url", .bool true]
  | .mask => .tuple [PyU.lit "mask", .bool true]

/-- an execute item: the model holds the UTF-8 bytes of the Python `str` (bytes that are not UTF-8 denote no `str`; the
driver never meets them — `parse_execute_list` raises there — and shows them as latin-1) -/
def encExecItem : Option Bytes → V
  | Option.none => .none
  | some s =>
    match PyU.utf8 s with
    | .ok cs => .str cs
    | .error _ => txt s

def encInj (p : Bool × Bytes) : V := .tuple [PyU.lit (if p.1 then "prepend" else "append"), .bytes p.2]

def encPVal : PVal → V
  | .int n => .int n
  | .str s => txt s
  | .bytes v => .bytes v
  | .none => .none
  | .transform l => .list (l.map encTStep)
  | .recover l => .list (l.map encRStep)
  | .execute l => .list (l.map encExecItem)
  | .inj l => .list (l.map encInj)
  | .gate l => .list (l.map txt)

def encUri : Option Bytes → V
  | some s => txt s
  | Option.none => .none

def encUris (uris : List (Option Bytes)) : V := .list (uris.map encUri)

/-- `config.settings_by_index`: keys are the setting numbers (plain `int`s), values the pretty values -/
def encSettings (cfg : List (Nat × PVal)) : V := .dict (cfg.map fun kv => .int kv.1) (cfg.map fun kv => encPVal kv.2)

def encConfig (cfg : List (Nat × PVal)) (uris : List (Option Bytes)) : V :=
  .inst Gen.PyC2Gen.BeaconConfigCls [encSettings cfg, encUris uris]

/-! ### the builder API on values -/

/-- `Tree("string", [Token("STRING", s)])` -/
def strNode (s : V) : V := treeV (PyU.lit "string") [tokenV "STRING" s]

/-- `Cls()` for every block class: no children yet -/
def xNew : Py V := .ok (.list [])

/-- `ConfigBlock.set_option(option, value)` -/
def xSetOption (blk opt val : V) : Py V := do
  let s ← Gen.PyC2Prof.value_to_string val
  PyU.append blk (treeV opt [strNode s])

/-- `C2Profile.set_option(option, value)` -/
def xProfSetOption (blk opt val : V) : Py V := do
  let s ← Gen.PyC2Prof.value_to_string val
  PyU.append blk (treeV (PyU.lit "option") [tokenV "OPTION" opt, strNode s])

/-- `ConfigBlock._enable(option, value)` -/
def xEnable (blk opt _val : V) : Py V := PyU.append blk (treeV opt [])

def xPairStep (opt : V) (p : V) (st : V) : Py (PyU.Ctl × V) := do
  let ab ← PyU.unpack2 p
  let a ← Gen.PyC2Prof.value_to_string ab.1
  let b ← Gen.PyC2Prof.value_to_string ab.2
  let st' ← PyU.append st (treeV opt [strNode a, strNode b])
  pure (.cont, st')

/-- `ConfigBlock._pair(option, value)` -/
def xPair (blk opt pairs : V) : Py V := do
  let items ← PyU.iterList pairs
  PyU.forList items (xPairStep opt) blk

/-- `ConfigBlock.set_config_block(option, config_block)`: `Tree(option, config_block.tree.children)` is appended -/
def xSetConfigBlock (blk opt child : V) : Py V :=
  match child with
  | .list kids => PyU.append blk (treeV opt kids)
  | _ => .error .attributeError

/-- `ConfigBlock.set_non_empty_config_block(option, config_block)` -/
def xSetNonEmpty (blk opt child : V) : Py V :=
  if PyU.truthy child then xSetConfigBlock blk opt child else .ok blk

/-- `HttpOptionsBlock(output=child)`: `init_kwargs` files a `ConfigBlock` value with `set_config_block` -/
def xHttpOptionsOutput (child : V) : Py V := xSetConfigBlock (.list []) (PyU.lit "output") child

def xGateStep (o : V) (st : V) : Py (PyU.Ctl × V) := do
  let l ← PyU.lower o
  let st' ← PyU.append st (treeV l [])
  pure (.cont, st')

/-- `BeaconGateBlock.from_beacon_gate_option_strings(options)` -/
def xGate (options : V) : Py V := do
  let items ← PyU.iterList options
  PyU.forList items xGateStep (.list [])

def decName : V → Option Bytes
  | .str s => if s.all (· < 256) then some (s.map UInt8.ofNat) else Option.none
  | _ => Option.none

def decArg : V → Option DArg
  | .bytes v => some (.bytes v)
  | .str s => if s.all (· < 256) then some (.str (s.map UInt8.ofNat)) else Option.none
  | _ => Option.none

def decDOpt : V → Option DOpt
  | .str s => (decName (.str s)).map .bare
  | .tuple [n, a] =>
    match decName n, decArg a with
    | some n, some a => some (.pair n a)
    | _, _ => Option.none
  | _ => Option.none

/-- `DataTransformBlock(steps=…)`: the model's `dtKids` on the step list (items: a latin-1 `str`, or a pair of a name and a
`bytes` / latin-1 `str` argument); any other argument is outside the modelled domain (TypeError as a marker) -/
def xDataTransform (steps : V) : Py V :=
  match steps with
  | .list l =>
    match l.mapM decDOpt with
    | some ds => .ok (encBlock (dtKids ds))
    | Option.none => .error .typeError
  | _ => .error .typeError

/-- the translated `C2Profile.from_beacon_config` with the builder API instantiated -/
def fromBeaconConfigV (config : V) : Py V :=
  Gen.PyC2Gen.from_beacon_config (ConfigBlock_new := xNew) (C2Profile_set_option := xProfSetOption)
    (ConfigBlock_set_option := xSetOption) (ConfigBlock_pair := xPair) (DataTransformBlock_steps := xDataTransform)
    (ConfigBlock_set_config_block := xSetConfigBlock) (ConfigBlock_enable := xEnable)
    (BeaconGateBlock_from_option_strings := xGate) (HttpOptionsBlock_output := xHttpOptionsOutput)
    (ConfigBlock_set_non_empty_config_block := xSetNonEmpty) config

/-- … on the encoding of a model configuration: the children of the root -/
def fromBeaconConfigG (cfg : List (Nat × PVal)) (uris : List (Option Bytes)) : Py V :=
  fromBeaconConfigV (encConfig cfg uris)


/-! ### the translated definitions with the builder API instantiated, and the encodings their theorems are stated on -/

def domainsG (config blk : V) : Py V :=
  Gen.PyC2Gen.branch_SETTING_DOMAINS (ConfigBlock_set_option := xSetOption) config blk

def recoverG (value : V) : Py V := Gen.PyC2Gen.branch_SETTING_C2_RECOVER value

def requestG (blk value : V) : Py V :=
  Gen.PyC2Gen.branch_SETTING_C2_REQUEST (ConfigBlock_pair := xPair) (DataTransformBlock_steps := xDataTransform)
    (ConfigBlock_set_config_block := xSetConfigBlock) blk value

def postreqG (blk value : V) : Py V :=
  Gen.PyC2Gen.branch_SETTING_C2_POSTREQ (ConfigBlock_pair := xPair) (DataTransformBlock_steps := xDataTransform)
    (ConfigBlock_set_config_block := xSetConfigBlock) blk value

def permsIG (blk value : V) : Py V :=
  Gen.PyC2Gen.branch_SETTING_PROCINJ_PERMS_I (ConfigBlock_set_option := xSetOption) blk value

def permsG (blk value : V) : Py V :=
  Gen.PyC2Gen.branch_SETTING_PROCINJ_PERMS (ConfigBlock_set_option := xSetOption) blk value

def injX86G (blk value : V) : Py V :=
  Gen.PyC2Gen.branch_SETTING_PROCINJ_TRANSFORM_X86 (ConfigBlock_new := xNew) (ConfigBlock_set_option := xSetOption)
    (ConfigBlock_set_config_block := xSetConfigBlock) blk value

def injX64G (blk value : V) : Py V :=
  Gen.PyC2Gen.branch_SETTING_PROCINJ_TRANSFORM_X64 (ConfigBlock_new := xNew) (ConfigBlock_set_option := xSetOption)
    (ConfigBlock_set_config_block := xSetConfigBlock) blk value

def executeG (blk value : V) : Py V :=
  Gen.PyC2Gen.branch_SETTING_PROCINJ_EXECUTE (ConfigBlock_new := xNew) (ConfigBlock_set_option := xSetOption)
    (ConfigBlock_enable := xEnable) (ConfigBlock_set_config_block := xSetConfigBlock) blk value

def gateG (blk value : V) : Py V :=
  Gen.PyC2Gen.branch_SETTING_BEACON_GATE (BeaconGateBlock_from_option_strings := xGate)
    (ConfigBlock_set_config_block := xSetConfigBlock) blk value

/-- the loop variables of `from_beacon_config`: `(profile, http_get, http_post, stage, c2_recover, http_get_client,
http_post_client, proc_inj, dns_beacon, http_beacon)` -/
abbrev LoopSt := V × V × V × V × V × V × V × V × V × V

/-- one run of the body of the settings loop (`item` = `(setting, value)`) -/
def settingsStepG (config item : V) (st : LoopSt) : Py (PyU.Ctl × LoopSt) :=
  Gen.PyC2Gen.from_beacon_config_loop1 (ConfigBlock_new := xNew) (C2Profile_set_option := xProfSetOption)
    (ConfigBlock_set_option := xSetOption) (ConfigBlock_pair := xPair) (DataTransformBlock_steps := xDataTransform)
    (ConfigBlock_set_config_block := xSetConfigBlock) (ConfigBlock_enable := xEnable)
    (BeaconGateBlock_from_option_strings := xGate) (HttpOptionsBlock_output := xHttpOptionsOutput)
    (ConfigBlock_set_non_empty_config_block := xSetNonEmpty) config item st

def encDArg : DArg → V
  | .bytes v => .bytes v
  | .str s => txt s

/-- an element of the `steps` list handed to `DataTransformBlock` -/
def encDOpt : DOpt → V
  | .bare n => txt n
  | .pair n a => .tuple [txt n, encDArg a]

def encDOpts (l : List DOpt) : V := .list (l.map encDOpt)

/-- the state of the model's settings loop as the loop variables of the translated one -/
def encSt (st : St) : LoopSt :=
  (encBlock (st.f .profile), encBlock (st.f .httpGet), encBlock (st.f .httpPost), encBlock (st.f .stage), encDOpts st.recover,
   encBlock (st.f .getClient), encBlock (st.f .postClient), encBlock (st.f .procInj), encBlock (st.f .dns), encBlock (st.f .httpBeacon))

/-- the part of an execute item behind its first space starts and ends with a one-byte character (or has at most one byte): then
dropping the first and the last CHARACTER (`val[1:-1]` on the `str`) and dropping the first and the last BYTE (the model) agree.
True of every item `parse_execute_list` writes (the part is `"…"`). -/
def execSliceOK (s : Bytes) : Bool :=
  let r := (partition2 [32] s).2
  r.length ≤ 1 || ((r.head?.getD 0) < 128 && (r.getLast?.getD 0) < 128)

/-- an execute item of the model (UTF-8 bytes) denotes a `str` (valid UTF-8: it is then the encoding of that `str`,
`PyU.utf8Enc_utf8`), and `execSliceOK` -/
def execItemOK : Option Bytes → Bool
  | Option.none => true
  | some s =>
    match PyU.utf8 s with
    | .ok _ => execSliceOK s
    | .error _ => false

/-- an execute item is valid UTF-8 (it denotes a `str`) -/
def utf8ItemOK : Option Bytes → Bool
  | Option.none => true
  | some s =>
    match PyU.utf8 s with
    | .ok _ => true
    | .error _ => false

/-- the execute items of a setting are valid UTF-8 -/
def execUtf8OK (kv : Nat × PVal) : Bool :=
  match kv.2 with
  | .execute l => l.all utf8ItemOK
  | _ => true

/-- the value a branch of the chain sees: `settings_value` (the statements in front of the chain) has encoded a `str` to `bytes` -/
def preV : PVal → V
  | .str s => .bytes s
  | v => encPVal v

/-- what the translated definition needs of a pretty value to stay inside the domain the model describes (the model answers
`TypeError` as an out-of-domain marker elsewhere): the shape the branch expects; BeaconGate names ASCII (`str.lower`);
execute items valid UTF-8 -/
def shapeOK (kv : Nat × PVal) : Bool :=
  match actionOf kv.1 kv.2, kv.2 with
  | .profOpt _, v => (vts v).isSome
  | .blkOpt _ _, v => (vts v).isSome
  | .recover, .recover _ => true
  | .recover, _ => false
  | .request _, .transform _ => true
  | .request _, _ => false
  | .injT _, .inj _ => true
  | .injT _, _ => false
  | .execute, .execute l => l.all execItemOK
  | .execute, _ => false
  | .gate, .gate l => l.all fun s => s.all (· < 128)
  | .gate, _ => false
  | _, _ => true

/-! ### driver plumbing: a profile tree held in a value, in the notation of `C13.showTree` -/

def showLabelV : V → String
  | .none => "N"
  | .str cs => Hex.encode (cs.map UInt8.ofNat)
  | _ => "?"

/-- `fuel`: nesting depth still allowed (trees of the generator are at most 6 deep) -/
def showKidsV : Nat → List V → List String
  | 0, _ => ["?"]
  | fuel + 1, vs => vs.flatMap fun v =>
    match v with
    | .inst c [l, .list ks] =>
      if c.cid == TreeCls.cid then s!"n{showLabelV l}:{ks.length}" :: showKidsV fuel ks else ["?"]
    | .inst c [.str ty, .str t] =>
      if c.cid == Gen.PyC2Prof.Token.cid then ((if ty == PyU.cps "OPTION" then "o" else "s") ++ Hex.encode (t.map UInt8.ofNat)) :: [] else ["?"]
    | _ => ["?"]

/-- the root `Tree("start", children)` -/
def showRootV : V → String
  | .list ks => " ".intercalate (s!"n{Hex.encode (C13.b "start")}:{ks.length}" :: showKidsV 16 ks)
  | _ => "?"

/-- the class descriptors of the unit, by `cid` (value notation of the `gargs` lines) -/
def clsOf (cid : Nat) : Option PyU.Cls :=
  if cid == TreeCls.cid then some TreeCls
  else if cid == Gen.PyC2Prof.Token.cid then some Gen.PyC2Prof.Token
  else none

end C13Gen

import CsVerif.Model.Basic
import CsVerif.Gen.C16Unicode
/-
C16 — raw HTTP parsing (dissect/cobaltstrike/c2.py `parse_raw_http`, lines 199-240, as repaired by
ca5bfc1 (`urlsplit`), cda9ed0 (empty header lines skipped) and 5b05344 (parameters unquoted through
latin-1, so `%80`..`%FF` survive)).

Everything is over `Bytes`.  CPython built-ins are modelled, not verified (see the harness streams
that exercise each of them): `bytes.partition/split/rstrip/upper/startswith`, `bytes.decode` (UTF-8
strict, ASCII ignore), `int(str)`, `urllib.parse.urlsplit` (bytes argument) / `parse_qsl` (str argument,
`encoding="latin-1"`) of Python 3.12.1, `ipaddress.ip_address` (validity of a bracketed IPv6 host), `dict`.
Every raising primitive is an explicit `Except` branch; the only exception class that can come out
is `ValueError` (`UnicodeDecodeError` is a subclass).
-/
namespace C16

def CRLF : Bytes := [13, 10]
def CRLFCRLF : Bytes := [13, 10, 13, 10]

/-! ### bytes.partition(sep)  (sep non-empty; first occurrence) -/

/-- `some (before, after)` for the first occurrence of `sep`, `none` when `sep` does not occur. -/
def partitionAt (sep : Bytes) : Bytes → Option (Bytes × Bytes)
  | [] => none
  | b :: rest =>
    if sep.isPrefixOf (b :: rest) then some ([], (b :: rest).drop sep.length)
    else (partitionAt sep rest).map fun p => (b :: p.1, p.2)

/-- `(data.partition(sep)[0], data.partition(sep)[2])` -/
def partition (sep data : Bytes) : Bytes × Bytes :=
  match partitionAt sep data with
  | some p => p
  | none => (data, [])

/-! ### bytes.split(b"\r\n")  (left to right, non-overlapping) -/

def splitCRLFGo : Bytes → Bytes → List Bytes
  | [], cur => [cur]
  | [b], cur => [cur ++ [b]]
  | a :: b :: rest, cur =>
    if a = 13 ∧ b = 10 then cur :: splitCRLFGo rest []
    else splitCRLFGo (b :: rest) (cur ++ [a])

def splitCRLF (data : Bytes) : List Bytes := splitCRLFGo data []

/-! ### single-byte split / partition -/

/-- `s.split(c, 1)` when `c` occurs (`some (before, after)`), `none` otherwise. -/
def cutAt (c : UInt8) : Bytes → Option (Bytes × Bytes)
  | [] => none
  | b :: rest => if b = c then some ([], rest) else (cutAt c rest).map fun p => (b :: p.1, p.2)

/-- `(s.partition(c)[0], s.partition(c)[2])` -/
def partitionByte (c : UInt8) (s : Bytes) : Bytes × Bytes :=
  match cutAt c s with
  | some p => p
  | none => (s, [])

def splitByteGo (c : UInt8) : Bytes → Bytes → List Bytes
  | [], cur => [cur]
  | b :: rest, cur => if b = c then cur :: splitByteGo c rest [] else splitByteGo c rest (cur ++ [b])

/-- `s.split(c)` for a one-byte separator (`b"".split(c) == [b""]`). -/
def splitByte (c : UInt8) (s : Bytes) : List Bytes := splitByteGo c s []

/-! ### bytes.split() / rstrip() : ASCII whitespace = space \t \n \v \f \r -/

def isWs (b : UInt8) : Bool := b == 32 || (9 ≤ b && b ≤ 13)

def splitWsGo : Bytes → Bytes → List Bytes
  | [], cur => if cur.isEmpty then [] else [cur]
  | b :: rest, cur =>
    if isWs b then (if cur.isEmpty then splitWsGo rest [] else cur :: splitWsGo rest [])
    else splitWsGo rest (cur ++ [b])

/-- `bytes.split()` -/
def splitWs (s : Bytes) : List Bytes := splitWsGo s []

/-- `bytes.rstrip()` -/
def rstrip (s : Bytes) : Bytes := (s.reverse.dropWhile isWs).reverse

/-! ### upper().startswith(b"HTTP/") -/

def upByte (b : UInt8) : UInt8 := if 97 ≤ b ∧ b ≤ 122 then b - 32 else b
def lowByte (b : UInt8) : UInt8 := if 65 ≤ b ∧ b ≤ 90 then b + 32 else b
def upper (s : Bytes) : Bytes := s.map upByte
def lower (s : Bytes) : Bytes := s.map lowByte

def HTTPslash : Bytes := [72, 84, 84, 80, 47]

def startsWithHTTP (s : Bytes) : Bool := HTTPslash.isPrefixOf (upper s)

/-! ### dict semantics on association lists -/

/-- `d[k] = v`: an existing key keeps its position and gets the new value. -/
def dictSet : List (Bytes × Bytes) → Bytes → Bytes → List (Bytes × Bytes)
  | [], k, v => [(k, v)]
  | (k', v') :: rest, k, v => if k' = k then (k', v) :: rest else (k', v') :: dictSet rest k v

/-- `dict(pairs)` -/
def dictOfList (ps : List (Bytes × Bytes)) : List (Bytes × Bytes) :=
  ps.foldl (fun d p => dictSet d p.1 p.2) []

def colonSpace : Bytes := [58, 32]

/-- the header loop: empty lines skipped, `key, _, value = header.partition(b": ")`. -/
def headerPairs (lines : List Bytes) : List (Bytes × Bytes) :=
  (lines.filter (fun l => !l.isEmpty)).map (partition colonSpace)

def parseHeaders (headerData : Bytes) : List (Bytes × Bytes) :=
  dictOfList (headerPairs (splitCRLF headerData))

/-! ### int(status.decode()) -/

def isCont (b : UInt8) : Bool := 0x80 ≤ b && b ≤ 0xBF

/-- `bytes.decode("utf-8")`, strict: shortest form only, no surrogates, ≤ U+10FFFF. -/
def utf8Decode : Bytes → Option (List Nat)
  | [] => some []
  | b0 :: rest =>
    if b0 < 0x80 then (utf8Decode rest).map (b0.toNat :: ·)
    else if 0xC2 ≤ b0 ∧ b0 ≤ 0xDF then
      match rest with
      | b1 :: r1 =>
        if isCont b1 then
          (utf8Decode r1).map (((b0.toNat - 0xC0) * 64 + (b1.toNat - 0x80)) :: ·)
        else none
      | _ => none
    else if 0xE0 ≤ b0 ∧ b0 ≤ 0xEF then
      match rest with
      | b1 :: b2 :: r2 =>
        if isCont b1 && isCont b2 && (b0 != 0xE0 || 0xA0 ≤ b1) && (b0 != 0xED || b1 ≤ 0x9F) then
          (utf8Decode r2).map
            (((b0.toNat - 0xE0) * 4096 + (b1.toNat - 0x80) * 64 + (b2.toNat - 0x80)) :: ·)
        else none
      | _ => none
    else if 0xF0 ≤ b0 ∧ b0 ≤ 0xF4 then
      match rest with
      | b1 :: b2 :: b3 :: r3 =>
        if isCont b1 && isCont b2 && isCont b3 && (b0 != 0xF0 || 0x90 ≤ b1) && (b0 != 0xF4 || b1 ≤ 0x8F) then
          (utf8Decode r3).map
            (((b0.toNat - 0xF0) * 262144 + (b1.toNat - 0x80) * 4096 + (b2.toNat - 0x80) * 64
              + (b3.toNat - 0x80)) :: ·)
        else none
      | _ => none
    else none

/-- `Py_ISSPACE` (C locale): what `PyLong_FromString` skips around the literal. -/
def isAsciiSpaceN (c : Nat) : Bool := c == 32 || (9 ≤ c && c ≤ 13)

/-- `Py_UNICODE_TODECIMAL` via the generated table of zero digits. -/
def decimalOf (c : Nat) : Option Nat :=
  (Gen.decimalZeros.find? fun z => z ≤ c && c < z + 10).map (c - ·)

/-- `_PyUnicode_TransformDecimalAndSpaceToASCII`, per code point: below 127 unchanged, Unicode
spaces become `' '`, Unicode decimal digits their ASCII digit, anything else `'?'`. -/
def toAsciiDigitSpace (c : Nat) : Nat :=
  if c < 127 then c
  else if Gen.unicodeSpaces.contains c then 32
  else match decimalOf c with
    | some d => 48 + d
    | none => 63

def isDigitN (c : Nat) : Bool := 48 ≤ c && c ≤ 57
def isDigitOrUnderscoreN (c : Nat) : Bool := isDigitN c || c == 95

def hasDoubleUnderscore : List Nat → Bool
  | 95 :: 95 :: _ => true
  | _ :: rest => hasDoubleUnderscore rest
  | [] => false

/-- `sys.get_int_max_str_digits()` default. -/
def maxStrDigits : Nat := 4300

def decimalValueN (ds : List Nat) : Nat := ds.foldl (fun a d => a * 10 + (d - 48)) 0

/-- `PyLong_FromString(s, base=10)` on the transformed ASCII text: optional surrounding ASCII
whitespace, optional sign, digits with single underscores strictly between digits, at most
`maxStrDigits` digits.  (`parseDecimalBody`: after whitespace and sign.) -/
def parseDecimalBody (neg : Bool) (s2 : List Nat) : Py Int :=
  let run := s2.takeWhile isDigitOrUnderscoreN
  let rest := s2.dropWhile isDigitOrUnderscoreN
  let ds := run.filter (· != 95)
  if run.head? == some 95 || run.getLast? == some 95 || hasDoubleUnderscore run then .error .valueError
  else if ds.isEmpty || ds.length > maxStrDigits then .error .valueError
  else if !(rest.dropWhile isAsciiSpaceN).isEmpty then .error .valueError
  else .ok (if neg then -(decimalValueN ds : Int) else (decimalValueN ds : Int))

def parseDecimal (s : List Nat) : Py Int :=
  let s1 := s.dropWhile isAsciiSpaceN
  parseDecimalBody (s1.head? == some 45)
    (if s1.head? == some 43 || s1.head? == some 45 then s1.drop 1 else s1)

/-- `int(str)` on code points -/
def pyIntOfStr (cps : List Nat) : Py Int := parseDecimal (cps.map toAsciiDigitSpace)

/-- `int(status.decode())` -/
def pyIntOfBytes (b : Bytes) : Py Int :=
  match utf8Decode b with
  | none => .error .valueError
  | some cps => pyIntOfStr cps

/-! ### urllib.parse.urlsplit (3.12.1) on an ASCII bytes argument -/

/-- `uri.decode("ascii", errors="ignore").encode()` -/
def asciiIgnore (b : Bytes) : Bytes := b.filter (· < 0x80)

/-- `url.lstrip(_WHATWG_C0_CONTROL_OR_SPACE)` -/
def lstripC0 (u : Bytes) : Bytes := u.dropWhile (· ≤ 0x20)

/-- removal of `_UNSAFE_URL_BYTES_TO_REMOVE` (tab, CR, LF) anywhere -/
def removeUnsafe (u : Bytes) : Bytes := u.filter fun b => !(b == 9 || b == 13 || b == 10)

def isAlpha (b : UInt8) : Bool := (65 ≤ b && b ≤ 90) || (97 ≤ b && b ≤ 122)
def isDigit (b : UInt8) : Bool := 48 ≤ b && b ≤ 57
def isSchemeChar (b : UInt8) : Bool := isAlpha b || isDigit b || b == 43 || b == 45 || b == 46
def isHex (b : UInt8) : Bool := isDigit b || (65 ≤ b && b ≤ 70) || (97 ≤ b && b ≤ 102)

/-- scheme detection: `i = url.find(':')`, `i > 0`, first char an ASCII letter, all of `url[:i]` in
`scheme_chars` ⇒ `(url[:i].lower(), url[i+1:])`, else `("", url)`. -/
def splitScheme (url : Bytes) : Bytes × Bytes :=
  match cutAt 58 url with
  | some (c :: pre, post) =>
    if isAlpha c && (c :: pre).all isSchemeChar then (lower (c :: pre), post) else ([], url)
  | _ => ([], url)

def isNetlocDelim (b : UInt8) : Bool := b == 47 || b == 63 || b == 35

/-- `_splitnetloc(url, 2)` -/
def splitNetloc (url : Bytes) : Bytes × Bytes :=
  let u := url.drop 2
  (u.takeWhile (fun b => !isNetlocDelim b), u.dropWhile (fun b => !isNetlocDelim b))

/-- `IPv4Address._parse_octet` succeeds -/
def validOctet (o : Bytes) : Bool :=
  !o.isEmpty && o.all isDigit && o.length ≤ 3 && (o == [48] || o.head? != some 48)
    && decimalValueN (o.map (·.toNat)) ≤ 255

/-- `IPv4Address(s)` succeeds (`s` without `/`) -/
def isIPv4 (s : Bytes) : Bool :=
  !s.isEmpty && (splitByte 46 s).length == 4 && (splitByte 46 s).all validOctet

/-- `IPv6Address._parse_hextet` succeeds (`int("", 16)` raises) -/
def validHextet (h : Bytes) : Bool := !h.isEmpty && h.all isHex && h.length ≤ 4

/-- indices `1 .. len-2` holding an empty part -/
def middleEmpties (parts : List Bytes) : List Nat :=
  (List.range parts.length).filter fun i => 1 ≤ i && i + 1 < parts.length && (parts.getD i []).isEmpty

/-- `IPv6Address._ip_int_from_string(addr)` succeeds (after the scope id was split off) -/
def isIPv6Addr (addr : Bytes) : Bool :=
  if addr.isEmpty then false else
  let parts0 := splitByte 58 addr
  if parts0.length < 3 then false else
  let last := parts0.getLastD []
  -- an IPv4 suffix is replaced by two (always valid) hextets
  let parts? : Option (List Bytes) :=
    if last.contains 46 then (if isIPv4 last then some (parts0.dropLast ++ [[48], [48]]) else none)
    else some parts0
  match parts? with
  | none => false
  | some parts =>
    let n := parts.length
    if n > 9 then false else
    match middleEmpties parts with
    | [] =>
      n == 8 && !(parts.headD []).isEmpty && !(parts.getLastD []).isEmpty && parts.all validHextet
    | [skip] =>
      let hi0 := skip
      let lo0 := n - skip - 1
      let headEmpty := (parts.headD []).isEmpty
      let lastEmpty := (parts.getLastD []).isEmpty
      let hi := if headEmpty then hi0 - 1 else hi0
      let lo := if lastEmpty then lo0 - 1 else lo0
      if headEmpty && hi != 0 then false
      else if lastEmpty && lo != 0 then false
      else if hi + lo ≥ 8 then false
      else (parts.take hi).all validHextet && (parts.drop (n - lo)).all validHextet
    | _ => false

/-- `ipaddress.ip_address(host)` returns an `IPv6Address` (`host` contains no `/`):
optional `%scope` (non-empty, without a second `%`). -/
def isIPv6 (host : Bytes) : Bool :=
  match cutAt 37 host with
  | none => isIPv6Addr host
  | some (addr, scope) => !scope.isEmpty && !scope.contains 37 && isIPv6Addr addr

/-- `_check_bracketed_host`: `v<hex>+.<any>+` (IPvFuture) or an IPv6 address; an IPv4 address or
anything else raises ValueError. -/
def checkBracketedHost (h : Bytes) : Py Unit :=
  match h with
  | 118 :: t =>
    match t.dropWhile isHex with
    | 46 :: r => if !(t.takeWhile isHex).isEmpty && !r.isEmpty then .ok () else .error .valueError
    | _ => .error .valueError
  | _ => if isIPv6 h then .ok () else .error .valueError

/-- the bracket checks of `urlsplit` on the netloc -/
def checkNetloc (netloc : Bytes) : Py Unit :=
  let hasL := netloc.contains 91
  let hasR := netloc.contains 93
  if hasL != hasR then .error .valueError
  else if hasL && hasR then
    checkBracketedHost (partitionByte 93 (partitionByte 91 netloc).2).1
  else .ok ()

structure SplitResult where
  scheme : Bytes
  netloc : Bytes
  path : Bytes
  query : Bytes
  fragment : Bytes
  deriving DecidableEq, Repr

/-- `urlsplit(url)` for ASCII `url : bytes` (default scheme `''`, fragments allowed). -/
def urlsplit (url0 : Bytes) : Py SplitResult :=
  let url1 := removeUnsafe (lstripC0 url0)
  let (scheme, url2) := splitScheme url1
  let nl : Py (Bytes × Bytes) :=
    if url2.take 2 == [47, 47] then
      let (netloc, rest) := splitNetloc url2
      match checkNetloc netloc with
      | .error e => .error e
      | .ok () => .ok (netloc, rest)
    else .ok ([], url2)
  match nl with
  | .error e => .error e
  | .ok (netloc, url3) =>
    let (url4, fragment) := partitionByte 35 url3
    let (path, query) := partitionByte 63 url4
    .ok { scheme, netloc, path, query, fragment }

/-! ### urllib.parse.parse_qsl(query.decode("ascii"), encoding="latin-1"), re-encoded as latin-1 -/

def hexVal (b : UInt8) : UInt8 :=
  if isDigit b then b - 48 else if 65 ≤ b ∧ b ≤ 70 then b - 55 else b - 87

/-- `_unquote_impl`: `%HH` (both hex, any case) → the byte; any other `%` stays. -/
def unquote : Bytes → Bytes
  | [] => []
  | [a] => [a]
  | [a, b] => [a, b]
  | p :: a :: b :: rest =>
    if p = 37 ∧ isHex a ∧ isHex b then (hexVal a * 16 + hexVal b) :: unquote rest
    else p :: unquote (a :: b :: rest)

def plusToSpace (s : Bytes) : Bytes := s.map fun b => if b = 43 then 32 else b

/-- `unquote(x.replace('+', ' '), encoding='latin-1').encode('latin-1')`: every unquoted byte comes
back unchanged (latin-1 maps bytes and code points < 256 one to one), so this cannot raise. -/
def unquoteField (s : Bytes) : Bytes := unquote (plusToSpace s)

/-- one `name=value` field: `none` = dropped (empty field, no `=`, or blank value) -/
def qslField (nv : Bytes) : Option (Bytes × Bytes) :=
  if nv.isEmpty then none
  else match cutAt 61 nv with
    | none => none
    | some (n, v) => if v.isEmpty then none else some (unquoteField n, unquoteField v)

/-- `[(k.encode("latin-1"), v.encode("latin-1")) for k, v in parse_qsl(qs.decode("ascii"),
encoding="latin-1")]` for an ASCII query (`keep_blank_values=False, strict_parsing=False,
separator='&'`); total. -/
def parseQsl (qs : Bytes) : List (Bytes × Bytes) :=
  if qs.isEmpty then [] else (splitByte 38 qs).filterMap qslField

/-! ### parse_raw_http -/

inductive Msg
  | request (method uri : Bytes) (params headers : List (Bytes × Bytes)) (body : Bytes)
  | response (status : Int) (reason : Bytes) (headers : List (Bytes × Bytes)) (body : Bytes)
  deriving DecidableEq, Repr

def Msg.body : Msg → Bytes
  | .request _ _ _ _ b => b
  | .response _ _ _ b => b

def Msg.headers : Msg → List (Bytes × Bytes)
  | .request _ _ _ h _ => h
  | .response _ _ h _ => h

/-- `first_line` of `parse_raw_http` -/
def firstLine (data : Bytes) : Bytes := (partition CRLF (partition CRLFCRLF data).1).1

/-- `first_line.rstrip().split()` -/
def startTokens (data : Bytes) : List Bytes := splitWs (rstrip (firstLine data))

def parseRawHttp (data : Bytes) : Py Msg :=
  let body := (partition CRLFCRLF data).2
  let headers := parseHeaders (partition CRLF (partition CRLFCRLF data).1).2
  if startsWithHTTP (firstLine data) then
    match startTokens data with
    | [_version, status, reason] =>
      match pyIntOfBytes status with
      | .error e => .error e
      | .ok code => .ok (.response code reason headers body)
    | _ => .error .valueError
  else
    match startTokens data with
    | [method, uri, _version] =>
      match urlsplit (asciiIgnore uri) with
      | .error e => .error e
      | .ok r => .ok (.request method r.path (dictOfList (parseQsl r.query)) headers body)
    | _ => .error .valueError

/-! ### Spec side: rendering -/

def isUnreserved (b : UInt8) : Bool :=
  isAlpha b || isDigit b || b == 95 || b == 46 || b == 126 || b == 45

def hexUpper (n : UInt8) : UInt8 := if n < 10 then 48 + n else 55 + n

/-- percent-encode every byte outside `[A-Za-z0-9_.~-]` as `%HH` -/
def quote (s : Bytes) : Bytes :=
  s.flatMap fun b => if isUnreserved b then [b] else [37, hexUpper (b / 16), hexUpper (b % 16)]

def renderParam (p : Bytes × Bytes) : Bytes := quote p.1 ++ 61 :: quote p.2

/-- `k1=v1&k2=v2…` -/
def renderQuery : List (Bytes × Bytes) → Bytes
  | [] => []
  | [p] => renderParam p
  | p :: ps => renderParam p ++ 38 :: renderQuery ps

def renderTarget (path : Bytes) (params : List (Bytes × Bytes)) : Bytes :=
  if params.isEmpty then path else path ++ 63 :: renderQuery params

/-- `CRLF Key: value` for every header -/
def renderHeaders (hs : List (Bytes × Bytes)) : Bytes :=
  hs.flatMap fun h => CRLF ++ h.1 ++ colonSpace ++ h.2

def renderRequest (version method path : Bytes) (params headers : List (Bytes × Bytes)) (body : Bytes) : Bytes :=
  method ++ 32 :: renderTarget path params ++ 32 :: version ++ renderHeaders headers ++ CRLFCRLF ++ body

def renderResponse (version statusDigits reason : Bytes) (headers : List (Bytes × Bytes)) (body : Bytes) : Bytes :=
  version ++ 32 :: statusDigits ++ 32 :: reason ++ renderHeaders headers ++ CRLFCRLF ++ body

/-! ### Spec side: well-formedness predicates used by the theorems -/

/-- `sep in s` (contiguous sub-sequence) -/
def containsSub (sep : Bytes) : Bytes → Bool
  | [] => sep.isEmpty
  | b :: rest => sep.isPrefixOf (b :: rest) || containsSub sep rest

def noWs (s : Bytes) : Bool := s.all fun b => !isWs b

/-- a non-empty byte string without ASCII whitespace -/
def isToken (s : Bytes) : Bool := !s.isEmpty && noWs s

def noCR (s : Bytes) : Bool := s.all (· != 13)

/-- ASCII, no whitespace, not `?`, not `#` (control characters, `;`, `:`, `@`, `[`, `%` … are allowed) -/
def isPathByte (b : UInt8) : Bool := b < 0x80 && !isWs b && b != 63 && b != 35

/-- starts with `/`, does not start with `//` (that would be a netloc), only path bytes -/
def wellFormedPath (p : Bytes) : Bool :=
  p.head? == some 47 && (p.drop 1).head? != some 47 && p.all isPathByte

/-- key without `": "`, neither key nor value contains a CR byte (LF alone is allowed) -/
def wellFormedHeader (h : Bytes × Bytes) : Bool :=
  !containsSub colonSpace h.1 && noCR h.1 && noCR h.2

/-- value of a string of ASCII digits -/
def decimalValue (ds : Bytes) : Nat := ds.foldl (fun a d => a * 10 + (d.toNat - 48)) 0

/-- decimal digits of a natural number (no leading zeros; `0` ↦ `"0"`) -/
def natDigits (n : Nat) : Bytes :=
  if n < 10 then [UInt8.ofNat (48 + n)] else natDigits (n / 10) ++ [UInt8.ofNat (48 + n % 10)]
termination_by n
decreasing_by omega

/-- keys in order of first occurrence -/
def firstKeys : List Bytes → List Bytes
  | [] => []
  | k :: ks => k :: (firstKeys ks).filter (· != k)

structure WellFormedHeaders (hs : List (Bytes × Bytes)) : Prop where
  each : ∀ h ∈ hs, wellFormedHeader h = true
  distinct : (hs.map Prod.fst).Nodup

structure WellFormedReq (version method path : Bytes) (params headers : List (Bytes × Bytes)) : Prop where
  versionTok : isToken version = true
  methodTok : isToken method = true
  notHttp : startsWithHTTP method = false
  pathOk : wellFormedPath path = true
  paramKeys : (params.map Prod.fst).Nodup
  paramVals : ∀ p ∈ params, p.2 ≠ []
  headersOk : WellFormedHeaders headers

structure WellFormedResp (version statusDigits reason : Bytes) (headers : List (Bytes × Bytes)) : Prop where
  versionTok : isToken version = true
  isHttp : startsWithHTTP version = true
  digitsOk : statusDigits ≠ [] ∧ statusDigits.all isDigit = true ∧ statusDigits.length ≤ maxStrDigits
  reasonTok : isToken reason = true
  headersOk : WellFormedHeaders headers

end C16

import CsVerif.Model.C10
import CsVerif.Gen.PyC2Text
/-!
C10 — glue between the hand-written model (`Model/C10.lean`) and the definition translated from the source of the generator
`postproc` nested in `C2Profile.as_text` (`Gen/PyC2Text.lean`, untyped translator): the encoding of an item list as Python
values and the translated post-processor as a function on item lists.  Used by the driver (`g-*` streams) and `Props/C10Gen.lean`.
-/
namespace C10Gen
open PyU (V)

/-- a list of `str` items -/
def encItems (ts : List C10.Text) : V := .list (ts.map .str)

def strOf? : V → Option C10.Text
  | .str t => some t
  | _ => none

/-- `list(postproc(items))` through the translated definition (none: an exception, or a result that is not a list of `str`) -/
def postprocG (items : List C10.Text) : Option (List C10.Text) :=
  match Gen.PyC2Text.as_text_postproc (encItems items) with
  | .ok (.list vs) => vs.mapM strOf?
  | _ => none

/-- `Reconstructor(parser).reconstruct(tree, postproc)` on the printed token list, with the translated `postproc` -/
def asTextOfG (G : C10.Table) (idc : Nat → Bool) (toks : List C10.Tok) : Option C10.Text :=
  (postprocG (toks.map G.tokText)).map (C10.joinItems idc)

end C10Gen

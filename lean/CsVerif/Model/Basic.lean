/-
Shared modelling conventions (DESIGN.md §2).  No imports: this file and every
`Model/*` file must be linkable into the compiled drivers.
-/

abbrev Bytes := List UInt8

/-- Python exception classes that the modelled code can raise. -/
inductive PyExc
  | valueError | eofError | osError | indexError | keyError
  | attributeError | overflowError | typeError | timeoutDiverge | zeroDivisionError
  deriving DecidableEq, Repr

def PyExc.name : PyExc → String
  | .valueError => "ValueError"
  | .eofError => "EOFError"
  | .osError => "OSError"
  | .indexError => "IndexError"
  | .keyError => "KeyError"
  | .attributeError => "AttributeError"
  | .overflowError => "OverflowError"
  | .typeError => "TypeError"
  | .timeoutDiverge => "Timeout"
  | .zeroDivisionError => "ZeroDivisionError"

abbrev Py (α : Type) := Except PyExc α

deriving instance DecidableEq for Except

namespace Hex

def digit (n : Nat) : Char :=
  if n < 10 then Char.ofNat (48 + n) else Char.ofNat (87 + n)

def ofByte (b : UInt8) : List Char := [digit (b.toNat / 16), digit (b.toNat % 16)]

def encode (bs : Bytes) : String :=
  (bs.foldl (fun (acc : String) b => (acc.push (digit (b.toNat / 16))).push (digit (b.toNat % 16))) "")

def val (c : Char) : Option Nat :=
  if '0' ≤ c ∧ c ≤ '9' then some (c.toNat - 48)
  else if 'a' ≤ c ∧ c ≤ 'f' then some (c.toNat - 87)
  else if 'A' ≤ c ∧ c ≤ 'F' then some (c.toNat - 55)
  else none

/-- tail-recursive (input lines can be hundreds of kilobytes long) -/
def decodeGo : List Char → Array UInt8 → Option Bytes
  | [], acc => some acc.toList
  | [_], _ => none
  | a :: b :: rest, acc =>
    match val a, val b with
    | some x, some y => decodeGo rest (acc.push (UInt8.ofNat (x * 16 + y)))
    | _, _ => none

def decodeChars (cs : List Char) : Option Bytes := decodeGo cs #[]

def decode (s : String) : Option Bytes := decodeChars s.toList

end Hex

/-- Python slice `xs[:n]` for an optional, possibly negative bound. -/
def pySliceTo (xs : List α) : Option Int → List α
  | none => xs
  | some n => if n ≥ 0 then xs.take n.toNat else xs.take (xs.length - (-n).toNat)

/-- Python slice `xs[n:]` for a possibly negative bound. -/
def pySliceFrom (xs : List α) (n : Int) : List α :=
  if n ≥ 0 then xs.drop n.toNat else xs.drop (xs.length - (-n).toNat)

/-! ### Line protocol helpers (driver side) -/

namespace Proto

/-- A byte-string token is `x` followed by lowercase hex (`x` alone = empty). -/
def bytesTok (s : String) : Option Bytes :=
  match s.toList with
  | 'x' :: rest => Hex.decodeChars rest
  | _ => none

def showBytes (bs : Bytes) : String := "x" ++ Hex.encode bs

def intTok (s : String) : Option Int := s.toInt?

def natTok (s : String) : Option Nat := s.toNat?

/-- `l` followed by comma separated ints (`l` alone = empty list). -/
def intsTok (s : String) : Option (List Int) :=
  match s.toList with
  | 'l' :: rest =>
    let body := String.ofList rest
    if body.isEmpty then some []
    else (body.splitOn ",").mapM (·.toInt?)
  | _ => none

def natsTok (s : String) : Option (List Nat) :=
  match s.toList with
  | 'l' :: rest =>
    let body := String.ofList rest
    if body.isEmpty then some []
    else (body.splitOn ",").mapM (·.toNat?)
  | _ => none

def showInts (xs : List Int) : String := "l" ++ ",".intercalate (xs.map toString)
def showNats (xs : List Nat) : String := "l" ++ ",".intercalate (xs.map toString)

def showPy (f : α → String) : Py α → String
  | .ok a => "ok " ++ f a
  | .error e => "exc " ++ e.name

def optTok (f : String → Option α) (s : String) : Option (Option α) :=
  if s == "none" then some none else (f s).map some

def boolTok (s : String) : Option Bool :=
  if s == "T" then some true else if s == "F" then some false else none

def showBool (b : Bool) : String := if b then "T" else "F"

def words (line : String) : List String :=
  (line.splitOn " ").filter (· ≠ "")

/-- Generic stdin→stdout loop: one answer line per input line. -/
partial def loop (h : IO.FS.Stream) (out : IO.FS.Stream) (step : List String → String) : IO Unit := do
  let line ← h.getLine
  if line.isEmpty then return ()
  let ws := words (line.trimAscii.toString)
  out.putStrLn (step ws)
  loop h out step

def run (step : List String → String) : IO Unit := do
  let i ← IO.getStdin
  let o ← IO.getStdout
  loop i o step
  o.flush

end Proto

import CsVerif.Model.PyFile
import CsVerif.Model.C20
/-
C15 — pattern scanners
  dissect/cobaltstrike/utils.py    iter_find_needle           (lines 152-191)
  dissect/cobaltstrike/artifact.py iter_artifactkit_payloads  (lines 35-72)

The models follow the code as it is in /repo now (after fix fc7bca0:
`saved = b""`, `offset = pos + p - len(saved)`, `saved = d[-overlap_len:] if overlap_len > 0 else b""`).
-/
namespace C15

/-! ### `bytes.find` -/

/-- scan of `hay` (the suffix that starts at absolute index `i`) for the first position where
`needle` is a prefix.  The empty needle matches at every position including the end. -/
def findAux (needle : Bytes) (hay : Bytes) (i : Nat) : Option Nat :=
  if needle.isPrefixOf hay then some i
  else
    match hay with
    | [] => none
    | _ :: t => findAux needle t (i + 1)

/-- `hay.find(needle, start)` for `start ≥ 0`; `none` encodes Python's `-1`.
CPython: `start > len(hay)` gives `-1` even for the empty needle. -/
def bytesFind? (hay needle : Bytes) (start : Nat) : Option Nat :=
  if start > hay.length then none else findAux needle (hay.drop start) start

/-- Python `hay.find(needle, start)` with Python's treatment of a negative `start`
(`start += len(hay)`, clamped to 0) and `-1` for "not found". -/
def bytesFind (hay needle : Bytes) (start : Int := 0) : Int :=
  let s : Nat := if start < 0 then ((hay.length : Int) + start).toNat else start.toNat
  match bytesFind? hay needle s with
  | some i => (i : Int)
  | none => -1

theorem findAux_bounds (needle hay : Bytes) (i r : Nat) (h : findAux needle hay i = some r) :
    i ≤ r ∧ r ≤ i + hay.length := by
  induction hay generalizing i with
  | nil =>
    unfold findAux at h
    split at h
    · simp at h; omega
    · simp at h
  | cons x t ih =>
    unfold findAux at h
    split at h
    · simp at h; omega
    · have := ih (i + 1) h
      simp only [List.length_cons]; omega

theorem bytesFind?_bounds (hay needle : Bytes) (start r : Nat) (h : bytesFind? hay needle start = some r) :
    start ≤ r ∧ r ≤ hay.length := by
  unfold bytesFind? at h
  split at h
  · simp at h
  · have := findAux_bounds _ _ _ _ h
    simp only [List.length_drop] at this
    omega

/-! ### `iter_find_needle` -/

/-- The inner `while True: p = d.find(needle, p + 1) …` loop.  `start` is `p + 1`;
`base`/`savedLen` are `pos` and `len(saved)`; the emitted value is `pos + p - len(saved)`.
`maxOff = 0` means "no limit" (`max_offset and p > max_offset`); note that the code compares the
*buffer index* `p`, not the file offset, with `max_offset`. -/
def findLoop (d needle : Bytes) (maxOff : Nat) (pos savedLen : Nat) (start : Nat) : List Int :=
  match h : bytesFind? d needle start with
  | none => []                                         -- p == -1
  | some p =>
    if maxOff ≠ 0 ∧ p > maxOff then []                 -- max_offset and p > max_offset
    else ((pos : Int) + (p : Int) - (savedLen : Int)) :: findLoop d needle maxOff pos savedLen (p + 1)
termination_by d.length + 1 - start
decreasing_by
  have := bytesFind?_bounds _ _ _ _ h
  omega

/-- `overlap_len = len(needle) - 1` (is `-1` for the empty needle). -/
def overlapLen (needle : Bytes) : Int := (needle.length : Int) - 1

/-- `saved = d[-overlap_len:] if overlap_len > 0 else b""` -/
def nextSaved (needle d : Bytes) : Bytes :=
  if overlapLen needle > 0 then pySliceFrom d (-(overlapLen needle)) else []

theorem read_progress (f : PyFile) (B : Nat) (h : (f.read (B : Int)).1 ≠ []) :
    (f.read (B : Int)).2.data.length - (f.read (B : Int)).2.pos < f.data.length - f.pos := by
  have h1 := PyFile.read_nonneg f B
  have h2 : (f.read (B : Int)).1.length ≤ f.data.length - f.pos := by
    rw [h1]; simp only [List.length_take, List.length_drop]; omega
  have h3 : 0 < (f.read (B : Int)).1.length := List.length_pos_iff.mpr h
  simp only [PyFile.read_data, PyFile.read_pos]
  omega

/-- The outer block loop (`while True: pos = fp.tell() …`).  `B = io.DEFAULT_BUFFER_SIZE`.
Terminates because every non-empty block strictly advances the file position towards the end
of the data (`read_progress`); no fuel is needed. -/
def needleLoop (B : Nat) (needle : Bytes) (maxOff : Nat) (f : PyFile) (saved : Bytes) : List Int × PyFile :=
  let pos := f.tell
  if maxOff ≠ 0 ∧ pos > maxOff then ([], f)            -- max_offset and pos > max_offset
  else
    if _h : (f.read (B : Int)).1 = [] then ([], (f.read (B : Int)).2)   -- if not block: break
    else
      let block := (f.read (B : Int)).1
      let d := saved ++ block
      let offs := findLoop d needle maxOff pos saved.length 0
      let rest := needleLoop B needle maxOff (f.read (B : Int)).2 (nextSaved needle d)
      (offs ++ rest.1, rest.2)
termination_by f.data.length - f.pos
decreasing_by exact read_progress f B (by assumption)

/-- `list(iter_find_needle(fp, needle, start_offset, max_offset))` together with the file object
afterwards.  `fp.seek(start_offset)` raises for a negative offset. -/
def iterFindNeedle (B : Nat) (f : PyFile) (needle : Bytes) (start : Option Int) (maxOff : Nat) :
    Py (List Int × PyFile) :=
  match start with
  | none => .ok (needleLoop B needle maxOff f [])
  | some s =>
    match f.seekSet s with
    | .error e => .error e
    | .ok (_, f') => .ok (needleLoop B needle maxOff f' [])

/-! ### `iter_artifactkit_payloads` -/

structure Hit where
  offset : Nat
  size : Nat
  xorkey : Bytes
  hints : Bytes
  payload : Bytes
  deriving DecidableEq, Repr

/-- `utils.u32 = partial(unpack, size=4)` (little endian, unsigned; short input is accepted). -/
def u32 (d : Bytes) : Int := C20.unpack d (some 4) .little false

/-- The reads performed after a successful `pos + 16 == u32(data)` check. -/
def readHit (f : PyFile) (pos : Nat) : Hit × PyFile :=
  let r1 := f.read 4
  let size := u32 r1.1
  let r2 := r1.2.read 4
  let r3 := r2.2.read 8
  let r4 := r3.2.read size
  ({ offset := pos, size := size.toNat, xorkey := r2.1, hints := r3.1, payload := C20.xor r4.1 r2.1 }, r4.2)

/-- One iteration of the `while True` body after the `maxrange` test.
`none` = `break` (short read). -/
def artStep (f : PyFile) (pos : Nat) : Py (Option (List Hit) × PyFile) :=
  match f.seekSet pos with                               -- fobj.seek(pos)
  | .error e => .error e
  | .ok (_, f1) =>
    let r := f1.read 4                                   -- data = fobj.read(4)
    if r.1.length ≠ 4 then .ok (none, r.2)               -- if not data or len(data) != 4: break
    else if (pos : Int) + 16 = u32 r.1 then
      let hr := readHit r.2 pos
      .ok (some [hr.1], hr.2)
    else .ok (some [], r.2)

theorem readHit_data (f : PyFile) (pos : Nat) : (readHit f pos).2.data = f.data := by
  simp [readHit]

theorem artStep_data {f : PyFile} {pos : Nat} {r : Option (List Hit)} {f' : PyFile}
    (h : artStep f pos = .ok (r, f')) : f'.data = f.data := by
  unfold artStep at h
  have hs : f.seekSet (pos : Int) = .ok (pos, { f with pos := pos }) := PyFile.seekSet_ok f pos
  rw [hs] at h
  simp only at h
  split at h
  · injection h with h; injection h with _ h; subst h; simp
  · split at h
    · injection h with h; injection h with _ h; subst h; simp [readHit_data]
    · injection h with h; injection h with _ h; subst h; simp

theorem artStep_some {f : PyFile} {pos : Nat} {hs : List Hit} {f' : PyFile}
    (h : artStep f pos = .ok (some hs, f')) : pos + 4 ≤ f.data.length := by
  unfold artStep at h
  have hs' : f.seekSet (pos : Int) = .ok (pos, { f with pos := pos }) := PyFile.seekSet_ok f pos
  rw [hs'] at h
  simp only at h
  split at h
  · injection h with h; injection h with h _; cases h
  · rename_i hl
    have : ({ f with pos := pos } : PyFile).read 4 = ({ f with pos := pos } : PyFile).read ((4 : Nat) : Int) := rfl
    rw [this, PyFile.read_nonneg] at hl
    simp only [List.length_take, List.length_drop, ne_eq, Decidable.not_not] at hl
    omega

/-- `maxrange is not None and pos > maxrange` -/
def pastRange (maxrange : Option Nat) (pos : Nat) : Bool :=
  match maxrange with
  | some m => decide (pos > m)
  | none => false

set_option linter.unusedVariables false in
/-- The `while True` loop over `pos`. -/
def artLoop (maxrange : Option Nat) (f : PyFile) (pos : Nat) : Py (List Hit × PyFile) :=
  if pastRange maxrange pos then .ok ([], f)
  else
    match h : artStep f pos with
    | .error e => .error e
    | .ok (none, f') => .ok ([], f')
    | .ok (some hs, f') =>
      match artLoop maxrange f' (pos + 1) with
      | .error e => .error e
      | .ok (rest, ff) => .ok (hs ++ rest, ff)
termination_by f.data.length - pos
decreasing_by
  have h1 := artStep_data h
  have h2 := artStep_some h
  rw [h1]
  omega

/-- `list(iter_artifactkit_payloads(fobj, start_offset, maxrange))` and the file object afterwards. -/
def iterArtifactkit (f : PyFile) (start : Option Int) (maxrange : Option Nat) : Py (List Hit × PyFile) :=
  match start with
  | none => artLoop maxrange f f.tell
  | some s =>
    match f.seekSet s with
    | .error e => .error e
    | .ok (_, f') => artLoop maxrange f' f'.tell

/-! ### Specification -/

/-- position a scan starts from: `start_offset` if given (non-negative), else the current file position. -/
def startPos (f : PyFile) : Option Int → Nat
  | none => f.pos
  | some s => s.toNat

/-- all `i` with `i + |needle| ≤ |hay|` such that `hay[i:]` starts with `needle`, ascending. -/
def occ (hay needle : Bytes) : List Nat :=
  (List.range (hay.length + 1 - needle.length)).filter fun i => (hay.drop i).take needle.length == needle

/-- unsigned little-endian value of (at most) the first four bytes. -/
def u32le (d : Bytes) : Nat := C20.fromLE (d.take 4)

/-- the record the scanner is expected to produce for a header at `pos`. -/
def hitAt (hay : Bytes) (pos : Nat) : Hit :=
  let size := u32le (hay.drop (pos + 4))
  let key := (hay.drop (pos + 8)).take 4
  { offset := pos, size := size, xorkey := key, hints := (hay.drop (pos + 12)).take 8,
    payload := C20.xor ((hay.drop (pos + 20)).take size) key }

/-- offsets `pos ≥ start` (and `≤ maxrange`) with four readable bytes whose little-endian value is `pos + 16`. -/
def artifactOffsets (hay : Bytes) (start : Nat) (maxrange : Option Nat) : List Nat :=
  (List.range (hay.length + 1 - 4)).filter fun pos =>
    decide (start ≤ pos) && (match maxrange with | some m => decide (pos ≤ m) | none => true)
      && decide (u32le (hay.drop pos) = pos + 16)

def artifactHits (hay : Bytes) (start : Nat) (maxrange : Option Nat) : List Hit :=
  (artifactOffsets hay start maxrange).map (hitAt hay)

end C15

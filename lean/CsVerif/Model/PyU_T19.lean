import CsVerif.Model.PyU
/-!
PyU_T19 — additions to the run-time library of the untyped translator (`tools/py2leanu.py`) for
dissect/cobaltstrike/client.py (C19; generated unit `Gen/PyClient.lean`, plug-in `tools/gen/py_client.py`):

  * `x.decode(errors="ignore")` (UTF-8), `n.to_bytes(length, byteorder)`, `s.replace(old, new)`;
  * `Cls(x)` for a Python `enum.IntEnum` class (a value that is not a member is a ValueError — unlike a cstruct enum);
  * attribute assignment on an instance of a plain class (the client object threaded as a value).

Same conventions as `PyU.lean`: total functions, CPython 3.12's raising branches explicit, operand kinds that are not modelled
answer TypeError and are listed in the doc comment.  Validated against CPython by the `pyu` stream of C19
(tools/harness/pyuval_t19.py).  No imports besides `PyU` (must link into the compiled driver).
-/
namespace PyU
open PyRt (Str)

/-! ### `bytes.decode("utf-8", errors="ignore")` -/

def isContN (b : UInt8) : Bool := 0x80 ≤ b.toNat && b.toNat ≤ 0xBF

/-- one well-formed UTF-8 sequence that starts with `b0` (followed by `rest`): the code point and the number of FURTHER bytes it
consumes; `none`: `b0` does not start a well-formed, complete sequence (invalid start byte, bad or missing continuation byte,
overlong form, surrogate, above U+10FFFF) -/
def utf8Step (b0 : UInt8) (rest : Bytes) : Option (Nat × Nat) :=
  let x := b0.toNat
  if x < 0x80 then some (x, 0)
  else if 0xC2 ≤ x ∧ x ≤ 0xDF then
    match rest with
    | b1 :: _ => if isContN b1 then some ((x - 0xC0) * 64 + (b1.toNat - 0x80), 1) else none
    | _ => none
  else if 0xE0 ≤ x ∧ x ≤ 0xEF then
    match rest with
    | b1 :: b2 :: _ =>
      let c := (x - 0xE0) * 4096 + (b1.toNat - 0x80) * 64 + (b2.toNat - 0x80)
      if isContN b1 ∧ isContN b2 ∧ 0x800 ≤ c ∧ ¬ (0xD800 ≤ c ∧ c < 0xE000) then some (c, 2) else none
    | _ => none
  else if 0xF0 ≤ x ∧ x ≤ 0xF4 then
    match rest with
    | b1 :: b2 :: b3 :: _ =>
      let c := (x - 0xF0) * 262144 + (b1.toNat - 0x80) * 4096 + (b2.toNat - 0x80) * 64 + (b3.toNat - 0x80)
      if isContN b1 ∧ isContN b2 ∧ isContN b3 ∧ 0x10000 ≤ c ∧ c < 0x110000 then some (c, 3) else none
    | _ => none
  else none

/-- the `ignore` error handler: a byte that does not start a well-formed sequence is dropped and decoding goes on with the next
byte.  (CPython hands the whole "maximal subpart" — the offending start byte and the valid continuation bytes behind it, or
everything that is left of a truncated sequence at the end — to the handler at once; the further bytes of such a subpart are
continuation bytes, which never start a sequence, so dropping them one by one gives the same text.)  `skip`: bytes of the
sequence just decoded that are still to be passed over. -/
def utf8IgnoreGo : Nat → Bytes → Str
  | _, [] => []
  | skip + 1, _ :: rest => utf8IgnoreGo skip rest
  | 0, b :: rest =>
    match utf8Step b rest with
    | some (c, k) => c :: utf8IgnoreGo k rest
    | none => utf8IgnoreGo 0 rest

/-- `x.decode(errors="ignore")` / `x.decode("utf-8", "ignore")`: never raises for `bytes` -/
def decodeUtf8Ignore : V → Py V
  | .bytes b => .ok (.str (utf8IgnoreGo 0 b))
  | _ => .error .attributeError

/-! ### `int.to_bytes` -/

/-- `n.to_bytes(length, byteorder)` (unsigned) for an int-like receiver: a negative length or a byteorder other than
`"little"` / `"big"` is a ValueError, a negative `n` or one that needs more bytes an OverflowError (`PyRt.intToBytes`); a length
that is not int-like or a byteorder that is not a `str` is a TypeError; a receiver without that method an AttributeError.
Not modelled (TypeError; CPython: the enum's own method): cstruct enum members. -/
def toBytes (n len order : V) : Py V :=
  match n with
  | .enum _ _ => .error .typeError
  | _ =>
    match asInt n with
    | none => .error .attributeError
    | some x =>
      match asInt len, order with
      | some l, .str o => (PyRt.intToBytes x l o false).map .bytes
      | _, _ => .error .typeError

/-! ### `replace` (the text of `PyU_T12.lean`) -/

/-- scanner of `s.replace(old, new)` for a non-empty `old`: left to right, non-overlapping; `skip` = how many items of the
occurrence that was just replaced are still to be passed over -/
def replaceGo {α : Type} [BEq α] (old new : List α) : List α → Nat → List α
  | [], _ => []
  | _ :: cs, skip + 1 => replaceGo old new cs skip
  | c :: cs, 0 =>
    if old.isPrefixOf (c :: cs) then new ++ replaceGo old new cs (old.length - 1)
    else c :: replaceGo old new cs 0

/-- `s.replace(old, new)`; an empty `old` matches before every item and at the end -/
def replaceL {α : Type} [BEq α] (old new s : List α) : List α :=
  if old.isEmpty then s.flatMap (fun c => new ++ [c]) ++ new else replaceGo old new s 0

/-- `x.replace(old, new)` (two arguments): `str` with `str` arguments, `bytes` with `bytes` arguments (else TypeError); a
receiver without that method is an AttributeError -/
def strReplace (x old new : V) : Py V :=
  match x with
  | .str s =>
    match old, new with
    | .str o, .str n => .ok (.str (replaceL o n s))
    | _, _ => .error .typeError
  | .bytes s =>
    match old, new with
    | .bytes o, .bytes n => .ok (.bytes (replaceL o n s))
    | _, _ => .error .typeError
  | _ => .error .attributeError

/-! ### Python `enum.IntEnum` classes -/

/-- `Cls(x)` for an `enum.IntEnum` class described by an `EnumCls` (`members`: the canonical members, values ≥ 0; `size` /
`bigEndian` are not used): the member with that value, looked up by `==` / `hash` — so an int-like argument (`bool`, `int`, a
member of the same class) finds the member with its integer value; any other value (`None`, `bytes`, `str`, containers, an int
that is not a member) is a ValueError.  The member is represented as `V.enum cls value`: exact for `.name`, `.value`, the truth
value, arithmetic and `==`.  Not modelled (TypeError; CPython: ValueError): members of *other* enum classes.  Not modelled at all:
an IntEnum member used as a dict key (`PyU.keyEq` hashes enum members like dissect.cstruct does, not like the int they are) — the
C19 glue passes IntEnum arguments as the ints they are. -/
def intEnumCall (cls : EnumCls) (x : V) : Py V :=
  match x with
  | .enum c v =>
    if c.cid = cls.cid then .ok (.enum c v) else .error .typeError
  | _ =>
    match asInt x with
    | some n =>
      if 0 ≤ n ∧ (cls.members.find? (·.1 == n.toNat)).isSome then .ok (.enum cls n) else .error .valueError
    | none => .error .valueError

/-! ### attribute assignment (the text of `PyU_T12.lean`) -/

/-- `x.a = v` for an instance of a registered plain class: the changed instance.  A NamedTuple instance and every other kind
of object here does not accept the assignment (AttributeError).  Not modelled (TypeError): an attribute that is not one of
the class's `fields` (CPython adds it to the instance).  Not modelled (AttributeError here; CPython stores the attribute): a
Python IntEnum member as the receiver. -/
def setAttr (x : V) (attr : String) (v : V) : Py V :=
  match x with
  | .inst cls vals =>
    if cls.isTuple then .error .attributeError
    else match setField attr v cls.fields vals with
      | some vs => .ok (.inst cls vs)
      | none => .error .typeError
  | _ => .error .attributeError

end PyU

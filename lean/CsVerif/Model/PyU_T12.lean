import CsVerif.Model.PyU
/-
PyU_T12 — additions to the run-time library of the untyped translator (`tools/py2leanu.py`, `Model/PyU.lean`) for
c2profile.py (`value_to_string`, `string_token_to_bytes`, class `StringIterator`, the generator `postproc` of `C2Profile.as_text`):

  * builtins `repr(x)`, `ord(x)`, `chr(x)`, `bytes(x)`, `int(x, base)`, `enumerate(x)` (in a `for`), methods
    `x.replace(old, new)`, `sep.join(xs)`;
  * objects with mutable attributes: `setAttrObj` (`self.a = v` inside a method; the translator threads the instance as a value
    and rejects every program in which an instance could have a second reference);
  * the iterator protocol: `StopIteration` is not a member of `PyExc`; the functions that can raise it (a `__next__`, a
    function that calls `next(it)` or loops over an object with `for`) live in the monad `PyS = Except ExcS`
    (`PyExc` plus `StopIteration`); `catchStop` is the `for` statement catching the `StopIteration` of `__next__`;
    `whileFuelS` is `whileFuel` in that monad.

Same conventions as `PyU.lean`: total functions, CPython 3.12's raising branches explicit, operand kinds that are not
modelled answer `TypeError` and are named in the doc comment; validated against CPython on random operands by the `pyu`
stream of C12 (tools/harness/pyuval_t12.py).  No imports besides `PyU` (must link into the compiled drivers).
-/
namespace PyU
open PyRt (Str)

/-! ### `StopIteration` -/

/-- exceptions of a function that can raise `StopIteration`: `PyExc` plus `StopIteration` -/
inductive ExcS
  | py (e : PyExc)
  | stop
  deriving DecidableEq, Repr

/-- the monad of the translated functions that can raise `StopIteration`; every operation of `PyU` is lifted into it -/
abbrev PyS (α : Type) := Except ExcS α

def liftS {α : Type} : Py α → PyS α
  | .ok a => .ok a
  | .error e => .error (.py e)

instance : MonadLift Py PyS := ⟨liftS⟩

/-- one step of a `for` statement over an iterator object: the call of `__next__`; `StopIteration` ends the loop
(`(true, None)`), any other exception propagates, a value is handed to the loop body (`(false, value)`) -/
def catchStop (x : PyS V) : PyS (Bool × V) :=
  match x with
  | .ok v => .ok (false, v)
  | .error .stop => .ok (true, .none)
  | .error e => .error e

/-- `whileFuel` in the monad `PyS` -/
def whileFuelS {σ : Type} : Nat → (σ → PyS (Ctl × σ)) → σ → PyS σ
  | 0, _, _ => .error (.py .timeoutDiverge)
  | n + 1, body, st =>
    match body st with
    | .error e => .error e
    | .ok (.brk, st') => .ok st'
    | .ok (.cont, st') => whileFuelS n body st'

/-! ### objects with mutable attributes -/

/-- `x.a = v` for an instance of a registered plain class: the changed instance.  A NamedTuple instance and every other kind
of object here does not accept the assignment (AttributeError).  Not modelled (TypeError): an attribute that is not one of
the class's `fields` (CPython adds it to the instance). -/
def setAttrObj (x : V) (attr : String) (v : V) : Py V :=
  match x with
  | .inst cls vals =>
    if cls.isTuple then .error .attributeError
    else match setField attr v cls.fields vals with
      | some vs => .ok (.inst cls vs)
      | none => .error .typeError
  | _ => .error .attributeError

/-! ### `repr`, `ord`, `chr`, `bytes` -/

/-- `repr(x)` as a value (see `PyU.repr` for what is modelled) -/
def reprV (x : V) : Py V := (repr x).map .str

/-- `ord(x)`: a `str` / `bytes` of length one; anything else (also another length) is a TypeError -/
def ord : V → Py V
  | .str [c] => .ok (.int c)
  | .bytes [b] => .ok (.int b.toNat)
  | _ => .error .typeError

/-- `chr(x)` for an int-like `x`: outside the C `int` range an OverflowError, outside `range(0x110000)` a ValueError -/
def chr (x : V) : Py V :=
  match asInt x with
  | some n =>
    if n < -2147483648 ∨ 2147483647 < n then .error .overflowError
    else if 0 ≤ n ∧ n < 0x110000 then .ok (.str [n.toNat])
    else .error .valueError
  | none => .error .typeError

/-- the items of `bytes(iterable)`: each an int-like in `range(256)`; the first offending item decides (not an int:
TypeError, out of range: ValueError) -/
def bytesItems : List V → Py Bytes
  | [] => .ok []
  | v :: vs =>
    match asInt v with
    | none => .error .typeError
    | some n =>
      if 0 ≤ n ∧ n < 256 then (bytesItems vs).map (UInt8.ofNat n.toNat :: ·)
      else .error .valueError

/-- `bytes(x)` with one argument: `bytes` → the same bytes; a `bool` / `int` count → that many zero bytes (negative:
ValueError, ≥ 2^63: OverflowError); a list / tuple / NamedTuple instance / dict (its keys) of int-likes in `range(256)`;
`str` and `None` are TypeErrors.  Not modelled (TypeError): cstruct enum members (`__bytes__`), `BytesIO` (iterates lines),
instances of plain classes; counts between 2^31 and 2^63 (MemoryError in practice). -/
def bytesOf : V → Py V
  | .bytes b => .ok (.bytes b)
  | .bool b => .ok (.bytes (if b then [0] else []))
  | .int n =>
    if n < 0 then .error .valueError
    else if n ≥ 9223372036854775808 then .error .overflowError
    else .ok (.bytes (List.replicate n.toNat 0))
  | .list xs => (bytesItems xs).map .bytes
  | .tuple xs => (bytesItems xs).map .bytes
  | .dict ks _ => (bytesItems ks).map .bytes
  | .inst c xs => if c.isTuple then (bytesItems xs).map .bytes else .error .typeError
  | _ => .error .typeError

/-! ### `int(x, base)` -/

/-- `_PyLong_DigitValue`: `0-9`, `a-z`, `A-Z` -/
def digitValN (c : Nat) : Option Nat :=
  if 48 ≤ c ∧ c ≤ 57 then some (c - 48)
  else if 97 ≤ c ∧ c ≤ 122 then some (c - 87)
  else if 65 ≤ c ∧ c ≤ 90 then some (c - 55)
  else none

/-- a digit of the base, or `_` -/
def isDigitOrUnderscoreB (base c : Nat) : Bool :=
  c == 95 || (match digitValN c with | some d => decide (d < base) | none => false)

def valueB (base : Nat) (ds : List Nat) : Nat := ds.foldl (fun a d => a * base + (digitValN d).getD 0) 0

/-- the `0x` / `0o` / `0b` prefix that `int(s, base)` accepts for base 16 / 8 / 2, and one underscore after it -/
def dropBasePrefix (base : Nat) (s : List Nat) : List Nat :=
  match s with
  | 48 :: x :: rest =>
    if (base == 16 && (x == 120 || x == 88)) || (base == 8 && (x == 111 || x == 79)) || (base == 2 && (x == 98 || x == 66)) then
      (match rest with | 95 :: r => r | r => r)
    else s
  | _ => s

def isPow2 (b : Nat) : Bool := b == 2 || b == 4 || b == 8 || b == 16 || b == 32

/-- `PyLong_FromString(s, base)` for `2 ≤ base ≤ 36` after the leading whitespace and the sign: optional base prefix, digits
with single underscores strictly between digits, then whitespace only; at most `maxStrDigits` digits unless the base is a
power of two -/
def parseBaseBody (base : Nat) (neg : Bool) (s2 : List Nat) : Py Int :=
  let s3 := dropBasePrefix base s2
  let run := s3.takeWhile (isDigitOrUnderscoreB base)
  let rest := s3.dropWhile (isDigitOrUnderscoreB base)
  let ds := run.filter (· != 95)
  if run.head? == some 95 || run.getLast? == some 95 || hasDoubleUnderscore run then .error .valueError
  else if ds.isEmpty || (!isPow2 base && ds.length > maxStrDigits) then .error .valueError
  else if !(rest.dropWhile isSpace).isEmpty then .error .valueError
  else .ok (if neg then -(valueB base ds : Int) else (valueB base ds : Int))

def parseBase (base : Nat) (s : List Nat) : Py Int :=
  let s1 := s.dropWhile isSpace
  parseBaseBody base (s1.head? == some 45)
    (if s1.head? == some 43 || s1.head? == some 45 then s1.drop 1 else s1)

/-- `int(x, base)`: `base` int-like (else TypeError) and in `2..36` (else ValueError); `x` a `str` (Unicode spaces and decimal
digits are mapped to ASCII first, like `int(x)`) or `bytes` (else TypeError); a malformed literal is a ValueError.
Not modelled (TypeError): base 0 (the base is taken from the literal's prefix). -/
def intBase (t : IntTables) (x base : V) : Py V :=
  match asInt base with
  | none => .error .typeError
  | some b =>
    if b = 0 then .error .typeError
    else if b < 2 ∨ 36 < b then .error .valueError
    else
      match x with
      | .str cs => (parseBase b.toNat (cs.map (toAsciiDigitSpace t))).map .int
      | .bytes bs => (parseBase b.toNat (bs.map (·.toNat))).map .int
      | _ => .error .typeError

/-! ### `replace`, `join` -/

/-- scanner of `s.replace(old, new)` for a non-empty `old`: left to right, non-overlapping; `skip` = how many items of the
occurrence that was just replaced are still to be passed over -/
def replaceGo {α : Type} [BEq α] (old new : List α) : List α → Nat → List α
  | [], _ => []
  | _ :: cs, skip + 1 => replaceGo old new cs skip
  | c :: cs, 0 =>
    if old.isPrefixOf (c :: cs) then new ++ replaceGo old new cs (old.length - 1)
    else c :: replaceGo old new cs 0

/-- `s.replace(old, new)`; an empty `old` matches before every item and at the end -/
def replaceL {α : Type} [BEq α] (old new s : List α) : List α :=
  if old.isEmpty then s.flatMap (fun c => new ++ [c]) ++ new else replaceGo old new s 0

/-- `x.replace(old, new)` (two arguments): `str` with `str` arguments, `bytes` with `bytes` arguments (else TypeError); a
receiver without that method is an AttributeError -/
def strReplace (x old new : V) : Py V :=
  match x with
  | .str s =>
    match old, new with
    | .str o, .str n => .ok (.str (replaceL o n s))
    | _, _ => .error .typeError
  | .bytes s =>
    match old, new with
    | .bytes o, .bytes n => .ok (.bytes (replaceL o n s))
    | _, _ => .error .typeError
  | _ => .error .attributeError

def joinStrs (sep : Str) : List V → Py Str
  | [] => .ok []
  | [.str a] => .ok a
  | .str a :: rest => (joinStrs sep rest).map (a ++ sep ++ ·)
  | _ => .error .typeError

def joinBytes (sep : Bytes) : List V → Py Bytes
  | [] => .ok []
  | [.bytes a] => .ok a
  | .bytes a :: rest => (joinBytes sep rest).map (a ++ sep ++ ·)
  | _ => .error .typeError

/-- `sep.join(xs)`: the items of `xs` (`iterList`: a list, a tuple, the characters of a `str`, the keys of a dict, …; not
iterable: TypeError) must all be `str` for a `str` separator, `bytes` for a `bytes` separator (else TypeError); a receiver
without that method is an AttributeError -/
def join (sep xs : V) : Py V :=
  match sep with
  | .str s =>
    match iterList xs with
    | .ok items => (joinStrs s items).map .str
    | .error _ => .error .typeError
  | .bytes s =>
    match iterList xs with
    | .ok items => (joinBytes s items).map .bytes
    | .error _ => .error .typeError
  | _ => .error .attributeError

/-! ### `enumerate` -/

def enumFrom (k : Nat) : List V → List V
  | [] => []
  | x :: xs => .tuple [.int k, x] :: enumFrom (k + 1) xs

/-- `enumerate(x)` as the iterable of a `for` loop (the translator accepts it nowhere else): the list of the pairs
`(index, item)` of the items of `x` (`iterList`; not iterable: TypeError) -/
def enumerate (x : V) : Py V := (iterList x).map fun l => .list (enumFrom 0 l)

end PyU

import CsVerif.Model.C12
import CsVerif.Gen.PyC2Prof
/-!
C12 — glue between the hand-written model (`Model/C12.lean`) and the definitions translated from the source of
`value_to_string`, `string_token_to_bytes` and the class `StringIterator` (`Gen/PyC2Prof.lean`, untyped translator): the
encoding of the model's types as Python values.  Used by the driver (`g-*` streams) and by `Props/C12Gen.lean`.
-/
namespace C12Gen
open PyU (V)

/-- latin-1 text (the model's `Txt`) as the `str` with the same numbers -/
def latin (t : C12.Txt) : V := .str (t.map (·.toNat))

/-- `Token(type, value)` -/
def tokenV (type value : V) : V := .inst Gen.PyC2Prof.Token [type, value]

/-- `Token("STRING", text)` for token text given as code points -/
def stringToken (text : List Nat) : V := tokenV (PyU.lit "STRING") (.str text)

/-- the model's result (`Py`) in the monad of the functions that can raise StopIteration -/
def liftS {α : Type} (x : Py α) : PyU.PyS α := PyU.liftS x

/-- the fuel that is enough for a token text of `n` characters: one run of the loop body per character of the body (at most
`n - 2`, each run consumes at least one) and the run that meets StopIteration -/
def fuelFor (n : Nat) : Nat := n + 1

/-- `value_to_string(bs)` translated, as the model's text (a result that is not a latin-1 `str` is none) -/
def txtOf : V → Option C12.Txt
  | .str cs => if cs.all (· < 256) then some (cs.map UInt8.ofNat) else none
  | _ => none

/-- translated `value_to_string` on `bytes` -/
def valueToStringG (bs : Bytes) : Py V := Gen.PyC2Prof.value_to_string (.bytes bs)

/-- translated `string_token_to_bytes(Token("STRING", text))` with enough fuel -/
def stringTokenToBytesG (text : List Nat) : PyU.PyS V :=
  Gen.PyC2Prof.string_token_to_bytes (fuelFor text.length) (stringToken text)

end C12Gen

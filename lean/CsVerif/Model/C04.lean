import CsVerif.Model.C20
/-
C04 — HTTP data transforms (dissect/cobaltstrike/c2.py, class HttpDataTransform, lines 243-392)

Part 1 (`namespace C04`): executable model of the code as it is in /repo:
  constructor (tsteps / rsteps / reverse / implicit BUILD), `transform`, `recover`,
  CPython's `base64.b64encode`, `urlsafe_b64encode`, `b64decode(validate=False)` (binascii.a2b_base64,
  non-strict mode, CPython 3.12) and `urlsafe_b64decode`, `bytes.partition`, `bytes.lower/upper`.
Part 2 (`namespace C04.Ref`): an independent reference encoder / decoder for the Malleable C2
  data-transform language (structured programs: static decorations and build blocks).

What the library does for base64url: `transform` emits PADDED output (`base64.urlsafe_b64encode`), whereas
Cobalt Strike's `base64url` is unpadded.  `recover` appends "==" before decoding, which makes the lenient
CPython decoder accept padded and unpadded input alike.  The reference encoder emits the Cobalt Strike form
(unpadded), the reference decoder accepts both.
-/
namespace C04

/-! ### exceptions: `PyExc` plus AssertionError (the `assert isinstance(http, HttpRequest)` lines) -/

inductive Exc
  | py (e : PyExc)
  | assertion
  deriving DecidableEq, Repr

def Exc.name : Exc → String
  | .py e => e.name
  | .assertion => "AssertionError"

abbrev R (α : Type) := Except Exc α

def liftPy : Py α → R α
  | .ok a => .ok a
  | .error e => .error (.py e)

/-! ### step language (after `step.lower()`) -/

/-- argument of `append` / `prepend`: bytes (client programs) or int (`parse_recover_binary`) -/
inductive Arg
  | bytes (b : Bytes)
  | int (n : Int)
  deriving DecidableEq, Repr

/-- `b"X" * n` for an int argument (`n ≤ 0` gives `b""`). -/
def Arg.toBytes : Arg → Bytes
  | .bytes b => b
  | .int n => List.replicate n.toNat 0x58

/-- `len(step_val)` for a bytes argument, the int itself otherwise. -/
def Arg.len : Arg → Int
  | .bytes b => (b.length : Int)
  | .int n => n

inductive Enc
  | append (a : Arg)
  | prepend (a : Arg)
  | base64
  | base64url
  | netbios
  | netbiosu
  | mask
  deriving DecidableEq, Repr

inductive Term
  | print
  | header (k : Bytes)
  | uriAppend
  | parameter (k : Bytes)
  deriving DecidableEq, Repr

/-- `_header` / `_hostheader` / `_parameter` with the raw argument (`b"Name: value"`, `b"name=value"`). -/
inductive Static
  | header (kv : Bytes)
  | hostheader (kv : Bytes)
  | parameter (kv : Bytes)
  deriving DecidableEq, Repr

inductive Field | output | id | metadata
  deriving DecidableEq, Repr

/-- One `(step, step_val)` tuple.  `build none` = BUILD with a value other than output/id/metadata
(a no-op in both directions); `unknown` = any other step name. -/
inductive Step
  | enc (e : Enc)
  | term (t : Term)
  | static (s : Static)
  | build (f : Option Field)
  | unknown
  deriving DecidableEq, Repr

/-! ### Python dict (insertion ordered) -/

abbrev Dict := List (Bytes × Bytes)

/-- `d[k] = v`: an existing key keeps its position. -/
def Dict.set : Dict → Bytes → Bytes → Dict
  | [], k, v => [(k, v)]
  | (k', v') :: rest, k, v => if k' = k then (k', v) :: rest else (k', v') :: Dict.set rest k v

/-- `d[k]` (KeyError when absent). -/
def Dict.get : Dict → Bytes → Option Bytes
  | [], _ => none
  | (k', v') :: rest, k => if k' = k then some v' else Dict.get rest k

/-! ### bytes helpers -/

/-- `s.partition(sep)` → (head, tail); separator not found → (s, b""). `sep` non-empty. -/
def partition (sep : Bytes) : Bytes → Bytes × Bytes
  | [] => ([], [])
  | c :: cs =>
    if sep.isPrefixOf (c :: cs) then ([], (c :: cs).drop sep.length)
    else let r := partition sep cs; (c :: r.1, r.2)

def lowerByte (b : UInt8) : UInt8 := if 65 ≤ b.toNat ∧ b.toNat ≤ 90 then b + 32 else b
def upperByte (b : UInt8) : UInt8 := if 97 ≤ b.toNat ∧ b.toNat ≤ 122 then b - 32 else b
/-- `bytes.lower()` / `bytes.upper()` (ASCII only) -/
def lower (s : Bytes) : Bytes := s.map lowerByte
def upper (s : Bytes) : Bytes := s.map upperByte

/-- `utils.p32be` = `struct.pack(">I", v)` -/
def p32be (v : UInt32) : Bytes :=
  [UInt8.ofNat (v.toNat / 16777216 % 256), UInt8.ofNat (v.toNat / 65536 % 256),
   UInt8.ofNat (v.toNat / 256 % 256), UInt8.ofNat (v.toNat % 256)]

/-! ### CPython base64 -/

/-- `table_b2a_base64` -/
def b64Table : Bytes :=
  -- "ABCDEFGHIJKLMNOPQRSTUVWXYZabcdefghijklmnopqrstuvwxyz0123456789+/"
  [65, 66, 67, 68, 69, 70, 71, 72, 73, 74, 75, 76, 77, 78, 79, 80, 81, 82, 83, 84, 85, 86, 87, 88, 89, 90, 97, 98, 99, 100, 101, 102, 103, 104, 105, 106, 107, 108, 109, 110, 111, 112, 113, 114, 115, 116, 117, 118, 119, 120, 121, 122, 48, 49, 50, 51, 52, 53, 54, 55, 56, 57, 43, 47]

def b64Char (n : Nat) : UInt8 := b64Table.getD n 0

/-- `binascii.b2a_base64(s, newline=False)`, formulated per 3-byte group. -/
def b64encode : Bytes → Bytes
  | [] => []
  | [a] => [b64Char (a.toNat / 4), b64Char (a.toNat % 4 * 16), 61, 61]
  | [a, b] => [b64Char (a.toNat / 4), b64Char (a.toNat % 4 * 16 + b.toNat / 16), b64Char (b.toNat % 16 * 4), 61]
  | a :: b :: c :: rest =>
    b64Char (a.toNat / 4) :: b64Char (a.toNat % 4 * 16 + b.toNat / 16)
      :: b64Char (b.toNat % 16 * 4 + c.toNat / 64) :: b64Char (c.toNat % 64) :: b64encode rest

/-- `_urlsafe_encode_translation` : `+`→`-`, `/`→`_` -/
def urlEncTr (c : UInt8) : UInt8 := if c = 43 then 45 else if c = 47 then 95 else c
/-- `_urlsafe_decode_translation` : `-`→`+`, `_`→`/` -/
def urlDecTr (c : UInt8) : UInt8 := if c = 45 then 43 else if c = 95 then 47 else c

def urlsafeB64encode (s : Bytes) : Bytes := (b64encode s).map urlEncTr

/-- `table_a2b_base64` (values < 64; everything else is "not in the alphabet") -/
def b64Val (c : UInt8) : Option Nat :=
  let n := c.toNat
  if 65 ≤ n ∧ n ≤ 90 then some (n - 65)
  else if 97 ≤ n ∧ n ≤ 122 then some (n - 71)
  else if 48 ≤ n ∧ n ≤ 57 then some (n + 4)
  else if n = 43 then some 62
  else if n = 47 then some 63
  else none

/-- Main loop of `binascii.a2b_base64(data, strict_mode=False)` (CPython 3.12).
State: `q` = quad_pos, `left` = leftchar, `pads`, `acc` = output so far (reversed).
`(leftchar << k) | (this_ch >> j)` is written `left * 2^k + v / 2^j` (the operands never overlap). -/
def a2bGo (val : UInt8 → Option Nat) : Nat → Nat → Nat → Bytes → Bytes → Py Bytes
  | q, _, _, acc, [] =>
    -- quad_pos == 1: "number of data characters cannot be 1 more than a multiple of 4"; else "Incorrect padding"
    if q = 0 then .ok acc.reverse else .error .valueError
  | q, left, pads, acc, c :: cs =>
    if c = 61 then
      if q ≥ 2 then
        if q + (pads + 1) ≥ 4 then .ok acc.reverse   -- goto done: rest of the input is ignored
        else a2bGo val q left (pads + 1) acc cs
      else a2bGo val q left pads acc cs
    else
      match val c with
      | none => a2bGo val q left pads acc cs        -- non-alphabet characters are discarded
      | some v =>
        if q = 0 then a2bGo val 1 v 0 acc cs
        else if q = 1 then a2bGo val 2 (v % 16) 0 (UInt8.ofNat (left * 4 + v / 16) :: acc) cs
        else if q = 2 then a2bGo val 3 (v % 4) 0 (UInt8.ofNat (left * 16 + v / 4) :: acc) cs
        else a2bGo val 0 0 0 (UInt8.ofNat (left * 64 + v) :: acc) cs

/-- `base64.b64decode(s)` (validate=False); `binascii.Error` is a `ValueError`. -/
def b64decode (s : Bytes) : Py Bytes := a2bGo b64Val 0 0 0 [] s

/-- `base64.urlsafe_b64decode(s)` -/
def urlsafeB64decode (s : Bytes) : Py Bytes := b64decode (s.map urlDecTr)

/-! ### HTTP containers -/

structure Req where
  method : Bytes
  uri : Bytes
  params : Dict
  headers : Dict
  body : Bytes
  deriving DecidableEq, Repr

/-- `HttpRequest` or `HttpResponse` (only headers and body of a response are ever read). -/
inductive Http
  | request (r : Req)
  | response (headers : Dict) (body : Bytes)
  deriving DecidableEq, Repr

structure C2Data where
  output : Option Bytes
  metadata : Option Bytes
  id : Option Bytes
  deriving DecidableEq, Repr

def C2Data.get (d : C2Data) : Field → Option Bytes
  | .output => d.output
  | .id => d.id
  | .metadata => d.metadata

/-- successive results of `random.getrandbits(32)` -/
abbrev Rand := Nat → UInt32

def Rand.tail (r : Rand) : Rand := fun i => r (i + 1)

/-! ### constructor -/

structure Transform where
  tsteps : List Step
  rsteps : List Step
  deriving DecidableEq, Repr

/-- `HttpDataTransform(steps, reverse, build)`; `build = some f` ↔ `build is not None`. -/
def mkTransform (steps : List Step) (reverse : Bool) (build : Option (Option Field)) : Transform :=
  let t := steps
  let r := steps.reverse
  let (t, r) := if reverse then (r, t) else (t, r)
  match build with
  | none => ⟨t, r⟩
  | some b => ⟨Step.build b :: t, r ++ [Step.build b]⟩

/-! ### transform -/

/-- the five locals of `transform` plus the random source -/
structure TSt where
  data : Bytes
  uri : Bytes
  params : Dict
  headers : Dict
  body : Bytes
  rand : Rand

/-- the seven encoders: new `data` and the remaining random stream -/
def encStep (e : Enc) (rand : Rand) (data : Bytes) : R (Bytes × Rand) :=
  match e with
  | .append a => .ok (data ++ a.toBytes, rand)
  | .prepend a => .ok (a.toBytes ++ data, rand)
  | .base64 => .ok (b64encode data, rand)
  | .base64url => .ok (urlsafeB64encode data, rand)
  | .netbios => (liftPy (C20.netbiosEncode data 0x41)).map fun e => (lower e, rand)
  | .netbiosu => (liftPy (C20.netbiosEncode data 0x41)).map fun e => (upper e, rand)
  | .mask =>
    let m := p32be (rand 0)
    .ok (m ++ C20.xor data m, rand.tail)

def tstep (c2 : C2Data) (st : Step) (s : TSt) : R TSt :=
  match st with
  | .enc e => (encStep e s.rand s.data).map fun r => { s with data := r.1, rand := r.2 }
  | .term .print => .ok { s with body := s.data }
  | .term (.header k) => .ok { s with headers := s.headers.set k s.data }
  | .term .uriAppend => .ok { s with uri := s.uri ++ s.data }
  | .term (.parameter k) => .ok { s with params := s.params.set k s.data }
  | .static (.header kv) | .static (.hostheader kv) =>
    let p := partition [58, 32] kv
    .ok { s with headers := s.headers.set p.1 p.2 }
  | .static (.parameter kv) =>
    let p := partition [61] kv
    .ok { s with params := s.params.set p.1 p.2 }
  | .build (some f) => .ok { s with data := (c2.get f).getD [] }   -- `c2data.x or b""`
  | .build none => .ok s
  | .unknown => .error (.py .valueError)

def runT (c2 : C2Data) : List Step → TSt → R TSt
  | [], s => .ok s
  | st :: rest, s => (tstep c2 st s).bind (runT c2 rest)

def emptyReq : Req := ⟨[], [], [], [], []⟩

def TSt.init (req : Req) (rand : Rand) : TSt := ⟨[], req.uri, req.params, req.headers, req.body, rand⟩

def TSt.toReq (req : Req) (s : TSt) : Req :=
  { req with body := s.body, params := s.params, uri := s.uri, headers := s.headers }

/-- `HttpDataTransform.transform(c2data, request)`; `request = none` ↔ `None`. -/
def transform (t : Transform) (rand : Rand) (c2 : C2Data) (request : Option Req) : R Req :=
  let req := request.getD emptyReq
  (runT c2 t.tsteps (TSt.init req rand)).map (TSt.toReq req)

/-! ### recover -/

structure RSt where
  data : Bytes
  output : Option Bytes
  id : Option Bytes
  metadata : Option Bytes
  deriving DecidableEq, Repr

def RSt.setField (s : RSt) : Field → RSt
  | .output => { s with output := some s.data }
  | .id => { s with id := some s.data }
  | .metadata => { s with metadata := some s.data }

/-- the seven decoders of `recover` -/
def decStep (e : Enc) (data : Bytes) : R Bytes :=
  match e with
  | .append a => .ok (pySliceTo data (some ((data.length : Int) - a.len)))   -- data[: len(data) - n]
  | .prepend a => .ok (pySliceFrom data a.len)                               -- data[n:]
  | .base64 => liftPy (b64decode (data ++ [61, 61]))
  | .base64url => liftPy (urlsafeB64decode (data ++ [61, 61]))
  | .netbios => liftPy (C20.netbiosDecode (upper data) 0x41)
  | .netbiosu => liftPy (C20.netbiosDecode data 0x41)
  | .mask => .ok (C20.xor (data.drop 4) (data.take 4))

def fetch (http : Http) : Term → R Bytes
  | .print => match http with
    | .request r => .ok r.body
    | .response _ b => .ok b
  | .uriAppend => match http with
    | .request r => .ok r.uri
    | .response _ _ => .error .assertion
  | .header k =>
    let h := match http with
      | .request r => r.headers
      | .response h _ => h
    match h.get k with
    | some v => .ok v
    | none => .error (.py .keyError)
  | .parameter k => match http with
    | .request r => match r.params.get k with
      | some v => .ok v
      | none => .error (.py .keyError)
    | .response _ _ => .error .assertion

def rstep (http : Http) (st : Step) (s : RSt) : R RSt :=
  match st with
  | .enc e => (decStep e s.data).map fun d => { s with data := d }
  | .term t => (fetch http t).map fun d => { s with data := d }
  | .build (some f) => .ok (s.setField f)
  | .build none => .ok s
  | .static _ => .ok s
  | .unknown => .error (.py .valueError)

def runR (http : Http) : List Step → RSt → R RSt
  | [], s => .ok s
  | st :: rest, s => (rstep http st s).bind (runR http rest)

def RSt.toC2 (s : RSt) : C2Data := ⟨s.output, s.metadata, s.id⟩

/-- `HttpDataTransform.recover(http)` -/
def recover (t : Transform) (http : Http) : R C2Data :=
  (runR http t.rsteps ⟨[], none, none, none⟩).map RSt.toC2

/-! ### vocabulary of the theorems -/

/-- arguments for which prepend/append can be undone: integer lengths are non-negative -/
def encOk : Enc → Bool
  | .append (.int n) => decide (0 ≤ n)
  | .prepend (.int n) => decide (0 ≤ n)
  | _ => true

/-- a run of encoder steps of `transform` on `data` -/
def encChain : List Enc → Rand → Bytes → R (Bytes × Rand)
  | [], r, x => .ok (x, r)
  | e :: es, r, x => (encStep e r x).bind fun p => encChain es p.2 p.1

/-- a run of decoder steps of `recover` on `data` (head of the list first) -/
def decChain : List Enc → Bytes → R Bytes
  | [], v => .ok v
  | e :: es, v => (decStep e v).bind (decChain es)

/-! ## Reference (specification) side -/
namespace Ref

/-- a static decoration as the profile writes it: `header "Name" "value"` / `parameter "name" "value"` -/
inductive Deco
  | header (name value : Bytes)
  | hostheader (name value : Bytes)
  | parameter (name value : Bytes)
  deriving DecidableEq, Repr

/-- a data-transform block: `metadata { base64url; prepend "x"; header "Cookie"; }` -/
structure Block where
  field : Field
  encs : List Enc
  term : Term
  deriving DecidableEq, Repr

inductive Item
  | deco (d : Deco)
  | block (b : Block)
  deriving DecidableEq, Repr

abbrev Program := List Item

/-- the step list the profile compiler produces (what `parse_transform_binary` returns) -/
def Deco.toStep : Deco → Step
  | .header n v => .static (.header (n ++ [58, 32] ++ v))
  | .hostheader n v => .static (.hostheader (n ++ [58, 32] ++ v))
  | .parameter n v => .static (.parameter (n ++ [61] ++ v))

def Block.toSteps (b : Block) : List Step :=
  Step.build (some b.field) :: b.encs.map Step.enc ++ [Step.term b.term]

def compile : Program → List Step
  | [] => []
  | .deco d :: rest => d.toStep :: compile rest
  | .block b :: rest => b.toSteps ++ compile rest

/-- int-argument form of an encoder list (what `parse_recover_binary` yields: only lengths are known) -/
def intForm : Enc → Enc
  | .append a => .append (.int a.len)
  | .prepend a => .prepend (.int a.len)
  | e => e

/-- `SETTING_C2_RECOVER` step list of a server `output { encs…; print; }` block: recover order. -/
def serverSteps (encs : List Enc) : List Step :=
  Step.term .print :: (encs.map fun e => Step.enc (intForm e)).reverse

/-! #### reference codecs -/

/-- base64 alphabet by ranges; `url` selects `-_` instead of `+/`. -/
def alpha (url : Bool) (n : Nat) : UInt8 :=
  if n < 26 then UInt8.ofNat (65 + n)
  else if n < 52 then UInt8.ofNat (97 + (n - 26))
  else if n < 62 then UInt8.ofNat (48 + (n - 52))
  else if n = 62 then (if url then 45 else 43)
  else (if url then 95 else 47)

def val (url : Bool) (c : UInt8) : Option Nat :=
  (List.range 64).find? fun n => alpha url n == c

/-- 6-bit groups of a byte string (a trailing partial group yields 2 or 3 sextets) -/
def sextets : Bytes → List Nat
  | [] => []
  | [a] => [a.toNat / 4, a.toNat % 4 * 16]
  | [a, b] => [a.toNat / 4, a.toNat % 4 * 16 + b.toNat / 16, b.toNat % 16 * 4]
  | a :: b :: c :: rest =>
    a.toNat / 4 :: (a.toNat % 4 * 16 + b.toNat / 16) :: (b.toNat % 16 * 4 + c.toNat / 64) :: c.toNat % 64 :: sextets rest

def unsextets : List Nat → Option Bytes
  | [] => some []
  | [_] => none
  | [s0, s1] => some [UInt8.ofNat (s0 * 4 + s1 / 16)]
  | [s0, s1, s2] => some [UInt8.ofNat (s0 * 4 + s1 / 16), UInt8.ofNat (s1 % 16 * 16 + s2 / 4)]
  | s0 :: s1 :: s2 :: s3 :: rest =>
    (unsextets rest).map fun r =>
      UInt8.ofNat (s0 * 4 + s1 / 16) :: UInt8.ofNat (s1 % 16 * 16 + s2 / 4) :: UInt8.ofNat (s2 % 4 * 64 + s3) :: r

def padLen (d : Bytes) : Nat := (3 - d.length % 3) % 3

/-- unpadded characters -/
def b64chars (url : Bool) (d : Bytes) : Bytes := (sextets d).map (alpha url)

/-- Cobalt Strike `base64`: padded -/
def b64enc (d : Bytes) : Bytes := b64chars false d ++ List.replicate (padLen d) 61
/-- Cobalt Strike `base64url`: unpadded -/
def b64urlenc (d : Bytes) : Bytes := b64chars true d

/-- strict decoder: only alphabet characters followed by at most two `=`; padding optional. -/
def b64dec (url : Bool) (s : Bytes) : Option Bytes :=
  let body := s.takeWhile (· != 61)
  let pad := s.dropWhile (· != 61)
  if pad.all (· == 61) && pad.length ≤ 2 then
    (body.mapM (val url)).bind unsextets
  else none

/-- NetBIOS nibble encoding with first letter `base` (97 = 'a', 65 = 'A') -/
def nbEnc (base : Nat) (d : Bytes) : Bytes :=
  d.flatMap fun c => [UInt8.ofNat (base + c.toNat / 16), UInt8.ofNat (base + c.toNat % 16)]

def nbDec (base : Nat) : Bytes → Option Bytes
  | [] => some []
  | [_] => none
  | a :: b :: rest =>
    if base ≤ a.toNat ∧ a.toNat < base + 16 ∧ base ≤ b.toNat ∧ b.toNat < base + 16 then
      (nbDec base rest).map fun r => UInt8.ofNat ((a.toNat - base) * 16 + (b.toNat - base)) :: r
    else none

/-- XOR with a repeating key -/
def xorKey (key : Bytes) (d : Bytes) : Bytes :=
  d.zipIdx.map fun (b, i) => b ^^^ key.getD (i % key.length) 0

def key32 (v : UInt32) : Bytes :=
  [(v >>> 24).toUInt8, (v >>> 16).toUInt8, (v >>> 8).toUInt8, v.toUInt8]

/-- reference encoder of one statement (`int` arguments: `n` filler bytes, only used for totality) -/
def encStep (e : Enc) (rand : Rand) (d : Bytes) : Bytes × Rand :=
  match e with
  | .append a => (d ++ a.toBytes, rand)
  | .prepend a => (a.toBytes ++ d, rand)
  | .base64 => (b64enc d, rand)
  | .base64url => (b64urlenc d, rand)
  | .netbios => (nbEnc 97 d, rand)
  | .netbiosu => (nbEnc 65 d, rand)
  | .mask => (key32 (rand 0) ++ xorKey (key32 (rand 0)) d, rand.tail)

def encChain : List Enc → Rand → Bytes → Bytes × Rand
  | [], rand, d => (d, rand)
  | e :: es, rand, d => let r := encStep e rand d; encChain es r.2 r.1

/-- reference decoder of one statement.  A bytes argument of prepend/append must be literally present,
an int argument (server side: only the length is known to the beacon) is stripped by length. -/
def decStep (e : Enc) (d : Bytes) : Option Bytes :=
  match e with
  | .append (.bytes s) =>
    if s.length ≤ d.length ∧ d.drop (d.length - s.length) = s then some (d.take (d.length - s.length)) else none
  | .append (.int n) =>
    if 0 ≤ n ∧ n.toNat ≤ d.length then some (d.take (d.length - n.toNat)) else none
  | .prepend (.bytes s) => if s.isPrefixOf d then some (d.drop s.length) else none
  | .prepend (.int n) => if 0 ≤ n ∧ n.toNat ≤ d.length then some (d.drop n.toNat) else none
  | .base64 => b64dec false d
  | .base64url => b64dec true d
  | .netbios => nbDec 97 d
  | .netbiosu => nbDec 65 d
  | .mask => if 4 ≤ d.length then some (xorKey (d.take 4) (d.drop 4)) else none

/-- undo statements, head of the list first (callers pass the block's statements reversed) -/
def decChain : List Enc → Bytes → Option Bytes
  | [], d => some d
  | e :: es, d => (decStep e d).bind (decChain es)

def place (t : Term) (d : Bytes) (r : Req) : Req :=
  match t with
  | .print => { r with body := d }
  | .header k => { r with headers := r.headers.set k d }
  | .uriAppend => { r with uri := r.uri ++ d }
  | .parameter k => { r with params := r.params.set k d }

def Deco.apply : Deco → Req → Req
  | .header n v, r | .hostheader n v, r => { r with headers := r.headers.set n v }
  | .parameter n v, r => { r with params := r.params.set n v }

/-- reference encoder: statements of every block in order, then termination -/
def encode : Program → Rand → C2Data → Req → Req
  | [], _, _, r => r
  | .deco d :: rest, rand, c2, r => encode rest rand c2 (d.apply r)
  | .block b :: rest, rand, c2, r =>
    let e := encChain b.encs rand ((c2.get b.field).getD [])
    encode rest e.2 c2 (place b.term e.1 r)

def locate (t : Term) (m : Http) : Option Bytes :=
  match t, m with
  | .print, .request r => some r.body
  | .print, .response _ b => some b
  | .uriAppend, .request r => some r.uri
  | .uriAppend, .response _ _ => none
  | .header k, .request r => r.headers.get k
  | .header k, .response h _ => h.get k
  | .parameter k, .request r => r.params.get k
  | .parameter _, .response _ _ => none

def setField (c : C2Data) (f : Field) (v : Bytes) : C2Data :=
  match f with
  | .output => { c with output := some v }
  | .id => { c with id := some v }
  | .metadata => { c with metadata := some v }

def decodeBlock (b : Block) (m : Http) : Option Bytes :=
  (locate b.term m).bind (decChain b.encs.reverse)

/-- reference decoder: every block is located and its statements undone last-to-first -/
def decode : Program → Http → C2Data → Option C2Data
  | [], _, acc => some acc
  | .deco _ :: rest, m, acc => decode rest m acc
  | .block b :: rest, m, acc => (decodeBlock b m).bind fun v => decode rest m (setField acc b.field v)

/-! #### valid programs -/

def Deco.place : Deco → Term
  | .header n _ | .hostheader n _ => .header n
  | .parameter n _ => .parameter n

/-- header names contain no `:`, parameter names no `=` -/
def Deco.nameOk : Deco → Bool
  | .header n _ | .hostheader n _ => !n.contains 58
  | .parameter n _ => !n.contains 61

def Item.place : Item → Term
  | .deco d => d.place
  | .block b => b.term

/-- every location a program writes to, in program order -/
def places (p : Program) : List Term := p.map Item.place

/-- A valid program: well-formed decoration names, non-negative integer arguments, and no statement after a
block writes to that block's placement (in particular: pairwise distinct terminations, at most one `print`
and one `uri-append`). -/
def valid : Program → Bool
  | [] => true
  | .deco d :: rest => d.nameOk && valid rest
  | .block b :: rest => b.encs.all encOk && !(places rest).contains b.term && valid rest

def usesUri (p : Program) : Bool := (places p).contains .uriAppend

def built (p : Program) (f : Field) : Bool :=
  p.any fun
    | .block b => b.field == f
    | .deco _ => false

/-- what `recover` must return: every built field holds the payload (`None` counts as `b""`), the others are `None` -/
def normalise (p : Program) (c2 : C2Data) : C2Data :=
  let pick := fun f => if built p f then some ((c2.get f).getD []) else none
  ⟨pick .output, pick .metadata, pick .id⟩

end Ref
end C04

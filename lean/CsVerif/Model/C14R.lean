/-! C14, configurations with a setting that cannot be rendered.

The heap model `Model/C14.lean` abstracts a configuration whose every pretty function returns.  A configuration block may
also carry a setting on whose parsed value its pretty function RAISES (e.g. a `SETTING_BEACON_GATE` value shorter than its
option bitmap → `EOFError` from `parse_beacon_gate`).  For the property such a configuration is a value like any other:
each use gives the same result – here an error – whatever was done before, and nothing observable changes.

This is the model of the code for such a configuration (`beacon.py` 892-1000): `settings_map(pretty=True)` raises inside
its loop and returns nothing; the four view properties cache `settings_map(...)` on the instance only once it has
RETURNED, so a rendered view is never cached; `C2Http.__init__` (both key variants that get past the key check),
`HttpBeaconClient.run(dry_run=True)` and `C2Profile.from_beacon_config` read `settings` / `settings_by_index` before
anything else of the configuration and the exception propagates.  The exception's class is a parameter of the run
(obtained by the harness from the pretty function itself), so the observable result of a use is one of two things. -/
namespace C14R

inductive View
  | settings | settingsByIndex | rawSettings | rawSettingsByIndex
  deriving DecidableEq, Repr

/-- `settings` and `settings_by_index` apply the pretty functions -/
def View.pretty : View → Bool
  | .settings | .settingsByIndex => true
  | .rawSettings | .rawSettingsByIndex => false

inductive Use
  /-- property access -/
  | view (v : View)
  /-- an uncached `settings_map(index_type, pretty, parse)` call -/
  | smap (pretty : Bool)
  /-- `C2Http(cfg, aes_key/hmac_key or aes_rand)` -/
  | c2http
  /-- `HttpBeaconClient().run(cfg, dry_run=True)` -/
  | client
  /-- `C2Profile.from_beacon_config(cfg)` -/
  | profile
  deriving DecidableEq, Repr

inductive Out
  /-- a read-only mapping is returned -/
  | mapping
  /-- the pretty function's exception propagates to the caller -/
  | raises
  deriving DecidableEq, Repr

/-- the instance state a use can touch: which views are cached -/
structure State where
  cached : List View
  deriving DecidableEq, Repr

def State.init : State := ⟨[]⟩

/-- property access: a cached view is returned; otherwise `settings_map` runs, and only a mapping that was returned is cached -/
def viewAccess (s : State) (v : View) : State × Out :=
  if v ∈ s.cached then (s, .mapping)
  else if v.pretty then (s, .raises)
  else (⟨v :: s.cached⟩, .mapping)

def step (s : State) : Use → State × Out
  | .view v => viewAccess s v
  | .smap p => (s, if p then .raises else .mapping)
  | .c2http | .client => viewAccess s .settings
  | .profile => viewAccess s .settingsByIndex

def run (s : State) : List Use → State
  | [] => s
  | u :: us => run (step s u).1 us

/-- the observable results of a history, in order -/
def outs (s : State) : List Use → List Out
  | [] => []
  | u :: us => (step s u).2 :: outs (step s u).1 us

/-- the seeded variant C14-m18: the view's slot is filled BEFORE `settings_map` runs, so the (half-filled) mapping of a
failed first use is what every later use returns -/
def viewAccessEager (s : State) (v : View) : State × Out :=
  if v ∈ s.cached then (s, .mapping)
  else (⟨v :: s.cached⟩, if v.pretty then .raises else .mapping)

end C14R

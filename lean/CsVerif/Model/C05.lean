import CsVerif.Model.Basic
import CsVerif.Model.PyFile
import CsVerif.Model.C20
/-
C05 — packet encryption and framing
(dissect/cobaltstrike/c2.py: EncryptedPacket.dumps / raise_for_signature,
 ServerC2Data / ClientC2Data.iter_encrypted_packets, pad, encrypt_data, decrypt_data,
 decrypt_packet, encrypt_packet)

AES-CBC and HMAC-SHA256 are *parameters* (`Crypto`); the assumptions about them that the theorems
use are collected in `CryptoLaws`.  Everything else — padding, truncation of the MAC to 16 bytes,
the order "verify, then decrypt", which exception is raised, the framing — is decided by the model.
Every function that touches a primitive also returns the list of primitive calls it made
(`Traced`), so that "AES is not invoked when the packet is rejected" is a statement about the model.
-/
namespace C05

/-- The primitives, in the argument order `key iv data` / `key msg`.
`aesCbcEnc k iv d` stands for `AES.new(k, AES.MODE_CBC, iv=iv).encrypt(d)` (one call),
`aesCbcDec` for `.decrypt(d)`, `hmacSha256 k m` for `hmac.new(k, m, "sha256").digest()`. -/
structure Crypto where
  aesCbcEnc : Bytes → Bytes → Bytes → Py Bytes
  aesCbcDec : Bytes → Bytes → Bytes → Py Bytes
  hmacSha256 : Bytes → Bytes → Bytes

/-- One invocation of a primitive, with its arguments. -/
inductive Call
  | hmac (key msg : Bytes)
  | aesEnc (key iv data : Bytes)
  | aesDec (key iv data : Bytes)
  deriving DecidableEq, Repr

def Call.isAes : Call → Bool
  | .hmac .. => false
  | .aesEnc .. => true
  | .aesDec .. => true

/-- result together with the primitive calls made, in order -/
abbrev Traced (α : Type) := Py α × List Call

/-- `EncryptedPacket(ciphertext, signature)` -/
structure Packet where
  ciphertext : Bytes
  signature : Bytes
  deriving DecidableEq, Repr

/-! ### padding -/

/-- `pad(data, block_size)`: `to_pad = block_size - len(data) % block_size`, `data + b"A" * to_pad`.
(`block_size = 0` raises ZeroDivisionError in Python and is outside the model; the library only
uses the default 16.) -/
def padTo (blockSize : Nat) (data : Bytes) : Bytes :=
  data ++ List.replicate (blockSize - data.length % blockSize) 0x41

/-- `pad(data)` with the default `block_size = AES.block_size = 16` -/
def pad (data : Bytes) : Bytes := padTo 16 data

/-! ### encrypt_data / decrypt_data -/

/-- `encrypt_data(data, aes_key, iv)`; `aes_key is None` raises ValueError before AES is touched. -/
def encryptDataT (c : Crypto) (data : Bytes) (aesKey : Option Bytes) (iv : Bytes) : Traced Bytes :=
  match aesKey with
  | none => (.error .valueError, [])
  | some k => (c.aesCbcEnc k iv (pad data), [.aesEnc k iv (pad data)])

/-- `decrypt_data(data, aes_key, iv)`; no unpadding. -/
def decryptDataT (c : Crypto) (data : Bytes) (aesKey : Option Bytes) (iv : Bytes) : Traced Bytes :=
  match aesKey with
  | none => (.error .valueError, [])
  | some k => (c.aesCbcDec k iv data, [.aesDec k iv data])

def encryptData (c : Crypto) (data : Bytes) (aesKey : Option Bytes) (iv : Bytes) : Py Bytes :=
  (encryptDataT c data aesKey iv).1

def decryptData (c : Crypto) (data : Bytes) (aesKey : Option Bytes) (iv : Bytes) : Py Bytes :=
  (decryptDataT c data aesKey iv).1

/-! ### signatures -/

/-- the 16-byte tag: `hmac.new(key, ct, "sha256").digest()[:16]` -/
def mac16 (c : Crypto) (hmacKey ct : Bytes) : Bytes := (c.hmacSha256 hmacKey ct).take 16

/-- `EncryptedPacket.raise_for_signature(hmac_key)` (`hmac_key` is a bytes object here; `b""` is
a legal HMAC key). -/
def raiseForSignatureT (c : Crypto) (p : Packet) (hmacKey : Bytes) : Traced Unit :=
  (if mac16 c hmacKey p.ciphertext ≠ p.signature then .error .valueError else .ok (),
   [.hmac hmacKey p.ciphertext])

def raiseForSignature (c : Crypto) (p : Packet) (hmacKey : Bytes) : Py Unit :=
  (raiseForSignatureT c p hmacKey).1

/-! ### encrypt_packet / decrypt_packet -/

/-- `encrypt_packet(plaintext, aes_key, hmac_key, iv)`.  `hmac_key = None` makes `hmac.new`
raise TypeError, after the encryption has already been done. -/
def encryptPacketT (c : Crypto) (plaintext : Bytes) (aesKey hmacKey : Option Bytes) (iv : Bytes) :
    Traced Packet :=
  match encryptDataT c plaintext aesKey iv with
  | (.error e, log) => (.error e, log)
  | (.ok ct, log) =>
    match hmacKey with
    | none => (.error .typeError, log)
    | some hk => (.ok ⟨ct, mac16 c hk ct⟩, log ++ [.hmac hk ct])

def encryptPacket (c : Crypto) (plaintext : Bytes) (aesKey hmacKey : Option Bytes) (iv : Bytes) :
    Py Packet :=
  (encryptPacketT c plaintext aesKey hmacKey iv).1

/-- `decrypt_packet(packet, aes_key, hmac_key, iv, verify)`:
`if verify: if not hmac_key: raise ValueError; packet.raise_for_signature(hmac_key)` and only then
`decrypt_data`. -/
def decryptPacketT (c : Crypto) (p : Packet) (aesKey hmacKey : Option Bytes) (iv : Bytes)
    (verify : Bool) : Traced Bytes :=
  if verify then
    match hmacKey with
    | none => (.error .valueError, [])
    | some [] => (.error .valueError, [])
    | some (b :: bs) =>
      match raiseForSignatureT c p (b :: bs) with
      | (.error e, log) => (.error e, log)
      | (.ok (), log) =>
        let r := decryptDataT c p.ciphertext aesKey iv
        (r.1, log ++ r.2)
  else decryptDataT c p.ciphertext aesKey iv

def decryptPacket (c : Crypto) (p : Packet) (aesKey hmacKey : Option Bytes) (iv : Bytes)
    (verify : Bool) : Py Bytes :=
  (decryptPacketT c p aesKey hmacKey iv verify).1

/-! ### framing -/

/-- `p32be(n) = pack(n, size=4, byteorder="big")` (OverflowError for `n ≥ 2^32`). -/
def p32be (n : Nat) : Py Bytes := C20.pack (n : Int) (some 4) .big false

/-- `EncryptedPacket.dumps()`: `p32be(len(ct + sig)) + ct + sig` -/
def dumps (p : Packet) : Py Bytes :=
  (p32be ((p.ciphertext ++ p.signature).length)).map (· ++ (p.ciphertext ++ p.signature))

/-- `c2struct.uint32(fobj)` on a big-endian cstruct: 4 bytes, EOFError when fewer are left. -/
def readU32be (f : PyFile) : Py (Nat × PyFile) :=
  let r := f.read 4
  if r.1.length < 4 then .error .eofError else .ok (C20.fromBytesU .big r.1, r.2)

/-- One iteration of the `while data:` loop of `ClientC2Data.iter_encrypted_packets`:
the packet that is yielded and the `data` of the next iteration.
`fobj.read(size - 16)` is called with a NEGATIVE argument when `size < 16`, which reads everything. -/
def iterClientStep (data : Bytes) : Py (Packet × Bytes) :=
  match readU32be (PyFile.ofBytes data) with
  | .error e => .error e
  | .ok (size, f) =>
    let r1 := f.read ((size : Int) - 16)
    let r2 := r1.2.read 16
    let r3 := r2.2.readAll
    .ok (⟨r1.1, r2.1⟩, r3.1)

/-- a successful size read leaves the file 4 bytes further, and those 4 bytes existed -/
theorem readU32be_ok {f : PyFile} {size : Nat} {g : PyFile} (h : readU32be f = .ok (size, g)) :
    g.data = f.data ∧ g.pos = f.pos + 4 ∧ f.pos + 4 ≤ f.data.length := by
  unfold readU32be at h
  simp only at h
  by_cases hlen : (f.read 4).1.length < 4
  · rw [if_pos hlen] at h; cases h
  · rw [if_neg hlen] at h
    injection h with h
    injection h with _ h2
    subst h2
    have e : f.read 4 = f.read ((4 : Nat) : Int) := rfl
    have h4 := PyFile.read_nonneg f 4
    have hl := PyFile.read_length_le f 4
    rw [e] at hlen ⊢
    have this : (f.read ((4 : Nat) : Int)).1.length = 4 := by omega
    refine ⟨rfl, by rw [PyFile.read_pos]; omega, ?_⟩
    rw [h4] at this
    simp only [List.length_take, List.length_drop] at this
    omega

theorem readAll_length (f : PyFile) : f.readAll.1.length = f.data.length - f.pos := by
  simp [PyFile.readAll, PyFile.read]

/-- every iteration consumes at least the 4 bytes of the size field (termination of the loop) -/
theorem iterClientStep_consumes {data : Bytes} {p : Packet} {rest : Bytes}
    (h : iterClientStep data = .ok (p, rest)) : rest.length + 4 ≤ data.length := by
  unfold iterClientStep at h
  split at h
  · cases h
  · rename_i size f hr
    obtain ⟨hd, hp, hle⟩ := readU32be_ok hr
    injection h with h
    injection h with _ h3
    subst h3
    rw [readAll_length]
    simp only [PyFile.read_data, PyFile.read_pos, hd, hp, PyFile.ofBytes] at hle ⊢
    omega

/-- A generator's observable behaviour: the items yielded, then either exhaustion (`none`) or the
exception that ended the iteration. -/
abbrev GenResult (α : Type) := List α × Option PyExc

set_option linter.unusedVariables false in
/-- `ClientC2Data(output=data).iter_encrypted_packets()` for a bytes `data`.
Terminates because `iterClientStep_consumes`: the next `data` is at least 4 bytes shorter. -/
def iterClientPackets (data : Bytes) : GenResult Packet :=
  if data.isEmpty then ([], none)
  else
    match hstep : iterClientStep data with
    | .error e => ([], some e)
    | .ok (p, rest) =>
      let r := iterClientPackets rest
      (p :: r.1, r.2)
termination_by data.length
decreasing_by
  have hlt := iterClientStep_consumes hstep
  omega

/-- `ClientC2Data(output=…)`: `output` may be `None` (`while None:` does not loop). -/
def iterClient (output : Option Bytes) : GenResult Packet :=
  match output with
  | none => ([], none)
  | some d => iterClientPackets d

/-- `ServerC2Data(output=…).iter_encrypted_packets()`: nothing for `None`/`b""`, otherwise exactly
one packet; `read(len(data) - 16)` has a negative argument for `len(data) < 16`. -/
def iterServerPacket (output : Option Bytes) : List Packet :=
  match output with
  | none => []
  | some data =>
    if data.isEmpty then []
    else
      let f := PyFile.ofBytes data
      let r1 := f.read ((data.length : Int) - 16)
      let r2 := r1.2.read 16
      [⟨r1.1, r2.1⟩]

/-- concatenation of the framed packets (`b"".join(p.dumps() for p in ps)`) -/
def dumpsAll : List Packet → Py Bytes
  | [] => .ok []
  | p :: ps => (dumps p).bind fun b => (dumpsAll ps).map (b ++ ·)

/-! ### What is assumed about the primitives -/

/-- The argument combinations pycryptodome accepts: `AES.new(key, MODE_CBC, iv=iv)` raises ValueError
unless `len(key) ∈ {16, 24, 32}` and `len(iv) = 16`; `encrypt`/`decrypt` raise ValueError unless
`len(data) % 16 = 0`. -/
def AesArgsOk (key iv data : Bytes) : Prop :=
  (key.length = 16 ∨ key.length = 24 ∨ key.length = 32) ∧ iv.length = 16 ∧ data.length % 16 = 0

instance (key iv data : Bytes) : Decidable (AesArgsOk key iv data) := by
  unfold AesArgsOk; infer_instance

/-- Exactly the assumptions about AES-CBC and HMAC-SHA256 that the C05 theorems use. -/
structure CryptoLaws (c : Crypto) : Prop where
  /-- encryption succeeds on admissible arguments, keeps the length, and decryption inverts it -/
  dec_enc : ∀ k iv p, AesArgsOk k iv p →
    ∃ ct, c.aesCbcEnc k iv p = .ok ct ∧ ct.length = p.length ∧ c.aesCbcDec k iv ct = .ok p
  /-- decryption succeeds on admissible arguments and keeps the length -/
  dec_total : ∀ k iv ct, AesArgsOk k iv ct → ∃ p, c.aesCbcDec k iv ct = .ok p ∧ p.length = ct.length
  /-- ValueError for a bad key length, bad IV length or data that is not block aligned -/
  enc_raises : ∀ k iv p, ¬ AesArgsOk k iv p → c.aesCbcEnc k iv p = .error .valueError
  dec_raises : ∀ k iv ct, ¬ AesArgsOk k iv ct → c.aesCbcDec k iv ct = .error .valueError
  /-- a SHA-256 digest has 32 bytes -/
  hmac_len : ∀ k m, (c.hmacSha256 k m).length = 32

/-- A toy instance (repeating-key XOR "cipher", prefix "MAC") showing the laws are satisfiable. -/
def toyCrypto : Crypto where
  aesCbcEnc k iv d := if AesArgsOk k iv d then .ok (C20.xor d (k ++ iv)) else .error .valueError
  aesCbcDec k iv d := if AesArgsOk k iv d then .ok (C20.xor d (k ++ iv)) else .error .valueError
  hmacSha256 k m := (k ++ m ++ List.replicate 32 0).take 32

end C05

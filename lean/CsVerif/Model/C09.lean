import CsVerif.Model.PyFile
import CsVerif.Model.C20
import CsVerif.Model.C15
/-
C09 — XorEncoded file view
  dissect/cobaltstrike/xordecode.py   iter_nonce_offsets (26-57), XorEncodedFile (60-182)
  dissect/cobaltstrike/pe.py          find_mz_offset (178-208)

The model follows the code as it is in /repo now (after fix 5b1e7f7: `read` returns early for
`n == 0`, treats `None`/negative `n` as "read everything" and seeks back over the surplus of the
last 4-byte chunk; after fix f64b15d: `read_nonce` restores the cursor with `self.fh.seek(pos)`; after fix 13416c7: `seek` clamps at logical 0).  Raw layout of an encoded stage:  stub ++ nonce(4) ++ size(4) ++ enc.
-/
namespace C09

/-! ### The file object -/

structure XorFile where
  fh : PyFile
  nonceOff : Nat
  initialNonce : Bytes
  noncedSize : Bytes
  deriving Repr

/-- `XorEncodedFile.__init__(fh, nonce_offset)`: seek to the nonce, read nonce and encoded size. -/
def mk' (fh : PyFile) (nonceOff : Nat) : Py XorFile :=
  match fh.seekSet nonceOff with                          -- self.fh.seek(self.nonce_offset)
  | .error e => .error e
  | .ok (_, f1) =>
    let r1 := f1.read 4                                   -- self.initial_nonce = self.fh.read(4)
    let r2 := r1.2.read 4                                 -- self.nonced_filesize = self.fh.read(4)
    .ok { fh := r2.2, nonceOff := nonceOff, initialNonce := r1.1, noncedSize := r2.1 }

/-- raw offset of logical position 0 (`nonce_offset + 8`). -/
def XorFile.base (x : XorFile) : Nat := x.nonceOff + 8

/-- `read_nonce()`: the four bytes before the current raw position; below logical position 4 the
encoded-size dword is skipped by splicing in the tail of the initial nonce.
`except OSError` catches the failed relative seek of an OS file (BytesIO clamps to 0 instead);
`rawNonce` is the `try` block. -/
def rawNonce (x : XorFile) : Py (Bytes × PyFile) :=
  match x.fh.seekCur (-4) with                            -- self.fh.seek(-4, io.SEEK_CUR)
  | .ok (_, f1) => .ok (f1.read 4)                        -- nonce = self.fh.read(4)
  | .error e => if e = .osError then .ok ([0, 0, 0, 0], x.fh) else .error e   -- except OSError

/-- the splice of `read_nonce` below logical position 4 -/
def spliceNonce (x : XorFile) (pos : Nat) (nonce : Bytes) : Bytes :=
  if pos < x.nonceOff + 12 then
    let offset : Int := (pos : Int) - ((x.nonceOff : Int) + 8)
    -- nonce = self.initial_nonce[offset:] + nonce[4 - offset:]
    pySliceFrom x.initialNonce offset ++ pySliceFrom nonce (4 - offset)
  else nonce

def readNonce (x : XorFile) : Py (Bytes × XorFile) :=
  let pos := x.fh.tell                                    -- pos = self.fh.tell()
  match rawNonce x with
  | .error e => .error e
  | .ok (nonce, f2) =>
    match f2.seekSet pos with                             -- self.fh.seek(pos)   (fix f64b15d)
    | .error e => .error e
    | .ok (_, f3) => .ok (spliceNonce x pos nonce, { x with fh := f3 })

/-- `read_nonce` as it was before fix f64b15d (no `self.fh.seek(pos)`): kept only to show that the
refinement theorem distinguishes the two (`Props/C09.lean`, `history_refines_refutes_old`). -/
def readNonceOld (x : XorFile) : Py (Bytes × XorFile) :=
  let pos := x.fh.tell
  match rawNonce x with
  | .error e => .error e
  | .ok (nonce, f2) => .ok (spliceNonce x pos nonce, { x with fh := f2 })

/-- `tell()` -/
def tell (x : XorFile) : Int := (x.fh.tell : Int) - ((x.nonceOff : Int) + 8)

/-- `seek(offset, whence)` as it was before fix 13416c7 (only SEEK_SET translated, no lower bound): kept only to show
that the refinement theorem distinguishes the two (`Props/C09.lean`, `negative_seek_exact_old`,
`history_refines_all_seeks_refutes_old`). -/
def seekOld (x : XorFile) (off : Int) (whence : Nat) : Py (Nat × XorFile) :=
  let r := if whence = 0 then x.fh.seek (off + (x.nonceOff : Int) + 8) whence else x.fh.seek off whence
  match r with
  | .error e => .error e
  | .ok (v, f) => .ok (v, { x with fh := f })

/-- the last line of `seek`: `return self.fh.seek(max(target, 0) + base)`; the value returned is the RAW offset. -/
def seekTo (x : XorFile) (target : Int) : Py (Nat × XorFile) :=
  match x.fh.seekSet (max target 0 + ((x.nonceOff : Int) + 8)) with
  | .error e => .error e
  | .ok (v, f) => .ok (v, { x with fh := f })

/-- `seek(offset, whence)` (after fix 13416c7): the logical target is computed for every `whence` and clamped at 0
(like `io.BytesIO`); a negative absolute offset and an unknown `whence` raise ValueError before anything moves;
SEEK_END first moves the raw cursor to the end (`self.fh.seek(0, io.SEEK_END)`). -/
def seek (x : XorFile) (off : Int) (whence : Nat) : Py (Nat × XorFile) :=
  match whence with
  | 0 =>                                                  -- if whence == io.SEEK_SET:
    if off < 0 then .error .valueError                    --   if offset < 0: raise ValueError
    else seekTo x off                                     --   target = offset
  | 1 => seekTo x (tell x + off)                          -- target = self.tell() + offset
  | 2 =>
    match x.fh.seekEnd 0 with                             -- target = self.fh.seek(0, io.SEEK_END) - base + offset
    | .error e => .error e
    | .ok (v, f1) => seekTo { x with fh := f1 } ((v : Int) - ((x.nonceOff : Int) + 8) + off)
  | _ => .error .valueError                               -- raise ValueError("invalid whence …")

theorem readLoop_progress (f : PyFile) (h : ¬ (f.read 4).1 = []) :
    (f.read 4).2.data.length - (f.read 4).2.pos < f.data.length - f.pos := by
  have h1 : (f.read 4).1 = (f.data.drop f.pos).take 4 := PyFile.read_nonneg f 4
  have h2 : (f.read 4).1.length ≤ f.data.length - f.pos := by
    rw [h1]; simp only [List.length_take, List.length_drop]; omega
  have h3 : 0 < (f.read 4).1.length := List.length_pos_iff.mpr h
  simp only [PyFile.read_data, PyFile.read_pos]
  omega

/-- The `while True:` chunk loop of `read`.  `got` is `len(data)` before the iteration, the bytes
returned are what the loop appends to `data`.  Terminates because a non-empty chunk advances the
raw position towards the end of the data. -/
def readLoop (n : Int) (f : PyFile) (nonce : Bytes) (got : Nat) : Bytes × PyFile :=
  if _h : (f.read 4).1 = [] then ([], (f.read 4).2)       -- chunk = fh.read(4); if not chunk: break
  else
    let chunk := (f.read 4).1
    let dec := C20.xor chunk nonce                        -- data += xor(chunk, nonce)
    if n > 0 ∧ ((got + dec.length : Nat) : Int) ≥ n then  -- if n > 0 and len(data) >= n: break
      (dec, (f.read 4).2)
    else
      let r := readLoop n (f.read 4).2 chunk (got + dec.length)   -- nonce = chunk
      (dec ++ r.1, r.2)
termination_by f.data.length - f.pos
decreasing_by exact readLoop_progress f (by assumption)

/-- `read(n)` with the nonce lookup as a parameter; `none` = Python `None`. -/
def readWith (rn : XorFile → Py (Bytes × XorFile)) (x : XorFile) (n : Option Int) : Py (Bytes × XorFile) :=
  let n : Int := match n with                             -- if n is None or n < 0: n = -1
    | none => -1
    | some v => if v < 0 then -1 else v
  if n = 0 then .ok ([], x)                               -- if n == 0: return b""
  else
    match rn x with                                       -- nonce = self.read_nonce()
    | .error e => .error e
    | .ok (nonce, x1) =>
      let r := readLoop n x1.fh nonce 0
      if n = -1 then .ok (r.1, { x1 with fh := r.2 })     -- return data[:None]
      else if (r.1.length : Int) > n then
        match r.2.seekCur (n - (r.1.length : Int)) with   -- self.fh.seek(n - len(data), io.SEEK_CUR)
        | .error e => .error e
        | .ok (_, f3) => .ok (r.1.take n.toNat, { x1 with fh := f3 })
      else .ok (r.1.take n.toNat, { x1 with fh := r.2 })  -- return data[:n]

/-- `XorEncodedFile.read(n)` -/
def read (x : XorFile) (n : Option Int) : Py (Bytes × XorFile) := readWith readNonce x n

/-! ### Operation histories -/

inductive Op
  | seek (off : Int) (whence : Nat)
  | read (n : Option Int)
  | tell
  deriving DecidableEq, Repr

inductive Out
  | seek (ret : Nat)
  | bytes (b : Bytes)
  | pos (p : Int)
  deriving DecidableEq, Repr

def stepOp (x : XorFile) : Op → Py (Out × XorFile)
  | .seek off wh => (seek x off wh).map fun r => (.seek r.1, r.2)
  | .read n => (read x n).map fun r => (.bytes r.1, r.2)
  | .tell => .ok (.pos (tell x), x)

/-- a history; stops at the first exception. -/
def run (x : XorFile) : List Op → Py (List Out × XorFile)
  | [] => .ok ([], x)
  | op :: ops =>
    match stepOp x op with
    | .error e => .error e
    | .ok (o, x') =>
      match run x' ops with
      | .error e => .error e
      | .ok (os, x'') => .ok (o :: os, x'')

/-- the same with the pre-13416c7 `seek` (only for `history_refines_all_seeks_refutes_old`) -/
def stepOpOld (x : XorFile) : Op → Py (Out × XorFile)
  | .seek off wh => (seekOld x off wh).map fun r => (.seek r.1, r.2)
  | op => stepOp x op

def runOld (x : XorFile) : List Op → Py (List Out × XorFile)
  | [] => .ok ([], x)
  | op :: ops =>
    match stepOpOld x op with
    | .error e => .error e
    | .ok (o, x') =>
      match runOld x' ops with
      | .error e => .error e
      | .ok (os, x'') => .ok (o :: os, x'')

/-- trace used by the driver: an operation that raises leaves the object unchanged
(only `seek` can raise — ValueError for a negative absolute offset or an unknown whence — and it does so before
anything moves). -/
def runTrace (x : XorFile) : List Op → List (Py Out)
  | [] => []
  | op :: ops =>
    match stepOp x op with
    | .error e => .error e :: runTrace x ops
    | .ok (o, x') => .ok o :: runTrace x' ops

/-! ### Specification: a plain file over the decoded bytes -/

/-- `plain[i] = enc[i] ^ (nonce[i] if i < 4 else enc[i-4])` -/
def rollDecode (nonce enc : Bytes) : Bytes :=
  enc.mapIdx fun i b => b ^^^ (if i < 4 then nonce.getD i 0 else enc.getD (i - 4) 0)

/-- the inverse direction (used by examples and the driver's self-test op). -/
def rollEncodeAux : Bytes → Bytes → Bytes
  | _, [] => []
  | k :: ks, p :: ps => (p ^^^ k) :: rollEncodeAux (ks ++ [p ^^^ k]) ps
  | [], p :: ps => p :: rollEncodeAux [] ps

def rollEncode (nonce plain : Bytes) : Bytes := rollEncodeAux nonce plain

/-- the same operations on an ordinary Python file (outputs: `seek` returns the new position). -/
def plainStep (f : PyFile) : Op → Py (Out × PyFile)
  | .seek off wh => (f.seek off wh).map fun r => (.seek r.1, r.2)
  | .read n => .ok (.bytes (f.read (n.getD (-1))).1, (f.read (n.getD (-1))).2)
  | .tell => .ok (.pos f.tell, f)

def plainRun (f : PyFile) : List Op → Py (List Out × PyFile)
  | [] => .ok ([], f)
  | op :: ops =>
    match plainStep f op with
    | .error e => .error e
    | .ok (o, f') =>
      match plainRun f' ops with
      | .error e => .error e
      | .ok (os, f'') => .ok (o :: os, f'')

/-- the plain file's trace in the driver's convention (`runTrace`): a raising operation leaves the file unchanged -/
def plainTrace (f : PyFile) : List Op → List (Py Out)
  | [] => []
  | op :: ops =>
    match plainStep f op with
    | .error e => .error e :: plainTrace f ops
    | .ok (o, f') => .ok o :: plainTrace f' ops

/-- `XorEncodedFile.seek` returns the raw offset: logical result shifted by `nonce_offset + 8`. -/
def Out.shift (base : Nat) : Out → Out
  | .seek v => .seek (v + base)
  | o => o

/-- position of a plain file of length `len` at `p` after `read(n)` -/
def posAfterRead (len p : Nat) (n : Option Int) : Nat :=
  match n with
  | none => max p len
  | some v => if v < 0 then max p len else max p (min (p + v.toNat) len)

/-- Decidable hypothesis of the refinement theorem: every seek of the history lands at a logical
position `≥ 0` (possibly beyond the end); `p` is the logical position before the history. -/
def seeksNonneg (len : Nat) : Nat → List Op → Bool
  | _, [] => true
  | p, .seek off wh :: ops =>
    let t : Option Int :=
      match wh with
      | 0 => some off
      | 1 => some ((p : Int) + off)
      | 2 => some ((len : Int) + off)
      | _ => none
    match t with
    | none => false
    | some t => decide (0 ≤ t) && seeksNonneg len t.toNat ops
  | p, .read n :: ops => seeksNonneg len (posAfterRead len p n) ops
  | p, .tell :: ops => seeksNonneg len p ops

/-! ### Detection -/

/-- `utils.u32 = partial(unpack, size=4)` -/
def u32 (d : Bytes) : Int := C20.unpack d (some 4) .little false

/-- body of `for i in range(maxrange)`: `k` iterations left, current index `i`. -/
def nonceLoop (realSize : Int) : Nat → Nat → PyFile → Py (List Nat × PyFile)
  | 0, _, f => .ok ([], f)
  | k + 1, i, f =>
    match f.seekSet i with                                -- fh.seek(i)
    | .error e => .error e
    | .ok (_, f1) =>
      let r1 := f1.read 4                                 -- nonce = fh.read(4)
      let r2 := r1.2.read 4                               -- size = fh.read(4)
      if r1.1.length ≠ 4 ∨ r2.1.length ≠ 4 then .ok ([], r2.2)   -- break
      else
        match nonceLoop realSize k (i + 1) r2.2 with
        | .error e => .error e
        | .ok (rest, f') =>
          -- decoded_size = u32(xor(nonce, size)); if decoded_size + i + 8 == real_size: yield i
          if u32 (C20.xor r1.1 r2.1) + (i : Int) + 8 = realSize then .ok (i :: rest, f')
          else .ok (rest, f')

/-- `list(iter_nonce_offsets(fh, real_size, maxrange))` and the file afterwards. -/
def iterNonceOffsets (f : PyFile) (realSize : Option Int) (maxrange : Nat) : Py (List Nat × PyFile) :=
  match realSize with
  | some rs => nonceLoop rs maxrange 0 f
  | none =>
    match f.seekEnd 0 with                                -- fh.seek(0, io.SEEK_END)
    | .error e => .error e
    | .ok (_, f1) => nonceLoop (f1.tell : Int) maxrange 0 f1    -- real_size = fh.tell()

/-! `collections.Counter(xs).most_common()`: dict in first-insertion order, then a stable sort by
count, descending (`sorted(items, key=itemgetter(1), reverse=True)` keeps ties in dict order). -/

def counterAdd : List (Nat × Nat) → Nat → List (Nat × Nat)
  | [], k => [(k, 1)]
  | (k', n) :: t, k => if k' = k then (k', n + 1) :: t else (k', n) :: counterAdd t k

def counter (xs : List Nat) : List (Nat × Nat) := xs.foldl counterAdd []

/-- insert `e` (which precedes every element of the list in dict order) into a list sorted by count
descending: before the first element whose count is not larger. -/
def insertByCount (e : Nat × Nat) : List (Nat × Nat) → List (Nat × Nat)
  | [] => [e]
  | h :: t => if h.2 ≤ e.2 then e :: h :: t else h :: insertByCount e t

def mostCommon (c : List (Nat × Nat)) : List (Nat × Nat) := c.foldr insertByCount []

/-- candidate nonce offsets in the order `from_file` tries them:
`Counter(eof_shellcode_offsets + nonce_offsets).most_common()`, where
`eof_shellcode_offsets = [o + 3 for o in iter_find_needle(fh, b"\xff\xff\xff", 0, maxrange)]`. -/
def candidates (markerHits nonceOffsets : List Nat) : List Nat :=
  (mostCommon (counter (markerHits.map (· + 3) ++ nonceOffsets))).map (·.1)

/-- the `for offset, count in …most_common()` loop; `mzOk c` = `pe.find_mz_offset(xf) is not None`
for the view at nonce offset `c`.  (The position left behind by `find_mz_offset` is irrelevant:
the next step is an absolute seek in either branch.) -/
def tryCandidates (f : PyFile) (mzOk : Nat → Bool) : List Nat → Py XorFile
  | [] => .error .valueError                              -- raise ValueError("MZ header not found …")
  | c :: cs =>
    match mk' f c with                                    -- xf = cls(fh, nonce_offset=offset)
    | .error e => .error e
    | .ok xf =>
      if mzOk c then
        match seek xf 0 0 with                            -- xf.seek(0); return xf
        | .error e => .error e
        | .ok (_, xf') => .ok xf'
      else tryCandidates xf.fh mzOk cs

/-- `XorEncodedFile.from_file(fh, maxrange)` with the needle scan result (`markerHits`, the raw
offsets reported by `iter_find_needle`) and the MZ check (`mzOk`) as parameters. -/
def fromFile (f : PyFile) (maxrange : Nat) (markerHits : List Nat) (mzOk : Nat → Bool) : Py XorFile :=
  match iterNonceOffsets f none maxrange with
  | .error e => .error e
  | .ok (nonceOffs, f1) => tryCandidates f1 mzOk (candidates markerHits nonceOffs)

/-! ### `pe.find_mz_offset` on the decoding view (cstruct reads = `read(sizeof)`, EOFError when short) -/

def int32le (d : Bytes) : Int := C20.fromBytes .little true d
def u16le (d : Bytes) : Int := C20.fromBytes .little false d

/-- one iteration of `for offset in range(maxrange)`; `some r` = `return r`, `none` = next iteration
(either the constraints failed or `EOFError` was caught by `continue`). -/
def mzStep (x : XorFile) (start maxrange offset : Nat) : Py (Option Nat × XorFile) :=
  match seek x ((start + offset : Nat) : Int) 0 with     -- fh.seek(start_offset + offset, io.SEEK_SET)
  | .error e => .error e
  | .ok (_, x1) =>
    match read x1 (some 64) with                          -- mz = pestruct.IMAGE_DOS_HEADER(fh)
    | .error e => .error e
    | .ok (hdr, x2) =>
      if hdr.length < 64 then .ok (none, x2)              -- EOFError → continue
      else
        let lfanew := int32le ((hdr.drop 60).take 4)
        if 0 < lfanew ∧ lfanew < (maxrange : Int) then
          match seek x2 ((start + offset + 4 : Nat) + lfanew) 0 with
          | .error e => .error e
          | .ok (_, x3) =>
            match read x3 (some 20) with                  -- image = pestruct.IMAGE_FILE_HEADER(fh)
            | .error e => .error e
            | .ok (ih, x4) =>
              if ih.length < 20 then .ok (none, x4)       -- EOFError → continue
              else
                let machine := u16le (ih.take 2)
                if machine = 0x8664 ∨ machine = 0x14c then .ok (some (start + offset), x4)
                else .ok (none, x4)
        else .ok (none, x2)

def mzLoop (start maxrange : Nat) : Nat → Nat → XorFile → Py (Option Nat × XorFile)
  | 0, _, x => .ok (none, x)
  | k + 1, offset, x =>
    match mzStep x start maxrange offset with
    | .error e => .error e
    | .ok (some r, x') => .ok (some r, x')
    | .ok (none, x') => mzLoop start maxrange k (offset + 1) x'

/-- `pe.find_mz_offset(xf, start_offset=start, maxrange=maxrange)` -/
def findMzOffset (x : XorFile) (start : Nat := 0) (maxrange : Nat := 1024) : Py (Option Nat × XorFile) :=
  mzLoop start maxrange maxrange 0 x

/-- the candidate loop of `from_file` with the modelled `find_mz_offset` (defaults
`start_offset=0`, `maxrange=1024`) instead of the `mzOk` parameter; exceptions propagate. -/
def tryCandidatesFull (f : PyFile) : List Nat → Py XorFile
  | [] => .error .valueError
  | c :: cs =>
    match mk' f c with
    | .error e => .error e
    | .ok xf =>
      match findMzOffset xf with
      | .error e => .error e
      | .ok (some _, xf1) =>
        match seek xf1 0 0 with
        | .error e => .error e
        | .ok (_, xf') => .ok xf'
      | .ok (none, xf1) => tryCandidatesFull xf1.fh cs

/-- `from_file` with only the needle scan as a parameter. -/
def fromFileFull (f : PyFile) (maxrange : Nat) (markerHits : List Nat) : Py XorFile :=
  match iterNonceOffsets f none maxrange with
  | .error e => .error e
  | .ok (nonceOffs, f1) => tryCandidatesFull f1 (candidates markerHits nonceOffs)

/-! ### `from_file` with the real needle scanner (`utils.iter_find_needle`, model `C15.iterFindNeedle`) -/

/-- `XorEncodedFile.EOF_SHELLCODE_MARKER` -/
def eofMarker : Bytes := [0xff, 0xff, 0xff]

/-- `list(iter_find_needle(fh, cls.EOF_SHELLCODE_MARKER, start_offset=0, max_offset=maxrange))` and the file
afterwards; `B = io.DEFAULT_BUFFER_SIZE`.  (`max_offset = 0` means "no limit" in `iter_find_needle`.) -/
def markerScan (B : Nat) (f : PyFile) (maxrange : Nat) : Py (List Int × PyFile) :=
  C15.iterFindNeedle B f eofMarker (some 0) maxrange

/-- `XorEncodedFile.from_file(fh, maxrange)` with nothing left as a parameter: size relation scan, marker scan
by the real block scanner on the file as `iter_nonce_offsets` left it, `Counter` ranking, modelled
`find_mz_offset` on each candidate view.  The scanner's offsets are Python ints; they are never negative
(`Lemmas/C09.lean`, `markerScan_nonneg`), so `Int.toNat` loses nothing. -/
def fromFileReal (B : Nat) (f : PyFile) (maxrange : Nat) : Py XorFile :=
  match iterNonceOffsets f none maxrange with             -- nonce_offsets = list(iter_nonce_offsets(fh, maxrange=maxrange))
  | .error e => .error e
  | .ok (nonceOffs, f1) =>
    match markerScan B f1 maxrange with                   -- eof_shellcode_offsets = [offset + 3 for offset in iter_find_needle(...)]
    | .error e => .error e
    | .ok (hits, f2) => tryCandidatesFull f2 (candidates (hits.map Int.toNat) nonceOffs)

end C09

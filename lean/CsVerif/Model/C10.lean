import CsVerif.Model.Basic
import CsVerif.Gen.Grammar
/-
C10 — regenerated profile text preserves every token of the parsed profile
  dissect/cobaltstrike/c2profile.lark            (grammar; table generated into Gen/Grammar.lean)
  dissect/cobaltstrike/c2profile.py              from_text (435-440), as_text + postproc (699-722)
  lark/reconstruct.py, lark/tree_matcher.py      Reconstructor (modelled, not verified)

What is modelled
* `Deriv` / `Parts`   derivations of the FOLDED grammar, grouped per item, carrying the forms used;
* `toTree`            the Lark-shaped tree of a derivation: label = alias, else rule name; children = sub-trees and
                      named tokens only (keywords are filtered out by Lark); `?value` never inlines because every
                      alternative of a `?rule` carries an alias (obligation `Expand1Aliased`);
* `yield`             the token sequence of a derivation (keywords included) = what the lexer handed to the parser;
* `printTree`         Lark's `Reconstructor._reconstruct`: for a node, pick a production with that LABEL whose
                      right-hand side matches the SHAPES of the children (labels / token types), emit its keywords
                      and the recursively printed children;
* `lexProfile`        Lark's lexer on profile text: WS / NEWLINE / `#` SH_COMMENT ignored, STRING, longest keyword;
* `postproc`, `joinItems`, `asText`   the whitespace post-processor of `as_text` and `Reconstructor.reconstruct`'s join.

Trees and derivations are kept in first-child / next-sibling form (`Forest`, `Parts`): plain inductive types on
which `induction` and structural recursion work directly; a `Forest` is exactly a `List` of Lark trees/tokens.
Text is a list of Unicode code points (`Text`), keyword and name ids are positions in the generated tables.
-/
namespace C10
open Grammar (Item Form)

abbrev Text := List Nat

/-- The part of the generated grammar the model depends on. Theorems quantify over arbitrary tables. -/
structure Table where
  forms : List Form
  keywords : List Text
  /-- named terminals (ids in `names`): `none` = the STRING pattern, `some alts` = literal alternatives (OPTION) -/
  terminals : List (Nat × Option (List Text))
  start : Nat
  /-- spelling of the interned names (rule names, aliases, terminals) -/
  names : List Text
  deriving Repr

/-- The table generated from the repository's grammar. -/
def gen : Table := ⟨Grammar.forms, Grammar.keywords, Grammar.terminals, Grammar.start, Grammar.nameCodes⟩

/-- Tree label of a node built by a form: the alias if there is one, else the rule name. -/
def label (f : Form) : Nat :=
  match f.alias with
  | some a => a
  | none => f.origin

/-- `f` is the table's form number `f.id`. -/
def Table.has (G : Table) (f : Form) : Bool := G.forms[f.id]? == some f

/-- Can a tree with label `l` stand where nonterminal `n` is expected?  Lark's tree matcher accepts the rule
name itself and every alias used by an alternative of `n` (`TreeMatcher._build_recons_rules`). -/
def Table.isLabelOf (G : Table) (n l : Nat) : Bool :=
  l == n || G.forms.any fun f => f.origin == n && f.alias == some l

/-! ### Tokens, trees, derivations -/

/-- A token as seen by the parser: a keyword/punctuation (anonymous terminal, id into `keywords`) or a named
terminal (STRING, OPTION) with its text. -/
inductive Tok where
  | kw (k : Nat)
  | named (t : Nat) (text : Text)
  deriving DecidableEq, Repr

/-- Shape of one child of a tree node, as far as the Reconstructor looks at it. -/
inductive Sym where
  | leaf (t : Nat)
  | node (l : Nat)
  deriving DecidableEq, Repr

/-- A list of Lark children (`Tree` or `Token`) in first-child/next-sibling form. -/
inductive Forest where
  | nil
  | leaf (t : Nat) (text : Text) (rest : Forest)
  | node (label : Nat) (kids : Forest) (rest : Forest)
  deriving DecidableEq, Repr

/-- A Lark `Tree(label, children)`. -/
structure Tree where
  label : Nat
  kids : Forest
  deriving DecidableEq, Repr

/-- What the items of one form derive, item by item:
`kw k` for a keyword item, `tok t s` for a named-terminal item, `sub f body` one sub-derivation by form `f`
taken by the current `nt`/`star`/`opt` item, `stop` = the current `star`/`opt` item takes nothing more. -/
inductive Parts where
  | done
  | kw (k : Nat) (rest : Parts)
  | tok (t : Nat) (text : Text) (rest : Parts)
  | sub (f : Form) (body : Parts) (rest : Parts)
  | stop (rest : Parts)
  deriving DecidableEq, Repr

/-- A derivation: the form used at the root (it carries its id) and what its items derive. -/
structure Deriv where
  form : Form
  body : Parts
  deriving DecidableEq, Repr

/-- `p` is a derivation of the item list `items` in table `G`. -/
def wfParts (G : Table) : List Item → Parts → Bool
  | [], .done => true
  | .kw k :: is, .kw k' r => k == k' && wfParts G is r
  | .tok t :: is, .tok t' _ r => t == t' && wfParts G is r
  | .nt n :: is, .sub f b r => G.has f && f.origin == n && wfParts G f.items b && wfParts G is r
  | .star n :: is, .sub f b r => G.has f && f.origin == n && wfParts G f.items b && wfParts G (.star n :: is) r
  | .star _ :: is, .stop r => wfParts G is r
  | .opt n :: is, .sub f b r => G.has f && f.origin == n && wfParts G f.items b && wfParts G is r
  | .opt _ :: is, .stop r => wfParts G is r
  | _, _ => false
termination_by structural _ p => p

def Deriv.WF (G : Table) (d : Deriv) : Bool := G.has d.form && wfParts G d.form.items d.body

/-- The tokens of a derivation, keywords included, left to right. -/
def Parts.yield : Parts → List Tok
  | .done => []
  | .kw k r => .kw k :: r.yield
  | .tok t s r => .named t s :: r.yield
  | .sub _ b r => b.yield ++ r.yield
  | .stop r => r.yield

def Deriv.yield (d : Deriv) : List Tok := d.body.yield

/-- The children Lark builds for a derivation: keywords are dropped, named tokens and sub-trees stay. -/
def Parts.kids : Parts → Forest
  | .done => .nil
  | .kw _ r => r.kids
  | .tok t s r => .leaf t s r.kids
  | .sub f b r => .node (label f) b.kids r.kids
  | .stop r => r.kids

/-- Forget the forms: the tree Lark's parser builds. -/
def toTree (d : Deriv) : Tree := ⟨label d.form, d.body.kids⟩

/-! ### The Reconstructor -/

/-- One printed child: its shape and the tokens it printed to. -/
abbrev Kid := Sym × List Tok

/-- Greedy matching of the items of a production against the printed children of a node, emitting the keywords
in between.  `none` = the production does not match these children. -/
def weave (G : Table) : List Item → List Kid → Option (List Tok)
  | [], [] => some []
  | [], _ :: _ => none
  | .kw k :: is, ks => (weave G is ks).map (Tok.kw k :: ·)
  | .tok t :: is, (.leaf t', o) :: ks => if t = t' then (weave G is ks).map (o ++ ·) else none
  | .tok _ :: _, _ => none
  | .nt n :: is, (.node l, o) :: ks => if G.isLabelOf n l then (weave G is ks).map (o ++ ·) else none
  | .nt _ :: _, _ => none
  | .star n :: is, (.node l, o) :: ks =>
    if G.isLabelOf n l then (weave G (.star n :: is) ks).map (o ++ ·) else weave G is ((.node l, o) :: ks)
  | .star _ :: is, ks => weave G is ks
  | .opt n :: is, (.node l, o) :: ks =>
    if G.isLabelOf n l then (weave G is ks).map (o ++ ·) else weave G is ((.node l, o) :: ks)
  | .opt _ :: is, ks => weave G is ks
termination_by is ks => is.length + ks.length

/-- Print a node with label `l` whose children printed to `ks`: the first production with that label that
matches.  (`PrintWF` makes the choice immaterial: every matching production prints the same.) -/
def printNode (G : Table) (l : Nat) (ks : List Kid) : Option (List Tok) :=
  G.forms.findSome? fun f => if label f = l then weave G f.items ks else none

/-- Print every child of a node. -/
def printKids (G : Table) : Forest → Option (List Kid)
  | .nil => some []
  | .leaf t s r => (printKids G r).map ((Sym.leaf t, [Tok.named t s]) :: ·)
  | .node l ks r =>
    match printKids G ks with
    | none => none
    | some ko =>
      match printNode G l ko with
      | none => none
      | some o => (printKids G r).map ((Sym.node l, o) :: ·)

/-- `Reconstructor._reconstruct(tree)` as a token list; `none` = no production matches somewhere. -/
def printTree (G : Table) (t : Tree) : Option (List Tok) :=
  match printKids G t.kids with
  | none => none
  | some ko => printNode G t.label ko

/-! ### Obligations on the table (all decidable; discharged on the generated table by `decide +kernel`) -/

/-- Shapes that can come first among the children matched by `items` (keywords are invisible in the tree). -/
def firstSyms (G : Table) : List Item → List Sym
  | [] => []
  | .kw _ :: is => firstSyms G is
  | .tok t :: _ => [.leaf t]
  | .nt n :: _ => labelsOf n
  | .star n :: is => labelsOf n ++ firstSyms G is
  | .opt n :: is => labelsOf n ++ firstSyms G is
where
  labelsOf (n : Nat) : List Sym := .node n :: (G.forms.filter (·.origin == n)).filterMap (·.alias.map Sym.node)

/-- No shape in `ss` is a tree that could stand for nonterminal `n`. -/
def avoids (G : Table) (n : Nat) (ss : List Sym) : Bool :=
  ss.all fun s => match s with
    | .leaf _ => true
    | .node l => !G.isLabelOf n l

/-- Greedy matching is deterministic: whatever may follow a repeatable item cannot be taken by the item itself. -/
def detItems (G : Table) : List Item → Bool
  | [] => true
  | .star n :: is => avoids G n (firstSyms G is) && detItems G is
  | .opt n :: is => avoids G n (firstSyms G is) && detItems G is
  | _ :: is => detItems G is

/-- Two right-hand sides print the same on every child list both of them match: same keywords and tokens in
lock-step, and at repeatable items neither can run into what the other expects next. -/
def sameText (G : Table) : List Item → List Item → Bool
  | [], [] => true
  | .kw k :: a, .kw k' :: b => k == k' && sameText G a b
  | .tok t :: a, .tok t' :: b => t == t' && sameText G a b
  | .nt _ :: a, .nt _ :: b => sameText G a b
  | .star n :: a, .star m :: b => avoids G n (firstSyms G b) && avoids G m (firstSyms G a) && sameText G a b
  | .opt n :: a, .opt m :: b => avoids G n (firstSyms G b) && avoids G m (firstSyms G a) && sameText G a b
  | _, _ => false

def isKwItem : Item → Bool
  | .kw _ => true
  | _ => false

/-- the items that are visible in the tree -/
def visible (is : List Item) : List Item := is.filter (!isKwItem ·)

/-- Can the two (non-keyword) items match the same child? -/
def itemsOverlap (G : Table) : Item → Item → Bool
  | .tok t, .tok t' => t == t'
  | .nt n, .nt m => !avoids G n (firstSyms.labelsOf G m)
  | _, _ => false

def rigidItem : Item → Bool
  | .tok _ => true
  | .nt _ => true
  | _ => false

/-- Sufficient test that no child list is matched by both right-hand sides (arguments: `visible` items):
walking over leading one-child items, the first position where the two disagree on shape, or where one side
has ended and the other still needs a child. -/
def apart (G : Table) : List Item → List Item → Bool
  | [], [] => false
  | [], y :: _ => rigidItem y
  | x :: _, [] => rigidItem x
  | x :: a, y :: b => rigidItem x && rigidItem y && (!itemsOverlap G x y || apart G a b)

/-- `PrintWF`: greedy matching is deterministic for every form, and any two forms with the same tree label
either print identically or can never match the same children. -/
def PrintWF (G : Table) : Bool :=
  G.forms.all (fun f => detItems G f.items) &&
  G.forms.all fun f => G.forms.all fun g =>
    label f != label g || sameText G f.items g.items || apart G (visible f.items) (visible g.items)

/-- `forms[i].id = i`. -/
def IdsOK (G : Table) : Bool := (G.forms.map (·.id)) == List.range G.forms.length

/-- Every alternative of a `?rule` carries an alias: conditional inlining never happens. -/
def Expand1Aliased (G : Table) (expand1 : List Nat) : Bool :=
  G.forms.all fun f => !expand1.contains f.origin || f.alias.isSome

/-- keyword ids of a right-hand side -/
def kwSeq : List Item → List Nat
  | [] => []
  | .kw k :: is => k :: kwSeq is
  | _ :: is => kwSeq is

/-- "Every statement form is printed under its own keyword": inside one rule, two alternatives that build the
same tree label are written with the same keywords.  (`"set" "module_x64" … -> module_x86` violated this.) -/
def AliasesDistinctPerKeyword (G : Table) : Bool :=
  G.forms.all fun f => G.forms.all fun g =>
    f.origin != g.origin || f.alias.isNone || f.alias != g.alias || kwSeq f.items == kwSeq g.items

/-! ### The Reconstructor as a relation (every choice Lark's Earley-based tree matcher could make) -/

/-- *Some* way of matching `items` against the printed children (not necessarily the greedy one), with the
keywords woven in. -/
inductive Weaves (G : Table) : List Item → List Kid → List Tok → Prop
  | nil : Weaves G [] [] []
  | kw {k is ks out} : Weaves G is ks out → Weaves G (.kw k :: is) ks (Tok.kw k :: out)
  | tok {t o is ks out} : Weaves G is ks out → Weaves G (.tok t :: is) ((.leaf t, o) :: ks) (o ++ out)
  | nt {n l o is ks out} : G.isLabelOf n l = true → Weaves G is ks out →
      Weaves G (.nt n :: is) ((.node l, o) :: ks) (o ++ out)
  | starTake {n l o is ks out} : G.isLabelOf n l = true → Weaves G (.star n :: is) ks out →
      Weaves G (.star n :: is) ((.node l, o) :: ks) (o ++ out)
  | starStop {n is ks out} : Weaves G is ks out → Weaves G (.star n :: is) ks out
  | optTake {n l o is ks out} : G.isLabelOf n l = true → Weaves G is ks out →
      Weaves G (.opt n :: is) ((.node l, o) :: ks) (o ++ out)
  | optSkip {n is ks out} : Weaves G is ks out → Weaves G (.opt n :: is) ks out

/-- `Recons G kids outs`: the children `kids` can be printed to `outs`, each node by ANY production carrying
its label and ANY matching of that production. -/
inductive Recons (G : Table) : Forest → List Kid → Prop
  | nil : Recons G .nil []
  | leaf {t s r rs} : Recons G r rs → Recons G (.leaf t s r) ((Sym.leaf t, [Tok.named t s]) :: rs)
  | node {l ks r ko g o rs} : Recons G ks ko → g ∈ G.forms → label g = l → Weaves G g.items ko o →
      Recons G r rs → Recons G (.node l ks r) ((Sym.node l, o) :: rs)

/-- the tree can be reconstructed to the token list `out` by some sequence of choices -/
def ReconsTree (G : Table) (t : Tree) (out : List Tok) : Prop :=
  ∃ ko g, Recons G t.kids ko ∧ g ∈ G.forms ∧ label g = t.label ∧ Weaves G g.items ko out

/-! ### Text: the lexer -/

/-- `common.WS = /[ \t\f\r\n]/+` (and NEWLINE = `(\r?\n)+`, a subset): ignored between tokens -/
def isWs (c : Nat) : Bool := c == 32 || c == 9 || c == 12 || c == 13 || c == 10

/-- rest of the input from the next line feed on (`SH_COMMENT = /#[^\n]*/`) -/
def dropLine : Text → Text
  | [] => []
  | c :: cs => if c == 10 then c :: cs else dropLine cs

/-- Body of a STRING token after the opening quote, up to and including the closing quote, and the rest.
`esc` = an odd number of backslashes immediately precedes.  The lazy regex
`"(.|\n)*?(?<!\\)(\\\\)*?"` ends at the first `"` preceded by an even (maximal) run of backslashes. -/
def scanStr : Bool → Text → Option (Text × Text)
  | _, [] => none
  | esc, c :: cs =>
    if c == 34 && !esc then some ([34], cs)
    else
      match scanStr (c == 92 && !esc) cs with
      | none => none
      | some (b, r) => some (c :: b, r)

/-- the longest word of `kws` that is a prefix of the input -/
def longestKw : List Text → Text → Option Text
  | [], _ => none
  | k :: ks, inp =>
    match longestKw ks inp with
    | some b => if k.isPrefixOf inp && b.length < k.length then some k else some b
    | none => if k.isPrefixOf inp then some k else none

theorem dropLine_length (cs : Text) : (dropLine cs).length ≤ cs.length := by
  induction cs with
  | nil => simp [dropLine]
  | cons c cs ih => simp only [dropLine]; split <;> simp <;> omega

theorem scanStr_length {e : Bool} {cs b r : Text} (h : scanStr e cs = some (b, r)) :
    b.length + r.length = cs.length := by
  induction cs generalizing e b r with
  | nil => simp [scanStr] at h
  | cons c cs ih =>
    simp only [scanStr] at h
    split at h
    · simp only [Option.some.injEq, Prod.mk.injEq] at h
      obtain ⟨rfl, rfl⟩ := h
      simp; omega
    · split at h
      · simp at h
      · rename_i b' r' hs
        simp only [Option.some.injEq, Prod.mk.injEq] at h
        obtain ⟨rfl, rfl⟩ := h
        have := ih hs
        simp; omega

/-- Lark's lexer on profile text, reduced to the token texts.  `kws` = all keyword and OPTION texts.
`#` always starts a comment: SH_COMMENT is tried before every string terminal (Lark sorts terminals by maximal
width), so the keyword `"#"` of `"#" "dns_resolver" string ";"` can never be lexed.
Caveat (contextual lexer): Lark only tries the terminals the LALR state accepts, the model tries all of them
and takes the longest; the two agree whenever adjacent word-like tokens are separated (always so in `as_text`
output). -/
def lexProfile (kws : List Text) (inp : Text) : Option (List Text) :=
  match inp with
  | [] => some []
  | c :: cs =>
    if isWs c then lexProfile kws cs
    else if c == 35 then lexProfile kws (dropLine cs)
    else if c == 34 then
      match _hs : scanStr false cs with
      | none => none
      | some (b, r) => (lexProfile kws r).map ((34 :: b) :: ·)
    else
      match longestKw kws (c :: cs) with
      | none => none
      | some k =>
        if k.length = 0 then none
        else (lexProfile kws (cs.drop (k.length - 1))).map (k :: ·)
termination_by inp.length
decreasing_by
  · simp
  · have := dropLine_length cs; simp; omega
  · have := scanStr_length _hs; simp; omega
  · simp; omega

/-! ### Text: `as_text` -/

/-- text of a token (`[]` for a keyword id outside the table; such a text is never lexable) -/
def Table.tokText (G : Table) : Tok → Text
  | .kw k => G.keywords.getD k []
  | .named _ s => s

/-- Python `s in t` for strings -/
def isSubstr (s : Text) : Text → Bool
  | [] => s.isEmpty
  | c :: cs => s.isPrefixOf (c :: cs) || isSubstr s cs

def lbrace : Text := [123]
def rbrace : Text := [125]
def semi : Text := [59]

/-- `item in "{};"` -/
def isFlush (item : Text) : Bool := isSubstr item [123, 125, 59]

/-- the inner loop of `postproc`: the items of one line, a blank after each unless it is the last or `;` follows -/
def renderLine : List Text → List Text
  | [] => []
  | [x] => [x]
  | x :: y :: r => if y = semi then x :: renderLine (y :: r) else x :: [32] :: renderLine (y :: r)

/-- `postproc(items)` of `C2Profile.as_text`: the strings it yields.  `line` = items collected since the last
flush; what is left in `line` at the end of the input is dropped, as in the Python generator. -/
def postprocGo : List Text → Int → List Text → List Text
  | _, _, [] => []
  | line, indent, item :: items =>
    let line' := line ++ [item]
    if isFlush item then
      let indent1 := if line'.contains rbrace then indent - 1 else indent
      let hasL := line'.contains lbrace
      (if hasL then [[10]] else []) ++ [List.replicate (4 * indent1).toNat 32] ++ renderLine line' ++ [[10]]
        ++ postprocGo [] (if hasL then indent1 + 1 else indent1) items
    else postprocGo line' indent items

def postproc (items : List Text) : List Text := postprocGo [] 0 items

/-- `Reconstructor.reconstruct`'s join: a blank is inserted between two yielded strings when the last character
of the previous and the first of the next are both "identifier-continue" (`idc`, Unicode categories). -/
def joinGo (idc : Nat → Bool) : Text → List Text → Text
  | _, [] => []
  | prev, item :: items =>
    let sp := match prev.getLast?, item.head? with
      | some a, some b => idc a && idc b
      | _, _ => false
    (if sp then [32] else []) ++ item ++ joinGo idc item items

def joinItems (idc : Nat → Bool) (items : List Text) : Text := joinGo idc [] items

/-- `Reconstructor(parser).reconstruct(tree, postproc)` on the printed token list -/
def asTextOf (G : Table) (idc : Nat → Bool) (toks : List Tok) : Text :=
  joinItems idc (postproc (toks.map G.tokText))

/-- `C2Profile.as_text()` for a tree -/
def asText (G : Table) (idc : Nat → Bool) (t : Tree) : Option Text :=
  (printTree G t).map (asTextOf G idc)

/-- A token text that lexes back to itself: a well-formed STRING literal, or a keyword/option word that does
not start like white space or a comment. -/
def lexableTok (kws : List Text) : Text → Bool
  | [] => false
  | c :: cs => if c == 34 then scanStr false cs == some (cs, []) else kws.contains (c :: cs) && !isWs c && c != 35

/-- no word contains a blank or a line feed, and `;` occurs only as the word `;` -/
def KwClean (kws : List Text) : Bool :=
  kws.all fun k => !k.isEmpty && k.all (fun c => c != 32 && c != 10) && (!k.contains 59 || k == semi)

/-- the item sequence ends with a flushing item (nothing is left over in `postproc`) -/
def terminated (ts : List Text) : Bool :=
  match ts.getLast? with
  | none => true
  | some t => isFlush t

/-! #### one token of lookahead (`ParseWF`) -/

/-- token classes for lookahead -/
inductive TokClass where
  | kw (k : Nat)
  | named (t : Nat)
  deriving DecidableEq, Repr

/-- Tokens that can start a sentence of `items`, and whether `items` derives the empty sentence, given the same
information for nonterminals (`none` = nesting budget exhausted). -/
def firstOfItems (ofNt : Nat → Option (List TokClass × Bool)) : List Item → Option (List TokClass × Bool)
  | [] => some ([], true)
  | .kw k :: _ => some ([.kw k], false)
  | .tok t :: _ => some ([.named t], false)
  | .nt n :: is =>
    match ofNt n with
    | none => none
    | some (a, e) => if e then (firstOfItems ofNt is).map (fun r => (a ++ r.1, r.2)) else some (a, false)
  | .star n :: is =>
    match ofNt n with
    | none => none
    | some (a, _) => (firstOfItems ofNt is).map (fun r => (a ++ r.1, r.2))
  | .opt n :: is =>
    match ofNt n with
    | none => none
    | some (a, _) => (firstOfItems ofNt is).map (fun r => (a ++ r.1, r.2))

/-- first tokens / nullability of a nonterminal, nesting depth bounded by the first argument -/
def ntFirst (G : Table) : Nat → Nat → Option (List TokClass × Bool)
  | 0, _ => none
  | fuel + 1, n =>
    (G.forms.filter (·.origin == n)).foldl (fun acc f =>
      match acc, firstOfItems (ntFirst G fuel) f.items with
      | some (a, e), some (b, e') => some (a ++ b, e || e')
      | _, _ => none) (some ([], false))

def disjointToks (a b : List TokClass) : Bool := a.all fun x => !b.contains x

/-- token class of a token -/
def cls : Tok → TokClass
  | .kw k => .kw k
  | .named t _ => .named t

/-- two alternatives of one rule are told apart by their leading keywords, or, where those agree, by the next
token (`dj` = the disjointness test on sets of token classes) -/
def altsApart (dj : List TokClass → List TokClass → Bool) (first : List Item → Option (List TokClass × Bool)) :
    List Item → List Item → Bool
  | .kw a :: x, .kw b :: y => a != b || altsApart dj first x y
  | x, y =>
    match first x, first y with
    | some (a, ea), some (b, eb) => !ea && !eb && dj a b
    | _, _ => false

def usesNt (m : Nat) : Item → Bool
  | .nt n => n == m
  | .star n => n == m
  | .opt n => n == m
  | _ => false

/-- what follows nonterminal `m` at its use sites; after one repetition of `m*` another repetition may follow, so
the context of a starred use begins with the starred item itself -/
def useContexts (G : Table) (m : Nat) : List (List Item) :=
  G.forms.flatMap fun h => go h.items
where
  go : List Item → List (List Item)
    | [] => []
    | .star n :: rest => (if n == m then [.star n :: rest] else []) ++ go rest
    | i :: rest => (if usesNt m i then [rest] else []) ++ go rest

/-- the decision "one more repetition / take the optional part" is made on one token: the repeated / optional rule
never derives the empty sentence, and its first tokens are disjoint from what can follow (looking one level up, at
every use site of the enclosing rule, when the rest of the form is nullable) -/
def repsOK (dj : List TokClass → List TokClass → Bool) (first : List Item → Option (List TokClass × Bool))
    (ofNt : Nat → Option (List TokClass × Bool)) (ctx : List (List Item)) : List Item → Bool
  | [] => true
  | .star n :: rest => repOK n rest && repsOK dj first ofNt ctx rest
  | .opt n :: rest => repOK n rest && repsOK dj first ofNt ctx rest
  | _ :: rest => repsOK dj first ofNt ctx rest
where
  repOK (n : Nat) (rest : List Item) : Bool :=
    match ofNt n, first rest with
    | some (a, en), some (b, eb) =>
      !en && dj a b &&
        (!eb || ctx.all fun c =>
          match first c with
          | some (cf, ce) => !ce && dj a cf
          | none => false)
    | _, _ => false

/-- the lookahead conditions for a given disjointness test on token classes (nesting budget 12 > depth of the
grammar; an exhausted budget makes the check fail) -/
def parseWFWith (G : Table) (dj : List TokClass → List TokClass → Bool) : Bool :=
  let ofNt := ntFirst G 12
  let first := firstOfItems ofNt
  (G.forms.all fun f => G.forms.all fun g =>
    f.origin != g.origin || f.id == g.id || altsApart dj first f.items g.items) &&
  (G.forms.all fun f => repsOK dj first ofNt (useContexts G f.origin) f.items)

/-- `ParseWF`: within one rule the alternatives are distinguishable by their keyword prefix plus one token of
lookahead, and every repetition / option is decided on one token.  Token classes are compared by identity: this is
the condition for sentences of TOKENS (`Deriv.yield`) to have one derivation (`unique_readability`).

(The check as first written — `ParseWF0` in Lemmas/C10U.lean — treated the start symbol as never used inside a form,
allowed `n?` for a nullable `n`, and forgot that `n*` can be followed by another `n`; each of the three lets an
ambiguous table through, see `parseWF0_ambiguous` in Props/C10.lean.) -/
def ParseWF (G : Table) : Bool := parseWFWith G disjointToks

/-! #### tree labels are named after their keyword -/

def lowerDash (c : Nat) : Nat := if 65 ≤ c && c ≤ 90 then c + 32 else if c == 45 then 95 else c

/-- keywords of a form other than `set` and punctuation -/
def principalKws (G : Table) (f : Form) : List Text :=
  ((kwSeq f.items).map fun k => G.keywords.getD k []).filter fun t =>
    !(t == [115, 101, 116] || t == lbrace || t == rbrace || t == semi || t == [35])

/-- Forms whose alias is NOT the lower-cased keyword with `-` replaced by `_`: (keywords, alias spelling). -/
def namingExceptions (G : Table) : List (List Text × Text) :=
  (G.forms.filterMap fun f =>
    match f.alias with
    | none => none
    | some a =>
      let nm := G.names.getD a []
      match principalKws G f with
      | [k] => if k.map lowerDash == nm then none else some ([k], nm)
      | ks => some (ks, nm)).eraseDups

/-! #### every sentence ends with a flushing token (so `postproc` drops nothing) -/

/-- the last item of a right-hand side makes its sentences end with a flushing token: a keyword `;`/`{`/`}`,
or a nonterminal from `closed` -/
def lastOK (G : Table) (closed : List Nat) (is : List Item) : Bool :=
  match is.getLast? with
  | some (.kw k) =>
    match G.keywords[k]? with
    | some t => isFlush t
    | none => false
  | some (.nt m) => closed.contains m
  | _ => false

/-- every form of every nonterminal in `closed` ends that way -/
def ClosedOK (G : Table) (closed : List Nat) : Bool :=
  G.forms.all fun f => !closed.contains f.origin || lastOK G closed f.items

/-- only nonterminals from `closed`, no keywords or tokens -/
def repClosed (closed : List Nat) : List Item → Bool
  | [] => true
  | .nt n :: is => closed.contains n && repClosed closed is
  | .star n :: is => closed.contains n && repClosed closed is
  | .opt n :: is => closed.contains n && repClosed closed is
  | _ :: _ => false

/-- A candidate set of nonterminals all of whose forms end with a flushing token: eight rounds of removing the
offenders from the set of all nonterminals.  (Only a candidate: `TerminatedWF` checks it with `ClosedOK`.) -/
def closedOrigins (G : Table) : List Nat :=
  let all := (G.forms.map (·.origin)).eraseDups
  let step := fun (c : List Nat) => c.filter fun n => G.forms.all fun f => f.origin != n || lastOK G c f.items
  (List.range 8).foldl (fun c _ => step c) all

def terminatedWith (G : Table) (c : List Nat) : Bool :=
  ClosedOK G c && G.forms.all fun f => f.origin != G.start || repClosed c f.items

/-- `TerminatedWF`: a profile is a sequence of statements/blocks each of which ends with `;` or `}` -/
def TerminatedWF (G : Table) : Bool := terminatedWith G (closedOrigins G)

/-! ### A parser for the folded grammar (model of `from_text`; Lark's LALR(1) construction itself is trusted)

Recursive descent with ordered choice over the forms of a rule and greedy `star`/`opt` — adequate because the
grammar is non-recursive (obligation `DepthOK`) and its alternatives are told apart by their keyword prefix and
one token of lookahead (obligation `ParseWFT`): under these the parser returns the derivation of every sentence
(`parse_complete`, `parse_spec` in Props/C10.lean).  `fuel` bounds the nesting depth; running out of it is reported
as `.fuel`, never as a syntax error. -/

inductive PR (α : Type) where
  | ok (a : α)
  | fail
  | fuel
  deriving DecidableEq, Repr

/-- all words the lexer knows: keywords and the alternatives of literal terminals -/
def Table.words (G : Table) : List Text :=
  G.keywords ++ G.terminals.flatMap fun t => match t.2 with
    | some alts => alts
    | none => []

/-- does the token text belong to named terminal `t`?  (STRING literals were validated by the lexer.) -/
def Table.matchTerm (G : Table) (t : Nat) (text : Text) : Bool :=
  match G.terminals.lookup t with
  | some none => text.head? == some 34
  | some (some alts) => alts.contains text
  | none => false

/-- `n*`: sub-derivations as long as the rule parses and consumes something -/
def parseStar (pn : Nat → List Text → PR (Form × Parts × List Text)) (n : Nat) :
    Nat → List Text → PR (List (Form × Parts) × List Text)
  | 0, toks => .ok ([], toks)
  | b + 1, toks =>
    match pn n toks with
    | .ok (f, body, rest) =>
      if rest.length < toks.length then
        match parseStar pn n b rest with
        | .ok (ds, r) => .ok ((f, body) :: ds, r)
        | .fail => .fail
        | .fuel => .fuel
      else .ok ([], toks)
    | .fail => .ok ([], toks)
    | .fuel => .fuel

def starParts (ds : List (Form × Parts)) (tail : Parts) : Parts :=
  ds.foldr (fun d acc => Parts.sub d.1 d.2 acc) (Parts.stop tail)

def PR.mapParts (f : Parts → Parts) : PR (Parts × List Text) → PR (Parts × List Text)
  | .ok (p, r) => .ok (f p, r)
  | .fail => .fail
  | .fuel => .fuel

def parseItems (G : Table) (pn : Nat → List Text → PR (Form × Parts × List Text)) :
    List Item → List Text → PR (Parts × List Text)
  | [], toks => .ok (.done, toks)
  | .kw _ :: _, [] => .fail
  | .kw k :: is, t :: toks =>
    if G.keywords[k]? == some t then (parseItems G pn is toks).mapParts (Parts.kw k) else .fail
  | .tok _ :: _, [] => .fail
  | .tok t :: is, x :: toks =>
    if G.matchTerm t x then (parseItems G pn is toks).mapParts (Parts.tok t x) else .fail
  | .nt n :: is, toks =>
    match pn n toks with
    | .ok (f, b, r) => (parseItems G pn is r).mapParts (Parts.sub f b)
    | .fail => .fail
    | .fuel => .fuel
  | .star n :: is, toks =>
    match parseStar pn n toks.length toks with
    | .ok (ds, r) => (parseItems G pn is r).mapParts (starParts ds)
    | .fail => .fail
    | .fuel => .fuel
  | .opt n :: is, toks =>
    match pn n toks with
    | .ok (f, b, r) => (parseItems G pn is r).mapParts (Parts.sub f b)
    | .fail => (parseItems G pn is toks).mapParts Parts.stop
    | .fuel => .fuel

/-- ordered choice -/
def firstForm (p : Form → PR α) : List Form → PR α
  | [] => .fail
  | f :: fs =>
    match p f with
    | .ok a => .ok a
    | .fuel => .fuel
    | .fail => firstForm p fs

def parseNt (G : Table) : Nat → Nat → List Text → PR (Form × Parts × List Text)
  | 0, _, _ => .fuel
  | fuel + 1, n, toks =>
    firstForm (fun f =>
      if f.origin == n then
        match parseItems G (parseNt G fuel) f.items toks with
        | .ok (p, r) => .ok (f, p, r)
        | .fail => .fail
        | .fuel => .fuel
      else .fail) G.forms

/-- parse a whole token sequence from the start symbol -/
def parseToks (G : Table) (toks : List Text) : PR Deriv :=
  match parseNt G (G.forms.length + 1) G.start toks with
  | .ok (f, p, []) => .ok ⟨f, p⟩
  | .ok (_, _, _ :: _) => .fail
  | .fail => .fail
  | .fuel => .fuel

/-- `from_text`: lex, then parse -/
def parseText (G : Table) (src : Text) : PR Deriv :=
  match lexProfile G.words src with
  | none => .fail
  | some toks => parseToks G toks

/-! ### Lookahead on token texts (what the model parser sees), nesting depth -/

/-- would the parser take text `x` for a token of class `c`? -/
def accepts (G : Table) : TokClass → Text → Bool
  | .kw k, x => G.keywords[k]? == some x
  | .named t, x => G.matchTerm t x

/-- the token's text belongs to its class: a keyword id of the table, a text matching the named terminal -/
def tokOK (G : Table) (t : Tok) : Bool := accepts G (cls t) (G.tokText t)

/-- no text matches both named terminals -/
def termsApart (G : Table) (t t' : Nat) : Bool :=
  match G.terminals.lookup t, G.terminals.lookup t' with
  | some none, some none => false
  | some none, some (some alts) => alts.all fun w => w.head? != some 34
  | some (some alts), some none => alts.all fun w => w.head? != some 34
  | some (some a), some (some a') => a.all fun w => !a'.contains w
  | _, _ => true

/-- can one text be a token of both classes?  (`spawnto_x86` is a keyword inside `post-ex` and an OPTION word.) -/
def overlap (G : Table) : TokClass → TokClass → Bool
  | .kw k, .kw k' => G.keywords[k]? == G.keywords[k']?
  | .kw k, .named t =>
    match G.keywords[k]? with
    | some w => G.matchTerm t w
    | none => false
  | .named t, .kw k =>
    match G.keywords[k]? with
    | some w => G.matchTerm t w
    | none => false
  | .named t, .named t' => t == t' || !termsApart G t t'

def disjointTexts (G : Table) (a b : List TokClass) : Bool := a.all fun x => b.all fun y => !overlap G x y

def distinctTexts : List Text → Bool
  | [] => true
  | k :: ks => !ks.contains k && distinctTexts ks

/-- keywords are pairwise different texts -/
def KwsDistinct (G : Table) : Bool := distinctTexts G.keywords

/-- `ParseWFT`: `ParseWF` with token classes compared by the TEXTS they accept — the condition for the model parser,
which sees texts only, to find the derivation (`parse_complete`). -/
def ParseWFT (G : Table) : Bool := KwsDistinct G && parseWFWith G (disjointTexts G)

def itemNt : Item → Option Nat
  | .nt n => some n
  | .star n => some n
  | .opt n => some n
  | _ => none

/-- every derivation of nonterminal `n` nests less than `k` deep -/
def depthOK (G : Table) : Nat → Nat → Bool
  | 0, _ => false
  | k + 1, n => G.forms.all fun f => f.origin != n || f.items.all fun i =>
      match itemNt i with
      | some m => depthOK G k m
      | none => true

/-- `DepthOK`: the grammar is not recursive, and the nesting budget of `parseToks` (below) covers it -/
def DepthOK (G : Table) : Bool := depthOK G (G.forms.length + 1) G.start

/-! ### Histories: the specification is stateless

`C2Profile.from_text` is specified as a pure function of the source; a profile object has no state beyond its
`tree`.  The history model below lets the harness run several `from_text` / `as_text` steps inside one process
(whitespace variants of one source in both orders, repeated sources, the tree of an object edited between two
`as_text` calls) and demand, for every step, the answer of THAT step's source/tree alone. -/

inductive HStep where
  /-- `profile = C2Profile.from_text(src)`, then `profile.as_text()` -/
  | parse (src : Text)
  /-- `profile.as_text()` once more on the same object -/
  | again
  /-- `del profile.tree.children[k % len(children)]` (nothing when there are no children), then `as_text()` -/
  | delete (k : Nat)
  /-- `profile.tree = C2Profile.from_text(src).tree` on the SAME object, then `as_text()` -/
  | setTree (src : Text)
  deriving Repr

inductive HAnswer where
  /-- the parser raised -/
  | err
  /-- there is no profile object yet -/
  | noProfile
  /-- tokens of the step's source (for `parse`/`setTree`), the object's tree after the step, its reconstruction -/
  | ans (srcToks : Option (List Text)) (tree : Tree) (printed : Option (List Tok))
  deriving Repr

def Forest.length : Forest → Nat
  | .nil => 0
  | .leaf _ _ r => r.length + 1
  | .node _ _ r => r.length + 1

def Forest.deleteNth : Nat → Forest → Forest
  | _, .nil => .nil
  | 0, .leaf _ _ r => r
  | 0, .node _ _ r => r
  | n + 1, .leaf t s r => .leaf t s (Forest.deleteNth n r)
  | n + 1, .node l ks r => .node l ks (Forest.deleteNth n r)

/-- one step: new state (the tree of the current profile object, if any) and the observable answer -/
def hstep (G : Table) (st : Option Tree) : HStep → Option Tree × HAnswer
  | .parse src =>
    match parseText G src with
    | .ok d => (some (toTree d), .ans (lexProfile G.words src) (toTree d) (printTree G (toTree d)))
    | _ => (st, .err)
  | .again =>
    match st with
    | none => (none, .noProfile)
    | some t => (some t, .ans none t (printTree G t))
  | .delete k =>
    match st with
    | none => (none, .noProfile)
    | some t =>
      let t' : Tree := if t.kids.length = 0 then t else ⟨t.label, t.kids.deleteNth (k % t.kids.length)⟩
      (some t', .ans none t' (printTree G t'))
  | .setTree src =>
    match st with
    | none => (none, .noProfile)
    | some t =>
      match parseText G src with
      | .ok d => (some (toTree d), .ans (lexProfile G.words src) (toTree d) (printTree G (toTree d)))
      | _ => (some t, .err)

def runHistory (G : Table) : Option Tree → List HStep → List HAnswer
  | _, [] => []
  | st, h :: hs => (hstep G st h).2 :: runHistory G (hstep G st h).1 hs

def finalState (G : Table) : Option Tree → List HStep → Option Tree
  | st, [] => st
  | st, h :: hs => finalState G (hstep G st h).1 hs

end C10

import CsVerif.Model.C09
import CsVerif.Model.C15Gen
import CsVerif.Gen.PyXor
/-!
C09 — glue between the hand-written model (`Model/C09.lean`) and the definitions translated from the source of
`xordecode.iter_nonce_offsets` and `XorEncodedFile.__init__ / read_nonce / tell / seek / read` (`Gen/PyXor.lean`, untyped
translator): the encoding of the model's view object `XorFile` as the Python instance the translated methods thread through
(`.inst XorEncodedFile [file, nonce_offset, initial_nonce, nonced_filesize]`, the file as `C15Gen.encFile`), and operation
histories executed through the TRANSLATED methods.  Used by the driver (`g-*` streams) and by `Props/C09Gen.lean`.
-/
namespace C09Gen
open PyU (V)
open C15Gen (encFile encOptInt)

/-- the view object: the instance `XorEncodedFile(fh, nonce_offset)` with the file inside -/
def encXor (x : C09.XorFile) : V :=
  .inst Gen.PyXor.XorEncodedFile [encFile x.fh, .int (x.nonceOff : Int), .bytes x.initialNonce, .bytes x.noncedSize]

/-- what a translated method returns: `(result, self afterwards)` -/
def encRes (v : V) (x : C09.XorFile) : V := .tuple [v, encXor x]

/-- what `list(iter_nonce_offsets(…))` returns, together with the file object afterwards -/
def encOffsets (r : List Nat × PyFile) : V := .tuple [.list (r.1.map fun (n : Nat) => V.int (n : Int)), encFile r.2]

/-- fuel that is sufficient for the chunk loop of `read` on this view (`Props/C09Gen.lean`) -/
def fuelFor (x : C09.XorFile) : Nat := x.fh.data.length + 1

/-- the same from the Python value (driver): the length of the file inside the instance -/
def fuelOfV : V → Nat
  | .inst _ (f :: _) =>
    match PyU.asFile f with
    | some (d, _, _) => d.length + 1
    | none => 1
  | _ => 1

/-- `(result, self afterwards)` of a translated method -/
def unpackRes (r : Py V) : Py (V × V) :=
  match r with
  | .error e => .error e
  | .ok (.tuple [v, s]) => .ok (v, s)
  | .ok _ => .error .typeError

/-- one operation of a history through the translated methods; the result value is the Python value returned -/
def stepG (fuel : Nat) (self : V) : C09.Op → Py (V × V)
  | .seek off wh => unpackRes (Gen.PyXor.XorEncodedFile_seek self (.int off) (.int (wh : Int)))
  | .read n => unpackRes (Gen.PyXor.XorEncodedFile_read fuel self (encOptInt n))
  | .tell => unpackRes (Gen.PyXor.XorEncodedFile_tell self)

/-- a history through the translated methods; stops at the first exception (as `C09.run`) -/
def runG (fuel : Nat) (self : V) : List C09.Op → Py (List V × V)
  | [] => .ok ([], self)
  | op :: ops =>
    match stepG fuel self op with
    | .error e => .error e
    | .ok (o, s') =>
      match runG fuel s' ops with
      | .error e => .error e
      | .ok (os, s'') => .ok (o :: os, s'')

/-- the trace the driver prints (as `C09.runTrace`): an operation that raises leaves the object unchanged -/
def runTraceG (fuel : Nat) (self : V) : List C09.Op → List (Py V)
  | [] => []
  | op :: ops =>
    match stepG fuel self op with
    | .error e => .error e :: runTraceG fuel self ops
    | .ok (o, s') => .ok o :: runTraceG fuel s' ops

/-- the Python value of an output of the model -/
def encOut : C09.Out → V
  | .seek v => .int (v : Int)
  | .bytes b => .bytes b
  | .pos p => .int p

end C09Gen

import CsVerif.Model.PyFile
import CsVerif.Model.C20
import CsVerif.Gen.Guardrails
/-
C17 — Guardrails (dissect/cobaltstrike/guardrails.py; BeaconConfig.from_file fallback, beacon.py ~809-824)

Executable, total model that follows the control flow of the code as it is in the tree
(after fix 34c0f22: a marker whose beacon_config_offset would be negative is skipped, EOFError in the
guard settings loop ends the loop).  `utils.xor` is `C20.xor` (tiles a shorter key, truncates a
longer one, returns the data unchanged for an empty/all-zero key).
-/
namespace C17
open Gen.Guardrails

/-! ### compiled-code replacement for `C20.xor`

The byte-wise `C20.xor` recomputes `key.length` and walks the key list for every byte; the driver applies it to
6144-byte areas for up to ~500 candidate keys per case.  The compiler is told (by a proved `@[csimp]` equation, no
axioms) to run this array-based version instead; the logical model and every theorem keep talking about `C20.xor`. -/

def xorFast (data key : Bytes) : Bytes :=
  if key.all (· == 0) then data
  else
    let ka := key.toArray
    let n := ka.size
    data.mapIdx fun i b => b ^^^ ka.getD (i % n) 0

@[csimp] theorem xor_eq_xorFast : @C20.xor = @xorFast := by
  funext data key
  unfold C20.xor xorFast C20.xorCore C20.keyAt
  split
  · rfl
  · simp

/-- `struct GuardrailSetting` after parsing; enum members are kept as their numeric value
(cstruct enums accept unknown values: `GuardOption(77)` is `<GuardOption: 77>` and compares equal to 77). -/
structure Setting where
  option : Nat
  type : Nat
  length : Nat
  value : Bytes
  deriving DecidableEq, Repr

/-- `GuardrailMetadata` -/
structure Meta where
  beaconConfigOffset : Nat
  guardConfigOffset : Nat
  maskedBeaconConfig : Bytes
  maskedGuardConfig : Bytes
  beaconXorKey : Bytes
  guardrailXorKey : Bytes
  unmaskedGuardConfig : Bytes
  checksum : Nat
  payloadXorKey : Option Bytes
  unmaskedBeaconConfig : Option Bytes
  settings : List Setting
  deriving DecidableEq, Repr

/-! ### guard settings loop -/

/-- cstruct read of a big-endian `uint16` from a stream: EOFError on short data. -/
def readU16 : Bytes → Py (Nat × Bytes)
  | a :: b :: rest => .ok (a.toNat * 256 + b.toNat, rest)
  | _ => .error .eofError

/-- cstruct read of `char value[n]`: EOFError on short data. -/
def readExact (d : Bytes) (n : Nat) : Py (Bytes × Bytes) :=
  if d.length < n then .error .eofError else .ok (d.take n, d.drop n)

/-- `GuardrailSetting(fh_guard)`: option, type, length (uint16 BE each), value[length]. -/
def parseSetting (d : Bytes) : Py (Setting × Bytes) :=
  match readU16 d with
  | .error e => .error e
  | .ok (opt, d1) =>
    match readU16 d1 with
    | .error e => .error e
    | .ok (ty, d2) =>
      match readU16 d2 with
      | .error e => .error e
      | .ok (len, d3) =>
        match readExact d3 len with
        | .error e => .error e
        | .ok (v, d4) => .ok ({ option := opt, type := ty, length := len, value := v }, d4)

theorem readU16_rest {d : Bytes} {v : Nat} {r : Bytes} (h : readU16 d = .ok (v, r)) :
    r.length + 2 = d.length := by
  match d, h with
  | a :: b :: rest, h => simp [readU16] at h; simp [← h.2]

theorem readExact_rest {d : Bytes} {n : Nat} {v r : Bytes} (h : readExact d n = .ok (v, r)) :
    r.length ≤ d.length := by
  unfold readExact at h
  split at h
  · cases h
  · simp at h; simp [← h.2]

theorem parseSetting_rest {d : Bytes} {s : Setting} {r : Bytes} (h : parseSetting d = .ok (s, r)) :
    r.length + 6 ≤ d.length := by
  unfold parseSetting at h
  split at h
  · cases h
  · rename_i opt d1 h1
    split at h
    · cases h
    · rename_i ty d2 h2
      split at h
      · cases h
      · rename_i len d3 h3
        split at h
        · cases h
        · rename_i v d4 h4
          simp at h
          have a1 := readU16_rest h1
          have a2 := readU16_rest h2
          have a3 := readU16_rest h3
          have a4 := readExact_rest h4
          rw [← h.2]; omega

/-- `u32be(value)` = `int.from_bytes(value[:4], "big")` (total: shorter values give smaller numbers). -/
def u32be (v : Bytes) : Nat := C20.fromBytesU .big (v.take 4)

/-- The `while True:` loop over `fh_guard = BufferedReader(BytesIO(unmasked_guard_config))`.
`d` is what is left in the reader (`peek(2)[:2]` = the next ≤ 2 bytes: the whole guard config fits the
reader's buffer).  Returns the settings and the checksum (last GUARD_PAYLOAD_CHECKSUM value wins). -/
def settingsLoop (d : Bytes) (settings : List Setting) (checksum : Nat) : Py (List Setting × Nat) :=
  if d.take 2 = [0, 0] then .ok (settings, checksum)
  else
    match h : parseSetting d with
    | .error e => if e = .eofError then .ok (settings, checksum) else .error e
    | .ok (s, rest) =>
      settingsLoop rest (settings ++ [s])
        (if s.option = GUARD_PAYLOAD_CHECKSUM then u32be s.value else checksum)
termination_by d.length
decreasing_by have := parseSetting_rest h; omega

/-! ### marker scan -/

/-- `fh.seek(off); fh.read(n)` -/
def readAt (f : PyFile) (off : Int) (n : Nat) : Py (Bytes × PyFile) :=
  match f.seekSet off with
  | .error e => .error e
  | .ok (_, f1) => .ok (f1.read n)

theorem readAt_ok (f : PyFile) (off n : Nat) :
    readAt f off n = .ok (({ f with pos := off } : PyFile).read n) := by
  have : ¬ ((off : Int) < 0) := by omega
  simp [readAt, PyFile.seekSet, this]

theorem readAt_data {f : PyFile} {off : Int} {n : Nat} {b : Bytes} {f' : PyFile}
    (h : readAt f off n = .ok (b, f')) : f'.data = f.data := by
  unfold readAt PyFile.seekSet at h
  by_cases ho : off < 0
  · simp [ho] at h
  · simp only [ho, ↓reduceIte] at h
    injection h with h
    have := congrArg (fun p => p.2.data) h
    simpa using this.symm

theorem readAt_nonempty {f : PyFile} {off : Nat} {n : Nat} {b : Bytes} {f' : PyFile}
    (h : readAt f off n = .ok (b, f')) (hb : b ≠ []) : off < f.data.length := by
  rw [readAt_ok] at h
  injection h with h
  have h1 := congrArg (fun p => p.1) h
  simp only [PyFile.read_nonneg] at h1
  apply Classical.byContradiction
  intro hge
  apply hb
  rw [← h1]
  simp
  right; omega

/-- Body of the `if xor(a[::-1], b) in xorred_guardconfig_starts:` branch once the offsets are known
to be non-negative: read both masked areas, unmask the guard configuration, parse its settings. -/
def buildMeta (f : PyFile) (xorkey : Bytes) (gco bco : Nat) : Py (Meta × PyFile) :=
  match readAt f bco BEACON_CONFIG_PATCH_SIZE with
  | .error e => .error e
  | .ok (mb, f1) =>
    let r := f1.read GUARD_PATCH_SIZE
    let mg := r.1
    let ug := C20.xor (C20.xor mg mb.reverse) xorkey
    match settingsLoop ug [] 0 with
    | .error e => .error e
    | .ok (settings, checksum) =>
      .ok ({ beaconConfigOffset := bco
             guardConfigOffset := gco
             maskedBeaconConfig := mb
             maskedGuardConfig := mg
             beaconXorKey := metaBeaconXorKey
             guardrailXorKey := xorkey
             unmaskedGuardConfig := ug
             checksum := checksum
             payloadXorKey := none
             unmaskedBeaconConfig := none
             settings := settings }, r.2)

theorem buildMeta_data {f : PyFile} {k : Bytes} {g b : Nat} {m : Meta} {f' : PyFile}
    (h : buildMeta f k g b = .ok (m, f')) : f'.data = f.data := by
  unfold buildMeta at h
  split at h
  · cases h
  · rename_i mb f1 h1
    simp only [] at h
    split at h
    · cases h
    · simp at h
      rw [← h.2]
      simp [readAt_data h1]

/-- The `while True:` scan loop, one iteration per byte offset.  `size` = `len(xorred_guardconfig_starts[0])`;
the literal `6` in `guard_config_offset = offset + 6` is the code's own. -/
def scanLoop (starts' : List Bytes) (size : Nat) (xorkey : Bytes) (f : PyFile) (offset : Nat) :
    Py (List Meta) :=
  match hr : readAt f offset (size * 2) with
  | .error e => .error e
  | .ok (block, f1) =>
    if hb : block = [] then .ok []
    else
      let a := block.take size
      let b := block.drop size
      if C20.xor a.reverse b ∈ starts' then
        let gco := offset + 6
        let bco : Int := (gco : Int) - (BEACON_CONFIG_PATCH_SIZE : Int)
        if bco < 0 then
          scanLoop starts' size xorkey f1 (offset + 1)
        else
          match hm : buildMeta f1 xorkey gco bco.toNat with
          | .error e => .error e
          | .ok (m, f2) =>
            match scanLoop starts' size xorkey f2 (offset + 1) with
            | .error e => .error e
            | .ok ms => .ok (m :: ms)
      else
        scanLoop starts' size xorkey f1 (offset + 1)
termination_by f.data.length - offset
decreasing_by
  all_goals
    have h1 := readAt_data hr
    have h2 := readAt_nonempty hr hb
    first
      | (rw [h1]; omega)
      | (have h3 := buildMeta_data hm; rw [h3, h1]; omega)

/-- `iter_guardrail_configs(fh, xorkey)` (all yielded items; the generator never raises, see
`iterGuardrailConfigs_total`).  `xorred_guardconfig_starts[0]` on an empty table is an IndexError. -/
def iterGuardrailConfigs (f : PyFile) (xorkey : Bytes := defaultGuardXorKey) : Py (List Meta) :=
  let starts' := GUARD_CONFIG_STARTS.map (C20.xor · xorkey)
  match starts' with
  | [] => .error .indexError
  | s0 :: _ => scanLoop starts' s0.length xorkey f 0

/-! ### specification of the scan, and the linear-time version the compiled driver runs

`scanLoop` re-walks the file list from the start for every offset (`seek(offset)`), which is quadratic on Lean lists and
makes payloads of 64 KiB .. 1 MiB unusable in the correspondence.  Below, the scan is proved equal to a `filterMap` of the
pure per-offset probe `probeAt`, then to a single left-to-right pass `scanFastGo`, and the compiler is told (proved
`@[csimp]` equation, no axioms) to run that pass.  Theorems keep talking about `iterGuardrailConfigs`. -/

/-! #### the guard settings loop never raises -/
theorem readU16_err {d : Bytes} {e : PyExc} (h : readU16 d = .error e) : e = .eofError := by
  unfold readU16 at h
  split at h
  · cases h
  · injection h with h; exact h.symm

theorem readExact_err {d : Bytes} {n : Nat} {e : PyExc} (h : readExact d n = .error e) : e = .eofError := by
  unfold readExact at h
  split at h
  · injection h with h; exact h.symm
  · cases h

theorem parseSetting_err {d : Bytes} {e : PyExc} (h : parseSetting d = .error e) : e = .eofError := by
  unfold parseSetting at h
  split at h
  · rename_i h1; injection h with h; subst h; exact readU16_err h1
  · split at h
    · rename_i h1; injection h with h; subst h; exact readU16_err h1
    · split at h
      · rename_i h1; injection h with h; subst h; exact readU16_err h1
      · split at h
        · rename_i h1; injection h with h; subst h; exact readExact_err h1
        · cases h

/-- the settings loop without the exception plumbing (specification side) -/
def settingsPure (d : Bytes) (settings : List Setting) (checksum : Nat) : List Setting × Nat :=
  if d.take 2 = [0, 0] then (settings, checksum)
  else
    match h : parseSetting d with
    | .error _ => (settings, checksum)
    | .ok (s, rest) =>
      settingsPure rest (settings ++ [s])
        (if s.option = GUARD_PAYLOAD_CHECKSUM then u32be s.value else checksum)
termination_by d.length
decreasing_by have := parseSetting_rest h; omega

theorem settingsLoop_eq (d : Bytes) (s : List Setting) (c : Nat) :
    settingsLoop d s c = .ok (settingsPure d s c) := by
  fun_induction settingsPure d s c with
  | case1 d s c h => unfold settingsLoop; simp [h]
  | case2 d s c h e he =>
    unfold settingsLoop
    simp only [h, ↓reduceIte]
    split
    · rename_i e' he'
      have := parseSetting_err he'
      simp [this]
    · rename_i s' r' he'
      rw [he] at he'; cases he'
  | case3 d s c h st rest he ih =>
    unfold settingsLoop
    simp only [h, ↓reduceIte]
    split
    · rename_i e' he'
      rw [he] at he'; cases he'
    · rename_i s' r' he'
      rw [he] at he'
      injection he' with he'
      injection he' with h1 h2
      subst h1; subst h2
      exact ih

/-! #### what the scan reports, offset by offset -/
/-- the metadata record the scan builds for a marker whose guard configuration starts at `gco` -/
def metaAt (data xorkey : Bytes) (gco bco : Nat) : Meta :=
  let mb := (data.drop bco).take BEACON_CONFIG_PATCH_SIZE
  let mg := (data.drop (bco + mb.length)).take GUARD_PATCH_SIZE
  let ug := C20.xor (C20.xor mg mb.reverse) xorkey
  let r := settingsPure ug [] 0
  { beaconConfigOffset := bco
    guardConfigOffset := gco
    maskedBeaconConfig := mb
    maskedGuardConfig := mg
    beaconXorKey := metaBeaconXorKey
    guardrailXorKey := xorkey
    unmaskedGuardConfig := ug
    checksum := r.2
    payloadXorKey := none
    unmaskedBeaconConfig := none
    settings := r.1 }

theorem buildMeta_eq (f : PyFile) (k : Bytes) (gco bco : Nat) :
    ∃ f', buildMeta f k gco bco = .ok (metaAt f.data k gco bco, f') ∧ f'.data = f.data := by
  unfold buildMeta
  rw [readAt_ok]
  simp only [settingsLoop_eq]
  refine ⟨_, rfl, ?_⟩
  simp

/-- marker relation at `offset` -/
def markerAt (data : Bytes) (starts' : List Bytes) (size offset : Nat) : Prop :=
  C20.xor (((data.drop offset).take (size * 2)).take size).reverse (((data.drop offset).take (size * 2)).drop size) ∈ starts'

instance (data : Bytes) (starts' : List Bytes) (size offset : Nat) : Decidable (markerAt data starts' size offset) := by
  unfold markerAt; infer_instance

/-- what one iteration of the scan reports at `offset` -/
def probeAt (data : Bytes) (starts' : List Bytes) (size : Nat) (xorkey : Bytes) (offset : Nat) : Option Meta :=
  if markerAt data starts' size offset ∧ BEACON_CONFIG_PATCH_SIZE ≤ offset + 6 then
    some (metaAt data xorkey (offset + 6) (offset + 6 - BEACON_CONFIG_PATCH_SIZE))
  else none

theorem scanLoop_eq (st : List Bytes) (size : Nat) (hsize : 0 < size) (k : Bytes) (n : Nat) :
    ∀ (f : PyFile) (offset : Nat), f.data.length - offset = n →
      scanLoop st size k f offset = .ok ((List.range' offset n).filterMap (probeAt f.data st size k)) := by
  induction n with
  | zero =>
    intro f offset hn
    unfold scanLoop
    split
    · rename_i e he; rw [readAt_ok] at he; cases he
    · rename_i block f1 he
      have hb : block = [] := by
        rw [readAt_ok] at he
        injection he with he
        have := congrArg Prod.fst he
        simp only [PyFile.read_nonneg] at this
        rw [← this]; simp; right; omega
      simp [hb]
  | succ n ih =>
    intro f offset hn
    unfold scanLoop
    split
    · rename_i e he; rw [readAt_ok] at he; cases he
    · rename_i block f1 he
      have hd : f1.data = f.data := readAt_data he
      have hblock : block = (f.data.drop offset).take (size * 2) := by
        rw [readAt_ok] at he
        injection he with he
        have := congrArg Prod.fst he
        simp only [PyFile.read_nonneg] at this
        rw [← this]
      have hne : block ≠ [] := by
        rw [hblock]
        intro h0
        have := congrArg List.length h0
        simp at this
        omega
      simp only [hne, ↓reduceDIte]
      have hr : List.range' offset (n + 1) = offset :: List.range' (offset + 1) n := by
        simp [List.range']
      rw [hr, List.filterMap_cons]
      have hm : (C20.xor (block.take size).reverse (block.drop size) ∈ st) = markerAt f.data st size offset := by
        rw [hblock]; rfl
      have ih1 : scanLoop st size k f1 (offset + 1) = .ok ((List.range' (offset + 1) n).filterMap (probeAt f.data st size k)) := by
        have := ih f1 (offset + 1) (by rw [hd]; omega)
        rw [hd] at this; exact this
      by_cases hmk : markerAt f.data st size offset
      · have hmk' : C20.xor (List.take size block).reverse (List.drop size block) ∈ st := by rw [hm]; exact hmk
        simp only [hmk', ↓reduceIte]
        by_cases hlt : (↑(offset + 6) : Int) - ↑BEACON_CONFIG_PATCH_SIZE < 0
        · simp only [hlt, ↓reduceIte]
          have hp : probeAt f.data st size k offset = none := by
            unfold probeAt
            rw [if_neg]
            intro ⟨_, h2⟩
            omega
          rw [hp, ih1]
        · simp only [hlt, ↓reduceIte]
          have hge : BEACON_CONFIG_PATCH_SIZE ≤ offset + 6 := by omega
          have hp : probeAt f.data st size k offset = some (metaAt f.data k (offset + 6) (offset + 6 - BEACON_CONFIG_PATCH_SIZE)) := by
            unfold probeAt
            rw [if_pos ⟨hmk, hge⟩]
          have hto : ((↑(offset + 6) : Int) - ↑BEACON_CONFIG_PATCH_SIZE).toNat = offset + 6 - BEACON_CONFIG_PATCH_SIZE := by omega
          obtain ⟨f2, hb, hd2⟩ := buildMeta_eq f1 k (offset + 6) (offset + 6 - BEACON_CONFIG_PATCH_SIZE)
          rw [hto]
          split
          · rename_i e he2; rw [hb] at he2; cases he2
          · rename_i m f2' he2
            rw [hb] at he2
            injection he2 with he2
            injection he2 with h1 h2
            subst h2
            have ih2 : scanLoop st size k f2 (offset + 1) = .ok ((List.range' (offset + 1) n).filterMap (probeAt f.data st size k)) := by
              have := ih f2 (offset + 1) (by rw [hd2, hd]; omega)
              rw [hd2, hd] at this; exact this
            rw [ih2, hp, ← h1, hd]
      · have hmk' : ¬ C20.xor (List.take size block).reverse (List.drop size block) ∈ st := by rw [hm]; exact hmk
        simp only [hmk', ↓reduceIte]
        have hp : probeAt f.data st size k offset = none := by
          unfold probeAt
          rw [if_neg]
          intro ⟨h1, _⟩
          exact hmk h1
        rw [hp, ih1]

theorem xor_length_model (d k : Bytes) : (C20.xor d k).length = d.length := by
  unfold C20.xor; split <;> simp [C20.xorCore]

theorem starts_length_model : ∀ s ∈ GUARD_CONFIG_STARTS, s.length = 6 := by decide

/-- masked starts the scan compares against -/
def maskedStarts (xorkey : Bytes) : List Bytes := GUARD_CONFIG_STARTS.map (C20.xor · xorkey)

/-- The scan never raises (BytesIO or OS file, any mask key) and reports, in increasing offset order, exactly the
offsets where the marker relation holds and a 6144-byte area fits in front. -/
theorem iterGuardrailConfigs_eq_probe (f : PyFile) (xorkey : Bytes) :
    iterGuardrailConfigs f xorkey =
      .ok ((List.range f.data.length).filterMap (probeAt f.data (maskedStarts xorkey) 6 xorkey)) := by
  unfold iterGuardrailConfigs
  have hs : GUARD_CONFIG_STARTS.map (C20.xor · xorkey) = maskedStarts xorkey := rfl
  simp only [hs]
  cases hm : maskedStarts xorkey with
  | nil => simp [maskedStarts, GUARD_CONFIG_STARTS] at hm
  | cons s0 rest =>
    have h6 : s0.length = 6 := by
      have : s0 ∈ maskedStarts xorkey := by rw [hm]; simp
      simp only [maskedStarts, List.mem_map] at this
      obtain ⟨s, hs, rfl⟩ := this
      rw [xor_length_model]; exact starts_length_model s hs
    simp only []
    rw [h6, ← hm]
    have := scanLoop_eq (maskedStarts xorkey) 6 (by omega) xorkey f.data.length f 0 (by omega)
    rw [this, List.range_eq_range']

/-- one pass over the file: `suffix = data.drop offset` -/
def scanFastGo (data : Bytes) (starts' : List Bytes) (size : Nat) (xorkey : Bytes) :
    Bytes → Nat → List Meta → List Meta
  | [], _, acc => acc.reverse
  | b :: rest, offset, acc =>
    let block := (b :: rest).take (size * 2)
    let acc' :=
      if C20.xor (block.take size).reverse (block.drop size) ∈ starts' ∧ BEACON_CONFIG_PATCH_SIZE ≤ offset + 6 then
        metaAt data xorkey (offset + 6) (offset + 6 - BEACON_CONFIG_PATCH_SIZE) :: acc
      else acc
    scanFastGo data starts' size xorkey rest (offset + 1) acc'

theorem scanFastGo_eq (data : Bytes) (st : List Bytes) (size : Nat) (k : Bytes) (n : Nat) :
    ∀ (offset : Nat) (acc : List Meta), data.length - offset = n →
      scanFastGo data st size k (data.drop offset) offset acc
        = acc.reverse ++ (List.range' offset n).filterMap (probeAt data st size k) := by
  induction n with
  | zero =>
    intro offset acc hn
    have : data.drop offset = [] := List.drop_eq_nil_of_le (by omega)
    rw [this]; simp [scanFastGo]
  | succ n ih =>
    intro offset acc hn
    have hlt : offset < data.length := by omega
    have hcons : data.drop offset = data[offset] :: data.drop (offset + 1) := by
      rw [List.drop_eq_getElem_cons hlt]
    rw [hcons]
    simp only [scanFastGo]
    rw [← hcons, ih (offset + 1) _ (by omega)]
    have hr : List.range' offset (n + 1) = offset :: List.range' (offset + 1) n := by simp [List.range']
    rw [hr, List.filterMap_cons]
    unfold probeAt markerAt
    split <;> simp

def iterGuardrailConfigsFast (f : PyFile) (xorkey : Bytes) : Py (List Meta) :=
  .ok (scanFastGo f.data (maskedStarts xorkey) 6 xorkey f.data 0 [])

@[csimp] theorem iterGuardrailConfigs_eq_fast : @iterGuardrailConfigs = @iterGuardrailConfigsFast := by
  funext f xorkey
  rw [iterGuardrailConfigs_eq_probe]
  unfold iterGuardrailConfigsFast
  have := scanFastGo_eq f.data (maskedStarts xorkey) 6 xorkey f.data.length 0 [] (by omega)
  simp only [List.drop_zero, List.reverse_nil, List.nil_append] at this
  rw [this, List.range_eq_range']

/-! ### key candidates -/

/-- `io.DEFAULT_BUFFER_SIZE` -/
def DEFAULT_BUFFER_SIZE : Nat := 8192

/-- `iter(functools.partial(fh.read, n), b"")` from position 0. -/
def chunks (n : Nat) (d : Bytes) : List Bytes :=
  if h : n = 0 ∨ d = [] then []
  else d.take n :: chunks n (d.drop n)
termination_by d.length
decreasing_by
  have : d.length ≠ 0 := by intro h0; exact h (Or.inr (List.length_eq_zero_iff.mp h0))
  simp; omega

/-- `grouper(chunk, n, fillvalue=0)` followed by `bytes(gram)`. -/
def grouper (n : Nat) (d : Bytes) : List Bytes :=
  if h : n = 0 ∨ d = [] then []
  else (d.take n ++ List.replicate (n - (d.take n).length) 0) :: grouper n (d.drop n)
termination_by d.length
decreasing_by
  have : d.length ≠ 0 := by intro h0; exact h (Or.inr (List.length_eq_zero_iff.mp h0))
  simp; omega

/-- `collections.Counter`: association list in first-insertion order. -/
abbrev Counter := List (Bytes × Nat)

def Counter.incr : Counter → Bytes → Counter
  | [], k => [(k, 1)]
  | (k', n) :: rest, k => if k' = k then (k', n + 1) :: rest else (k', n) :: Counter.incr rest k

/-- byte-string equality specialised to `UInt8` (compiled code only, see `incr_eq_incrFast`) -/
def bytesEq : Bytes → Bytes → Bool
  | [], [] => true
  | a :: as, b :: bs => a == b && bytesEq as bs
  | _, _ => false

theorem bytesEq_iff (a b : Bytes) : bytesEq a b = true ↔ a = b := by
  induction a generalizing b with
  | nil => cases b <;> simp [bytesEq]
  | cons x xs ih =>
    cases b with
    | nil => simp [bytesEq]
    | cons y ys => simp [bytesEq, ih]

def Counter.incrFast : Counter → Bytes → Counter
  | [], k => [(k, 1)]
  | (k', n) :: rest, k => if bytesEq k' k then (k', n + 1) :: rest else (k', n) :: Counter.incrFast rest k

/-- the generic `DecidableEq (List UInt8)` costs ~300 instructions per comparison in compiled code; the driver runs
this specialised, proved-equal version instead (the model and the theorems keep `Counter.incr`). -/
@[csimp] theorem incr_eq_incrFast : @Counter.incr = @Counter.incrFast := by
  funext c k
  induction c with
  | nil => rfl
  | cons p rest ih =>
    obtain ⟨k', n⟩ := p
    simp only [Counter.incr, Counter.incrFast, ih]
    by_cases h : k' = k
    · subst h
      have := (bytesEq_iff k' k').mpr rfl
      simp [this]
    · have : bytesEq k' k = false := by
        cases hb : bytesEq k' k with
        | false => rfl
        | true => exact absurd ((bytesEq_iff k' k).mp hb) h
      simp [h, this]

/-- `counter.update(iterable)` -/
def Counter.update (c : Counter) (ks : List Bytes) : Counter := ks.foldl Counter.incr c

/-- the earliest entry among those with the largest count -/
def maxFirst : Counter → Option (Bytes × Nat)
  | [] => none
  | x :: rest =>
    match maxFirst rest with
    | none => some x
    | some y => if y.2 > x.2 then some y else some x

/-- `counter.most_common(2)` (= `heapq.nlargest(2, items, key=count)`: count descending, ties by first insertion). -/
def mostCommon2 (c : Counter) : List (Bytes × Nat) :=
  match maxFirst c with
  | none => []
  | some a => a :: (maxFirst (c.erase a)).toList

/-- `first_count = 0; for key, count in ...: if count >= first_count: first_count = count; yield key else: break` -/
def yieldLoop (firstCount : Nat) : List (Bytes × Nat) → List Bytes
  | [] => []
  | (k, c) :: rest => if c ≥ firstCount then k :: yieldLoop c rest else []

/-- the Counter built for one key length -/
def counterFor (bufSize keylen : Nat) (data : Bytes) : Counter :=
  (chunks bufSize data).foldl (fun c chunk => c.update (grouper keylen chunk)) []

/-- keys yielded for one key length -/
def candidatesAt (bufSize : Nat) (data : Bytes) (keylen : Nat) : List Bytes :=
  yieldLoop 0 (mostCommon2 (counterFor bufSize keylen data))

/-- `find_xor_key_candidates(io.BytesIO(data))`: `for keylen in range(2, 257)`. -/
def findXorKeyCandidates (data : Bytes) (bufSize : Nat := DEFAULT_BUFFER_SIZE) : List Bytes :=
  (List.range' 2 255).flatMap (candidatesAt bufSize data)

/-! ### checksum and key selection -/

def checksumGo : Bytes → Nat → Nat → Nat
  | [], _, n => n
  | b :: bs, i, n => checksumGo bs (i + 1) ((n + b.toNat * (i % 3 + 1)) % 99999999)

/-- `payload_checksum(data)` -/
def payloadChecksum (d : Bytes) : Nat := checksumGo d 0 0

/-- `for xorkey in candidates: ... if grconfig.checksum == checksum: ...; break` -/
def selectKey (guarded : Bytes) (stored : Nat) : List Bytes → Option (Bytes × Bytes)
  | [] => none
  | k :: ks =>
    let unguarded := C20.xor guarded k
    if stored = payloadChecksum unguarded + 1 then some (k, unguarded)
    else selectKey guarded stored ks

/-- body of `for grconfig in iter_guardrail_configs(fh):` in `iter_guardrail_configs_with_beacon` -/
def withBeaconOne (bufSize : Nat) (m : Meta) : Meta :=
  let m1 := { m with beaconXorKey := beaconXorKey }
  let guarded := C20.xor m1.maskedBeaconConfig m1.beaconXorKey
  match selectKey guarded m1.checksum (findXorKeyCandidates guarded bufSize) with
  | some (k, u) => { m1 with payloadXorKey := some k, unmaskedBeaconConfig := some u }
  | none => m1

/-- `iter_guardrail_configs_with_beacon(fh)` -/
def iterGuardrailConfigsWithBeacon (f : PyFile) (bufSize : Nat := DEFAULT_BUFFER_SIZE) : Py (List Meta) :=
  match iterGuardrailConfigs f with
  | .error e => .error e
  | .ok ms => .ok (ms.map (withBeaconOne bufSize))

/-- `not grconfig.unmasked_beacon_config` (None or b"") -/
def Meta.hasConfig (m : Meta) : Bool :=
  match m.unmaskedBeaconConfig with
  | some (_ :: _) => true
  | _ => false

/-- The Guardrails fallback of `BeaconConfig.from_file` on `fxor`: the first metadata with an unmasked
configuration becomes `bconfig.guardrails` (and its `unmasked_beacon_config` the config block);
otherwise `ValueError("No valid Beacon configuration found")`. -/
def fromFileFallback (fxor : PyFile) (bufSize : Nat := DEFAULT_BUFFER_SIZE) : Py Meta :=
  match iterGuardrailConfigsWithBeacon fxor bufSize with
  | .error e => .error e
  | .ok ms =>
    match ms.find? Meta.hasConfig with
    | some m => .ok m
    | none => .error .valueError

end C17

import CsVerif.Model.PyU
/-
PyU_T15 — additions to the run-time library of the untyped translator (`tools/py2leanu.py`) for the scanners of C15
(`utils.iter_find_needle`, `artifact.iter_artifactkit_payloads`) and the XorEncoded view of C09 (`xordecode.py`):

  * BINARY FILE OBJECTS passed in by the caller (`io.BytesIO`, or a regular file opened "rb").  A file object is the value
    `mkFile data pos kind` = `.inst FileCls [.bytes data, .int pos, .int kind]` (kind 0 = BytesIO, 1 = OS file) — the same
    three components as `PyFile` (Model/PyFile.lean).  The translator threads the object through the program: `f.read(n)`,
    `f.seek(off[, whence])` answer the result AND the object afterwards; a function with file parameters returns the tuple
    `(result, file, …)`.  The raising behaviour is `PyFile`'s: an absolute seek to a negative offset is a ValueError on BytesIO
    and an OSError on an OS file; a relative seek (SEEK_CUR / SEEK_END) to a negative target clamps to 0 on BytesIO and is an
    OSError on an OS file; `read` is short at the end and empty beyond it.  One refinement of `PyFile`: `read(n)` with
    `n < -1` is a ValueError on an OS file (`PyFile.read` reads to the end).
    NOT modelled (outside `pyu_modelled` of the validation stream): offsets / counts beyond ±2^62 (OverflowError / EINVAL),
    `whence` 3 / 4 on an OS file (SEEK_DATA / SEEK_HOLE), a non-integer offset together with an invalid `whence`.
  * `x.find(sub, start)` for `bytes` (and `str`) receivers;
  * GENERATORS: `yield e` appends to the hidden list of yielded values (`yieldTo`); the translated generator function
    returns that list — what `list(f(…))` returns — (together with the file objects).
  * `range(n)` (as the iterable of a `for`), `max(a, b)` and the attribute update that puts a file object back into the instance
    that owns it (`setAttr`: methods of a class whose `self.fh` is a file object thread `self`), for C09.
No imports besides `PyU` (must link into the compiled drivers).
-/
namespace PyU

/-! ### file objects -/

/-- the class descriptor of the file objects; the field names cannot be written as Python attribute names -/
def FileCls : Cls := { cid := 9000, fields := ["<data>", "<pos>", "<kind>"], isTuple := false, bases := [] }

/-- the file object with content `data` at position `pos`; `kind` 0 = `io.BytesIO`, 1 = a regular file opened "rb" -/
def mkFile (data : Bytes) (pos : Nat) (kind : Nat) : V := .inst FileCls [.bytes data, .int (pos : Int), .int (kind : Int)]

/-- the components of a well-formed file object -/
def asFile : V → Option (Bytes × Nat × Nat)
  | .inst c [.bytes d, .int p, .int k] =>
    if c = FileCls ∧ 0 ≤ p ∧ (k = 0 ∨ k = 1) then some (d, p.toNat, k.toNat) else none
  | _ => none

/-- what a seek to a negative absolute offset raises -/
def negSeekExc (kind : Nat) : PyExc := if kind = 0 then .valueError else .osError

/-- `f.read(n)`: the data and the object afterwards.  `None` / `-1` read to the end (BytesIO: any negative count); short at
the end, empty beyond it; a count that is not `None` / int-like is a TypeError; a receiver that is not a file object has no
`read` (AttributeError) -/
def fileRead (f n : V) : Py (V × V) :=
  match asFile f with
  | none => .error .attributeError
  | some (d, p, k) =>
    let rest := d.drop p
    match n with
    | .none => .ok (.bytes rest, mkFile d (p + rest.length) k)
    | _ =>
      match asInt n with
      | none => .error .typeError
      | some c =>
        if c < -1 ∧ k = 1 then .error .valueError
        else
          let r := if c < 0 then rest else rest.take c.toNat
          .ok (.bytes r, mkFile d (p + r.length) k)

/-- `f.seek(off, whence)` (`f.seek(off)` is `whence = 0`): the new absolute position and the object afterwards -/
def fileSeek (f off whence : V) : Py (V × V) :=
  match asFile f with
  | none => .error .attributeError
  | some (d, p, k) =>
    match asInt off, asInt whence with
    | some o, some w =>
      if w = 0 then
        if o < 0 then .error (negSeekExc k) else .ok (.int o, mkFile d o.toNat k)
      else if w = 1 ∨ w = 2 then
        let t : Int := (if w = 1 then (p : Int) else (d.length : Int)) + o
        if t < 0 then (if k = 0 then .ok (.int 0, mkFile d 0 k) else .error .osError)
        else .ok (.int t, mkFile d t.toNat k)
      else .error .valueError
    | _, _ => .error .typeError

/-- `f.tell()` -/
def fileTell (f : V) : Py V :=
  match asFile f with
  | none => .error .attributeError
  | some (_, p, _) => .ok (.int (p : Int))

/-! ### `find` -/

/-- scan of `hay` (the suffix that starts at absolute index `i`) for the first position where `needle` is a prefix; the empty
needle matches at every position including the end -/
def findFrom {α : Type} [BEq α] (needle : List α) (hay : List α) (i : Nat) : Option Nat :=
  if needle.isPrefixOf hay then some i
  else
    match hay with
    | [] => none
    | _ :: t => findFrom needle t (i + 1)

/-- `hay.find(needle, start)` on lists: a negative `start` counts from the end (clamped to 0), `start > len(hay)` finds
nothing (not even the empty needle); `-1` = not found -/
def findList {α : Type} [BEq α] (hay needle : List α) (start : Int) : Int :=
  let s : Nat := if start < 0 then ((hay.length : Int) + start).toNat else start.toNat
  if s > hay.length then -1
  else
    match findFrom needle (hay.drop s) s with
    | some i => (i : Int)
    | none => -1

/-- `x.find(sub, start)`: `bytes` receiver with a `bytes` needle or an int-like byte value (outside 0..255: ValueError),
`str` receiver with a `str` needle; `start` is `None` or int-like (checked first, TypeError); a receiver of another kind
has no `find` (AttributeError).  Not modelled: the third argument `end`. -/
def find (x sub start : V) : Py V :=
  match x with
  | .bytes hay =>
    match bound start with
    | .error e => .error e
    | .ok s =>
      match sub with
      | .bytes nd => .ok (.int (findList hay nd (s.getD 0)))
      | _ =>
        match asInt sub with
        | some n =>
          if 0 ≤ n ∧ n < 256 then .ok (.int (findList hay [UInt8.ofNat n.toNat] (s.getD 0))) else .error .valueError
        | none => .error .typeError
  | .str hay =>
    match bound start with
    | .error e => .error e
    | .ok s =>
      match sub with
      | .str nd => .ok (.int (findList hay nd (s.getD 0)))
      | _ => .error .typeError
  | _ => .error .attributeError

/-! ### calls of typed translations (`Gen.PyUtils`) -/

/-- apply the typed translation of `utils.xor` (`data: bytes, key: bytes → bytes`) to dynamic values.  Not modelled (TypeError;
CPython accepts some of them): arguments that are not `bytes` (e.g. a list of ints as the key). -/
def liftXor (f : Bytes → Bytes → Py Bytes) (data key : V) : Py V :=
  match data, key with
  | .bytes d, .bytes k => (f d k).map .bytes
  | _, _ => .error .typeError

/-! ### generators -/

/-- `yield x`: the list of the values yielded so far, with `x` at the end -/
def yieldTo (ys x : V) : V :=
  match ys with
  | .list l => .list (l ++ [x])
  | v => v

/-! ### `range`, `max`, attribute update (C09) -/

/-- `range(n)` as the iterable of a `for` loop (the translator accepts `range(…)` nowhere else): the list `0 … n-1` for an
int-like `n` (empty when `n ≤ 0`); any other kind of argument is a TypeError -/
def rangeV (n : V) : Py V :=
  match asInt n with
  | some k => .ok (.list ((List.range k.toNat).map fun (i : Nat) => .int (i : Int)))
  | none => .error .typeError

/-- `max(a, b)`: `b` if `b > a`, else `a` (the first of two equal maxima); unorderable operands are a TypeError -/
def max2 (a b : V) : Py V :=
  match gt b a with
  | .ok c => .ok (if c then b else a)
  | .error e => .error e

/-- `x.a = v` for an attribute `a` that the instance already has (the translator emits it only to put back a file object it
has just taken out with `getAttr`): the changed instance; NamedTuple instances and every other kind of object here do not
support it (AttributeError) -/
def setAttr (x : V) (attr : String) (v : V) : Py V :=
  match x with
  | .inst cls vals =>
    if cls.isTuple then .error .attributeError
    else
      match setField attr v cls.fields vals with
      | some vs => .ok (.inst cls vs)
      | none => .error .attributeError
  | _ => .error .attributeError

end PyU

import CsVerif.Model.PyU
/-
PyU_T17 — additions to the run-time library of the untyped translator (`tools/py2leanu.py`, `Model/PyU.lean`) for
guardrails.py (property C17: `iter_guardrail_configs_with_beacon`, `find_xor_key_candidates`, `iter_guardrail_configs`):

  * `for … else` (`forListElse`: the loop also answers whether it ended without `break`);
  * `range(a, b)` as the iterable of a `for` (`range2V`);
  * `io.BufferedReader(io.BytesIO(x))` (`newBufReader`) and `r.peek(n)` (`peek`);
  * `utils.grouper(iterable, n, fillvalue)` (`grouper`), `bytes(x)` (`bytesOf17`);
  * `collections.Counter`: `c.update(iterable)` item by item (`counterIncr`) and `c.most_common(n)` (`mostCommon`);
  * the typed translation of `guardrails.payload_checksum` on a dynamic value (`liftBytesNat`).

Same conventions as `PyU.lean`: every operation is a total function into `Py`, CPython 3.12's raising branches are explicit,
operand kinds an operation does not model answer `TypeError` and are named in its doc comment (they are left out of the `pyu`
validation stream of C17, tools/harness/pyuval_t17.py, which runs every operation of this file against CPython on random
operands).  No new constructor of `PyU.V`: a `collections.Counter` is a `dict` (keys in first-insertion order, counts), a
`BufferedReader` over a `BytesIO` is the `bytesIO` value (see `newBufReader`).
No imports besides `PyU` (must link into the compiled drivers).
-/
namespace PyU

/-! ### `for … else` -/

/-- `for x in items: body else: …` — like `forList`; the first component of the answer says whether the `else` clause runs
(the items were exhausted: the loop was not left by `break`) -/
def forListElse {ε σ : Type} : List V → (V → σ → Except ε (Ctl × σ)) → σ → Except ε (Bool × σ)
  | [], _, st => .ok (true, st)
  | x :: xs, body, st =>
    match body x st with
    | .error e => .error e
    | .ok (.brk, st') => .ok (false, st')
    | .ok (.cont, st') => forListElse xs body st'

/-! ### `range(a, b)` -/

/-- `range(a, b)` as the iterable of a `for` loop (the translator accepts it nowhere else): the list `a … b-1` for int-like
bounds (empty when `b ≤ a`); any other kind of argument is a TypeError -/
def range2V (a b : V) : Py V :=
  match asInt a, asInt b with
  | some x, some y => .ok (.list ((List.range (y - x).toNat).map fun (i : Nat) => .int (x + (i : Int))))
  | _, _ => .error .typeError

/-! ### `io.BufferedReader` over an `io.BytesIO` -/

/-- `io.BufferedReader.__init__`'s default `buffer_size` (the C-level constant, not the module attribute
`io.DEFAULT_BUFFER_SIZE` that a program can rebind) -/
def readerBufferSize : Nat := 8192

/-- `io.BufferedReader(raw)` for a `raw` that is an `io.BytesIO` with at most `readerBufferSize` bytes left: the reader is
represented by the `bytesIO` value itself — `read(n)` of the reader delivers what `raw.read(n)` would (the whole content fits
the reader's buffer), so reading a cstruct structure from it is `PyU.structRead` on that value.  The translator accepts
`io.BufferedReader(…)` only as the whole right-hand side of the assignment of a variable that is never bound in any other
way, and accepts `.peek` on such variables only.  Any other kind of `raw` (no `readable` attribute) is an AttributeError.
Not modelled (TypeError): a `BytesIO` with more than `readerBufferSize` bytes left (then `peek` may answer a single byte at
a buffer boundary). -/
def newBufReader : V → Py V
  | .bytesIO d p => if d.length - p ≤ readerBufferSize then .ok (.bytesIO d p) else .error .typeError
  | _ => .error .attributeError

/-- `r.peek(n)` for a reader made by `newBufReader`: everything that is left (the whole content is in the buffer after the
first `peek` / `read`; CPython ignores `n` apart from its type), without moving the position; `n` not int-like is a TypeError -/
def peek (r n : V) : Py V :=
  match r with
  | .bytesIO d p =>
    match asInt n with
    | some _ => .ok (.bytes (d.drop p))
    | none => .error .typeError
  | _ => .error .attributeError

/-! ### `utils.grouper`, `bytes(x)` -/

/-- consecutive groups of `n` items (`n > 0`), the last one filled up with `fill` -/
def groupsOf {α : Type} (n : Nat) (fill : α) : Nat → List α → List (List α)
  | 0, _ => []
  | _, [] => []
  | fuel + 1, x :: xs =>
    let g := (x :: xs).take n
    (g ++ List.replicate (n - g.length) fill) :: groupsOf n fill fuel ((x :: xs).drop n)

/-- `utils.grouper(iterable, n, fillvalue)` = `zip_longest(*[iter(iterable)] * n, fillvalue=fillvalue)`, consumed completely:
the list of the `n`-tuples of consecutive items, the last one filled up with `fillvalue`; `n ≤ 0` gives nothing
(`zip_longest()` of no iterables).  `n` not int-like (`[it] * n`) and an `iterable` that cannot be iterated are TypeErrors.
(The translator accepts the result only as the iterable of one comprehension / `for`: it is a one-shot iterator.) -/
def grouper (it n fill : V) : Py V :=
  match iterList it with
  | .error _ => .error .typeError
  | .ok items =>
    match asInt n with
    | none => .error .typeError
    | some k =>
      if k ≤ 0 then .ok (.list [])
      else .ok (.list ((groupsOf k.toNat fill items.length items).map .tuple))

/-- the items of `bytes(iterable)`: each an int-like in `range(256)`; the first offending item decides (not an int:
TypeError, out of range: ValueError) -/
def bytesItems17 : List V → Py Bytes
  | [] => .ok []
  | v :: vs =>
    match asInt v with
    | none => .error .typeError
    | some n =>
      if 0 ≤ n ∧ n < 256 then (bytesItems17 vs).map (UInt8.ofNat n.toNat :: ·)
      else .error .valueError

/-- `bytes(x)` with one argument: `bytes` → the same bytes; a `bool` / `int` count → that many zero bytes (negative:
ValueError, ≥ 2^63: OverflowError); a list / tuple / NamedTuple instance / dict (its keys) of int-likes in `range(256)`;
`str` and `None` are TypeErrors.  Not modelled (TypeError): cstruct enum members, `BytesIO`, instances of plain classes;
counts between 2^31 and 2^63 (MemoryError in practice). -/
def bytesOf17 : V → Py V
  | .bytes b => .ok (.bytes b)
  | .bool b => .ok (.bytes (if b then [0] else []))
  | .int n =>
    if n < 0 then .error .valueError
    else if n ≥ 9223372036854775808 then .error .overflowError
    else .ok (.bytes (List.replicate n.toNat 0))
  | .list xs => (bytesItems17 xs).map .bytes
  | .tuple xs => (bytesItems17 xs).map .bytes
  | .dict ks _ => (bytesItems17 ks).map .bytes
  | .inst c xs => if c.isTuple then (bytesItems17 xs).map .bytes else .error .typeError
  | _ => .error .typeError

/-! ### `collections.Counter` -/

/-- one item of `counter.update(iterable)`: `counter[k] = counter.get(k, 0) + 1` — a new key goes to the end.  An unhashable
item is a TypeError; a receiver that is not a dict has no `update` of this kind (AttributeError).  (The translator emits
this only for a variable that is bound by `collections.Counter()` at every assignment.) -/
def counterIncr (c k : V) : Py V :=
  match c with
  | .dict ks vs =>
    if hashable k then
      match findKey k ks vs with
      | some v =>
        match add v (.int 1) with
        | .ok v' => .ok (.dict ks (setKey k v' ks vs))
        | .error e => .error e
      | none => .ok (.dict (ks ++ [k]) (vs ++ [.int 1]))
    else .error .typeError
  | _ => .error .attributeError

/-- the first entry among those with the largest count, and the other entries in their order -/
def takeMaxFirst : List (V × Int) → Option ((V × Int) × List (V × Int))
  | [] => none
  | x :: rest =>
    match takeMaxFirst rest with
    | none => some (x, [])
    | some (y, rest') => if y.2 > x.2 then some (y, x :: rest') else some (x, rest)

/-- the `n` entries with the largest counts, count descending, equal counts in first-insertion order (what
`heapq.nlargest(n, items, key=count)` = `sorted(items, key=count, reverse=True)[:n]` answers: both are stable) -/
def mostCommonGo : Nat → List (V × Int) → List (V × Int)
  | 0, _ => []
  | n + 1, l =>
    match takeMaxFirst l with
    | none => []
    | some (a, rest) => a :: mostCommonGo n rest

/-- the entries of a Counter whose counts are all `int`s -/
def counterItems : List V → List V → Option (List (V × Int))
  | k :: ks, .int n :: vs => (counterItems ks vs).map ((k, n) :: ·)
  | [], [] => some []
  | _, _ => none

/-- `c.most_common(n)`: the list of the `(key, count)` tuples of the `n` largest counts (`None`: all of them; `n ≤ 0`: none),
count descending, ties in first-insertion order; `n` neither `None` nor int-like is a TypeError; a receiver that is not a
dict is an AttributeError.  Not modelled (TypeError): counts that are not `int` objects. -/
def mostCommon (c n : V) : Py V :=
  match c with
  | .dict ks vs =>
    match counterItems ks vs with
    | none => .error .typeError
    | some items =>
      let k : Option Nat := match n with
        | .none => some items.length
        | _ => (asInt n).map Int.toNat
      match k with
      | none => .error .typeError
      | some k => .ok (.list ((mostCommonGo k items).map fun p => .tuple [p.1, .int p.2]))
  | _ => .error .attributeError

/-! ### calls of typed translations -/

/-- apply the typed translation of `guardrails.payload_checksum` (`data: bytes → int`, body: `len(data)`, `data[i] & 0xFF`) to a
dynamic value.  `None`, int-likes and `BytesIO` have no `len` (TypeError), a non-empty `str` fails at `data[i] & 0xFF`
(TypeError).  Not modelled (TypeError): lists / tuples of ints (accepted by CPython), empty `str` / dict (CPython answers 0),
a non-empty dict (KeyError for a missing key `0`). -/
def liftBytesNat (f : Bytes → Py Int) : V → Py V
  | .bytes d => (f d).map .int
  | _ => .error .typeError

end PyU

import CsVerif.Model.C02
import CsVerif.Gen.PyBeaconCfg
/-!
C02 — glue between the hand-written model (`Model/C02.lean`) and the definitions translated from the source of
`iter_settings`, `BeaconConfig.__init__`, `BeaconConfig.settings_map`, `setting_enums`, `max_setting_enum` and the four view
properties (`Gen/PyBeaconCfg.lean`, untyped translator): the encoding of the model's types as Python values and the instance of
the one EXTERNAL function of the translated definitions (`callv`: calling a function object of `SETTING_TO_PRETTYFUNC`).
Used by the driver (`g-*` streams) and by `Props/C02Gen.lean`.
-/
namespace C02Gen
open PyU (V)
open Gen.PyBeaconCfg

/-- the enum class of `setting.index`: `DeprecatedBeaconSetting` iff the model's `deprecated` flag is set -/
def indexCls (deprecated : Bool) : PyU.EnumCls := if deprecated then DeprecatedBeaconSetting else BeaconSetting

/-- a `Setting` object: `index` / `type` are enum members, `length` an int, `value` bytes -/
def encSetting (s : C02.Setting) : V :=
  .inst SettingCls [.enum (indexCls s.deprecated) (s.index : Int), .enum SettingsType (s.type : Int), .int (s.length : Int), .bytes s.value]

/-- the list of the yielded `Setting` objects -/
def encSettings (ss : List C02.Setting) : V := .list (ss.map encSetting)

/-- a non-negative `int` -/
def encNat (n : Nat) : V := .int (n : Int)

/-- the list `setting_enums` returns -/
def encNats (l : List Nat) : V := .list (l.map encNat)

/-- an ASCII `str` (the model keeps the enum names as bytes) -/
def encAscii (b : Bytes) : V := .str (b.map (·.toNat))

/-- a dictionary key: `str` (name view), `int` (const view), enum member (enum view) -/
def encKey : C02.Key → V
  | .name s => encAscii s
  | .const n => .int (n : Int)
  | .enum d n => .enum (indexCls d) (n : Int)

/-- the result of a pretty function as the model abstracts it: a tagged term -/
def OpaqueCls : PyU.Cls := { cid := 23, fields := ["<tag>", "<arg>"], isTuple := false, bases := [] }

/-- a dictionary value: `int`, `bytes`, or the abstract result `opaque tag arg` of a pretty function -/
def encVal : C02.Val → V
  | .int n => .int (n : Int)
  | .bytes b => .bytes b
  | .opaque t a => .inst OpaqueCls [.int (t : Int), encVal a]

/-- the mapping `settings_map` returns, in insertion order -/
def encMap (m : List (C02.Key × C02.Val)) : V := .dict (m.map fun p => encKey p.1) (m.map fun p => encVal p.2)

/-- the argument of a pretty function: `settings_map` only ever passes an `int` (≥ 0) or `bytes` -/
def decArg : V → Option C02.Val
  | .int n => if 0 ≤ n then some (.int n.toNat) else none
  | .bytes b => some (.bytes b)
  | _ => none

/-- CALLING a value: a function object `PrettyFn(k)` of `SETTING_TO_PRETTYFUNC` applied to an `int` / `bytes` argument is the
model's abstract `content k`; anything else is not part of this instance (TypeError) -/
def callX (content : Nat → C02.Val → Py C02.Val) (f v : V) : Py V :=
  match f with
  | .inst c [.int k] =>
    if c = PrettyFn ∧ 0 ≤ k then
      match decArg v with
      | some a => (content k.toNat a).map encVal
      | none => .error .typeError
    else .error .typeError
  | _ => .error .typeError

/-- the `BeaconConfig` object that `BeaconConfig(config_block)` constructs: the attributes of `__init__` -/
def encConfig (config_block : V) (ss : List C02.Setting) : V :=
  .inst BeaconConfig [config_block, .tuple (ss.map encSetting), .none, .bool false, .none, .none, .none, .none, .none, .none, .none, .none]

/-- the `index_type` argument as the source reads it: `"name"`, `"const"`, anything else is the enum view -/
def itOf (v : V) : C02.IndexType :=
  if PyU.eq v (PyU.lit "name") then .name else if PyU.eq v (PyU.lit "const") then .const else .enum

end C02Gen

import CsVerif.Model.Basic
import CsVerif.Gen.Grammar
import CsVerif.Gen.ProfileGen
import CsVerif.Model.C10
import CsVerif.Model.C12
/-
C13 — a profile generated from a beacon configuration is valid and faithful
  dissect/cobaltstrike/c2profile.py   C2Profile.from_beacon_config (442-686), ConfigBlock.set_option/_pair/_enable/
                                      set_config_block/set_non_empty_config_block (113-195), DataTransformBlock (205-252),
                                      ExecuteOptionsBlock / BeaconGateBlock builders (318-400), value_to_string (29-39, model: C12)

Input of the model: the `(setting value, pretty value)` pairs in the order `config.settings_by_index.items()` yields them
(dict semantics and the pretty functions are C02's / C03's subject) and `config.uris`.

Modelled domain.  Pretty values have the shapes the pretty functions of beacon.py produce for the value types Cobalt
Strike uses: scalars (`int`, latin-1 `str`, `bytes`, `None` for the name of an undefined enum value), transform programs
(closed enumeration of the steps `parse_transform_binary` can emit), recover programs, execute lists (items `str` or
`None`), process-inject transform lists, BeaconGate string lists.  A scalar where a list is needed or vice versa cannot be
produced by `settings_by_index` for canonical TLV types; for such pairs the model answers `TypeError` as an
out-of-domain marker (the real code raises TypeError/AttributeError/ValueError there or prints a Python repr).
Text settings: the loop starts with `if isinstance(value, str): value = value.encode("latin-1")`, so every `str` pretty
value (`PVal.str`, latin-1 text = `Bytes`) reaches `value_to_string` as `bytes` (`C12.valueToString`: everything escaped);
only the `str` objects the code makes itself (constants, `"X" * n`) take the `str` path (`C12.valueToStringStr`: `"`
escaped, nothing else — harmless for those fixed texts).
Execute items: `parse_execute_list` decodes module and function names as UTF-8 and the generator hands the quoted part
back as `val[1:-1].encode()` (UTF-8).  An execute item is therefore modelled as the UTF-8 encoding of the Python `str`
(= the bytes of the configuration; the harness feeds exactly those bytes).  On that representation `" " in item`,
`item.partition(" ")`, `==` with ASCII names and `.lower()` of ASCII names are the byte-level operations, `.encode()` is
the identity, and `val[1:-1]` (first and last *character* dropped) is the byte slice `[1:-1]` because the first and last
character of `val` are the one-byte quotes `parse_execute_list` writes (`wfExecItem` requires them).  Byte strings that are
not valid UTF-8 denote no `str` (`parse_execute_list` raises UnicodeDecodeError there: C03's subject); the theorems hold
for them as statements about the model only.
Python `str` is latin-1 text (`Bytes`); `str.lower()` is modelled on ASCII (all names it is applied to are ASCII
identifiers of the package).  Trees are Lark trees with *string* labels (`Option Bytes`: `None` is a possible dict key
of `block_steps`); `intern` maps them to the interned trees of the C10 model.
-/
namespace C13

/-- ASCII literal as bytes -/
def b (s : String) : Bytes := s.toList.map fun c => c.toNat.toUInt8

/-! ### pretty values -/

/-- steps `parse_transform_binary` emits as `(NAME, True)` -/
inductive EnStep | base64 | base64url | netbios | netbiosu | uriAppend | print | mask
  deriving DecidableEq, Repr

/-- steps emitted as `(NAME, bytes)` that go into a BUILD group -/
inductive ArgStep | header | parameter | append | prepend
  deriving DecidableEq, Repr

/-- `_HEADER`, `_HOSTHEADER`, `_PARAMETER`: static headers / parameters -/
inductive StaticStep | hdr | hostHdr | param
  deriving DecidableEq, Repr

def EnStep.pyName : EnStep → Bytes
  | .base64 => b "BASE64" | .base64url => b "BASE64URL" | .netbios => b "NETBIOS" | .netbiosu => b "NETBIOSU"
  | .uriAppend => b "URI_APPEND" | .print => b "PRINT" | .mask => b "MASK"

def ArgStep.pyName : ArgStep → Bytes
  | .header => b "HEADER" | .parameter => b "PARAMETER" | .append => b "APPEND" | .prepend => b "PREPEND"

def StaticStep.pyName : StaticStep → Bytes
  | .hdr => b "_HEADER" | .hostHdr => b "_HOSTHEADER" | .param => b "_PARAMETER"

/-- one element of the pretty value of SETTING_C2_REQUEST / SETTING_C2_POSTREQ -/
inductive TStep
  | build (arg : Bytes)                    -- ("BUILD", "metadata" | "id" | "output" | "UNKNOWN BUILD ARG")
  | en (e : EnStep)                        -- (NAME, True)
  | arg (a : ArgStep) (v : Bytes)          -- (NAME, bytes)
  | static (s : StaticStep) (v : Bytes)    -- (NAME, bytes)
  deriving DecidableEq, Repr

/-- one element of the pretty value of SETTING_C2_RECOVER -/
inductive RStep
  | append (n : Nat) | prepend (n : Nat) | base64 | print | netbios | netbiosu | base64url | mask
  deriving DecidableEq, Repr

inductive PVal
  | int (n : Nat)
  | str (s : Bytes)
  | bytes (v : Bytes)
  | none
  | transform (l : List TStep)
  | recover (l : List RStep)
  | execute (l : List (Option Bytes))
  | inj (l : List (Bool × Bytes))          -- (name == "prepend", value); the only other name is "append"
  | gate (l : List Bytes)
  deriving DecidableEq, Repr

/-- Python truthiness (`and value`, `if value`) -/
def PVal.truthy : PVal → Bool
  | .int n => n != 0
  | .str s => !s.isEmpty
  | .bytes v => !v.isEmpty
  | .none => false
  | .transform l => !l.isEmpty
  | .recover l => !l.isEmpty
  | .execute l => !l.isEmpty
  | .inj l => !l.isEmpty
  | .gate l => !l.isEmpty

/-- `value == n` for an int constant `n` (a str / bytes / None / list is never equal to an int) -/
def PVal.eqInt : PVal → Nat → Bool
  | .int m, n => m == n
  | _, _ => false

/-! ### text helpers -/

/-- `str(n)` -/
def decBytes (n : Nat) : Bytes := (Nat.toDigits 10 n).map fun c => c.toNat.toUInt8

/-- `str.lower()` on ASCII -/
def lowerByte (c : UInt8) : UInt8 := if 65 ≤ c ∧ c ≤ 90 then c + 32 else c
def lower (s : Bytes) : Bytes := s.map lowerByte

/-- `.replace("-", "_")` -/
def dashToUnderscore (s : Bytes) : Bytes := s.map fun c => if c = 45 then 95 else c

/-- `v.partition(sep)` reduced to `(before, after)`; `(v, b"")` when `sep` does not occur -/
def partition2 (sep : Bytes) : Bytes → Bytes × Bytes
  | [] => ([], [])
  | c :: cs =>
    if sep.isPrefixOf (c :: cs) then ([], (c :: cs).drop sep.length)
    else let r := partition2 sep cs; (c :: r.1, r.2)

/-- `", ".join(xs)` -/
def joinComma : List Bytes → Bytes
  | [] => []
  | [x] => x
  | x :: y :: r => x ++ [44, 32] ++ joinComma (y :: r)

/-- `", ".join(uri for uri in config.uris if uri is not None)`: missing URIs (`None`, the padding of an odd number of
SETTING_DOMAINS fields) are skipped -/
def joinUris (uris : List (Option Bytes)) : Bytes := joinComma (uris.filterMap id)

/-- `value_to_string(value)` for the scalar a branch of the chain receives: a `str` has been encoded to `bytes` by the
preamble of the loop, so both `str` and `bytes` take the repr-based escaping; anything else (`int`, `None`) →
`f'"{value}"'`.  `none` = not a scalar (outside the modelled domain). -/
def vts : PVal → Option Bytes
  | .int n => some ([34] ++ decBytes n ++ [34])
  | .str s => some (C12.valueToString s)
  | .bytes v => some (C12.valueToString v)
  | .none => some (b "\"None\"")
  | _ => Option.none

/-! ### Lark trees with string labels -/

/-- a list of Lark children in first-child / next-sibling form; `tok true` = `Token('OPTION', …)`,
`tok false` = `Token('STRING', …)`; a node label is a Python `str` or `None` -/
inductive PForest where
  | nil
  | tok (isOption : Bool) (text : Bytes) (rest : PForest)
  | node (label : Option Bytes) (kids : PForest) (rest : PForest)
  deriving DecidableEq, Repr

/-- `Tree(label, children)` -/
structure PTree where
  label : Option Bytes
  kids : PForest
  deriving DecidableEq, Repr

def PForest.append : PForest → PForest → PForest
  | .nil, g => g
  | .tok o t r, g => .tok o t (r.append g)
  | .node l k r, g => .node l k (r.append g)

instance : Append PForest := ⟨PForest.append⟩

/-- `if tree.children:` -/
def PForest.isEmpty : PForest → Bool
  | .nil => true
  | _ => false

def PForest.flatten : List PForest → PForest
  | [] => .nil
  | f :: fs => f ++ PForest.flatten fs

/-- `Tree("string", [Token("STRING", text)])` children list of `k` of them -/
def strKids : List Bytes → PForest
  | [] => .nil
  | t :: ts => .node (some (b "string")) (.tok false t .nil) (strKids ts)

/-- one appended `Tree(label, [string…])` (ConfigBlock.set_option / _pair / _enable / add_step / add_termination) -/
def stmt (label : Bytes) (args : List Bytes) : PForest := .node (some label) (strKids args) .nil

/-- one appended `Tree("option", [Token("OPTION", name), Tree("string", [Token("STRING", v)])])` (C2Profile.set_option) -/
def optStmt (name v : Bytes) : PForest :=
  .node (some (b "option")) (.tok true name (strKids [v])) .nil

/-- one appended `Tree(label, children)` (set_config_block) -/
def block (label : Option Bytes) (kids : PForest) : PForest := .node label kids .nil

/-! ### DataTransformBlock -/

/-- argument of a `(name, value)` step: `bytes` (request programs) or `str` (`"X" * n` of recover programs) -/
inductive DArg | bytes (v : Bytes) | str (s : Bytes)
  deriving DecidableEq, Repr

def DArg.vts : DArg → Bytes
  | .bytes v => C12.valueToString v
  | .str s => C12.valueToStringStr s

/-- an element of the `steps` list handed to `DataTransformBlock` -/
inductive DOpt
  | bare (name : Bytes)              -- a `str`
  | pair (name : Bytes) (v : DArg)   -- a 2-tuple
  deriving DecidableEq, Repr

def dtFlagSteps : List Bytes := [b "base64", b "base64url", b "mask", b "netbios", b "netbiosu"]
def dtTermOptions : List Bytes := [b "print", b "uri-append", b "uri_append"]
def dtArgTerms : List Bytes := [b "header", b "parameter"]

/-- `DataTransformBlock.__init__`: what one option adds to (`self.steps`, `self.termination`).
A `str` option that is in neither tuple is dropped unless it has exactly two characters, in which case
`option, value = option` unpacks it into two one-character strings (cannot happen for the names of the package). -/
def dtClassify : DOpt → PForest × PForest
  | .bare n =>
    if dtFlagSteps.contains n then (stmt n [], .nil)
    else if dtTermOptions.contains n then (.nil, stmt (dashToUnderscore n) [])
    else
      match n with
      | [c0, c1] => (stmt [c0] [C12.valueToStringStr [c1]], .nil)
      | _ => (.nil, .nil)
  | .pair n v =>
    if dtArgTerms.contains n then (.nil, stmt n [v.vts]) else (stmt n [v.vts], .nil)

def dtSteps (steps : List DOpt) : PForest := PForest.flatten (steps.map fun o => (dtClassify o).1)
def dtTerms (steps : List DOpt) : PForest := PForest.flatten (steps.map fun o => (dtClassify o).2)

/-- `DataTransformBlock(steps).tree.children` = `[Tree("data_transform", [Tree("steps", …), Tree("termination", …)])]` -/
def dtKids (steps : List DOpt) : PForest :=
  .node (some (b "data_transform"))
    (.node (some (b "steps")) (dtSteps steps) (.node (some (b "termination")) (dtTerms steps) .nil)) .nil

/-! ### SETTING_C2_REQUEST / SETTING_C2_POSTREQ -/

/-- the local variables of the branch: `_build`, `headers`, `params`, `block_steps` (a defaultdict: association list in
insertion order, keyed by the BUILD argument or `None`) -/
structure ReqAcc where
  build : Option Bytes
  headers : List (Bytes × Bytes)
  params : List (Bytes × Bytes)
  groups : List (Option Bytes × List DOpt)
  deriving Repr

/-- `block_steps[key].append(d)` -/
def addGroup (key : Option Bytes) (d : DOpt) : List (Option Bytes × List DOpt) → List (Option Bytes × List DOpt)
  | [] => [(key, [d])]
  | (k, ds) :: rest => if k = key then (k, ds ++ [d]) :: rest else (k, ds) :: addGroup key d rest

def reqStep (a : ReqAcc) : TStep → ReqAcc
  | .static .hdr v => { a with headers := a.headers ++ [partition2 [58, 32] v] }
  | .static .hostHdr v => { a with headers := a.headers ++ [partition2 [58, 32] v] }
  | .static .param v => { a with params := a.params ++ [partition2 [61] v] }
  | .build s => { a with build := some s }
  | .en e => { a with groups := addGroup a.build (.bare (lower e.pyName)) a.groups }
  | .arg x v => { a with groups := addGroup a.build (.pair (lower x.pyName) (.bytes v)) a.groups }

def reqRun (prog : List TStep) : ReqAcc := prog.foldl reqStep ⟨Option.none, [], [], []⟩

/-- `block._pair(option, pairs)` -/
def pairStmts (label : Bytes) (ps : List (Bytes × Bytes)) : PForest :=
  PForest.flatten (ps.map fun p => stmt label [C12.valueToString p.1, C12.valueToString p.2])

/-- what the branch appends to the client block -/
def requestKids (prog : List TStep) : PForest :=
  let a := reqRun prog
  pairStmts (b "header") a.headers ++ (pairStmts (b "parameter") a.params ++
    PForest.flatten (a.groups.map fun g => block g.1 (dtKids g.2)))

/-! ### SETTING_C2_RECOVER -/

def recoverOpt : RStep → DOpt
  | .append n => .pair (b "append") (.str (List.replicate n 88))
  | .prepend n => .pair (b "prepend") (.str (List.replicate n 88))
  | .base64 => .bare (b "base64")
  | .print => .bare (b "print")
  | .netbios => .bare (b "netbios")
  | .netbiosu => .bare (b "netbiosu")
  | .base64url => .bare (b "base64url")
  | .mask => .bare (b "mask")

/-! ### SETTING_PROCINJ_EXECUTE -/

def execEnable : List Bytes :=
  [b "CreateThread", b "SetThreadContext", b "CreateRemoteThread", b "NtQueueApcThread", b "NtQueueApcThread-s",
   b "NtQueueApcThread_s", b "RtlCreateUserThread"]

/-- the body of `for item in value:`; `None` items raise TypeError at `" " in item`.  Items are UTF-8 bytes (see the
header); `val = val[1:-1].encode()` is a `bytes` object, so the literal is written by the bytes path -/
def execItem : Option Bytes → Py PForest
  | Option.none => .error .typeError
  | some item =>
    let special : PForest :=
      if item.contains 32 then
        let p := partition2 [32] item
        let val := pySliceTo (pySliceFrom p.2 1) (some (-1))          -- val[1:-1].encode()
        if p.1 = b "CreateThread" then stmt (b "createthread_special") [C12.valueToString val]
        else if p.1 = b "CreateRemoteThread" then stmt (b "createremotethread_special") [C12.valueToString val]
        else .nil
      else .nil
    let enable : PForest :=
      if execEnable.contains item then stmt (dashToUnderscore (lower item)) [] else .nil
    .ok (special ++ enable)

def execKids : List (Option Bytes) → Py PForest
  | [] => .ok .nil
  | i :: is =>
    match execItem i with
    | .error e => .error e
    | .ok f =>
      match execKids is with
      | .error e => .error e
      | .ok r => .ok (f ++ r)

/-! ### SETTING_PROCINJ_TRANSFORM_X86 / X64 -/

/-- last value stored under the given name (`prepend = ""` / `append = ""` initially, an empty `str`) -/
def injLast (isPrepend : Bool) (l : List (Bool × Bytes)) : Option Bytes :=
  (l.reverse.find? (·.1 == isPrepend)).map (·.2)

/-- children of the `StageTransformBlock`: `prepend` first, then `append`, each only when truthy -/
def injKids (l : List (Bool × Bytes)) : PForest :=
  (match injLast true l with
    | some v => if v.isEmpty then .nil else stmt (b "prepend") [C12.valueToString v]
    | Option.none => .nil) ++
  (match injLast false l with
    | some v => if v.isEmpty then .nil else stmt (b "append") [C12.valueToString v]
    | Option.none => .nil)

/-! ### the settings loop -/

/-- the block objects created at the top of `from_beacon_config` -/
inductive Blk
  | profile | httpGet | httpPost | stage | procInj | dns | httpBeacon | getClient | postClient
  deriving DecidableEq, Repr

/-- what a branch of the if/elif chain does -/
inductive Act
  | pass
  | profOpt (name : Bytes)                           -- profile.set_option(name, value)
  | blkOpt (k : Blk) (label : Bytes)                 -- block.set_option(label, value)
  | blkConst (k : Blk) (label text : Bytes)          -- block.set_option(label, "<text>")
  | uris                                             -- `uris = ", ".join(non-None uris); if uris: http_get.set_option("uri", uris.encode())`
  | recover
  | request (client : Blk)
  | perms (label : Bytes) (t f : Nat)                -- value == t → "true", value == f → "false"
  | injT (label : Bytes)
  | execute
  | allocator
  | gate
  deriving DecidableEq, Repr

/-- the if/elif chain: (setting value, guarded by `and value`, action), in source order -/
def actionTable : List (Nat × Bool × Act) := [
  (3, false, .profOpt (b "sleeptime")),
  (4, false, .pass),
  (5, false, .profOpt (b "jitter")),
  (8, false, .uris),
  (14, false, .pass),
  (29, false, .profOpt (b "spawnto_x86")),
  (30, false, .profOpt (b "spawnto_x64")),
  (26, false, .blkOpt .httpGet (b "verb")),
  (27, false, .blkOpt .httpPost (b "verb")),
  (28, false, .pass),
  (38, false, .blkOpt .stage (b "cleanup")),
  (39, false, .pass),
  (9, false, .profOpt (b "useragent")),
  (10, false, .blkOpt .httpPost (b "uri")),
  (11, false, .recover),
  (12, false, .request .getClient),
  (13, false, .request .postClient),
  (54, false, .pass),
  (50, false, .pass),
  (35, false, .pass),
  (58, true, .profOpt (b "tcp_frame_header")),
  (57, true, .profOpt (b "smb_frame_header")),
  (55, false, .pass),
  (40, false, .pass),
  (41, true, .blkOpt .stage (b "sleep_mask")),
  (43, false, .perms (b "startrwx") 64 4),
  (44, false, .perms (b "userwx") 64 32),
  (45, true, .blkOpt .procInj (b "min_alloc")),
  (46, false, .injT (b "transform_x86")),
  (47, false, .injT (b "transform_x64")),
  (53, false, .pass),
  (51, false, .execute),
  (52, false, .allocator),
  (60, false, .blkOpt .dns (b "beacon")),
  (61, false, .blkOpt .dns (b "get_a")),
  (62, false, .blkOpt .dns (b "get_aaaa")),
  (63, false, .blkOpt .dns (b "get_txt")),
  (64, false, .blkOpt .dns (b "put_metadata")),
  (65, false, .blkOpt .dns (b "put_output")),
  (66, true, .blkOpt .dns (b "comment_dns_resolver")),
  (19, false, .blkOpt .dns (b "dns_idle")),
  (20, false, .blkOpt .dns (b "dns_sleep")),
  (6, false, .blkOpt .dns (b "maxdns")),
  (48, true, .blkConst .procInj (b "bof_reuse_memory") (b "true")),
  (16, false, .blkOpt .procInj (b "bof_allocator")),
  (76, false, .blkOpt .stage (b "data_store_size")),
  (77, true, .blkConst .httpBeacon (b "data_required") (b "true")),
  (78, true, .gate)]

/-- the branch taken for `(setting, value)`: the first entry with that setting value; a guarded entry whose value is
falsy is not taken and no later entry tests the same setting (obligation `chain_keys_nodup`), so nothing happens -/
def actionOf (idx : Nat) (v : PVal) : Act :=
  match actionTable.find? (·.1 == idx) with
  | some (_, guarded, a) => if guarded && !v.truthy then .pass else a
  | Option.none => .pass

/-- the mutable state of the loop: the children lists of the block objects and `c2_recover` -/
structure St where
  f : Blk → PForest
  recover : List DOpt

def St.init : St := ⟨fun _ => .nil, []⟩

/-- `block.tree.children.append(…)` -/
def St.app (st : St) (k : Blk) (g : PForest) : St :=
  { st with f := fun k' => if k' = k then st.f k' ++ g else st.f k' }

def runAct (uris : List (Option Bytes)) (st : St) (v : PVal) : Act → Py St
  | .pass => .ok st
  | .profOpt name =>
    match vts v with
    | some s => .ok (st.app .profile (optStmt name s))
    | Option.none => .error .typeError
  | .blkOpt k label =>
    match vts v with
    | some s => .ok (st.app k (stmt label [s]))
    | Option.none => .error .typeError
  | .blkConst k label text => .ok (st.app k (stmt label [C12.valueToStringStr text]))
  | .uris =>
    let u := joinUris uris
    if u.isEmpty then .ok st else .ok (st.app .httpGet (stmt (b "uri") [C12.valueToString u]))
  | .recover =>
    match v with
    | .recover l => .ok { st with recover := l.map recoverOpt }
    | _ => .error .typeError
  | .request client =>
    match v with
    | .transform prog => .ok (st.app client (requestKids prog))
    | _ => .error .typeError
  | .perms label t f =>
    if v.eqInt t then .ok (st.app .procInj (stmt label [C12.valueToStringStr (b "true")]))
    else if v.eqInt f then .ok (st.app .procInj (stmt label [C12.valueToStringStr (b "false")]))
    else .ok st
  | .injT label =>
    match v with
    | .inj l =>
      let kids := injKids l
      if kids.isEmpty then .ok st else .ok (st.app .procInj (block (some label) kids))
    | _ => .error .typeError
  | .execute =>
    match v with
    | .execute l =>
      match execKids l with
      | .error e => .error e
      | .ok kids => if l.isEmpty then .ok st else .ok (st.app .procInj (block (some (b "execute")) kids))
    | _ => .error .typeError
  | .allocator =>
    .ok (st.app .procInj (stmt (b "allocator")
      [C12.valueToStringStr (if v.truthy then b "NtMapViewOfSection" else b "VirtualAllocEx")]))
  | .gate =>
    match v with
    | .gate l => .ok (st.app .stage (block (some (b "beacon_gate")) (PForest.flatten (l.map fun s => stmt (lower s) []))))
    | _ => .error .typeError

def stepOne (uris : List (Option Bytes)) (st : St) (kv : Nat × PVal) : Py St :=
  runAct uris st kv.2 (actionOf kv.1 kv.2)

def runSettings (uris : List (Option Bytes)) : St → List (Nat × PVal) → Py St
  | st, [] => .ok st
  | st, kv :: rest =>
    match stepOne uris st kv with
    | .error e => .error e
    | .ok st' => runSettings uris st' rest

/-- `parent.set_non_empty_config_block(label, child)` -/
def addNonEmpty (parent : PForest) (label : Bytes) (kids : PForest) : PForest :=
  if kids.isEmpty then parent else parent ++ block (some label) kids

/-- the statements after the loop -/
def finalize (st : St) : PTree :=
  let get1 :=
    if st.recover.isEmpty then st.f .httpGet
    else addNonEmpty (st.f .httpGet) (b "server") (block (some (b "output")) (dtKids st.recover))
  let get2 := addNonEmpty get1 (b "client") (st.f .getClient)
  let p1 := addNonEmpty (st.f .profile) (b "http_get") get2
  let post1 := addNonEmpty (st.f .httpPost) (b "client") (st.f .postClient)
  let p2 := addNonEmpty p1 (b "http_post") post1
  let p3 := addNonEmpty p2 (b "stage") (st.f .stage)
  let p4 := addNonEmpty p3 (b "process_inject") (st.f .procInj)
  let p5 := addNonEmpty p4 (b "dns_beacon") (st.f .dns)
  let p6 := addNonEmpty p5 (b "http_beacon") (st.f .httpBeacon)
  ⟨some (b "start"), p6⟩

/-- `settings_by_index` as a dict built by inserting the settings in order: a repeated key keeps its first position
and takes the last value (C02's subject; here so that the model accepts any TLV order) -/
def dictInsert (kv : Nat × PVal) : List (Nat × PVal) → List (Nat × PVal)
  | [] => [kv]
  | x :: xs => if x.1 = kv.1 then (x.1, kv.2) :: xs else x :: dictInsert kv xs

def settingsByIndex (tlvs : List (Nat × PVal)) : List (Nat × PVal) := tlvs.foldl (fun d kv => dictInsert kv d) []

/-- `C2Profile.from_beacon_config(config).tree` -/
def fromBeaconConfig (cfg : List (Nat × PVal)) (uris : List (Option Bytes)) : Py PTree :=
  match runSettings uris St.init cfg with
  | .error e => .error e
  | .ok st => .ok (finalize st)

/-! ### interning: string labels → the ids of the generated grammar table (C10 trees) -/

def toText (s : Bytes) : C10.Text := s.map (·.toNat)

/-- id of a tree label in `Grammar.nameCodes`; a label that is not a name of the grammar (or `None`) gets an id
outside the table, so no production can carry it -/
def labelId : Option Bytes → Nat
  | some l => Grammar.nameCodes.idxOf (toText l)
  | Option.none => Grammar.nameCodes.length + 1

def PForest.intern : PForest → C10.Forest
  | .nil => .nil
  | .tok o t r => .leaf (if o then Grammar.termOPTION else Grammar.termSTRING) (toText t) r.intern
  | .node l k r => .node (labelId l) k.intern r.intern

def PTree.intern (t : PTree) : C10.Tree := ⟨labelId t.label, t.kids.intern⟩

/-- `as_text()` does not raise: the Reconstructor finds a production for every node -/
def printable (t : PTree) : Bool := (C10.printTree C10.gen t.intern).isSome

/-! ### the text parsed back: `C2Profile.from_text(profile.as_text())`

`as_text` of a printable tree lexes back to the printed tokens (C10), except that the statement
`# dns_resolver "…";` is a comment for the lexer (`SH_COMMENT` wins over the keyword `#`): it disappears. -/

/-- all token texts below a node, in print order -/
def PForest.tokens : PForest → List Bytes
  | .nil => []
  | .tok _ t r => t :: r.tokens
  | .node _ k r => k.tokens ++ r.tokens

def isComment (l : Option Bytes) : Bool := l == some (b "comment_dns_resolver")

/-- the tree of the regenerated text: the generated tree without the `comment_dns_resolver` statements -/
def PForest.reparsed : PForest → PForest
  | .nil => .nil
  | .tok o t r => .tok o t r.reparsed
  | .node l k r => if isComment l then r.reparsed else .node l k.reparsed r.reparsed

def PTree.reparsed (t : PTree) : PTree := ⟨t.label, t.kids.reparsed⟩

/-- every `# dns_resolver "…";` statement stays on one line (a raw line feed inside its literal would end the comment
early and leave the rest of the statement as unparsable text).  Since text values take the bytes path a line feed is
written `\n`: the predicate holds for every well-formed configuration (`resolver_comment_one_line`); the driver still
evaluates it. -/
def PForest.commentsOneLine : PForest → Bool
  | .nil => true
  | .tok _ _ r => r.commentsOneLine
  | .node l k r => (if isComment l then !(k.tokens.any (·.contains 10)) else k.commentsOneLine) && r.commentsOneLine

/-! ### blocks with no content -/

/-- labels of the nodes that are printed as `keyword { … }` (obligation `brace_labels_are_blocks`: exactly the block
productions the generator can reach) -/
def braceLabels : List Bytes :=
  [b "http_get", b "http_post", b "stage", b "process_inject", b "dns_beacon", b "http_beacon", b "client", b "server",
   b "output", b "metadata", b "id", b "transform_x86", b "transform_x64", b "execute", b "beacon_gate"]

def braceLabel : Option Bytes → Bool
  | some x => braceLabels.contains x
  | Option.none => false

/-- no `{ }` block of the forest (at any depth) is empty -/
def noEmptyBlocks : PForest → Bool
  | .nil => true
  | .tok _ _ r => noEmptyBlocks r
  | .node l ks r => (!braceLabel l || !ks.isEmpty) && noEmptyBlocks ks && noEmptyBlocks r

/-! ### `as_dict` read off the tree (declarative projection; C11's subject is that the token walk computes it)

A statement is filed under the keywords of the enclosing blocks (`stack`) and its own keyword, all taken from the
production of the generated grammar that carries the node's label in its context; values follow `as_dict`:
inside a `list_props` block the whole statement becomes one value with its literals decoded by
`string_token_to_bytes`, elsewhere the last literal (or the last two) is the value, quotes stripped, not decoded. -/

inductive DVal
  | raw (s : Bytes)                          -- `str(token)[1:-1]`
  | pair (x y : Bytes)                       -- `(raw, raw)`
  | kw (k : Bytes)                           -- a bare keyword
  | tuple (k : Bytes) (args : List (Py Bytes))   -- `(keyword, b"…", …)` inside a list property
  deriving DecidableEq, Repr

/-- key segments (joined with `.` by `as_dict`) and value -/
abbrev Entry := List Bytes × DVal

def ofText (t : C10.Text) : Bytes := t.map (·.toUInt8)

def listProps : List (List Bytes) := Gen.ProfileGen.listProps.map (·.map ofText)

/-- `str(token)[1:-1]` -/
def unquote (t : Bytes) : Bytes := pySliceTo (pySliceFrom t 1) (some (-1))

/-- the production for a node labelled `l` where nonterminal `ctx` is expected -/
def formFor (ctx : Nat) (l : Option Bytes) : Option Grammar.Form :=
  C10.gen.forms.find? fun f => f.origin == ctx && C10.label f == labelId l

def starOf : List Grammar.Item → Option Nat
  | [] => Option.none
  | .star m :: _ => some m
  | _ :: is => starOf is

/-- the keyword `as_dict` sees for a production (`set`, braces, `;` and `#` aside) -/
def keywordOf (f : Grammar.Form) : Option Bytes :=
  match C10.principalKws C10.gen f with
  | [k] => some (ofText k)
  | _ => Option.none

/-- one `;`-terminated statement: `line` = optional keyword followed by tokens -/
def leafEntry (path : List Bytes) (kw : Option Bytes) (toks : List Bytes) : List Entry :=
  if listProps.contains path then
    match kw, toks with
    | some k, [] => [(path, .kw k)]
    | some k, ts => [(path, .tuple k (ts.map C12.stringTokenToBytes))]
    | Option.none, _ => []
  else
    match kw, toks with
    | some k, [] => [(path, .kw k)]
    | some k, [v] => [(path ++ [k], .raw (unquote v))]
    | some k, [x, y] => [(path ++ [k], .pair (unquote x) (unquote y))]
    | Option.none, [k, v] => [(path ++ [k], .raw (unquote v))]       -- `set OPTION "v";`
    | _, _ => []

def ntId (name : String) : Nat := Grammar.nameCodes.idxOf (toText (b name))

/-- how `as_dict` treats a node labelled `l` standing where nonterminal `ctx` is expected -/
inductive NodeInfo
  | dt                                        -- `data_transform`: no keyword, children `steps` / `termination`
  | block (m : Nat) (kw : Option Bytes)       -- `kw { m* }`: pushes `kw` on the stack
  | leaf (kw : Option Bytes)                  -- `kw literal* ;` (`none` for `set OPTION literal ;`)
  | unknown                                   -- no production with that label here
  deriving DecidableEq, Repr

def nodeInfo (ctx : Nat) (l : Option Bytes) : NodeInfo :=
  if l == some (b "data_transform") then .dt
  else
    match formFor ctx l with
    | Option.none => .unknown
    | some f =>
      match starOf f.items with
      | some m => .block m (keywordOf f)
      | Option.none => .leaf (keywordOf f)

def pushKw (path : List Bytes) : Option Bytes → List Bytes
  | some x => path ++ [x]
  | Option.none => path

/-- entries of a list of sibling nodes that stand where nonterminal `ctx` is expected, below the keywords `path` -/
def specForest (ctx : Nat) (path : List Bytes) : PForest → List Entry
  | .nil => []
  | .tok _ _ r => specForest ctx path r
  | .node l ks r =>
    (match nodeInfo ctx l with
      | .dt =>
        match ks with
        | .node _ steps (.node _ terms .nil) =>
          specForest (ntId "transform_statement") path steps ++ specForest (ntId "termination_statement") path terms
        | _ => []
      | .block m kw => specForest m (pushKw path kw) ks
      | .leaf kw => leafEntry path kw ks.tokens
      | .unknown => []) ++ specForest ctx path r

/-- nonterminal of the children of the root (`start: value*`) -/
def rootCtx : Nat := ntId "value"

/-- the dictionary (as an entry list in statement order) of a profile tree -/
def specDict (t : PTree) : List Entry := specForest rootCtx [] t.kids

/-! ### what the property promises: the expected dictionary, from the configuration alone

Keys are written as in a profile (`http-get.client.header`), values as `as_dict` presents them: plain options as the
literal text of the value (`lit`: decimal for numbers, `"` escaped for text, `repr`-style escapes for bytes), list
properties as keyword / (keyword, exact bytes).  Guarded settings whose value is zero / empty count as absent. -/

/-- literal text of a byte string as it stands between the quotes: `\"`, `\\`, `\t`, `\n`, `\r`, `\xhh` escapes, printable
ASCII as is (`C12.literal_roundtrip`: it decodes to exactly the bytes) -/
def litBytes (v : Bytes) : Bytes := unquote (C12.valueToString v)

/-- literal text of a scalar as it stands between the quotes: decimal digits of a number, `litBytes` of text / bytes -/
def lit : PVal → Bytes
  | .int n => decBytes n
  | .str s => litBytes s
  | .bytes v => litBytes v
  | _ => []

def k (s : String) : Bytes := b s

/-- profile keyword of a transform step (lower-cased name, `_` of `uri_append` written `-`) -/
def EnStep.kw : EnStep → Bytes
  | .base64 => k "base64" | .base64url => k "base64url" | .netbios => k "netbios" | .netbiosu => k "netbiosu"
  | .uriAppend => k "uri-append" | .print => k "print" | .mask => k "mask"

def ArgStep.kw : ArgStep → Bytes
  | .header => k "header" | .parameter => k "parameter" | .append => k "append" | .prepend => k "prepend"

def EnStep.isTerm : EnStep → Bool
  | .uriAppend => true | .print => true | _ => false

def ArgStep.isTerm : ArgStep → Bool
  | .header => true | .parameter => true | _ => false

def isBuild : TStep → Bool
  | .build _ => true
  | _ => false

def isStatic : TStep → Bool
  | .static _ _ => true
  | _ => false

/-- the program split at its BUILD markers: (BUILD argument, steps up to the next BUILD); static steps skipped -/
def splitBuilds : List TStep → List (Bytes × List TStep)
  | [] => []
  | .build s :: rest => (s, (rest.takeWhile (!isBuild ·)).filter (!isStatic ·)) :: splitBuilds rest
  | _ :: rest => splitBuilds rest

/-- one step of a BUILD group as a dictionary entry -/
def expStep (path : List Bytes) : TStep → List Entry
  | .en e => [(path, .kw e.kw)]
  | .arg a v =>
    if listProps.contains path then [(path, .tuple a.kw [.ok v])] else [(path ++ [a.kw], .raw (litBytes v))]
  | _ => []

/-- http-get / http-post client: static headers, static parameters, then the BUILD groups -/
def expClient (blk : Bytes) (prog : List TStep) : List Entry :=
  (prog.flatMap fun t => match t with
    | .static .hdr v => [([blk, k "client", k "header"], .pair (litBytes (partition2 [58, 32] v).1) (litBytes (partition2 [58, 32] v).2))]
    | .static .hostHdr v => [([blk, k "client", k "header"], .pair (litBytes (partition2 [58, 32] v).1) (litBytes (partition2 [58, 32] v).2))]
    | _ => []) ++
  (prog.flatMap fun t => match t with
    | .static .param v => [([blk, k "client", k "parameter"], .pair (litBytes (partition2 [61] v).1) (litBytes (partition2 [61] v).2))]
    | _ => []) ++
  (splitBuilds prog).flatMap fun g => g.2.flatMap (expStep [blk, k "client", g.1])

def RStep.isTerm : RStep → Bool
  | .print => true | _ => false

def expRStep : RStep → Entry
  | .append n => ([k "http-get", k "server", k "output"], .tuple (k "append") [.ok (List.replicate n 88)])
  | .prepend n => ([k "http-get", k "server", k "output"], .tuple (k "prepend") [.ok (List.replicate n 88)])
  | .base64 => ([k "http-get", k "server", k "output"], .kw (k "base64"))
  | .print => ([k "http-get", k "server", k "output"], .kw (k "print"))
  | .netbios => ([k "http-get", k "server", k "output"], .kw (k "netbios"))
  | .netbiosu => ([k "http-get", k "server", k "output"], .kw (k "netbiosu"))
  | .base64url => ([k "http-get", k "server", k "output"], .kw (k "base64url"))
  | .mask => ([k "http-get", k "server", k "output"], .kw (k "mask"))

/-- http-get server output: the recover steps in configuration order, the terminating `print` last -/
def expServer (l : List RStep) : List Entry :=
  (l.filter (!·.isTerm)).map expRStep ++ (l.filter (·.isTerm)).map expRStep

/-- profile keyword of an execute item without argument -/
def execKw (item : Bytes) : Bytes := if item = k "NtQueueApcThread_s" then k "NtQueueApcThread-s" else item

def expExecItem (item : Bytes) : List Entry :=
  if item.contains 32 then
    let p := partition2 [32] item
    [([k "process-inject", k "execute"], .tuple p.1 [.ok (pySliceTo (pySliceFrom p.2 1) (some (-1)))])]
  else [([k "process-inject", k "execute"], .kw (execKw item))]

def expInjT (kw : Bytes) (l : List (Bool × Bytes)) : List Entry :=
  let path := [k "process-inject", kw]
  let one (name : Bytes) (v : Option Bytes) : List Entry :=
    match v with
    | some x =>
      if x.isEmpty then []
      else if listProps.contains path then [(path, .tuple name [.ok x])] else [(path ++ [name], .raw (litBytes x))]
    | Option.none => []
  one (k "prepend") (injLast true l) ++ one (k "append") (injLast false l)

/-- what the property says about one setting -/
inductive SpecAct
  | skip
  | plain (key : List Bytes)                      -- `key = "<literal of the value>"`
  | const (key : List Bytes) (text : Bytes)       -- `key = "<text>"` when the (guarded) value is set
  | uris                                          -- http-get.uri = the URIs that are present, joined with ", " (absent if empty)
  | recover                                       -- http-get.server.output
  | client (blk : Bytes)                          -- <blk>.client: static headers / parameters, BUILD groups
  | perms (key : List Bytes) (t f : Nat)          -- "true" for value `t`, "false" for value `f`
  | injT (kw : Bytes)                             -- process-inject.<kw>: prepend / append
  | execute                                       -- process-inject.execute
  | allocator                                     -- process-inject.allocator
  | gate                                          -- stage.beacon_gate
  deriving DecidableEq, Repr

/-- (setting, zero/empty value counts as absent, what is promised); keys as written in a profile -/
def specTable : List (Nat × Bool × SpecAct) := [
  (3, false, .plain [k "sleeptime"]), (5, false, .plain [k "jitter"]),
  (29, false, .plain [k "spawnto_x86"]), (30, false, .plain [k "spawnto_x64"]), (9, false, .plain [k "useragent"]),
  (58, true, .plain [k "tcp_frame_header"]), (57, true, .plain [k "smb_frame_header"]),
  (8, false, .uris), (26, false, .plain [k "http-get", k "verb"]),
  (11, false, .recover), (12, false, .client (k "http-get")),
  (27, false, .plain [k "http-post", k "verb"]), (10, false, .plain [k "http-post", k "uri"]), (13, false, .client (k "http-post")),
  (38, false, .plain [k "stage", k "cleanup"]), (41, true, .plain [k "stage", k "sleep_mask"]),
  (76, false, .plain [k "stage", k "data_store_size"]), (78, true, .gate),
  (43, false, .perms [k "process-inject", k "startrwx"] 64 4), (44, false, .perms [k "process-inject", k "userwx"] 64 32),
  (45, true, .plain [k "process-inject", k "min_alloc"]), (46, false, .injT (k "transform-x86")),
  (47, false, .injT (k "transform-x64")), (51, false, .execute), (52, false, .allocator),
  (48, true, .const [k "process-inject", k "bof_reuse_memory"] (k "true")),
  (16, false, .plain [k "process-inject", k "bof_allocator"]),
  (60, false, .plain [k "dns-beacon", k "beacon"]), (61, false, .plain [k "dns-beacon", k "get_A"]),
  (62, false, .plain [k "dns-beacon", k "get_AAAA"]), (63, false, .plain [k "dns-beacon", k "get_TXT"]),
  (64, false, .plain [k "dns-beacon", k "put_metadata"]), (65, false, .plain [k "dns-beacon", k "put_output"]),
  (19, false, .plain [k "dns-beacon", k "dns_idle"]), (20, false, .plain [k "dns-beacon", k "dns_sleep"]),
  (6, false, .plain [k "dns-beacon", k "maxdns"]),
  (77, true, .const [k "http-beacon", k "data_required"] (k "true"))]

def specOf (idx : Nat) (v : PVal) : SpecAct :=
  match specTable.find? (·.1 == idx) with
  | some (_, guarded, a) => if guarded && !v.truthy then .skip else a
  | Option.none => .skip

/-- the block of the dictionary an item belongs to -/
def specBlock : SpecAct → Option (List Bytes)
  | .skip => Option.none
  | .plain key => some key.dropLast
  | .const key _ => some key.dropLast
  | .uris => some [k "http-get"]
  | .recover => some [k "http-get", k "server"]
  | .client blk => some [blk, k "client"]
  | .perms key _ _ => some key.dropLast
  | .injT _ => some [k "process-inject"]
  | .execute => some [k "process-inject"]
  | .allocator => some [k "process-inject"]
  | .gate => some [k "stage"]

def specEntries (uris : List (Option Bytes)) : SpecAct → PVal → List Entry
  | .plain key, v => [(key, .raw (lit v))]
  | .const key text, _ => [(key, .raw text)]
  | .uris, _ => if (joinUris uris).isEmpty then [] else [([k "http-get", k "uri"], .raw (litBytes (joinUris uris)))]
  | .recover, .recover l => expServer l
  | .client blk, .transform p => expClient blk p
  | .perms key t f, v => if v.eqInt t then [(key, .raw (k "true"))] else if v.eqInt f then [(key, .raw (k "false"))] else []
  | .injT kw, .inj l => expInjT kw l
  | .execute, .execute l => l.flatMap fun i => match i with | some s => expExecItem s | Option.none => []
  | .allocator, v => [([k "process-inject", k "allocator"], .raw (if v.truthy then k "NtMapViewOfSection" else k "VirtualAllocEx"))]
  | .gate, .gate l => l.map fun name => ([k "stage", k "beacon_gate"], .kw name)
  | _, _ => []

/-- what one setting contributes to the dictionary block `blk` -/
def expFor (uris : List (Option Bytes)) (blk : List Bytes) (kv : Nat × PVal) : List Entry :=
  let a := specOf kv.1 kv.2
  if specBlock a == some blk then specEntries uris a kv.2 else []

/-- the expected dictionary, block by block in the order of a generated profile; inside a block in configuration order -/
def expectedDict (cfg : List (Nat × PVal)) (uris : List (Option Bytes)) : List Entry :=
  let F := fun blk => cfg.flatMap (expFor uris blk)
  F [] ++
  (F [k "http-get"] ++ F [k "http-get", k "server"] ++ F [k "http-get", k "client"]) ++
  (F [k "http-post"] ++ F [k "http-post", k "client"]) ++
  F [k "stage"] ++ F [k "process-inject"] ++ F [k "dns-beacon"] ++ F [k "http-beacon"]

/-! ### well-formed configurations (decidable) -/

def noBackslash (s : Bytes) : Bool := !s.contains 92

/-- scalar values the property speaks about: numbers, bytes, and ANY latin-1 text — backslashes, quotes, control and
non-ASCII characters included (`None` = the name of an undefined enum value is excluded) -/
def wfScalar : PVal → Bool
  | .int _ => true
  | .bytes _ => true
  | .str _ => true
  | _ => false

def TStep.isTerm : TStep → Bool
  | .en e => e.isTerm
  | .arg a _ => a.isTerm
  | _ => false

/-- a BUILD group: steps, then exactly one termination, last -/
def wfGroup (g : List TStep) : Bool :=
  match g.reverse with
  | t :: rest => t.isTerm && rest.all (!·.isTerm)
  | [] => false

/-- programs as Cobalt Strike writes them: nothing but static headers/parameters before the first BUILD, every BUILD
argument allowed for the block and used once, every group terminated -/
def wfProgram (allowed : List Bytes) (prog : List TStep) : Bool :=
  (prog.takeWhile (!isBuild ·)).all isStatic &&
  ((splitBuilds prog).map (·.1)).Nodup &&
  (splitBuilds prog).all fun g => allowed.contains g.1 && wfGroup g.2

def gateLabels : List Bytes := Gen.ProfileGen.gateNames.map fun p => ofText p.1

/-- execute items as `parse_execute_list` writes them: a known name, or `CreateThread "<text>"` /
`CreateRemoteThread "<text>"` with ANY text between the quotes (backslashes, quotes, control characters, non-ASCII) -/
def wfExecItem : Option Bytes → Bool
  | Option.none => false
  | some s =>
    execEnable.contains s ||
      (let p := partition2 [32] s
       s.contains 32 && (p.1 = k "CreateThread" || p.1 = k "CreateRemoteThread") &&
         (p.2.head? == some 34 && p.2.getLast? == some 34 && 2 ≤ p.2.length))

/-- what a branch requires of its value (`config.uris` is unrestricted: any text, `None` entries allowed) -/
def wfAct : Act → PVal → Bool
  | .pass, _ => true
  | .profOpt _, v => wfScalar v
  | .blkOpt _ _, v => wfScalar v
  | .blkConst _ _ _, v => wfScalar v
  | .uris, _ => true
  | .recover, .recover l => (l.filter (·.isTerm)).length == 1
  | .request .getClient, .transform p => wfProgram [k "metadata", k "output"] p
  | .request _, .transform p => wfProgram [k "id", k "output"] p
  | .perms _ _ _, v => wfScalar v
  | .injT _, .inj _ => true
  | .execute, .execute l => l.all wfExecItem
  | .allocator, v => wfScalar v
  | .gate, .gate l => l.all gateLabels.contains
  | _, _ => false

def wfSetting (kv : Nat × PVal) : Bool :=
  match actionTable.find? (·.1 == kv.1) with
  | Option.none => true
  | some (_, _, a) => wfAct a kv.2

/-- the configurations the property quantifies over (for every `config.uris`) -/
def WellFormedCfg (cfg : List (Nat × PVal)) : Bool :=
  (cfg.map (·.1)).Nodup && cfg.all wfSetting

end C13

import CsVerif.Model.Basic
/-
PyRt — the run-time library of the Python→Lean translator (`tools/py2lean.py`).

`tools/py2lean.py` turns the *source text* of pure functions of /repo (read with `inspect.getsource` + `ast` on every
run) into Lean definitions in `Gen/Py*.lean`.  The generated definitions mention nothing but the operations below, so
this file is the complete statement of the Python semantics the translation relies on (trusted; every operation is
exercised against CPython by the `pyrt` correspondence stream of C20, and the generated functions themselves are run
against the real functions on every case).  Typing: `bytes` ↦ `Bytes`, `int` ↦ `Int`, `bool` ↦ `Bool`, `str` ↦ `Str`
(code points), `list` ↦ `List α`, `None`-defaulted parameters ↦ `Option α`; overloading of Python operators over these
types is resolved by Lean's type classes, partial operations return `Py α = Except PyExc α`.
Besides these operations the translator emits, for a *positive integer literal* `k`: `a // k` and `a >> log2 k` as Lean's
`a / k`, `a % k` as `a % k` (`Int` division/modulus are Euclidean: equal to Python's floor versions for a positive divisor)
and `a << n` as `a * 2^n`; `a - b` and unary minus on ints as Lean's; `==`/`!=` as `BEq`, `< <= > >=` on ints as `decide`.
No imports besides `Basic` (must link into the compiled drivers).
-/
namespace PyRt

@[simp] theorem ok_bind {α β : Type} (a : α) (f : α → Py β) : (Except.ok a >>= f) = f a := rfl
@[simp] theorem error_bind {α β : Type} (e : PyExc) (f : α → Py β) : ((Except.error e : Py α) >>= f) = .error e := rfl

/-- Python `str` as a list of code points -/
abbrev Str := List Nat

/-- ASCII / latin-1 literal -/
def s (x : String) : Str := x.toList.map Char.toNat

/-! ### int -/

/-- `a // b` (floor division) -/
def floordiv (a b : Int) : Py Int := if b = 0 then .error .zeroDivisionError else .ok (Int.fdiv a b)

/-- `a % b` (sign of the divisor) -/
def mod (a b : Int) : Py Int := if b = 0 then .error .zeroDivisionError else .ok (Int.fmod a b)

/-- `a & b` on two's-complement integers of unbounded width -/
def band : Int → Int → Int
  | .ofNat m, .ofNat n => Int.ofNat (m &&& n)
  | .ofNat m, .negSucc n => Int.ofNat (m - (m &&& n))
  | .negSucc m, .ofNat n => Int.ofNat (n - (n &&& m))
  | .negSucc m, .negSucc n => .negSucc (m ||| n)

/-- `a | b` -/
def bor : Int → Int → Int
  | .ofNat m, .ofNat n => Int.ofNat (m ||| n)
  | .ofNat m, .negSucc n => .negSucc (n - (n &&& m))
  | .negSucc m, .ofNat n => .negSucc (m - (m &&& n))
  | .negSucc m, .negSucc n => .negSucc (m &&& n)

/-- `a ^ b` -/
def bxor : Int → Int → Int
  | .ofNat m, .ofNat n => Int.ofNat (m ^^^ n)
  | .ofNat m, .negSucc n => .negSucc (m ^^^ n)
  | .negSucc m, .ofNat n => .negSucc (m ^^^ n)
  | .negSucc m, .negSucc n => Int.ofNat (m ^^^ n)

/-- `a << b` (negative count: ValueError) -/
def shl (a b : Int) : Py Int := if b < 0 then .error .valueError else .ok (a * 2 ^ b.toNat)

/-- `a >> b` (negative count: ValueError); floor of `a / 2^b` -/
def shr (a b : Int) : Py Int := if b < 0 then .error .valueError else .ok (Int.fdiv a (2 ^ b.toNat))

/-- `n.bit_length()` -/
def bitLength (n : Int) : Int := (Nat.log2 n.natAbs + (if n = 0 then 0 else 1) : Nat)

/-! ### byte order / int ↔ bytes -/

def fromLE : Bytes → Nat
  | [] => 0
  | b :: bs => b.toNat + 256 * fromLE bs

def toLE : Nat → Nat → Bytes
  | 0, _ => []
  | n+1, v => UInt8.ofNat (v % 256) :: toLE n (v / 256)

/-- byteorder argument: `"little"` / `"big"`, anything else is a ValueError -/
def orderLittle (order : Str) : Py Bool :=
  if order = s "little" then .ok true else if order = s "big" then .ok false else .error .valueError

/-- `int.from_bytes(d, byteorder, signed=signed)` -/
def intFromBytes (d : Bytes) (order : Str) (signed : Bool) : Py Int :=
  match orderLittle order with
  | .error e => .error e
  | .ok little =>
    let u := fromLE (if little then d else d.reverse)
    .ok (if signed ∧ d.length > 0 ∧ u ≥ 256 ^ d.length / 2 then (u : Int) - (256 ^ d.length : Nat) else u)

/-- `n.to_bytes(size, byteorder, signed=signed)`: negative size ValueError, value out of range OverflowError
(CPython quirk kept: `(-1).to_bytes(0, signed=True) == b""`) -/
def intToBytes (n : Int) (size : Int) (order : Str) (signed : Bool) : Py Bytes :=
  if size < 0 then .error .valueError
  else
    match orderLittle order with
    | .error e => .error e
    | .ok little =>
      let k := size.toNat
      let fits : Bool :=
        if signed then
          if k = 0 then decide (n = 0 ∨ n = -1)
          else decide (-((256 ^ k / 2 : Nat) : Int) ≤ n ∧ n < ((256 ^ k / 2 : Nat) : Int))
        else decide (0 ≤ n ∧ n < ((256 ^ k : Nat) : Int))
      if !fits then .error .overflowError
      else
        let u : Nat := if n < 0 then (n + ((256 ^ k : Nat) : Int)).toNat else n.toNat
        let le := toLE k u
        .ok (if little then le else le.reverse)

/-! ### overloaded operators -/

class Len (α : Type) where len : α → Int
instance : Len Bytes := ⟨fun b => b.length⟩
instance {α : Type} : Len (List α) := ⟨fun l => l.length⟩
export Len (len)

class Truthy (α : Type) where truthy : α → Bool
instance : Truthy Bool := ⟨id⟩
instance : Truthy Int := ⟨fun n => n != 0⟩
instance {α : Type} : Truthy (List α) := ⟨fun l => !l.isEmpty⟩
instance {α : Type} : Truthy (Option α) := ⟨Option.isSome⟩
export Truthy (truthy)

class Sum (α : Type) where sum : α → Int
instance : Sum Bytes := ⟨fun b => b.foldl (fun acc x => acc + (x.toNat : Int)) 0⟩
instance : Sum (List Int) := ⟨fun l => l.foldl (· + ·) 0⟩
export Sum (sum)

class Add (α β : Type) (γ : outParam Type) where add : α → β → γ
instance : Add Int Int Int := ⟨(· + ·)⟩
instance {α : Type} : Add (List α) (List α) (List α) := ⟨(· ++ ·)⟩
export Add (add)

class Mul (α β : Type) (γ : outParam Type) where mul : α → β → γ
instance : Mul Int Int Int := ⟨(· * ·)⟩
/-- `seq * n` (`n ≤ 0` gives the empty sequence) -/
instance {α : Type} : Mul (List α) Int (List α) := ⟨fun l n => (List.replicate n.toNat l).flatten⟩
export Mul (mul)

/-- slice bounds: `None` or an int -/
class Bound (ι : Type) where bound : ι → Option Int
instance : Bound Int := ⟨some⟩
instance : Bound (Option Int) := ⟨id⟩

/-- Python's clamping of a slice bound to `0..n` -/
def clampIdx (n : Nat) (i : Int) : Nat :=
  if i < 0 then (i + n).toNat else min i.toNat n

/-- `xs[lo:hi]` -/
def slice {α ι κ : Type} [Bound ι] [Bound κ] (xs : List α) (lo : ι) (hi : κ) : List α :=
  let n := xs.length
  let a := match Bound.bound lo with | none => 0 | some i => clampIdx n i
  let b := match Bound.bound hi with | none => n | some i => clampIdx n i
  (xs.take b).drop a

/-- the `None` bound of a slice written without that bound -/
def noBound : Option Int := none

/-- index normalisation of `xs[i]` -/
def normIdx (n : Nat) (i : Int) : Py Nat :=
  let j := if i < 0 then i + n else i
  if 0 ≤ j ∧ j < n then .ok j.toNat else .error .indexError

class GetItem (α : Type) (β : outParam Type) where getItem : α → Int → Py β
instance : GetItem Bytes Int := ⟨fun d i => (normIdx d.length i).map fun j => ((d.getD j 0).toNat : Int)⟩
instance : GetItem (List Int) Int := ⟨fun d i => (normIdx d.length i).map fun j => d.getD j 0⟩
export GetItem (getItem)

/-- iteration: `for x in bytes` yields ints -/
class Iter (α : Type) (β : outParam Type) where iter : α → List β
instance : Iter Bytes Int := ⟨fun d => d.map fun x => (x.toNat : Int)⟩
instance : Iter (List Int) Int := ⟨id⟩
export Iter (iter)

/-- `bytearray(x)` / `bytes(x)` of a bytes object: the same bytes -/
def bytearray (d : Bytes) : Bytes := d

/-- `bytes([...])`: every element must be in `range(256)` -/
def bytesOfInts : List Int → Py Bytes
  | [] => .ok []
  | v :: vs =>
    if 0 ≤ v ∧ v < 256 then (bytesOfInts vs).map (UInt8.ofNat v.toNat :: ·)
    else .error .valueError

/-- `range(a, b, step)` for a positive step (the translator rejects other steps) -/
def range3 (a b step : Int) : List Int :=
  (List.range ((b - a + step - 1) / step).toNat).map fun (k : Nat) => a + step * (k : Int)

def range1 (b : Int) : List Int := range3 0 b 1

/-! ### str -/

/-- `len(text)` -/
def strLen (t : Str) : Int := t.length

/-- `text.replace(old, "")` for a one-character `old` -/
def strRemoveChar (t : Str) (c : Nat) : Str := t.filter (· != c)

/-- `map(ord, text)` -/
def mapOrd (t : Str) : List Int := t.map fun (c : Nat) => (c : Int)

/-! ### `re.match` for the patterns that occur in the translated functions

A pattern that is not listed here makes the translated function raise `TypeError` — the equivalence proof with the
hand-written model then fails, which is the intended signal that the regular expression in the source changed. -/

def isAlnum (c : Nat) : Bool := (48 ≤ c && c ≤ 57) || (65 ≤ c && c ≤ 90) || (97 ≤ c && c ≤ 122)

/-- `^/[A-Za-z0-9]{4}$` (`$` also matches before a final line feed) -/
def matchStagerX64 (t : Str) : Bool :=
  match t with
  | [47, a, b, c, d] => isAlnum a && isAlnum b && isAlnum c && isAlnum d
  | [47, a, b, c, d, 10] => isAlnum a && isAlnum b && isAlnum c && isAlnum d
  | _ => false

/-- `re.match(pattern, text)` as an optional match object -/
def reMatch (pattern text : Str) : Py (Option Unit) :=
  if pattern = s "^/[A-Za-z0-9]{4}$" then .ok (if matchStagerX64 text then some () else none)
  else .error .typeError

/-! ### opaque library objects used by translated functions (their behaviour is a parameter of the translated definition) -/

/-- `AES.new(key, AES.MODE_CBC, iv=iv)`: the cipher object is the pair it was made from; `obj.encrypt(d)` / `obj.decrypt(d)`
hand the pair and the data to the AES-CBC primitive parameter (which also stands for the key/IV length checks of `AES.new`) -/
structure AesObj where
  key : Bytes
  iv : Bytes

def aesApply (prim : Bytes → Bytes → Bytes → Py Bytes) (o : AesObj) (d : Bytes) : Py Bytes := prim o.key o.iv d

end PyRt

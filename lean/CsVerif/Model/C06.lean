import CsVerif.Model.Basic
import CsVerif.Gen.C2Struct
/-
C06 — Beacon metadata over RSA, session key derivation
(dissect/cobaltstrike/c_c2.py: `struct BeaconMetadata`;
 dissect/cobaltstrike/c2.py: decrypt_metadata, encrypt_metadata, derive_aes_hmac_keys,
 BeaconKeys.from_aes_rand / from_beacon_metadata)

RSA / PKCS#1 v1.5 (pycryptodome) and SHA-256 (hashlib) are *parameters* (`Crypto`); the assumptions
about them that the theorems use are collected in `CryptoLaws`.  Everything else — the byte layout
(field order and widths come from the generated table `Gen.C2Struct.beaconMetadataFields`), the
`size := len - 8` fix-up, which exception is raised where, the magic check, the key split — is decided
by the model.

Measured behaviour of dissect.cstruct 4.7 that is modelled here (see tools/harness/c06.py streams
`dumps` / `parse`, which exercise exactly these points against the real package):
  * integer fields are `struct`-packed: a value outside `0 .. 256^w - 1` makes `dumps()` (and `len()`,
    which is `len(self.dumps())`) raise `struct.error` — not an `OverflowError`;
  * `char aes_rand[16]` is written as is: a longer value is NOT truncated, a shorter one is followed
    by NUL padding up to the static offset of the next field;
  * `char info[size - 51]` is written as is, whatever `size` says;
  * reading: fewer than 59 bytes ⇒ `EOFError`; the info length is `max(0, size - 51)`; fewer bytes
    left than that ⇒ `EOFError`; trailing bytes are ignored.
-/
namespace C06
open Gen.C2Struct (beaconMetadataFields infoLenSub defaultAesIv)

/-- `struct.error` is not a member of the shared `PyExc` enumeration, so C06 wraps it. -/
inductive Exc
  | py (e : PyExc)
  | structError
  deriving DecidableEq, Repr

/-- rendered like `check.canon_exc` renders the Python exception (`struct.error` has `__name__ == "error"`). -/
def Exc.name : Exc → String
  | .py e => e.name
  | .structError => "error"

abbrev PyS (α : Type) := Except Exc α

def liftPy : Py α → PyS α
  | .ok a => .ok a
  | .error e => .error (.py e)

/-! ### generated layout -/

/-- width in bytes of the named field of `struct BeaconMetadata` (generated table). -/
def W (name : String) : Nat :=
  match beaconMetadataFields.find? (·.name == name) with
  | some f => f.width
  | none => 0

/-- size of the static part (everything before `info`). -/
def headerLen : Nat := (beaconMetadataFields.map (·.width)).sum

/-! ### big-endian integers -/

/-- `struct.pack(">I" / ">H" / ">B", v)` for `v < 256^w` -/
def beBytes : Nat → Nat → Bytes
  | 0, _ => []
  | w+1, v => beBytes w (v / 256) ++ [UInt8.ofNat (v % 256)]

/-- `struct.unpack(">…", b)` -/
def beNat (b : Bytes) : Nat := b.foldl (fun a x => a * 256 + x.toNat) 0

/-- a `char[n]` value written at its offset: NUL padding follows when it is shorter than `n`, nothing is cut. -/
def padTo (n : Nat) (b : Bytes) : Bytes := b ++ List.replicate (n - b.length) 0

/-! ### the structure -/

structure Metadata where
  magic : Nat
  size : Nat
  aes_rand : Bytes
  ansi_cp : Nat
  oem_cp : Nat
  bid : Nat
  pid : Nat
  port : Nat
  flag : Nat
  ver_major : Nat
  ver_minor : Nat
  ver_build : Nat
  ptr_x64 : Nat
  ptr_gmh : Nat
  ptr_gpa : Nat
  ip : Nat
  info : Bytes
  deriving DecidableEq, Repr

/-- every integer field fits the width the structure definition gives it -/
def InWidth (m : Metadata) : Prop :=
  m.magic < 256 ^ W "magic" ∧ m.size < 256 ^ W "size" ∧
  m.ansi_cp < 256 ^ W "ansi_cp" ∧ m.oem_cp < 256 ^ W "oem_cp" ∧
  m.bid < 256 ^ W "bid" ∧ m.pid < 256 ^ W "pid" ∧ m.port < 256 ^ W "port" ∧
  m.flag < 256 ^ W "flag" ∧ m.ver_major < 256 ^ W "ver_major" ∧ m.ver_minor < 256 ^ W "ver_minor" ∧
  m.ver_build < 256 ^ W "ver_build" ∧ m.ptr_x64 < 256 ^ W "ptr_x64" ∧ m.ptr_gmh < 256 ^ W "ptr_gmh" ∧
  m.ptr_gpa < 256 ^ W "ptr_gpa" ∧ m.ip < 256 ^ W "ip"

instance (m : Metadata) : Decidable (InWidth m) := by unfold InWidth; infer_instance

/-- the bytes `dumps()` produces when no field overflows -/
def rawDumps (m : Metadata) : Bytes :=
  beBytes (W "magic") m.magic ++ (beBytes (W "size") m.size ++ (padTo (W "aes_rand") m.aes_rand ++
  (beBytes (W "ansi_cp") m.ansi_cp ++ (beBytes (W "oem_cp") m.oem_cp ++ (beBytes (W "bid") m.bid ++
  (beBytes (W "pid") m.pid ++ (beBytes (W "port") m.port ++ (beBytes (W "flag") m.flag ++
  (beBytes (W "ver_major") m.ver_major ++ (beBytes (W "ver_minor") m.ver_minor ++
  (beBytes (W "ver_build") m.ver_build ++ (beBytes (W "ptr_x64") m.ptr_x64 ++
  (beBytes (W "ptr_gmh") m.ptr_gmh ++ (beBytes (W "ptr_gpa") m.ptr_gpa ++ (beBytes (W "ip") m.ip ++
  m.info)))))))))))))))

/-- `metadata.dumps()`; `struct.error` iff some integer field does not fit. -/
def dumpsMetadata (m : Metadata) : PyS Bytes :=
  if InWidth m then .ok (rawDumps m) else .error .structError

/-- `BeaconMetadata(data)`: field by field from the front; only `EOFError` can be raised. -/
def parseMetadata (b0 : Bytes) : Py Metadata :=
  if b0.length < headerLen then .error .eofError
  else
    let magic := b0.take (W "magic");        let b1 := b0.drop (W "magic")
    let size := b1.take (W "size");          let b2 := b1.drop (W "size")
    let aes := b2.take (W "aes_rand");       let b3 := b2.drop (W "aes_rand")
    let ansi := b3.take (W "ansi_cp");       let b4 := b3.drop (W "ansi_cp")
    let oem := b4.take (W "oem_cp");         let b5 := b4.drop (W "oem_cp")
    let bid := b5.take (W "bid");            let b6 := b5.drop (W "bid")
    let pid := b6.take (W "pid");            let b7 := b6.drop (W "pid")
    let port := b7.take (W "port");          let b8 := b7.drop (W "port")
    let flag := b8.take (W "flag");          let b9 := b8.drop (W "flag")
    let vmaj := b9.take (W "ver_major");     let b10 := b9.drop (W "ver_major")
    let vmin := b10.take (W "ver_minor");    let b11 := b10.drop (W "ver_minor")
    let vbld := b11.take (W "ver_build");    let b12 := b11.drop (W "ver_build")
    let x64 := b12.take (W "ptr_x64");       let b13 := b12.drop (W "ptr_x64")
    let gmh := b13.take (W "ptr_gmh");       let b14 := b13.drop (W "ptr_gmh")
    let gpa := b14.take (W "ptr_gpa");       let b15 := b14.drop (W "ptr_gpa")
    let ip := b15.take (W "ip");             let b16 := b15.drop (W "ip")
    -- `char info[size - 51]`: cstruct evaluates `max(0, size - 51)`
    let n := beNat size - infoLenSub
    if b16.length < n then .error .eofError
    else .ok {
      magic := beNat magic, size := beNat size, aes_rand := aes,
      ansi_cp := beNat ansi, oem_cp := beNat oem, bid := beNat bid, pid := beNat pid,
      port := beNat port, flag := beNat flag, ver_major := beNat vmaj, ver_minor := beNat vmin,
      ver_build := beNat vbld, ptr_x64 := beNat x64, ptr_gmh := beNat gmh, ptr_gpa := beNat gpa,
      ip := beNat ip, info := b16.take n }

/-! ### crypto primitives as parameters -/

/-- the random padding bytes pycryptodome draws (`Random.get_random_bytes`) -/
abbrev Rand := Bytes

/--
`rsaEnc m r`   = `PKCS1_v1_5.new(public_key).encrypt(m)` with padding randomness `r`;
`rsaDec ct`    = `PKCS1_v1_5.new(private_key).decrypt(ct, None)`:
                 `.error` = the call raised, `.ok none` = the sentinel `None` came back,
                 `.ok (some pt)` = bytes came back (pycryptodome 3.23 returns `b""` on a padding failure);
`sha256 x`     = `hashlib.sha256(x).digest()`;
`modulusBytes` = `key.size_in_bytes()`.
-/
structure Crypto where
  rsaEnc : Bytes → Rand → Py Bytes
  rsaDec : Bytes → Py (Option Bytes)
  sha256 : Bytes → Bytes
  modulusBytes : Nat

/-- Exactly the assumptions about the primitives that the C06 theorems use. -/
structure CryptoLaws (c : Crypto) : Prop where
  /-- decryption with the matching private key inverts encryption -/
  dec_enc : ∀ m r ct, c.rsaEnc m r = .ok ct → c.rsaDec ct = .ok (some m)
  /-- PKCS#1 v1.5: a message of at most `k - 11` bytes can be encrypted … -/
  enc_ok : ∀ m r, m.length + 11 ≤ c.modulusBytes → ∃ ct, c.rsaEnc m r = .ok ct
  /-- … a longer one raises `ValueError("Plaintext is too long.")` -/
  enc_too_long : ∀ m r, ¬ (m.length + 11 ≤ c.modulusBytes) → c.rsaEnc m r = .error .valueError
  /-- the ciphertext is as long as the modulus -/
  enc_length : ∀ m r ct, c.rsaEnc m r = .ok ct → ct.length = c.modulusBytes
  /-- `decrypt` raises `ValueError("Ciphertext with incorrect length")` for any other length -/
  dec_bad_length : ∀ ct, ct.length ≠ c.modulusBytes → c.rsaDec ct = .error .valueError
  /-- `decrypt` with a private key raises nothing but `ValueError` (incorrect length, ciphertext too large) -/
  dec_raises_only_valueError : ∀ ct e, c.rsaDec ct = .error e → e = .valueError
  /-- SHA-256 digests are 32 bytes -/
  sha256_length : ∀ x, (c.sha256 x).length = 32

/-! ### c2.py -/

/-- the magic constant compared in `decrypt_metadata` (code, not a table) -/
def magicBeef : Nat := 0xBEEF

/-- `metadata.size = len(metadata) - 8`; `len()` of a cstruct instance is `len(self.dumps())`, so it
dumps with the *old* size value first (and raises `struct.error` if any field, the stale size included,
does not fit). -/
def sized (m : Metadata) : PyS Metadata :=
  match dumpsMetadata m with
  | .error e => .error e
  | .ok d0 => .ok { m with size := d0.length - 8 }

/-- `encrypt_metadata(metadata, public_key)` -/
def encryptMetadata (c : Crypto) (m : Metadata) (r : Rand) : PyS Bytes :=
  match sized m with
  | .error e => .error e
  | .ok m' =>
    match dumpsMetadata m' with
    | .error e => .error e
    | .ok d => liftPy (c.rsaEnc d r)

/-- `decrypt_metadata(encrypted_metadata, private_key)` (as repaired by c579710) -/
def decryptMetadata (c : Crypto) (blob : Bytes) : Py Metadata :=
  match c.rsaDec blob with
  | .error e => .error e                      -- pycryptodome's own exception propagates
  | .ok none => .error .valueError            -- `if not pt` (sentinel None)
  | .ok (some pt) =>
    if pt = [] then .error .valueError        -- `if not pt` (b"")
    else
      match parseMetadata pt with
      | .error .eofError => .error .valueError   -- `except EOFError: raise ValueError`
      | .error e => .error e
      | .ok m => if m.magic ≠ magicBeef then .error .valueError else .ok m

/-- `derive_aes_hmac_keys(aes_random)` = `(digest[:16], digest[16:])` -/
def deriveKeys (c : Crypto) (r : Bytes) : Bytes × Bytes :=
  let d := c.sha256 r
  (d.take 16, d.drop 16)

structure BeaconKeys where
  aes_key : Bytes
  hmac_key : Bytes
  iv : Bytes
  deriving DecidableEq, Repr

/-- `BeaconKeys.from_aes_rand(aes_rand, iv=DEFAULT_AES_IV)` -/
def BeaconKeys.fromAesRand (c : Crypto) (r : Bytes) (iv : Bytes := defaultAesIv) : BeaconKeys :=
  let k := deriveKeys c r
  { aes_key := k.1, hmac_key := k.2, iv := iv }

/-- `BeaconKeys.from_beacon_metadata(metadata, iv=DEFAULT_AES_IV)` -/
def BeaconKeys.fromBeaconMetadata (c : Crypto) (m : Metadata) (iv : Bytes := defaultAesIv) : BeaconKeys :=
  BeaconKeys.fromAesRand c m.aes_rand iv

/-! ### call histories

The library keeps no state between calls: the answer to a call is a function of that call's own
arguments (the key is part of the call).  A history is answered call by call. -/

inductive Call
  | decrypt (key : Crypto) (blob : Bytes)
  | encrypt (key : Crypto) (m : Metadata) (r : Rand)
  | derive (c : Crypto) (r : Bytes)

inductive Answer
  | metadata (r : Py Metadata)
  | blob (r : PyS Bytes)
  | keys (k : Bytes × Bytes)
  deriving DecidableEq, Repr

def answer : Call → Answer
  | .decrypt key blob => .metadata (decryptMetadata key blob)
  | .encrypt key m r => .blob (encryptMetadata key m r)
  | .derive c r => .keys (deriveKeys c r)

def runHistory (cs : List Call) : List Answer := cs.map answer

/-! ### a toy instance of the primitives (identity "RSA" under real PKCS#1 v1.5 type-2 framing)

It shows that `CryptoLaws` is satisfiable and is what the driver executes the round trip with. -/

/-- `00 02 PS 00 M` with `PS = FF…FF`, `|PS| = k - |M| - 3` -/
def toyPad (k : Nat) (m : Bytes) : Bytes :=
  0 :: 2 :: (List.replicate (k - m.length - 3) 0xFF ++ 0 :: m)

def toyUnpad (em : Bytes) : Option Bytes :=
  match em with
  | 0 :: 2 :: rest =>
    let ps := rest.takeWhile (· != 0)
    if ps.length < 8 then none
    else
      match rest.drop ps.length with
      | _ :: m => some m
      | [] => none
  | _ => none

def toyCrypto (k : Nat) : Crypto where
  rsaEnc := fun m _ => if m.length + 11 ≤ k then .ok (toyPad k m) else .error .valueError
  rsaDec := fun ct => if ct.length ≠ k then .error .valueError else .ok (toyUnpad ct)
  sha256 := fun x => (x ++ List.replicate 32 0).take 32
  modulusBytes := k

end C06

import CsVerif.Model.C04
import CsVerif.Gen.PyC2T
/-!
C04 — glue between the hand-written model (`Model/C04.lean`) and the definitions translated from the source of
`HttpDataTransform.__init__ / transform / recover` (`Gen/PyC2T.lean`, untyped translator):

* the EXTERNAL functions of the translated definitions instantiated with the C04 sub-models
  (`base64.b64encode / urlsafe_b64encode / b64decode / urlsafe_b64decode`, the stream `random.getrandbits`);
* `stepOf`: which model step (`C04.Step`) a Python `(name, value)` tuple denotes — this is the domain of the equivalence theorems
  (a step list is in the domain when every item has a `stepOf`), and it makes the classification of step names after
  `step.lower()` — until now done by the harness — part of what is proved;
* the encodings of the model's containers (`Req`, `Http`, `C2Data`, `Transform`, exceptions) as Python values.
Used by the driver (`g-*` streams) and by `Props/C04Gen.lean`.
-/
namespace C04Gen
open PyU (V)

/-! ### external functions -/

/-- `base64.b64encode(s)` / `base64.urlsafe_b64encode(s)` for `bytes` (they never raise on `bytes`).  Other argument kinds are not
part of this instance (TypeError; CPython: TypeError for `None` / int / `str`, other bytes-like objects are accepted). -/
def bytesFn (f : Bytes → Bytes) : V → Py V
  | .bytes b => .ok (.bytes (f b))
  | _ => .error .typeError

def b64encodeX : V → Py V := bytesFn C04.b64encode
def urlsafeB64encodeX : V → Py V := bytesFn C04.urlsafeB64encode

/-- `base64.b64decode(s)` / `base64.urlsafe_b64decode(s)` for `bytes`: the lenient decoder of the C04 model (`binascii.Error` is a
ValueError).  Other argument kinds are not part of this instance (TypeError; CPython accepts ASCII `str`). -/
def bytesPy (f : Bytes → Py Bytes) : V → Py V
  | .bytes b => (f b).map .bytes
  | _ => .error .typeError

def b64decodeX : V → Py V := bytesPy C04.b64decode
def urlsafeB64decodeX : V → Py V := bytesPy C04.urlsafeB64decode

/-- `random.getrandbits(32)`: the `calls`-th value of the scripted mask stream (the translator passes the number of earlier
calls).  Other arguments are not part of this instance (TypeError). -/
def getrandbitsX (rand : C04.Rand) (calls k : V) : Py V :=
  match calls, k with
  | .int c, .int 32 => .ok (.int (rand c.toNat).toNat)
  | _, _ => .error .typeError

/-! ### which model step a `(name, value)` tuple denotes -/

/-- argument of `append` / `prepend`: `bytes`, or an int-like object (`isinstance(v, int)`: int, bool) -/
def argOf : V → Option C04.Arg
  | .bytes b => some (.bytes b)
  | v => (PyU.asInt v).map .int

def bytesOf : V → Option Bytes
  | .bytes b => some b
  | _ => none

/-- the value of a `BUILD` step: `"output"`, `"id"`, `"metadata"`; anything else is a BUILD that does nothing -/
def fieldOf : V → Option C04.Field
  | .str s =>
    if s = PyU.cps "output" then some .output
    else if s = PyU.cps "id" then some .id
    else if s = PyU.cps "metadata" then some .metadata
    else none
  | _ => none

/-- `repr(v)` is modelled by `PyU.repr` (`None`, bool, int, bytes, str and lists / tuples of these): needed for the value of an
unknown step only, whose `ValueError` message contains it -/
def reprOk (v : V) : Bool := (PyU.repr v).toBool

/-- the model step of a Python step tuple `(name, value)`: `name` an ASCII `str` in any mixture of cases; `value` of the kind the
step asserts (`bytes` for header / parameter / `_header` / `_hostheader` / `_parameter`, `bytes` or int-like for append / prepend,
arbitrary for the steps that ignore it).  `none`: outside the domain of the model (value of another kind → AssertionError /
TypeError in the code, a non-ASCII or non-`str` name). -/
def stepOf : V → Option C04.Step
  | .tuple [.str name, val] =>
    if name.all (· < 128) then
      let n := name.map PyU.lowCp
      if n = PyU.cps "append" then (argOf val).map fun a => .enc (.append a)
      else if n = PyU.cps "prepend" then (argOf val).map fun a => .enc (.prepend a)
      else if n = PyU.cps "base64" then some (.enc .base64)
      else if n = PyU.cps "base64url" then some (.enc .base64url)
      else if n = PyU.cps "netbios" then some (.enc .netbios)
      else if n = PyU.cps "netbiosu" then some (.enc .netbiosu)
      else if n = PyU.cps "mask" then some (.enc .mask)
      else if n = PyU.cps "print" then some (.term .print)
      else if n = PyU.cps "header" then (bytesOf val).map fun k => .term (.header k)
      else if n = PyU.cps "_header" then (bytesOf val).map fun k => .static (.header k)
      else if n = PyU.cps "_hostheader" then (bytesOf val).map fun k => .static (.hostheader k)
      else if n = PyU.cps "uri_append" then some (.term .uriAppend)
      else if n = PyU.cps "parameter" then (bytesOf val).map fun k => .term (.parameter k)
      else if n = PyU.cps "_parameter" then (bytesOf val).map fun k => .static (.parameter k)
      else if n = PyU.cps "build" then some (.build (fieldOf val))
      else if reprOk val then some .unknown
      else none
    else none
  | _ => none

/-- the steps of a list of tuples (`none` when one of them is outside the domain) -/
def stepsOf (vs : List V) : Option (List C04.Step) := vs.mapM stepOf

/-! ### constructor on Python values -/

/-- `HttpDataTransform(steps, reverse, build)` on the items of `steps`, whatever they are: the `tsteps` / `rsteps` lists -/
def mkLists (vs : List V) (reverse : Bool) (build : V) : List V × List V :=
  let p := if reverse then (vs.reverse, vs) else (vs, vs.reverse)
  if PyU.isNone build then p
  else (V.tuple [PyU.lit "BUILD", build] :: p.1, p.2 ++ [V.tuple [PyU.lit "BUILD", build]])

/-- an `HttpDataTransform` instance -/
def encT (tsteps rsteps : List V) : V := .inst Gen.PyC2T.HttpDataTransform [.list tsteps, .list rsteps]

/-- the `build` argument of the model's constructor: `None` ↦ no BUILD step -/
def buildOf (build : V) : Option (Option C04.Field) := if PyU.isNone build then none else some (fieldOf build)

/-! ### encodings -/

/-- a `Dict[bytes, bytes]` in insertion order -/
def encDict (d : C04.Dict) : V := .dict (d.map fun p => .bytes p.1) (d.map fun p => .bytes p.2)

/-- `HttpRequest(method, uri, params, headers, body)` -/
def encReq (r : C04.Req) : V :=
  .inst Gen.PyC2U.HttpRequest [.bytes r.method, .bytes r.uri, encDict r.params, encDict r.headers, .bytes r.body]

/-- the optional `request` argument of `transform` -/
def encOptReq : Option C04.Req → V
  | none => .none
  | some r => encReq r

/-- a message given to `recover`; of a response the model keeps headers and body only: `status`, `reason`, `request` are free -/
def encHttp (status reason request : V) : C04.Http → V
  | .request r => encReq r
  | .response h b => .inst Gen.PyC2U.HttpResponse [status, encDict h, reason, .bytes b, request]

def encOB : Option Bytes → V
  | none => .none
  | some b => .bytes b

/-- a `C2Data` / `ClientC2Data` / `ServerC2Data` tuple (fields `output, metadata, id`) -/
def encC2 (cls : PyU.Cls) (c : C04.C2Data) : V := .inst cls [encOB c.output, encOB c.metadata, encOB c.id]

/-- the class of the result of `recover` -/
def resultCls : C04.Http → PyU.Cls
  | .request _ => Gen.PyC2U.ClientC2Data
  | .response _ _ => Gen.PyC2U.ServerC2Data

def encExc : C04.Exc → PyU.ExcA
  | .py e => .py e
  | .assertion => .assertion

def encR {α : Type} (f : α → V) : C04.R α → PyU.PyA V
  | .ok a => .ok (f a)
  | .error e => .error (encExc e)

/-! ### the translated definitions with the external functions instantiated -/

def initG (steps reverse build : V) : Py V := Gen.PyC2T.http_data_transform_init steps reverse build

def transformG (rand : C04.Rand) (self c2data request : V) : PyU.PyA V :=
  Gen.PyC2T.transform b64encodeX urlsafeB64encodeX (getrandbitsX rand) self c2data request

def recoverG (self http : V) : PyU.PyA V := Gen.PyC2T.recover b64decodeX urlsafeB64decodeX self http

end C04Gen

import CsVerif.Model.C06
import CsVerif.Gen.PyC2M
/-!
C06 — glue between the hand-written model (`Model/C06.lean`) and the definitions translated from the source of `decrypt_metadata` /
`encrypt_metadata` (`Gen/PyC2M.lean`, untyped translator): the encoding of `C06.Metadata` as the Python object (an instance of the
cstruct class, one attribute per field), the two EXTERNAL functions of the translated definitions (`cipher.decrypt(ct, sentinel)`,
`cipher.encrypt(msg)` of pycryptodome's PKCS#1 v1.5 cipher object) instantiated with the `Crypto` record of the model, and the
encoding of the model's exceptions.  Used by the driver (`g-*` streams) and by `Props/C06Gen.lean`.
-/
namespace C06Gen
open PyU (V)
open C06 (Metadata Crypto Rand)

/-- a `BeaconMetadata` object: the attribute values in declaration order -/
def metaVals (m : Metadata) : List V :=
  [.int m.magic, .int m.size, .bytes m.aes_rand, .int m.ansi_cp, .int m.oem_cp, .int m.bid, .int m.pid, .int m.port, .int m.flag,
   .int m.ver_major, .int m.ver_minor, .int m.ver_build, .int m.ptr_x64, .int m.ptr_gmh, .int m.ptr_gpa, .int m.ip, .bytes m.info]

def encMeta (m : Metadata) : V := .inst Gen.PyC2M.BeaconMetadataCls (metaVals m)

/-- the attribute values of a `BeaconMetadata` object with non-negative integer fields (driver output, `g-*` streams) -/
def decMeta? : V → Option Metadata
  | .inst c [.int magic, .int size, .bytes aes, .int ansi, .int oem, .int bid, .int pid, .int port, .int flag, .int vmaj, .int vmin,
             .int vbld, .int x64, .int gmh, .int gpa, .int ip, .bytes info] =>
    if c.cid == Gen.PyC2M.BeaconMetadataCls.cid && [magic, size, ansi, oem, bid, pid, port, flag, vmaj, vmin, vbld, x64, gmh, gpa, ip].all (0 ≤ ·) then
      some { magic := magic.toNat, size := size.toNat, aes_rand := aes, ansi_cp := ansi.toNat, oem_cp := oem.toNat, bid := bid.toNat,
             pid := pid.toNat, port := port.toNat, flag := flag.toNat, ver_major := vmaj.toNat, ver_minor := vmin.toNat,
             ver_build := vbld.toNat, ptr_x64 := x64.toNat, ptr_gmh := gmh.toNat, ptr_gpa := gpa.toNat, ip := ip.toNat, info := info }
    else none
  | _ => none

/-- `cipher.decrypt(ct, sentinel)` of `PKCS1_v1_5.new(private_key)`: the model's `rsaDec` (the key is the `Crypto` record itself, so the
cipher object is not looked at); `.ok none` = the sentinel came back.  A ciphertext that is not `bytes` is not part of this instance
(TypeError; pycryptodome: `len()` of it, then ValueError / TypeError). -/
def decX (c : Crypto) (_cipher ct sentinel : V) : Py V :=
  match ct with
  | .bytes b =>
    match c.rsaDec b with
    | .error e => .error e
    | .ok none => .ok sentinel
    | .ok (some pt) => .ok (.bytes pt)
  | _ => .error .typeError

/-- `cipher.encrypt(msg)` of `PKCS1_v1_5.new(public_key)` with the padding bytes `r`: the model's `rsaEnc` -/
def encX (c : Crypto) (r : Rand) (_cipher msg : V) : Py V :=
  match msg with
  | .bytes b => (c.rsaEnc b r).map .bytes
  | _ => .error .typeError

def encExc : C06.Exc → PyU.T07Exc
  | .py e => .py e
  | .structError => .structError

def encPyS {α : Type} (f : α → V) : C06.PyS α → PyU.T07PyE V
  | .ok a => .ok (f a)
  | .error e => .error (encExc e)

/-- the translated `decrypt_metadata` with the external function instantiated -/
def decryptMetadataG (c : Crypto) (blob key : V) : Py V := Gen.PyC2M.decrypt_metadata (decX c) blob key

/-- the translated `encrypt_metadata` with the external function instantiated: `(blob, the caller's object afterwards)` -/
def encryptMetadataG (c : Crypto) (r : Rand) (m key : V) : PyU.T07PyE V := Gen.PyC2M.encrypt_metadata (encX c r) m key

/-- what `encrypt_metadata(m, key)` answers and does to the caller's object, in the terms of the model: the blob and `m` with `size`
made consistent -/
def encryptMetadataM (c : Crypto) (m : Metadata) (r : Rand) : C06.PyS (Bytes × Metadata) :=
  match C06.sized m with
  | .error e => .error e
  | .ok m' =>
    match C06.encryptMetadata c m r with
    | .error e => .error e
    | .ok blob => .ok (blob, m')

end C06Gen

import CsVerif.Model.Basic
import CsVerif.Gen.Beacon
/-
C03 — structured settings (dissect/cobaltstrike/beacon.py):
  parse_recover_binary, parse_transform_binary, parse_execute_list,
  parse_process_injection_transform_steps, parse_gargle, parse_pivot_frame, parse_beacon_gate,
  beacon_gate_options_string, sha256sum_pubkey, null_terminated_bytes/str, the SETTING_TO_PRETTYFUNC
  dispatch and the derived properties of BeaconConfig.

Conventions
  * every parser wraps its argument in `io.BytesIO` and only ever calls `p.read(n)` sequentially, so the
    cursor is the *remaining* byte list: `p.read(n)` returns `s.take n` and leaves `s.drop n`
    (short at EOF, never raises); `p.read(n)` for `n < 0` returns everything (`rdInt`).
    `Lemmas/C03.lean: rd_refines_pyfile` links this to the shared `PyFile.read`.
  * opcode numbers and names come from the generated tables `Gen.Beacon.*` (introspected from the
    imported package on every run); `X.name` of a cstruct-4.7 enum built from an undefined value is `None`.
  * Python `str` produced by `bytes.decode("latin-1")` is modelled as `Bytes`; `bytes.decode()` (UTF-8,
    strict) is modelled by `utf8Decode` to code points; ASCII-only texts are Lean `String`s.
-/
namespace C03
open Gen.Beacon
set_option linter.unusedVariables false  -- `h` of `if h : …` is used by `decreasing_by`

/-! ### integers: `int.from_bytes` through `utils.u16be/u32be/u32` (`data[:size]`, unsigned) -/

def beNat : Bytes → Nat → Nat
  | [], acc => acc
  | b :: bs, acc => beNat bs (acc * 256 + b.toNat)

def leNat : Bytes → Nat
  | [] => 0
  | b :: bs => b.toNat + 256 * leNat bs

def u16be (d : Bytes) : Nat := beNat (d.take 2) 0
def u32be (d : Bytes) : Nat := beNat (d.take 4) 0
/-- `utils.u32`: little endian -/
def u32le (d : Bytes) : Nat := leNat (d.take 4)

/-- `p.read(n)` with a Python int argument: negative means "to EOF". Returns (data, remaining). -/
def rdInt (n : Int) (s : Bytes) : Bytes × Bytes :=
  if n < 0 then (s, []) else (s.take n.toNat, s.drop n.toNat)

/-! ### cstruct enums -/

/-- `Enum(v).name` (`None` for an undefined value). -/
def enumName (tbl : List (Nat × String)) (v : Nat) : Option String :=
  (tbl.find? (·.1 == v)).map (·.2)

/-- value of the member called `n` (`Enum.n`); `none` if there is no such member. -/
def enumVal (tbl : List (Nat × String)) (n : String) : Option Nat :=
  (tbl.find? (·.2 == n)).map (·.1)

/-- `TransformStep.<n>` -/
def tsv (n : String) : Option Nat := enumVal transformStep n

/-! ### parse_transform_binary -/

inductive TVal
  | str (s : String)      -- BUILD argument
  | flag                  -- `True`
  | bytes (b : Bytes)     -- argument bytes
  deriving DecidableEq, Repr

abbrev TOut := Option String × TVal

def enableVals : List (Option Nat) :=
  ["BASE64", "BASE64URL", "NETBIOS", "NETBIOSU", "URI_APPEND", "PRINT", "MASK"].map tsv

def argVals : List (Option Nat) :=
  ["_HEADER", "HEADER", "PARAMETER", "_PARAMETER", "_HOSTHEADER", "APPEND", "PREPEND"].map tsv

/-- `BUILD_MAP.get(btype, "UNKNOWN BUILD ARG")` with `BUILD_MAP = {0: build, 1: "output"}` -/
def buildMap (build : String) (btype : Nat) : String :=
  if btype = 0 then build else if btype = 1 then "output" else "UNKNOWN BUILD ARG"

def parseTransform (build : String) (s : Bytes) : List TOut :=
  let d := s.take 4                       -- d = p.read(4)
  let s1 := s.drop 4
  let value := u32be d
  if h : d.length ≠ 4 ∨ value = 0 then []
  else
    let name := enumName transformStep value     -- TransformStep(value).name; `step is None` never holds
    if some value == tsv "BUILD" then
      let btype := u32be (s1.take 4)
      (name, .str (buildMap build btype)) :: parseTransform build (s1.drop 4)
    else if enableVals.contains (some value) then
      (name, .flag) :: parseTransform build s1
    else if argVals.contains (some value) then
      let length := u32be (s1.take 4)
      let s2 := s1.drop 4
      (name, .bytes (s2.take length)) :: parseTransform build (s2.drop length)
    else parseTransform build s1            -- defined-but-unused (STRREP) and undefined opcodes: nothing appended
termination_by s.length
decreasing_by
  all_goals
    simp only [List.length_drop]
    have : (List.take 4 s).length = 4 := by
      false_or_by_contra; rename_i hh; exact h (Or.inl hh)
    simp only [List.length_take] at this
    omega

/-! ### parse_recover_binary -/

inductive RVal
  | len (n : Nat)
  | flag
  deriving DecidableEq, Repr

def parseRecover (s : Bytes) : List (String × RVal) :=
  let d := s.take 4
  if h : d = [] then []
  else
    let s1 := s.drop 4
    let step := some (u32be d)
    if step == tsv "APPEND" then ("append", .len (u32be (s1.take 4))) :: parseRecover (s1.drop 4)
    else if step == tsv "PREPEND" then ("prepend", .len (u32be (s1.take 4))) :: parseRecover (s1.drop 4)
    else if step == tsv "BASE64" then ("base64", .flag) :: parseRecover s1
    else if step == tsv "PRINT" then ("print", .flag) :: parseRecover s1
    else if step == tsv "NETBIOS" then ("netbios", .flag) :: parseRecover s1
    else if step == tsv "NETBIOSU" then ("netbiosu", .flag) :: parseRecover s1
    else if step == tsv "BASE64URL" then ("base64url", .flag) :: parseRecover s1
    else if step == tsv "MASK" then ("mask", .flag) :: parseRecover s1
    else if u32be d = 0 then []
    else parseRecover s1                    -- logger.error("Unknown recover step"), continue
termination_by s.length
decreasing_by
  all_goals
    simp only [List.length_drop]
    have : s ≠ [] := by
      intro hs; subst hs; exact h rfl
    have := List.length_pos_iff.mpr this
    omega

/-! ### parse_execute_list -/

/-- `bytes.rstrip(b"\x00")` -/
def rstripNul (b : Bytes) : Bytes := (b.reverse.dropWhile (· == 0)).reverse

def isCont (b : UInt8) : Bool := 0x80 ≤ b && b ≤ 0xBF

/-- `bytes.decode()` = strict UTF-8 (no overlong forms, no surrogates, ≤ U+10FFFF); any defect raises
UnicodeDecodeError, a ValueError. -/
def utf8Decode (s : Bytes) : Py (List Nat) :=
  match s with
  | [] => .ok []
  | b0 :: rest =>
    if b0 < 0x80 then (utf8Decode rest).map (b0.toNat :: ·)
    else if 0xC2 ≤ b0 ∧ b0 ≤ 0xDF then
      match rest with
      | b1 :: r =>
        if isCont b1 then (utf8Decode r).map (((b0.toNat - 0xC0) * 64 + (b1.toNat - 0x80)) :: ·)
        else .error .valueError
      | _ => .error .valueError
    else if 0xE0 ≤ b0 ∧ b0 ≤ 0xEF then
      match rest with
      | b1 :: b2 :: r =>
        if isCont b1 ∧ isCont b2 ∧ (b0 = 0xE0 → 0xA0 ≤ b1) ∧ (b0 = 0xED → b1 ≤ 0x9F) then
          (utf8Decode r).map (((b0.toNat - 0xE0) * 4096 + (b1.toNat - 0x80) * 64 + (b2.toNat - 0x80)) :: ·)
        else .error .valueError
      | _ => .error .valueError
    else if 0xF0 ≤ b0 ∧ b0 ≤ 0xF4 then
      match rest with
      | b1 :: b2 :: b3 :: r =>
        if isCont b1 ∧ isCont b2 ∧ isCont b3 ∧ (b0 = 0xF0 → 0x90 ≤ b1) ∧ (b0 = 0xF4 → b1 ≤ 0x8F) then
          (utf8Decode r).map (((b0.toNat - 0xF0) * 262144 + (b1.toNat - 0x80) * 4096
            + (b2.toNat - 0x80) * 64 + (b3.toNat - 0x80)) :: ·)
        else .error .valueError
      | _ => .error .valueError
    else .error .valueError
termination_by s.length

/-- code points of an (ASCII) table string -/
def strCps (s : String) : List Nat := s.toList.map Char.toNat

/-- `str.rstrip("_")` on code points -/
def rstripUnderscore (s : List Nat) : List Nat := (s.reverse.dropWhile (· == 95)).reverse

/-- `"{:x}".format(n)` -/
def hexStr (n : Nat) : String := String.ofList (Nat.toDigits 16 n)

/-- `InjectExecutor.<n>` -/
def iev (n : String) : Option Nat := enumVal injectExecutor n

/-- An entry of the returned list is a `str`, or `None` for an undefined opcode (`inject.name`). -/
def parseExecute (s : Bytes) : Py (List (Option (List Nat))) :=
  match s with
  | [] => .ok []                                            -- `not d`
  | b :: s1 =>
    if b = 0 then .ok []                                    -- d == b"\x00"
    else
      let v := b.toNat                                      -- InjectExecutor(d) reads one uint8 from the bytes
      let name := enumName injectExecutor v
      if some v == iev "CreateThread_" || some v == iev "CreateRemoteThread_" then
        let s4 := u16be (s1.take 2)
        let t1 := s1.drop 2
        let l1 := u32be (t1.take 4)
        let t2 := t1.drop 4
        let m := rstripNul (t2.take l1)
        let t3 := t2.drop l1
        let l2 := u32be (t3.take 4)
        let t4 := t3.drop 4
        let f := rstripNul (t4.take l2)
        let t5 := t4.drop l2
        match utf8Decode m with
        | .error e => .error e
        | .ok ms =>
          match utf8Decode f with
          | .error e => .error e
          | .ok fs =>
            let str := ms ++ [33] ++ fs ++ (if s4 ≠ 0 then strCps ("+0x" ++ hexStr s4) else [])
            match name with
            | none => .error .attributeError                -- None.rstrip
            | some n =>
              match parseExecute t5 with
              | .error e => .error e
              | .ok rest => .ok (some (rstripUnderscore (strCps n) ++ [32, 34] ++ str ++ [34]) :: rest)
      else
        match parseExecute s1 with
        | .error e => .error e
        | .ok rest => .ok (name.map strCps :: rest)
termination_by s.length
decreasing_by
  all_goals simp only [List.length_drop, List.length_cons]; omega

/-! ### parse_process_injection_transform_steps -/

def parseInjTransform (s : Bytes) : List (String × Bytes) :=
  let d := s.take 4
  let s1 := s.drop 4
  let first : List (String × Bytes) := if d ≠ [] then [("append", s1.take (u32be d))] else []
  let s2 := if d ≠ [] then s1.drop (u32be d) else s1
  let d2 := s2.take 4
  let s3 := s2.drop 4
  first ++ (if d2 ≠ [] then [("prepend", s3.take (u32be d2))] else [])

/-! ### parse_gargle -/

def parseGarglePairs (s : Bytes) : List (Nat × Nat) :=
  let d := s.take 4
  if h : d = [] then []
  else
    let s1 := s.drop 4
    let start := u32le d
    let stop := u32le (s1.take 4)
    if (start, stop) ≠ (0, 0) then (start, stop) :: parseGarglePairs (s1.drop 4)
    else parseGarglePairs (s1.drop 4)
termination_by s.length
decreasing_by
  all_goals
    simp only [List.length_drop]
    have : s ≠ [] := by
      intro hs; subst hs; exact h rfl
    have := List.length_pos_iff.mpr this
    omega

/-- `f"0x{start:x}-0x{end:x}"` -/
def fmtRange (p : Nat × Nat) : String := "0x" ++ hexStr p.1 ++ "-0x" ++ hexStr p.2

def parseGargle (s : Bytes) : List String := (parseGarglePairs s).map fmtRange

/-! ### parse_pivot_frame -/

def parsePivot (s : Bytes) : Bytes :=
  let length : Int := u16be (s.take 2)
  (rdInt (length - 4) (s.drop 2)).1

/-! ### parse_beacon_gate / beacon_gate_options_string -/

/-- `BeaconGateOptions(data)`: one uint8 per field, EOFError on short data, trailing bytes ignored. -/
def parseBeaconGate (data : Bytes) : Py (List UInt8) :=
  if data.length < beaconGateFields.length then .error .eofError
  else .ok (data.take beaconGateFields.length)

def gateComms : List String := ["InternetOpenA", "InternetConnectA"]
def gateCore : List String := [
  "VirtualAlloc", "VirtualAllocEx", "VirtualProtect", "VirtualProtectEx", "VirtualFree",
  "GetThreadContext", "SetThreadContext", "ResumeThread", "CreateThread", "CreateRemoteThread",
  "OpenProcess", "OpenThread", "CloseHandle", "CreateFileMappingA", "MapViewOfFile", "UnmapViewOfFile",
  "VirtualQuery", "DuplicateHandle", "ReadProcessMemory", "WriteProcessMemory"]
def gateCleanup : List String := ["ExitThread"]
def gateAll : List String := gateComms ++ gateCore ++ gateCleanup

/-- `set.issuperset` -/
def isSuperset (opts s : List String) : Bool := s.all (opts.contains ·)
/-- `options -= s` -/
def setMinus (opts s : List String) : List String := opts.filter (fun x => !s.contains x)

/-- `{name for name in names if getattr(bgo, name)}` as a duplicate-free list in field order. -/
def gateOptions (flags : List UInt8) : List String :=
  (((beaconGateFields.zip flags).filter (fun p => p.2 ≠ 0)).map (·.1)).eraseDups

/-- one `if options.issuperset(g): ret.append(label); options -= g` statement -/
def gateStep (label : String) (g : List String) (st : List String × List String) : List String × List String :=
  if isSuperset st.2 g then (st.1 ++ [label], setMinus st.2 g) else st

/-- Returns (group labels in order, the remaining option *set*; Python appends it in set iteration order). -/
def gateString (options : List String) : List String × List String :=
  gateStep "Cleanup" gateCleanup
    (gateStep "Core" gateCore
      (gateStep "Comms" gateComms
        (gateStep "All" gateAll ([], options))))

def beaconGatePretty (data : Bytes) : Py (List String × List String) :=
  (parseBeaconGate data).map fun flags => gateString (gateOptions flags)

/-! ### strings, digest, address, allocator -/

/-- `data.partition(b"\x00")[0]` -/
def nullTerminatedBytes (data : Bytes) : Bytes := data.takeWhile (· ≠ 0)

/-- `.decode("latin-1", "ignore")`: every byte is a code point < 256, nothing is ever ignored. -/
def nullTerminatedStr (data : Bytes) : Bytes := nullTerminatedBytes data

/-- `hashlib.sha256(der.rstrip(b"\x00")).hexdigest()`; SHA-256 is a parameter. -/
def sha256sumPubkey (sha : Bytes → Bytes) (der : Bytes) : String := Hex.encode (sha (rstripNul der))

def dottedQuad (x : Nat) : String :=
  s!"{x / 16777216 % 256}.{x / 65536 % 256}.{x / 256 % 256}.{x % 256}"

/-- `str(ipaddress.IPv4Address(x))` for an int (AddressValueError ⊂ ValueError for x ≥ 2^32) -/
def dnsIdle (x : Nat) : Py String :=
  if x < 4294967296 then .ok (dottedQuad x) else .error .valueError

/-- `BofAllocator(x).name` -/
def bofAllocatorName (x : Nat) : Option String := enumName bofAllocator x

/-! ### BeaconProtocol(x).name — Python `enum.Flag` naming as used by cstruct 4.7

members with a non-zero value in ascending order that are contained in `x`, joined by `|`, followed by the
undefined residue as a decimal; `None` when no defined bit is set (and `x` is not itself a member, e.g. 0). -/

def flagName (tbl : List (Nat × String)) (x : Nat) : Option String :=
  match tbl.find? (·.1 == x) with
  | some m => some m.2
  | none =>
    let hits := tbl.filter (fun m => m.1 ≠ 0 && (x &&& m.1) == m.1)
    let mask := (tbl.map (·.1)).foldl (· ||| ·) 0
    let unknown := x - (x &&& mask)
    if hits.isEmpty then none
    else some ("|".intercalate (hits.map (·.2) ++ (if unknown ≠ 0 then [toString unknown] else [])))

def protocolName (x : Nat) : Option String := flagName beaconProtocol x

/-! ### configuration level: dict views, SETTING_TO_PRETTYFUNC dispatch, derived properties

A configuration is the tuple of settings that `iter_settings` produced (that parser is C02's subject). -/

structure RawSetting where
  index : Nat
  type : Nat
  value : Bytes
  deriving DecidableEq, Repr

inductive SVal
  | int (n : Nat)
  | bytes (b : Bytes)
  deriving DecidableEq, Repr

/-- `settings_map(parse=True)`: TYPE_SHORT → u16be, TYPE_INT → u32be, otherwise the raw bytes -/
def parseVal (s : RawSetting) : SVal :=
  if s.type = typeShort then .int (u16be s.value)
  else if s.type = typeInt then .int (u32be s.value)
  else .bytes s.value

/-- key of the name-indexed views (`setting.index.name or str(index).replace(".", "_")`), including the
TYPE_SHORT renaming of index 36 done by `iter_settings`. -/
def settingKey (s : RawSetting) : String :=
  if s.index = settingWatermarkHash ∧ s.type = typeShort then
    (enumName deprecatedNames deprecatedInjectOptions).getD (unknownPrefix ++ toString s.index)
  else (enumName settingNames s.index).getD (unknownPrefix ++ toString s.index)

/-- `d.get(name)` on the dict built by inserting the settings in order (the last value wins). -/
def dictGet (kvs : List (String × α)) (name : String) : Option α :=
  (kvs.reverse.find? (·.1 == name)).map (·.2)

def rawGet (cfg : List RawSetting) (name : String) : Option SVal :=
  dictGet (cfg.map fun s => (settingKey s, parseVal s)) name

/-- Pretty values. -/
inductive PVal
  | int (n : Nat)
  | bytes (b : Bytes)
  | lstr (b : Bytes)                 -- str from latin-1
  | text (s : String)                -- ASCII str (hex digest, dotted quad, …)
  | optText (s : Option String)      -- enum `.name`
  | recover (l : List (String × RVal))
  | transform (l : List TOut)
  | execute (l : List (Option (List Nat)))
  | injTransform (l : List (String × Bytes))
  | gargle (l : List String)
  | gate (g : List String × List String)
  deriving DecidableEq, Repr

/-- The functions of SETTING_TO_PRETTYFUNC. -/
inductive PrettyFn
  | hex | recover | transformMeta | transformId | execute | injTransform | gargle | pivot | nullStr
  | pubkey | dnsIdle | watermarkHash | bofAllocator | beaconGate
  deriving DecidableEq, Repr

/-- SETTING_TO_PRETTYFUNC in dict order, by setting value (key set obligation: `Props.prettyTable_keys`). -/
def prettyTable : List (Nat × PrettyFn) := [
  (53, .hex), (14, .hex), (11, .recover), (12, .transformMeta), (13, .transformId), (51, .execute),
  (46, .injTransform), (47, .injTransform), (42, .gargle), (58, .pivot), (57, .pivot),
  (8, .nullStr), (54, .nullStr), (26, .nullStr), (27, .nullStr), (15, .nullStr), (29, .nullStr),
  (30, .nullStr), (9, .nullStr), (10, .nullStr), (7, .pubkey), (60, .nullStr), (61, .nullStr),
  (62, .nullStr), (63, .nullStr), (64, .nullStr), (65, .nullStr), (66, .nullStr), (19, .dnsIdle),
  (36, .watermarkHash), (74, .hex), (16, .bofAllocator), (78, .beaconGate)]

/-- Apply one pretty function. `none` = argument type outside the modelled domain (the real code raises
TypeError/AttributeError/EOFError there depending on the function; generators stay inside the domain). -/
def applyPretty (sha : Bytes → Bytes) : PrettyFn → SVal → Option (Py PVal)
  | .hex, .bytes b => some (.ok (.text (Hex.encode b)))
  | .recover, .bytes b => some (.ok (.recover (parseRecover b)))
  | .transformMeta, .bytes b => some (.ok (.transform (parseTransform "metadata" b)))
  | .transformId, .bytes b => some (.ok (.transform (parseTransform "id" b)))
  | .execute, .bytes b => some ((parseExecute b).map .execute)
  | .injTransform, .bytes b => some (.ok (.injTransform (parseInjTransform b)))
  | .gargle, .bytes b => some (.ok (.gargle (parseGargle b)))
  | .pivot, .bytes b => some (.ok (.bytes (parsePivot b)))
  | .nullStr, .bytes b => some (.ok (.lstr (nullTerminatedStr b)))
  | .pubkey, .bytes b => some (.ok (.text (sha256sumPubkey sha b)))
  | .dnsIdle, .int n => some ((dnsIdle n).map .text)
  | .watermarkHash, .bytes b => some (.ok (.bytes (nullTerminatedBytes b)))
  | .watermarkHash, .int n => some (.ok (.int n))
  | .bofAllocator, .int n => some (.ok (.optText (bofAllocatorName n)))
  | .beaconGate, .bytes b => some ((beaconGatePretty b).map .gate)
  | _, _ => none

def plainVal : SVal → PVal
  | .int n => .int n
  | .bytes b => .bytes b

/-- value of one setting in the `pretty=True` views. The lookup `SETTING_TO_PRETTYFUNC.get(setting.index)`
finds nothing for the renamed DeprecatedBeaconSetting index (translator-checked). -/
def prettyVal (sha : Bytes → Bytes) (s : RawSetting) : Option (Py PVal) :=
  if s.index = settingWatermarkHash ∧ s.type = typeShort then some (.ok (plainVal (parseVal s)))
  else
    match prettyTable.find? (·.1 == s.index) with
    | some (_, f) => applyPretty sha f (parseVal s)
    | none => some (.ok (plainVal (parseVal s)))

/-- `self.settings` (name-indexed, pretty): the first failing pretty function aborts the whole view. -/
def settingsView (sha : Bytes → Bytes) : List RawSetting → Option (Py (List (String × PVal)))
  | [] => some (.ok [])
  | s :: rest =>
    match prettyVal sha s with
    | none => none
    | some (.error e) => some (.error e)
    | some (.ok v) =>
      match settingsView sha rest with
      | none => none
      | some (.error e) => some (.error e)
      | some (.ok kvs) => some (.ok ((settingKey s, v) :: kvs))

/-- `str.split(",")` on latin-1 text -/
def splitComma : Bytes → List Bytes
  | [] => [[]]
  | b :: bs =>
    if b = 44 then [] :: splitComma bs
    else
      match splitComma bs with
      | [] => [[b]]            -- unreachable (splitComma never returns [])
      | w :: ws => (b :: w) :: ws

/-- `grouper(xs, 2)` (zip_longest with fill value None) -/
def grouper2 : List α → List (α × Option α)
  | [] => []
  | [a] => [(a, none)]
  | a :: b :: rest => (a, some b) :: grouper2 rest

/-- `list(dict.fromkeys(xs))` -/
def dedup [BEq α] : List α → List α
  | [] => []
  | a :: rest => a :: (dedup rest).filter (fun x => !(x == a))

/-- `domain_uri_pairs` -/
def domainUriPairs (cfg : List RawSetting) : List (Bytes × Option Bytes) :=
  match rawGet cfg "SETTING_DOMAINS" with
  | some (.bytes d) => grouper2 (splitComma (nullTerminatedStr d))
  | _ => []                                              -- `not isinstance(domains, bytes)`

def uris (cfg : List RawSetting) : List (Option Bytes) := dedup ((domainUriPairs cfg).map (·.2))
def domains (cfg : List RawSetting) : List Bytes := dedup ((domainUriPairs cfg).map (·.1))

/-- `f"{n:02d}"` -/
def fmt02 (n : Nat) : String := if n < 10 then "0" ++ toString n else toString n

/-- `int(s)` for a string of decimal digits: the empty string raises ValueError -/
def intOfDigits (cs : List Char) : Py Nat :=
  if cs.isEmpty then .error .valueError else .ok (cs.foldl (fun a c => a * 10 + (c.toNat - 48)) 0)

/-- truthiness of a pretty value as used by `if killdate:` / `year and month and day` -/
def PVal.truthy : PVal → Bool
  | .int n => n ≠ 0
  | .bytes b => !b.isEmpty
  | .lstr b => !b.isEmpty
  | .text s => !s.isEmpty
  | .optText s => match s with | some t => !t.isEmpty | none => false
  | _ => true

/-- `killdate` over the pretty view; `none` = outside the modelled domain (non-int kill date values). -/
def killdateOf (view : List (String × PVal)) : Option (Py (Option String)) :=
  match (dictGet view "SETTING_KILLDATE").getD (.int 0) with
  | .int kd =>
    if kd ≠ 0 then
      let ds := (toString kd).toList
      some (
        match intOfDigits (ds.take 4) with
        | .error e => .error e
        | .ok year =>
          match intOfDigits ((ds.drop 4).take 2) with
          | .error e => .error e
          | .ok month =>
            match intOfDigits ((ds.drop 6).take 2) with
            | .error e => .error e
            | .ok day => .ok (some (fmt02 year ++ "-" ++ fmt02 month ++ "-" ++ fmt02 day)))
    else
      let year := (dictGet view "SETTING_KILLDATE_YEAR").getD (.int 0)
      let month := (dictGet view "SETTING_KILLDATE_MONTH").getD (.int 0)
      let day := (dictGet view "SETTING_KILLDATE_DAY").getD (.int 0)
      if year.truthy && month.truthy && day.truthy then
        match year, month, day with
        | .int y, .int m, .int d => some (.ok (some (fmt02 y ++ "-" ++ fmt02 m ++ "-" ++ fmt02 d)))
        | _, _, _ => none
      else some (.ok none)
  | _ => none

def killdate (sha : Bytes → Bytes) (cfg : List RawSetting) : Option (Py (Option String)) :=
  match settingsView sha cfg with
  | none => none
  | some (.error e) => some (.error e)
  | some (.ok view) => killdateOf view

/-- `protocol`: `none` = not an int (outside the modelled domain) -/
def protocol (cfg : List RawSetting) : Option (Option String) :=
  match rawGet cfg "SETTING_PROTOCOL" with
  | none => some none
  | some (.int x) => some (protocolName x)
  | some (.bytes _) => none

def port (cfg : List RawSetting) : Option SVal := rawGet cfg "SETTING_PORT"
def watermark (cfg : List RawSetting) : Option SVal := rawGet cfg "SETTING_WATERMARK"

/-- `raw == CryptoScheme.CRYPTO_TRIAL_PRODUCT` (an int compares by value; bytes/None are unequal) -/
def isTrial (cfg : List RawSetting) : Bool :=
  match rawGet cfg "SETTING_CRYPTO_SCHEME" with
  | some (.int x) => some x == enumVal cryptoScheme "CRYPTO_TRIAL_PRODUCT"
  | _ => false

/-- `public_key`; `none` = not bytes (AttributeError in the real code, outside the modelled domain) -/
def publicKey (cfg : List RawSetting) : Option Bytes :=
  match rawGet cfg "SETTING_PUBKEY" with
  | none => some []
  | some (.bytes b) => some (rstripNul b)
  | some (.int _) => none

end C03

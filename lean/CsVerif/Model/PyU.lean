import CsVerif.Model.Basic
import CsVerif.Model.PyRt
/-
PyU — the run-time library of the UNTYPED Python→Lean translator (`tools/py2leanu.py`).

`tools/py2leanu.py` turns the *source text* of dynamically typed functions of /repo (heterogeneous tuples, cstruct
enums, `io.BytesIO` cursors, `while True:` loops, `dict.get`, `str.format`, `bytes.rstrip/partition/decode`) into Lean
definitions over ONE universal value type `PyU.V`.  The generated definitions mention nothing but the operations below,
so this file is the complete statement of the Python semantics the untyped translation relies on (trusted; every
operation is exercised against CPython 3.12 / dissect.cstruct 4.7 on random operands of all kinds by the `pyu`
correspondence stream of C03, and the generated functions are run against the real functions on every case of the
`g-*` streams of C03).

Conventions
  * every operation is a total function; the raising branches of CPython 3.12 / dissect.cstruct 4.7 are explicit
    (`None.rstrip` → AttributeError, `len(5)` → TypeError, `b"".partition(b"")` → ValueError, …).
  * "int-like" = `bool`, `int` and cstruct enum members (an `IntEnum`): they take part in arithmetic, comparisons,
    indexing and `p.read(n)` through their integer value (`asInt`).
  * kinds of operands an operation does not model (stated in its doc comment, e.g. `format(b"..", "")` = `repr`, comparing
    lists with `<`, `Enum("12")`) answer `TypeError`; the `gen_*` theorems of Props/C03Gen.lean show that the translated
    functions never reach such a branch for `bytes` arguments, the `g-*` streams compare every answer with CPython, and
    the `pyu` stream (tools/harness/c03.py: `pyu_modelled`) leaves exactly these operand kinds out.
  * mutable objects (`list`, `io.BytesIO`) are VALUES here; the translator threads them through the program explicitly
    (`p.read(4)` returns the data and the new cursor) and rejects every program in which such an object could be aliased.
  * loops: `whileFuel` runs the loop body at most `fuel` times (`Timeout` when the fuel runs out); the equivalence
    theorems hold for every fuel above an explicit bound in the input length.
No imports besides `Basic` and `PyRt` (must link into the compiled drivers).
-/
namespace PyU
open PyRt (Str)

/-! ### values -/

/-- a cstruct enum class: identity, the underlying (unsigned) integer type and `Cls(v).name` for the defined values -/
structure EnumCls where
  cid : Nat
  size : Nat
  bigEndian : Bool
  members : List (Nat × String)
  deriving DecidableEq, Repr

/-- a class whose instances carry named fields: a `typing.NamedTuple` class (`isTuple`: the instances are tuples of the
field values) or a plain class whose instances have exactly the attributes `fields`; `bases`: the `cid`s of the registered
proper base classes (for `isinstance`) -/
structure Cls where
  cid : Nat
  fields : List String
  isTuple : Bool
  bases : List Nat
  deriving DecidableEq, Repr

/-- the universal value.  `dict ks vs`: keys and values in insertion order (same length, keys pairwise different);
`bytesIO data pos`: an `io.BytesIO` object; `enum cls v`: the member (or pseudo-member for an undefined value) `cls(v)`;
`inst cls vals`: an instance of a class with named fields, `vals` in the order of `cls.fields` -/
inductive V
  | none
  | bool (b : Bool)
  | int (n : Int)
  | bytes (b : Bytes)
  | str (s : Str)
  | list (xs : List V)
  | tuple (xs : List V)
  | dict (ks : List V) (vs : List V)
  | bytesIO (data : Bytes) (pos : Nat)
  | enum (cls : EnumCls) (value : Int)
  | inst (cls : Cls) (vals : List V)
  deriving Repr

/-! structural equality of values (`DecidableEq V`; Lean cannot derive it for a nested inductive type) -/
mutual
def V.beq : V → V → Bool
  | .none, .none => true
  | .bool a, .bool b => a == b
  | .int a, .int b => a == b
  | .bytes a, .bytes b => a == b
  | .str a, .str b => a == b
  | .list a, .list b => V.beqL a b
  | .tuple a, .tuple b => V.beqL a b
  | .dict a c, .dict b d => V.beqL a b && V.beqL c d
  | .bytesIO a c, .bytesIO b d => a == b && c == d
  | .enum a c, .enum b d => a == b && c == d
  | .inst a c, .inst b d => a == b && V.beqL c d
  | _, _ => false
termination_by structural x => x
def V.beqL : List V → List V → Bool
  | [], [] => true
  | a :: as, b :: bs => V.beq a b && V.beqL as bs
  | _, _ => false
termination_by structural x => x
end

mutual
theorem V.eq_of_beq : ∀ (a b : V), V.beq a b = true → a = b
  | .none, b, h => by cases b <;> simp_all [V.beq]
  | .bool _, b, h => by cases b <;> simp_all [V.beq]
  | .int _, b, h => by cases b <;> simp_all [V.beq]
  | .bytes _, b, h => by cases b <;> simp_all [V.beq]
  | .str _, b, h => by cases b <;> simp_all [V.beq]
  | .list xs, b, h => by
    cases b <;> simp only [V.beq, Bool.false_eq_true] at h
    rw [V.eq_of_beqL xs _ h]
  | .tuple xs, b, h => by
    cases b <;> simp only [V.beq, Bool.false_eq_true] at h
    rw [V.eq_of_beqL xs _ h]
  | .dict ks vs, b, h => by
    cases b <;> simp only [V.beq, Bool.false_eq_true, Bool.and_eq_true] at h
    rw [V.eq_of_beqL ks _ h.1, V.eq_of_beqL vs _ h.2]
  | .bytesIO _ _, b, h => by cases b <;> simp_all [V.beq]
  | .enum _ _, b, h => by cases b <;> simp_all [V.beq]
  | .inst c xs, b, h => by
    cases b <;> simp only [V.beq, Bool.false_eq_true, Bool.and_eq_true, beq_iff_eq] at h
    rw [h.1, V.eq_of_beqL xs _ h.2]
termination_by structural x => x
theorem V.eq_of_beqL : ∀ (a b : List V), V.beqL a b = true → a = b
  | [], b, h => by cases b <;> simp_all [V.beqL]
  | x :: xs, b, h => by
    cases b with
    | nil => simp [V.beqL] at h
    | cons y ys =>
      simp only [V.beqL, Bool.and_eq_true] at h
      rw [V.eq_of_beq x y h.1, V.eq_of_beqL xs ys h.2]
termination_by structural x => x
end

mutual
theorem V.beq_self : ∀ (a : V), V.beq a a = true
  | .none => by simp [V.beq]
  | .bool _ => by simp [V.beq]
  | .int _ => by simp [V.beq]
  | .bytes _ => by simp [V.beq]
  | .str _ => by simp [V.beq]
  | .list xs => by simp only [V.beq]; exact V.beqL_self xs
  | .tuple xs => by simp only [V.beq]; exact V.beqL_self xs
  | .dict ks vs => by simp only [V.beq, Bool.and_eq_true]; exact ⟨V.beqL_self ks, V.beqL_self vs⟩
  | .bytesIO _ _ => by simp [V.beq]
  | .enum _ _ => by simp [V.beq]
  | .inst _ xs => by simp only [V.beq, Bool.and_eq_true, beq_self_eq_true, true_and]; exact V.beqL_self xs
termination_by structural x => x
theorem V.beqL_self : ∀ (a : List V), V.beqL a a = true
  | [] => by simp [V.beqL]
  | x :: xs => by simp only [V.beqL, Bool.and_eq_true]; exact ⟨V.beq_self x, V.beqL_self xs⟩
termination_by structural x => x
end

instance : DecidableEq V := fun a b =>
  if h : V.beq a b = true then isTrue (V.eq_of_beq a b h)
  else isFalse (fun e => h (e ▸ V.beq_self a))

/-- code points of an ASCII literal of the source -/
def cps (x : String) : Str := x.toList.map Char.toNat

/-- a `str` literal -/
def lit (x : String) : V := .str (cps x)

/-- the integer value of an int-like object (`bool`, `int`, cstruct enum member) -/
def asInt : V → Option Int
  | .bool b => some (if b then 1 else 0)
  | .int n => some n
  | .enum _ v => some v
  | _ => none

/-- the value of the field `a` of an instance (`fields` and `vals` side by side) -/
def lookupField (a : String) : List String → List V → Option V
  | f :: fs, v :: vs => if f == a then some v else lookupField a fs vs
  | _, _ => none

/-- the values with the field `a` replaced (`none`: no such field) -/
def setField (a : String) (x : V) : List String → List V → Option (List V)
  | f :: fs, v :: vs => if f == a then some (x :: vs) else (setField a x fs vs).map (v :: ·)
  | _, _ => none

/-! ### truth value, `==`, `is None`, ordering -/

/-- `bool(x)` -/
def truthy : V → Bool
  | .none => false
  | .bool b => b
  | .int n => n != 0
  | .bytes b => !b.isEmpty
  | .str s => !s.isEmpty
  | .list xs => !xs.isEmpty
  | .tuple xs => !xs.isEmpty
  | .dict ks _ => !ks.isEmpty
  | .bytesIO _ _ => true
  | .enum _ v => v != 0
  | .inst c vs => !c.isTuple || !vs.isEmpty

/-- `x is None` -/
def isNone : V → Bool
  | .none => true
  | _ => false

mutual
/-- `a == b`: int-like objects compare by value, except that members of two *different* cstruct enum classes are never
equal (`Enum.__eq__` of dissect.cstruct); sequences element-wise; two `BytesIO` objects are compared by state (the
translator never lets one object have two names, so this only ever compares an object with itself).
A NamedTuple instance is a tuple: it is compared element-wise with tuples and with NamedTuple instances of any class.
Not modelled exactly: two dicts are equal here when they have equal items in the same insertion order (CPython ignores
the order); two instances of a plain class are compared by state (CPython: by identity). -/
def eq : V → V → Bool
  | .none, .none => true
  | .bool a, .bool b => a == b
  | .bool a, .int b => (if a then 1 else 0) == b
  | .bool a, .enum _ b => (if a then 1 else 0) == b
  | .int a, .bool b => a == (if b then 1 else 0)
  | .int a, .int b => a == b
  | .int a, .enum _ b => a == b
  | .enum _ a, .bool b => a == (if b then 1 else 0)
  | .enum _ a, .int b => a == b
  | .enum c a, .enum d b => c.cid == d.cid && a == b
  | .bytes a, .bytes b => a == b
  | .str a, .str b => a == b
  | .list a, .list b => eqL a b
  | .tuple a, .tuple b => eqL a b
  | .dict ks vs, .dict ks' vs' => eqL ks ks' && eqL vs vs'
  | .bytesIO a p, .bytesIO b q => a == b && p == q
  | .tuple a, .inst c b => c.isTuple && eqL a b
  | .inst c a, .tuple b => c.isTuple && eqL a b
  | .inst c a, .inst d b => (if c.isTuple then d.isTuple else !d.isTuple && c.cid == d.cid) && eqL a b
  | _, _ => false
termination_by structural x => x
def eqL : List V → List V → Bool
  | [], [] => true
  | a :: as, b :: bs => eq a b && eqL as bs
  | _, _ => false
termination_by structural x => x
end

/-- lexicographic `<` on lists of naturals / bytes -/
def lexLt {α : Type} (lt : α → α → Bool) (beq : α → α → Bool) : List α → List α → Bool
  | [], [] => false
  | [], _ :: _ => true
  | _ :: _, [] => false
  | a :: as, b :: bs => lt a b || (beq a b && lexLt lt beq as bs)

/-- `a < b`: int-like with int-like, `bytes` with `bytes`, `str` with `str`; any other mixture is a TypeError.
Not modelled (TypeError): ordering of lists / tuples. -/
def lt (a b : V) : Py Bool :=
  match asInt a, asInt b with
  | some x, some y => .ok (decide (x < y))
  | _, _ =>
    match a, b with
    | .bytes x, .bytes y => .ok (lexLt (· < ·) (· == ·) x y)
    | .str x, .str y => .ok (lexLt (fun (m n : Nat) => decide (m < n)) (· == ·) x y)
    | _, _ => .error .typeError

/-- `a <= b` -/
def le (a b : V) : Py Bool := (lt b a).map (!·)
/-- `a > b` -/
def gt (a b : V) : Py Bool := lt b a
/-- `a >= b` -/
def ge (a b : V) : Py Bool := (lt a b).map (!·)

/-! ### arithmetic -/

/-- `a + b`: int-like + int-like, or two sequences of the same kind -/
def add (a b : V) : Py V :=
  match asInt a, asInt b with
  | some x, some y => .ok (.int (x + y))
  | _, _ =>
    match a, b with
    | .bytes x, .bytes y => .ok (.bytes (x ++ y))
    | .str x, .str y => .ok (.str (x ++ y))
    | .list x, .list y => .ok (.list (x ++ y))
    | .tuple x, .tuple y => .ok (.tuple (x ++ y))
    | _, _ => .error .typeError

/-- `a += b` for a name that holds an immutable value (`x = x + b`).  Not modelled (TypeError): a `list` target, which
CPython extends in place. -/
def iadd (a b : V) : Py V :=
  match a with
  | .list _ => .error .typeError
  | _ => add a b

/-- the int-like operands of a binary integer operator -/
def ints2 (a b : V) : Py (Int × Int) :=
  match asInt a, asInt b with
  | some x, some y => .ok (x, y)
  | _, _ => .error .typeError

/-- `a - b` (int-like only) -/
def sub (a b : V) : Py V := (ints2 a b).map fun p => .int (p.1 - p.2)

/-- `a * b`: int-like * int-like, or a sequence repeated (`n <= 0` gives the empty sequence) -/
def mul (a b : V) : Py V :=
  match asInt a, asInt b with
  | some x, some y => .ok (.int (x * y))
  | _, _ =>
    let rep {α : Type} (l : List α) (n : Int) : List α := (List.replicate n.toNat l).flatten
    match a, asInt b, asInt a, b with
    | .bytes x, some n, _, _ => .ok (.bytes (rep x n))
    | .str x, some n, _, _ => .ok (.str (rep x n))
    | .list x, some n, _, _ => .ok (.list (rep x n))
    | .tuple x, some n, _, _ => .ok (.tuple (rep x n))
    | _, _, some n, .bytes x => .ok (.bytes (rep x n))
    | _, _, some n, .str x => .ok (.str (rep x n))
    | _, _, some n, .list x => .ok (.list (rep x n))
    | _, _, some n, .tuple x => .ok (.tuple (rep x n))
    | _, _, _, _ => .error .typeError

/-- `a // b`, `a % b`, `a & b`, `a | b`, `a ^ b`, `a << b`, `a >> b`, `-a` on int-like operands (semantics: `PyRt`).
Not modelled (TypeError): `%` as string formatting, `|` on dicts / sets. -/
def floordiv (a b : V) : Py V := do let p ← ints2 a b; let r ← PyRt.floordiv p.1 p.2; pure (.int r)
def mod (a b : V) : Py V := do let p ← ints2 a b; let r ← PyRt.mod p.1 p.2; pure (.int r)
/-- the bit-wise operators keep `bool` when both operands are `bool` -/
def bitop (f : Int → Int → Int) (a b : V) : Py V :=
  match a, b with
  | .bool x, .bool y => .ok (.bool (f (if x then 1 else 0) (if y then 1 else 0) != 0))
  | _, _ => (ints2 a b).map fun p => .int (f p.1 p.2)
def band (a b : V) : Py V := bitop PyRt.band a b
def bor (a b : V) : Py V := bitop PyRt.bor a b
def bxor (a b : V) : Py V := bitop PyRt.bxor a b
def shl (a b : V) : Py V := do let p ← ints2 a b; let r ← PyRt.shl p.1 p.2; pure (.int r)
def shr (a b : V) : Py V := do let p ← ints2 a b; let r ← PyRt.shr p.1 p.2; pure (.int r)
def neg (a : V) : Py V :=
  match asInt a with
  | some x => .ok (.int (-x))
  | none => .error .typeError

/-! ### containers -/

/-- `len(x)`; for a cstruct enum member: the size of the underlying integer type (`BaseType.__len__`) -/
def len : V → Py V
  | .enum cls _ => .ok (.int cls.size)
  | .bytes b => .ok (.int b.length)
  | .str s => .ok (.int s.length)
  | .list xs => .ok (.int xs.length)
  | .tuple xs => .ok (.int xs.length)
  | .dict ks _ => .ok (.int ks.length)
  | .inst c vs => if c.isTuple then .ok (.int vs.length) else .error .typeError
  | _ => .error .typeError

mutual
/-- `hash(x)` succeeds: no `list` / `dict` inside (an instance of a plain class hashes by identity) -/
def hashable : V → Bool
  | .list _ => false
  | .dict _ _ => false
  | .tuple xs => hashableL xs
  | .inst c xs => !c.isTuple || hashableL xs
  | _ => true
termination_by structural x => x
def hashableL : List V → Bool
  | [] => true
  | x :: xs => hashable x && hashableL xs
termination_by structural x => x
end

/-- two keys select the same dict entry: equal, and both or neither a cstruct enum member (an enum member hashes as the
tuple `(class, name, value)`, not as its integer value) -/
def keyEq (a b : V) : Bool :=
  eq a b && (match a, b with
    | .enum _ _, .enum _ _ => true
    | .enum _ _, _ => false
    | _, .enum _ _ => false
    | _, _ => true)

/-- position of a key -/
def findKey (k : V) : List V → List V → Option V
  | k' :: ks, v :: vs => if keyEq k k' then some v else findKey k ks vs
  | _, _ => none

/-- replace the value stored under a key that is present -/
def setKey (k v : V) : List V → List V → List V
  | k' :: ks, v' :: vs => if keyEq k k' then v :: vs else v' :: setKey k v ks vs
  | _, vs => vs

/-- one `d[k] = v` of a dict display -/
def dictInsert (d : List V × List V) (k v : V) : List V × List V :=
  match findKey k d.1 d.2 with
  | some _ => (d.1, setKey k v d.1 d.2)
  | none => (d.1 ++ [k], d.2 ++ [v])

/-- the dict display `{k1: v1, k2: v2, …}` (a later duplicate key overwrites the value, an unhashable key is a TypeError) -/
def mkDict (items : List (V × V)) : Py V :=
  if items.all (fun kv => hashable kv.1) then
    let d := items.foldl (fun d kv => dictInsert d kv.1 kv.2) ([], [])
    .ok (.dict d.1 d.2)
  else .error .typeError

/-- `d.get(k, default)` -/
def dictGet (d k dflt : V) : Py V :=
  match d with
  | .dict ks vs =>
    if hashable k then .ok ((findKey k ks vs).getD dflt) else .error .typeError
  | _ => .error .attributeError

/-- first occurrence of a non-empty `sep` in `xs`: (before, after) -/
def splitAt? {α : Type} [BEq α] (sep : List α) : List α → Option (List α × List α)
  | [] => none
  | x :: xs =>
    if sep.isPrefixOf (x :: xs) then some ([], (x :: xs).drop sep.length)
    else (splitAt? sep xs).map fun p => (x :: p.1, p.2)

/-- `x in c` -/
def contains (c x : V) : Py Bool :=
  match c with
  | .list xs => .ok (xs.any (eq x))
  | .tuple xs => .ok (xs.any (eq x))
  | .inst c xs => if c.isTuple then .ok (xs.any (eq x)) else .error .typeError
  | .dict ks vs => if hashable x then .ok (findKey x ks vs).isSome else .error .typeError
  | .bytes b =>
    match x with
    | .bytes y => .ok (y.isEmpty || (splitAt? y b).isSome)
    | _ =>
      match asInt x with
      | some n => if 0 ≤ n ∧ n < 256 then .ok (b.contains (UInt8.ofNat n.toNat)) else .error .valueError
      | none => .error .typeError
  | .str t =>
    match x with
    | .str y => .ok (y.isEmpty || (splitAt? y t).isSome)
    | _ => .error .typeError
  | _ => .error .typeError

/-- `x[i]` for an int-like index (sequences) or a key (dict: KeyError) -/
def getItem (x i : V) : Py V :=
  match x with
  | .dict ks vs =>
    if hashable i then (match findKey i ks vs with | some v => .ok v | none => .error .keyError) else .error .typeError
  | .bytes b => match asInt i with
    | some n => (PyRt.normIdx b.length n).map fun j => .int ((b.getD j 0).toNat)
    | none => .error .typeError
  | .str t => match asInt i with
    | some n => (PyRt.normIdx t.length n).map fun j => .str [t.getD j 0]
    | none => .error .typeError
  | .list xs => match asInt i with
    | some n => (PyRt.normIdx xs.length n).map fun j => xs.getD j .none
    | none => .error .typeError
  | .tuple xs => match asInt i with
    | some n => (PyRt.normIdx xs.length n).map fun j => xs.getD j .none
    | none => .error .typeError
  | .inst c xs =>
    if c.isTuple then
      match asInt i with
      | some n => (PyRt.normIdx xs.length n).map fun j => xs.getD j .none
      | none => .error .typeError
    else .error .typeError
  | _ => .error .typeError

/-- a slice bound: `None` or int-like -/
def bound : V → Py (Option Int)
  | .none => .ok none
  | v => match asInt v with
    | some n => .ok (some n)
    | none => .error .typeError

/-- `x[lo:hi]` for a sequence (bounds `None` or int-like; a slice of a NamedTuple instance is a plain tuple); a dict looks the `slice` object up as a key (hashable since
Python 3.12, never present: KeyError) -/
def slice (x lo hi : V) : Py V :=
  match x with
  | .dict _ _ => if hashable lo && hashable hi then .error .keyError else .error .typeError
  | _ => do
    let a ← bound lo
    let b ← bound hi
    match x with
    | .bytes d => pure (.bytes (PyRt.slice d a b))
    | .str d => pure (.str (PyRt.slice d a b))
    | .list d => pure (.list (PyRt.slice d a b))
    | .tuple d => pure (.tuple (PyRt.slice d a b))
    | .inst c d => if c.isTuple then pure (.tuple (PyRt.slice d a b)) else throw .typeError
    | _ => throw .typeError

/-- the items an unpacking assignment iterates over -/
def iterList : V → Py (List V)
  | .list xs => .ok xs
  | .tuple xs => .ok xs
  | .bytes b => .ok (b.map fun x => .int x.toNat)
  | .str t => .ok (t.map fun c => .str [c])
  | .dict ks _ => .ok ks
  | .inst c xs => if c.isTuple then .ok xs else .error .typeError
  | _ => .error .typeError

/-- `a, b = x` -/
def unpack2 (x : V) : Py (V × V) := do
  match ← iterList x with
  | [a, b] => pure (a, b)
  | _ => throw .valueError

/-- `a, b, c = x` -/
def unpack3 (x : V) : Py (V × V × V) := do
  match ← iterList x with
  | [a, b, c] => pure (a, b, c)
  | _ => throw .valueError

/-- `xs.append(x)`: the new list -/
def append (xs x : V) : Py V :=
  match xs with
  | .list l => .ok (.list (l ++ [x]))
  | _ => .error .attributeError

/-! ### io.BytesIO -/

/-- `io.BytesIO(x)` (`None`: empty) -/
def newBytesIO : V → Py V
  | .none => .ok (.bytesIO [] 0)
  | .bytes b => .ok (.bytesIO b 0)
  | _ => .error .typeError

/-- `p.read(n)`: the data and the object afterwards; `None` or a negative count reads to the end, at the end the
result is short / empty (never raises for an int-like or `None` count) -/
def read (p n : V) : Py (V × V) :=
  match p with
  | .bytesIO data pos =>
    let rest := data.drop pos
    match n with
    | .none => .ok (.bytes rest, .bytesIO data (pos + rest.length))
    | _ =>
      match asInt n with
      | some k =>
        let r := if k < 0 then rest else rest.take k.toNat
        .ok (.bytes r, .bytesIO data (pos + r.length))
      | none => .error .typeError
  | _ => .error .attributeError

/-! ### cstruct enums -/

def beNat : Bytes → Nat → Nat
  | [], acc => acc
  | b :: bs, acc => beNat bs (acc * 256 + b.toNat)

/-- `Cls(x)`: `None` → the default value 0, an int-like value → that value (undefined values are allowed, a member of the
same class is returned as it is), `bytes` → one integer of the underlying type read from the front (EOFError when short).
Not modelled (TypeError; CPython: mostly ValueError / stream reads): `str`, `BytesIO`, members of another enum class. -/
def enumCall (cls : EnumCls) : V → Py V
  | .none => .ok (.enum cls 0)
  | .bool b => .ok (.enum cls (if b then 1 else 0))
  | .int n => .ok (.enum cls n)
  | .enum c v => if c.cid = cls.cid then .ok (.enum c v) else .error .typeError
  | .bytes d =>
    if d.length < cls.size then .error .eofError
    else
      let raw := d.take cls.size
      .ok (.enum cls (beNat (if cls.bigEndian then raw else raw.reverse) 0))
  | _ => .error .typeError

/-- `Cls.NAME` -/
def enumMember (cls : EnumCls) (name : String) : Py V :=
  match cls.members.find? (·.2 == name) with
  | some m => .ok (.enum cls m.1)
  | none => .error .attributeError

/-- `x.name` / `x.value` of an enum member: the name (`None` for an undefined value) and the integer; `x.<field>` of an
instance of a class with named fields (the translator emits this for attribute names without a leading underscore only).
Every other kind of object here has none of these attributes.  Not modelled (AttributeError): methods read as values
(`t.count`, `t.index` of a NamedTuple instance). -/
def getAttr (x : V) (attr : String) : Py V :=
  match x with
  | .enum cls v =>
    if attr == "name" then
      .ok (if v < 0 then .none else
        match cls.members.find? (·.1 == v.toNat) with
        | some m => lit m.2
        | none => .none)
    else if attr == "value" then .ok (.int v)
    else .error .attributeError
  | .inst cls vals =>
    match lookupField attr cls.fields vals with
    | some v => .ok v
    | none => .error .attributeError
  | _ => .error .attributeError

/-! ### bytes / str methods -/

def rstripL {α : Type} (p : α → Bool) (l : List α) : List α := (l.reverse.dropWhile p).reverse

/-- ASCII whitespace (the default strip set of `bytes`; for `str` CPython also strips the other Unicode spaces) -/
def isSpace (n : Nat) : Bool := n == 32 || (9 ≤ n && n ≤ 13)

/-- `x.rstrip(chars)`: `bytes` with a `bytes` / `None` argument, `str` with a `str` / `None` argument; a receiver
without that method is an AttributeError.  Not modelled exactly: `str.rstrip(None)` strips ASCII whitespace and
U+001C..U+001F, U+0085, U+00A0 only. -/
def rstrip (x chars : V) : Py V :=
  match x with
  | .bytes b =>
    match chars with
    | .none => .ok (.bytes (rstripL (fun c => isSpace c.toNat) b))
    | .bytes cs => .ok (.bytes (rstripL (fun c => cs.contains c) b))
    | _ => .error .typeError
  | .str t =>
    match chars with
    | .none => .ok (.str (rstripL (fun c => isSpace c || (28 ≤ c && c ≤ 31) || c == 133 || c == 160) t))
    | .str cs => .ok (.str (rstripL (fun c => cs.contains c) t))
    | _ => .error .typeError
  | _ => .error .attributeError

/-- `x.partition(sep)` for `bytes` / `str`: a 3-tuple; empty separator ValueError -/
def partition (x sep : V) : Py V :=
  match x with
  | .bytes b =>
    match sep with
    | .bytes s =>
      if s.isEmpty then .error .valueError
      else match splitAt? s b with
        | some p => .ok (.tuple [.bytes p.1, .bytes s, .bytes p.2])
        | none => .ok (.tuple [.bytes b, .bytes [], .bytes []])
    | _ => .error .typeError
  | .str t =>
    match sep with
    | .str s =>
      if s.isEmpty then .error .valueError
      else match splitAt? s t with
        | some p => .ok (.tuple [.str p.1, .str s, .str p.2])
        | none => .ok (.tuple [.str t, .str [], .str []])
    | _ => .error .typeError
  | _ => .error .attributeError

def isCont (b : UInt8) : Bool := 0x80 ≤ b && b ≤ 0xBF

/-- strict UTF-8 (no overlong forms, no surrogates, ≤ U+10FFFF); any defect is a UnicodeDecodeError (a ValueError) -/
def utf8 (s : Bytes) : Py Str :=
  match s with
  | [] => .ok []
  | b0 :: rest =>
    if b0 < 0x80 then (utf8 rest).map (b0.toNat :: ·)
    else if 0xC2 ≤ b0 ∧ b0 ≤ 0xDF then
      match rest with
      | b1 :: r =>
        if isCont b1 then (utf8 r).map (((b0.toNat - 0xC0) * 64 + (b1.toNat - 0x80)) :: ·)
        else .error .valueError
      | _ => .error .valueError
    else if 0xE0 ≤ b0 ∧ b0 ≤ 0xEF then
      match rest with
      | b1 :: b2 :: r =>
        if isCont b1 ∧ isCont b2 ∧ (b0 = 0xE0 → 0xA0 ≤ b1) ∧ (b0 = 0xED → b1 ≤ 0x9F) then
          (utf8 r).map (((b0.toNat - 0xE0) * 4096 + (b1.toNat - 0x80) * 64 + (b2.toNat - 0x80)) :: ·)
        else .error .valueError
      | _ => .error .valueError
    else if 0xF0 ≤ b0 ∧ b0 ≤ 0xF4 then
      match rest with
      | b1 :: b2 :: b3 :: r =>
        if isCont b1 ∧ isCont b2 ∧ isCont b3 ∧ (b0 = 0xF0 → 0x90 ≤ b1) ∧ (b0 = 0xF4 → b1 ≤ 0x8F) then
          (utf8 r).map (((b0.toNat - 0xF0) * 262144 + (b1.toNat - 0x80) * 4096
            + (b2.toNat - 0x80) * 64 + (b3.toNat - 0x80)) :: ·)
        else .error .valueError
      | _ => .error .valueError
    else .error .valueError
termination_by structural s

/-- `x.decode()` / `x.decode("utf-8")` with `errors="strict"` -/
def decodeUtf8 : V → Py V
  | .bytes b => (utf8 b).map .str
  | _ => .error .attributeError

/-- `x.decode("latin-1", <any error handler>)`: every byte is a code point, nothing is ever rejected -/
def decodeLatin1 : V → Py V
  | .bytes b => .ok (.str (b.map (·.toNat)))
  | _ => .error .attributeError

/-! ### `format` -/

def decStr (n : Int) : Str :=
  if n < 0 then 45 :: (Nat.toDigits 10 n.natAbs).map Char.toNat else (Nat.toDigits 10 n.toNat).map Char.toNat

def hexStr (n : Int) : Str :=
  if n < 0 then 45 :: (Nat.toDigits 16 n.natAbs).map Char.toNat else (Nat.toDigits 16 n.toNat).map Char.toNat

/-- `format(v, spec)` as used by `"{}".format(v)`, `"{:x}".format(v)` and f-strings, for the two format specs the
translator accepts (`""` and `"x"`).  Not modelled (TypeError): `""` on bytes / list / tuple / dict / BytesIO (their
`repr`) and on enum members (`Cls.NAME`). -/
def fmt (v : V) (spec : String) : Py Str :=
  if spec == "" then
    match v with
    | .none => .ok (cps "None")
    | .bool b => .ok (cps (if b then "True" else "False"))
    | .int n => .ok (decStr n)
    | .str t => .ok t
    | _ => .error .typeError
  else if spec == "x" then
    match v with
    | .bool b => .ok (cps (if b then "1" else "0"))
    | .int n => .ok (hexStr n)
    | .enum _ n => .ok (hexStr n)
    | .str _ => .error .valueError
    | _ => .error .typeError
  else .error .valueError

/-! ### calls of typed translations (`Gen.PyUtils`) -/

/-- apply a function of utils.py translated by the typed translator (`data: bytes → int`, body `int.from_bytes(data[:size], …)`)
to a dynamic value: `None` / int-likes / `BytesIO` are not subscriptable and a `str` slice is not bytes-like (TypeError), a
dict has no `slice` key (KeyError).  Not modelled (TypeError): lists / tuples (of ints: accepted by `int.from_bytes`). -/
def liftBytesInt (f : Bytes → Py Int) : V → Py V
  | .bytes d => (f d).map .int
  | .dict _ _ => .error .keyError
  | _ => .error .typeError

/-! ### loops -/

inductive Ctl
  | cont
  | brk
  deriving DecidableEq, Repr

/-- `while True: body` with at most `fuel` iterations of the body; the body answers `brk` (a `break`, or a false loop
condition) or `cont` (end of the body / `continue`) together with the new values of the loop variables -/
def whileFuel {σ : Type} : Nat → (σ → Py (Ctl × σ)) → σ → Py σ
  | 0, _, _ => .error .timeoutDiverge
  | n + 1, body, st =>
    match body st with
    | .error e => .error e
    | .ok (.brk, st') => .ok st'
    | .ok (.cont, st') => whileFuel n body st'

/-! ### additions for c2.py (`parse_raw_http`, `HttpDataTransform`): `for`, item assignment, more `bytes` / `str` methods,
`int()`, `repr`, codecs, classes with named fields -/

/-- `for x in items: body` — the body answers `brk` (a `break`) or `cont` (end of the body / `continue`) together with the
new values of the loop variables; `items` is the snapshot `iterList` took when the loop started (the translator rejects a
loop whose body could change the object it iterates over) -/
def forList {ε σ : Type} : List V → (V → σ → Except ε (Ctl × σ)) → σ → Except ε σ
  | [], _, st => .ok st
  | x :: xs, body, st =>
    match body x st with
    | .error e => .error e
    | .ok (.brk, st') => .ok st'
    | .ok (.cont, st') => forList xs body st'

/-- exceptions of a function that contains `assert`: `PyExc` plus AssertionError -/
inductive ExcA
  | py (e : PyExc)
  | assertion
  deriving DecidableEq, Repr

/-- the monad of the translated functions that contain `assert`; every operation of this file is lifted into it -/
abbrev PyA (α : Type) := Except ExcA α

def liftA {α : Type} : Py α → PyA α
  | .ok a => .ok a
  | .error e => .error (.py e)

instance : MonadLift Py PyA := ⟨liftA⟩

/-- the call counter of a `stream` function (`random.getrandbits`) after one more call -/
def next : V → V
  | .int n => .int (n + 1)
  | v => v

/-- `d[k] = v`: the changed object.  A dict keeps the position of a key that is present; a list index is normalised like
`xs[i]` (IndexError); every other kind of object does not support item assignment (TypeError) -/
def setItem (d k v : V) : Py V :=
  match d with
  | .dict ks vs =>
    if hashable k then
      let r := dictInsert (ks, vs) k v
      .ok (.dict r.1 r.2)
    else .error .typeError
  | .list xs =>
    match asInt k with
    | some n => (PyRt.normIdx xs.length n).map fun j => .list (xs.set j v)
    | none => .error .typeError
  | _ => .error .typeError

/-- `list(x)` -/
def listOf (x : V) : Py V := (iterList x).map .list

/-- `x[::-1]` (the translator accepts this one extended slice only): a reversed copy of a sequence (a NamedTuple instance
gives a plain tuple); a dict looks the `slice` object up as a key (KeyError) -/
def sliceRev : V → Py V
  | .bytes d => .ok (.bytes d.reverse)
  | .str d => .ok (.str d.reverse)
  | .list d => .ok (.list d.reverse)
  | .tuple d => .ok (.tuple d.reverse)
  | .inst c d => if c.isTuple then .ok (.tuple d.reverse) else .error .typeError
  | .dict _ _ => .error .keyError
  | _ => .error .typeError

/-- `xs.insert(i, x)`: the new list (the index is clamped like a slice bound, never an IndexError) -/
def insert (xs i x : V) : Py V :=
  match xs with
  | .list l =>
    match asInt i with
    | some n =>
      let j := PyRt.clampIdx l.length n
      .ok (.list (l.take j ++ x :: l.drop j))
    | none => .error .typeError
  | _ => .error .attributeError

/-! #### `split`, `upper`, `lower`, `startswith` -/

/-- `s.split()`: runs of whitespace separate, no empty items -/
def splitWsGo {α : Type} (sp : α → Bool) : List α → List α → List (List α)
  | [], cur => if cur.isEmpty then [] else [cur]
  | b :: rest, cur =>
    if sp b then (if cur.isEmpty then splitWsGo sp rest [] else cur :: splitWsGo sp rest [])
    else splitWsGo sp rest (cur ++ [b])

/-- `s.split(sep)` for a non-empty `sep`: left to right, non-overlapping; `skip` = how many items of the occurrence of `sep`
that was just recognised are still to be passed over -/
def splitSepGo {α : Type} [BEq α] (sep : List α) : List α → Nat → List α → List (List α)
  | [], _, cur => [cur]
  | _ :: xs, skip + 1, cur => splitSepGo sep xs skip cur
  | x :: xs, 0, cur =>
    if sep.isPrefixOf (x :: xs) then cur :: splitSepGo sep xs (sep.length - 1) []
    else splitSepGo sep xs 0 (cur ++ [x])

/-- the whitespace of `str.split()` / `str.rstrip()` as far as it is modelled: ASCII whitespace, U+001C..U+001F, U+0085, U+00A0 -/
def isSpaceU (c : Nat) : Bool := isSpace c || (28 ≤ c && c ≤ 31) || c == 133 || c == 160

/-- `x.split(sep)` (`sep=None`: whitespace; an empty separator is a ValueError); a receiver without that method is an
AttributeError.  Not modelled exactly: `str.split(None)` knows the whitespace `isSpaceU` only. -/
def split (x sep : V) : Py V :=
  match x with
  | .bytes b =>
    match sep with
    | .none => .ok (.list ((splitWsGo (fun c => isSpace c.toNat) b []).map .bytes))
    | .bytes s => if s.isEmpty then .error .valueError else .ok (.list ((splitSepGo s b 0 []).map .bytes))
    | _ => .error .typeError
  | .str t =>
    match sep with
    | .none => .ok (.list ((splitWsGo isSpaceU t []).map .str))
    | .str s => if s.isEmpty then .error .valueError else .ok (.list ((splitSepGo s t 0 []).map .str))
    | _ => .error .typeError
  | _ => .error .attributeError

def upByte (b : UInt8) : UInt8 := if 97 ≤ b ∧ b ≤ 122 then b - 32 else b
def lowByte (b : UInt8) : UInt8 := if 65 ≤ b ∧ b ≤ 90 then b + 32 else b
def upCp (c : Nat) : Nat := if 97 ≤ c ∧ c ≤ 122 then c - 32 else c
def lowCp (c : Nat) : Nat := if 65 ≤ c ∧ c ≤ 90 then c + 32 else c

/-- `x.upper()`: `bytes` (ASCII letters only, by definition) and ASCII `str`.  Not modelled (TypeError): a `str` with a
code point above U+007F (CPython applies the Unicode case mapping). -/
def upper : V → Py V
  | .bytes b => .ok (.bytes (b.map upByte))
  | .str t => if t.all (· < 128) then .ok (.str (t.map upCp)) else .error .typeError
  | _ => .error .attributeError

/-- `x.lower()`; as `upper` -/
def lower : V → Py V
  | .bytes b => .ok (.bytes (b.map lowByte))
  | .str t => if t.all (· < 128) then .ok (.str (t.map lowCp)) else .error .typeError
  | _ => .error .attributeError

/-- `x.startswith(prefix)`.  Not modelled (TypeError; CPython accepts it): a tuple of prefixes. -/
def startswith (x pre : V) : Py V :=
  match x with
  | .bytes b =>
    match pre with
    | .bytes p => .ok (.bool (p.isPrefixOf b))
    | _ => .error .typeError
  | .str t =>
    match pre with
    | .str p => .ok (.bool (p.isPrefixOf t))
    | _ => .error .typeError
  | _ => .error .attributeError

/-! #### codecs -/

/-- `x.decode("ascii")`: a byte above 0x7F is a UnicodeDecodeError (a ValueError) -/
def decodeAscii : V → Py V
  | .bytes b => if b.all (· < 128) then .ok (.str (b.map (·.toNat))) else .error .valueError
  | _ => .error .attributeError

/-- `x.decode("ascii", "ignore")`: the bytes above 0x7F are dropped -/
def decodeAsciiIgnore : V → Py V
  | .bytes b => .ok (.str ((b.filter (· < 128)).map (·.toNat)))
  | _ => .error .attributeError

/-- UTF-8 of one code point; a surrogate (or a number that is not a code point) is a UnicodeEncodeError (a ValueError) -/
def utf8Enc1 (c : Nat) : Py Bytes :=
  if c < 0x80 then .ok [UInt8.ofNat c]
  else if c < 0x800 then .ok [UInt8.ofNat (0xC0 + c / 64), UInt8.ofNat (0x80 + c % 64)]
  else if 0xD800 ≤ c ∧ c ≤ 0xDFFF then .error .valueError
  else if c < 0x10000 then .ok [UInt8.ofNat (0xE0 + c / 4096), UInt8.ofNat (0x80 + c / 64 % 64), UInt8.ofNat (0x80 + c % 64)]
  else if c < 0x110000 then
    .ok [UInt8.ofNat (0xF0 + c / 262144), UInt8.ofNat (0x80 + c / 4096 % 64), UInt8.ofNat (0x80 + c / 64 % 64), UInt8.ofNat (0x80 + c % 64)]
  else .error .valueError

def utf8Enc : Str → Py Bytes
  | [] => .ok []
  | c :: cs =>
    match utf8Enc1 c with
    | .error e => .error e
    | .ok a => (utf8Enc cs).map (a ++ ·)

/-- `x.encode()` / `x.encode("utf-8")` -/
def encodeUtf8 : V → Py V
  | .str t => (utf8Enc t).map .bytes
  | _ => .error .attributeError

/-- `x.encode("latin-1")`: a code point above U+00FF is a UnicodeEncodeError (a ValueError) -/
def encodeLatin1 : V → Py V
  | .str t => if t.all (· < 256) then .ok (.bytes (t.map UInt8.ofNat)) else .error .valueError
  | _ => .error .attributeError

/-- `x.encode("ascii")` -/
def encodeAscii : V → Py V
  | .str t => if t.all (· < 128) then .ok (.bytes (t.map UInt8.ofNat)) else .error .valueError
  | _ => .error .attributeError

/-! #### `int(x)` -/

/-- the tables of the running interpreter that `int(str)` depends on (generated: `Gen/C16Unicode.lean`): the code points with
`str.isspace()`, and the code points with decimal value 0 (each starts a run of the ten digits 0..9) -/
structure IntTables where
  spaces : List Nat
  zeros : List Nat

/-- `Py_UNICODE_TODECIMAL` -/
def decimalOf (t : IntTables) (c : Nat) : Option Nat :=
  (t.zeros.find? fun z => z ≤ c && c < z + 10).map (c - ·)

/-- `_PyUnicode_TransformDecimalAndSpaceToASCII`, per code point: below 127 unchanged, Unicode spaces become `' '`, Unicode
decimal digits their ASCII digit, anything else `'?'` -/
def toAsciiDigitSpace (t : IntTables) (c : Nat) : Nat :=
  if c < 127 then c
  else if t.spaces.contains c then 32
  else match decimalOf t c with
    | some d => 48 + d
    | none => 63

def isDigitN (c : Nat) : Bool := 48 ≤ c && c ≤ 57
def isDigitOrUnderscoreN (c : Nat) : Bool := isDigitN c || c == 95

def hasDoubleUnderscore : List Nat → Bool
  | 95 :: 95 :: _ => true
  | _ :: rest => hasDoubleUnderscore rest
  | [] => false

/-- `sys.get_int_max_str_digits()` (default) -/
def maxStrDigits : Nat := 4300

def decimalValueN (ds : List Nat) : Nat := ds.foldl (fun a d => a * 10 + (d - 48)) 0

/-- `PyLong_FromString(s, base=10)` after the leading whitespace and the sign: digits with single underscores strictly
between digits, at most `maxStrDigits` digits, then whitespace only -/
def parseDecimalBody (neg : Bool) (s2 : List Nat) : Py Int :=
  let run := s2.takeWhile isDigitOrUnderscoreN
  let rest := s2.dropWhile isDigitOrUnderscoreN
  let ds := run.filter (· != 95)
  if run.head? == some 95 || run.getLast? == some 95 || hasDoubleUnderscore run then .error .valueError
  else if ds.isEmpty || ds.length > maxStrDigits then .error .valueError
  else if !(rest.dropWhile isSpace).isEmpty then .error .valueError
  else .ok (if neg then -(decimalValueN ds : Int) else (decimalValueN ds : Int))

def parseDecimal (s : List Nat) : Py Int :=
  let s1 := s.dropWhile isSpace
  parseDecimalBody (s1.head? == some 45)
    (if s1.head? == some 43 || s1.head? == some 45 then s1.drop 1 else s1)

/-- `int(x)` with one argument: an int-like object gives its value, a `str` is a decimal literal (surrounding whitespace, sign,
single underscores between digits, any Unicode decimal digits; at most 4300 digits), `bytes` are read as an ASCII literal;
a malformed literal is a ValueError, any other kind of object a TypeError -/
def intOf (t : IntTables) : V → Py V
  | .bool b => .ok (.int (if b then 1 else 0))
  | .int n => .ok (.int n)
  | .enum _ v => .ok (.int v)
  | .str cs => (parseDecimal (cs.map (toAsciiDigitSpace t))).map .int
  | .bytes b => (parseDecimal (b.map (·.toNat))).map .int
  | _ => .error .typeError

/-! #### `repr` -/

def hexDigit (n : Nat) : Nat := if n < 10 then 48 + n else 87 + n

/-- one byte / ASCII code point inside a `bytes` / `str` literal delimited by the quote `q` -/
def reprByte (q b : Nat) : Str :=
  if b == 92 then [92, 92]
  else if b == q then [92, q]
  else if b == 9 then [92, 116]
  else if b == 10 then [92, 110]
  else if b == 13 then [92, 114]
  else if b < 32 || b == 127 then [92, 120, hexDigit (b / 16), hexDigit (b % 16)]
  else [b]

/-- single quotes unless the text contains `'` and no `"` -/
def reprQuote (l : List Nat) : Nat := if l.contains 39 && !l.contains 34 then 34 else 39

/-- `repr(b)` of `bytes` -/
def reprBytes (b : Bytes) : Str :=
  let l := b.map (·.toNat)
  let q := reprQuote l
  98 :: q :: l.flatMap (fun x => if x ≥ 128 then [92, 120, hexDigit (x / 16), hexDigit (x % 16)] else reprByte q x) ++ [q]

/-- `repr(s)` of a `str`, exact for code points up to U+007F -/
def reprStr (t : Str) : Str :=
  let q := reprQuote t
  q :: t.flatMap (fun x => if x ≥ 128 then [x] else reprByte q x) ++ [q]

mutual
/-- `repr(x)` for `None`, `bool`, `int`, `bytes`, `str` and lists / tuples of these.  Not modelled exactly: a code point above
U+007F of a `str` is kept as it is (CPython escapes the non-printable ones).  Not modelled (TypeError): dict, BytesIO,
enum members, instances. -/
def repr : V → Py Str
  | .none => .ok (cps "None")
  | .bool b => .ok (cps (if b then "True" else "False"))
  | .int n => .ok (decStr n)
  | .bytes b => .ok (reprBytes b)
  | .str t => .ok (reprStr t)
  | .list xs =>
    match reprL xs with
    | .ok r => .ok (91 :: r ++ [93])
    | .error e => .error e
  | .tuple xs =>
    match reprL xs with
    | .ok r => .ok (if xs.length == 1 then 40 :: r ++ [44, 41] else 40 :: r ++ [41])
    | .error e => .error e
  | _ => .error .typeError
termination_by structural x => x
def reprL : List V → Py Str
  | [] => .ok []
  | x :: xs =>
    match repr x, reprL xs with
    | .ok a, .ok b => .ok (if xs.isEmpty then a else a ++ [44, 32] ++ b)
    | .error e, _ => .error e
    | _, .error e => .error e
termination_by structural x => x
end

/-- a replacement field of an f-string / `str.format`: `{v!r}` is `repr(v)`; `{v}` is `format(v, "")`, which for a list / tuple
/ `bytes` is its `repr`, and `fmt` otherwise -/
def fmtR (v : V) : Py Str := repr v
def fmtS (v : V) : Py Str :=
  match v with
  | .list _ => repr v
  | .tuple _ => repr v
  | .bytes _ => repr v
  | _ => fmt v ""

/-! #### classes with named fields -/

/-- a class named in `isinstance(x, …)` -/
inductive Ty
  | int | bool | bytes | str | list | tuple | dict
  | cls (c : Cls)

/-- `isinstance(x, T)` for one class: `bool` and cstruct enum members are `int`s, a NamedTuple instance is a `tuple`, an
instance of a registered class is an instance of its registered base classes -/
def isInst1 (x : V) : Ty → Bool
  | .int => match x with | .int _ => true | .bool _ => true | .enum _ _ => true | _ => false
  | .bool => match x with | .bool _ => true | _ => false
  | .bytes => match x with | .bytes _ => true | _ => false
  | .str => match x with | .str _ => true | _ => false
  | .list => match x with | .list _ => true | _ => false
  | .tuple => match x with | .tuple _ => true | .inst c _ => c.isTuple | _ => false
  | .dict => match x with | .dict _ _ => true | _ => false
  | .cls c => match x with | .inst d _ => d.cid == c.cid || d.bases.contains c.cid | _ => false

/-- `isinstance(x, (T1, T2, …))` -/
def isInstance (x : V) (tys : List Ty) : Bool := tys.any (isInst1 x)

/-- `x._replace(f1=v1, …)` of a NamedTuple instance: an unknown field name is a ValueError (CPython 3.12); every other kind
of object here has no `_replace` (AttributeError) -/
def replace (x : V) (kw : List (String × V)) : Py V :=
  match x with
  | .inst c vals =>
    if c.isTuple then
      match kw.foldl (fun acc p => acc.bind fun vs => setField p.1 p.2 c.fields vs) (some vals) with
      | some vs => .ok (.inst c vs)
      | none => .error .valueError
    else .error .attributeError
  | _ => .error .attributeError

end PyU

import CsVerif.Model.Basic
import CsVerif.Model.PyRt
/-
PyU — the run-time library of the UNTYPED Python→Lean translator (`tools/py2leanu.py`).

`tools/py2leanu.py` turns the *source text* of dynamically typed functions of /repo (heterogeneous tuples, cstruct
enums, `io.BytesIO` cursors, `while True:` loops, `dict.get`, `str.format`, `bytes.rstrip/partition/decode`) into Lean
definitions over ONE universal value type `PyU.V`.  The generated definitions mention nothing but the operations below,
so this file is the complete statement of the Python semantics the untyped translation relies on (trusted; every
operation is exercised against CPython 3.12 / dissect.cstruct 4.7 on random operands of all kinds by the `pyu`
correspondence stream of C03, and the generated functions are run against the real functions on every case of the
`g-*` streams of C03).

Conventions
  * every operation is a total function; the raising branches of CPython 3.12 / dissect.cstruct 4.7 are explicit
    (`None.rstrip` → AttributeError, `len(5)` → TypeError, `b"".partition(b"")` → ValueError, …).
  * "int-like" = `bool`, `int` and cstruct enum members (an `IntEnum`): they take part in arithmetic, comparisons,
    indexing and `p.read(n)` through their integer value (`asInt`).
  * kinds of operands an operation does not model (stated in its doc comment, e.g. `format(b"..", "")` = `repr`, comparing
    lists with `<`, `Enum("12")`) answer `TypeError`; the `gen_*` theorems of Props/C03Gen.lean show that the translated
    functions never reach such a branch for `bytes` arguments, the `g-*` streams compare every answer with CPython, and
    the `pyu` stream (tools/harness/c03.py: `pyu_modelled`) leaves exactly these operand kinds out.
  * mutable objects (`list`, `io.BytesIO`) are VALUES here; the translator threads them through the program explicitly
    (`p.read(4)` returns the data and the new cursor) and rejects every program in which such an object could be aliased.
  * loops: `whileFuel` runs the loop body at most `fuel` times (`Timeout` when the fuel runs out); the equivalence
    theorems hold for every fuel above an explicit bound in the input length.
No imports besides `Basic` and `PyRt` (must link into the compiled drivers).
-/
namespace PyU
open PyRt (Str)

/-! ### values -/

/-- a cstruct enum class: identity, the underlying (unsigned) integer type and `Cls(v).name` for the defined values -/
structure EnumCls where
  cid : Nat
  size : Nat
  bigEndian : Bool
  members : List (Nat × String)
  deriving DecidableEq, Repr

/-- the universal value.  `dict ks vs`: keys and values in insertion order (same length, keys pairwise different);
`bytesIO data pos`: an `io.BytesIO` object; `enum cls v`: the member (or pseudo-member for an undefined value) `cls(v)` -/
inductive V
  | none
  | bool (b : Bool)
  | int (n : Int)
  | bytes (b : Bytes)
  | str (s : Str)
  | list (xs : List V)
  | tuple (xs : List V)
  | dict (ks : List V) (vs : List V)
  | bytesIO (data : Bytes) (pos : Nat)
  | enum (cls : EnumCls) (value : Int)
  deriving Repr

/-! structural equality of values (`DecidableEq V`; Lean cannot derive it for a nested inductive type) -/
mutual
def V.beq : V → V → Bool
  | .none, .none => true
  | .bool a, .bool b => a == b
  | .int a, .int b => a == b
  | .bytes a, .bytes b => a == b
  | .str a, .str b => a == b
  | .list a, .list b => V.beqL a b
  | .tuple a, .tuple b => V.beqL a b
  | .dict a c, .dict b d => V.beqL a b && V.beqL c d
  | .bytesIO a c, .bytesIO b d => a == b && c == d
  | .enum a c, .enum b d => a == b && c == d
  | _, _ => false
termination_by structural x => x
def V.beqL : List V → List V → Bool
  | [], [] => true
  | a :: as, b :: bs => V.beq a b && V.beqL as bs
  | _, _ => false
termination_by structural x => x
end

mutual
theorem V.eq_of_beq : ∀ (a b : V), V.beq a b = true → a = b
  | .none, b, h => by cases b <;> simp_all [V.beq]
  | .bool _, b, h => by cases b <;> simp_all [V.beq]
  | .int _, b, h => by cases b <;> simp_all [V.beq]
  | .bytes _, b, h => by cases b <;> simp_all [V.beq]
  | .str _, b, h => by cases b <;> simp_all [V.beq]
  | .list xs, b, h => by
    cases b <;> simp only [V.beq, Bool.false_eq_true] at h
    rw [V.eq_of_beqL xs _ h]
  | .tuple xs, b, h => by
    cases b <;> simp only [V.beq, Bool.false_eq_true] at h
    rw [V.eq_of_beqL xs _ h]
  | .dict ks vs, b, h => by
    cases b <;> simp only [V.beq, Bool.false_eq_true, Bool.and_eq_true] at h
    rw [V.eq_of_beqL ks _ h.1, V.eq_of_beqL vs _ h.2]
  | .bytesIO _ _, b, h => by cases b <;> simp_all [V.beq]
  | .enum _ _, b, h => by cases b <;> simp_all [V.beq]
termination_by structural x => x
theorem V.eq_of_beqL : ∀ (a b : List V), V.beqL a b = true → a = b
  | [], b, h => by cases b <;> simp_all [V.beqL]
  | x :: xs, b, h => by
    cases b with
    | nil => simp [V.beqL] at h
    | cons y ys =>
      simp only [V.beqL, Bool.and_eq_true] at h
      rw [V.eq_of_beq x y h.1, V.eq_of_beqL xs ys h.2]
termination_by structural x => x
end

mutual
theorem V.beq_self : ∀ (a : V), V.beq a a = true
  | .none => by simp [V.beq]
  | .bool _ => by simp [V.beq]
  | .int _ => by simp [V.beq]
  | .bytes _ => by simp [V.beq]
  | .str _ => by simp [V.beq]
  | .list xs => by simp only [V.beq]; exact V.beqL_self xs
  | .tuple xs => by simp only [V.beq]; exact V.beqL_self xs
  | .dict ks vs => by simp only [V.beq, Bool.and_eq_true]; exact ⟨V.beqL_self ks, V.beqL_self vs⟩
  | .bytesIO _ _ => by simp [V.beq]
  | .enum _ _ => by simp [V.beq]
termination_by structural x => x
theorem V.beqL_self : ∀ (a : List V), V.beqL a a = true
  | [] => by simp [V.beqL]
  | x :: xs => by simp only [V.beqL, Bool.and_eq_true]; exact ⟨V.beq_self x, V.beqL_self xs⟩
termination_by structural x => x
end

instance : DecidableEq V := fun a b =>
  if h : V.beq a b = true then isTrue (V.eq_of_beq a b h)
  else isFalse (fun e => h (e ▸ V.beq_self a))

/-- code points of an ASCII literal of the source -/
def cps (x : String) : Str := x.toList.map Char.toNat

/-- a `str` literal -/
def lit (x : String) : V := .str (cps x)

/-- the integer value of an int-like object (`bool`, `int`, cstruct enum member) -/
def asInt : V → Option Int
  | .bool b => some (if b then 1 else 0)
  | .int n => some n
  | .enum _ v => some v
  | _ => none

/-! ### truth value, `==`, `is None`, ordering -/

/-- `bool(x)` -/
def truthy : V → Bool
  | .none => false
  | .bool b => b
  | .int n => n != 0
  | .bytes b => !b.isEmpty
  | .str s => !s.isEmpty
  | .list xs => !xs.isEmpty
  | .tuple xs => !xs.isEmpty
  | .dict ks _ => !ks.isEmpty
  | .bytesIO _ _ => true
  | .enum _ v => v != 0

/-- `x is None` -/
def isNone : V → Bool
  | .none => true
  | _ => false

mutual
/-- `a == b`: int-like objects compare by value, except that members of two *different* cstruct enum classes are never
equal (`Enum.__eq__` of dissect.cstruct); sequences element-wise; two `BytesIO` objects are compared by state (the
translator never lets one object have two names, so this only ever compares an object with itself).
Not modelled exactly: two dicts are equal here when they have equal items in the same insertion order (CPython ignores
the order). -/
def eq : V → V → Bool
  | .none, .none => true
  | .bool a, .bool b => a == b
  | .bool a, .int b => (if a then 1 else 0) == b
  | .bool a, .enum _ b => (if a then 1 else 0) == b
  | .int a, .bool b => a == (if b then 1 else 0)
  | .int a, .int b => a == b
  | .int a, .enum _ b => a == b
  | .enum _ a, .bool b => a == (if b then 1 else 0)
  | .enum _ a, .int b => a == b
  | .enum c a, .enum d b => c.cid == d.cid && a == b
  | .bytes a, .bytes b => a == b
  | .str a, .str b => a == b
  | .list a, .list b => eqL a b
  | .tuple a, .tuple b => eqL a b
  | .dict ks vs, .dict ks' vs' => eqL ks ks' && eqL vs vs'
  | .bytesIO a p, .bytesIO b q => a == b && p == q
  | _, _ => false
termination_by structural x => x
def eqL : List V → List V → Bool
  | [], [] => true
  | a :: as, b :: bs => eq a b && eqL as bs
  | _, _ => false
termination_by structural x => x
end

/-- lexicographic `<` on lists of naturals / bytes -/
def lexLt {α : Type} (lt : α → α → Bool) (beq : α → α → Bool) : List α → List α → Bool
  | [], [] => false
  | [], _ :: _ => true
  | _ :: _, [] => false
  | a :: as, b :: bs => lt a b || (beq a b && lexLt lt beq as bs)

/-- `a < b`: int-like with int-like, `bytes` with `bytes`, `str` with `str`; any other mixture is a TypeError.
Not modelled (TypeError): ordering of lists / tuples. -/
def lt (a b : V) : Py Bool :=
  match asInt a, asInt b with
  | some x, some y => .ok (decide (x < y))
  | _, _ =>
    match a, b with
    | .bytes x, .bytes y => .ok (lexLt (· < ·) (· == ·) x y)
    | .str x, .str y => .ok (lexLt (fun (m n : Nat) => decide (m < n)) (· == ·) x y)
    | _, _ => .error .typeError

/-- `a <= b` -/
def le (a b : V) : Py Bool := (lt b a).map (!·)
/-- `a > b` -/
def gt (a b : V) : Py Bool := lt b a
/-- `a >= b` -/
def ge (a b : V) : Py Bool := (lt a b).map (!·)

/-! ### arithmetic -/

/-- `a + b`: int-like + int-like, or two sequences of the same kind -/
def add (a b : V) : Py V :=
  match asInt a, asInt b with
  | some x, some y => .ok (.int (x + y))
  | _, _ =>
    match a, b with
    | .bytes x, .bytes y => .ok (.bytes (x ++ y))
    | .str x, .str y => .ok (.str (x ++ y))
    | .list x, .list y => .ok (.list (x ++ y))
    | .tuple x, .tuple y => .ok (.tuple (x ++ y))
    | _, _ => .error .typeError

/-- `a += b` for a name that holds an immutable value (`x = x + b`).  Not modelled (TypeError): a `list` target, which
CPython extends in place. -/
def iadd (a b : V) : Py V :=
  match a with
  | .list _ => .error .typeError
  | _ => add a b

/-- the int-like operands of a binary integer operator -/
def ints2 (a b : V) : Py (Int × Int) :=
  match asInt a, asInt b with
  | some x, some y => .ok (x, y)
  | _, _ => .error .typeError

/-- `a - b` (int-like only) -/
def sub (a b : V) : Py V := (ints2 a b).map fun p => .int (p.1 - p.2)

/-- `a * b`: int-like * int-like, or a sequence repeated (`n <= 0` gives the empty sequence) -/
def mul (a b : V) : Py V :=
  match asInt a, asInt b with
  | some x, some y => .ok (.int (x * y))
  | _, _ =>
    let rep {α : Type} (l : List α) (n : Int) : List α := (List.replicate n.toNat l).flatten
    match a, asInt b, asInt a, b with
    | .bytes x, some n, _, _ => .ok (.bytes (rep x n))
    | .str x, some n, _, _ => .ok (.str (rep x n))
    | .list x, some n, _, _ => .ok (.list (rep x n))
    | .tuple x, some n, _, _ => .ok (.tuple (rep x n))
    | _, _, some n, .bytes x => .ok (.bytes (rep x n))
    | _, _, some n, .str x => .ok (.str (rep x n))
    | _, _, some n, .list x => .ok (.list (rep x n))
    | _, _, some n, .tuple x => .ok (.tuple (rep x n))
    | _, _, _, _ => .error .typeError

/-- `a // b`, `a % b`, `a & b`, `a | b`, `a ^ b`, `a << b`, `a >> b`, `-a` on int-like operands (semantics: `PyRt`).
Not modelled (TypeError): `%` as string formatting, `|` on dicts / sets. -/
def floordiv (a b : V) : Py V := do let p ← ints2 a b; let r ← PyRt.floordiv p.1 p.2; pure (.int r)
def mod (a b : V) : Py V := do let p ← ints2 a b; let r ← PyRt.mod p.1 p.2; pure (.int r)
/-- the bit-wise operators keep `bool` when both operands are `bool` -/
def bitop (f : Int → Int → Int) (a b : V) : Py V :=
  match a, b with
  | .bool x, .bool y => .ok (.bool (f (if x then 1 else 0) (if y then 1 else 0) != 0))
  | _, _ => (ints2 a b).map fun p => .int (f p.1 p.2)
def band (a b : V) : Py V := bitop PyRt.band a b
def bor (a b : V) : Py V := bitop PyRt.bor a b
def bxor (a b : V) : Py V := bitop PyRt.bxor a b
def shl (a b : V) : Py V := do let p ← ints2 a b; let r ← PyRt.shl p.1 p.2; pure (.int r)
def shr (a b : V) : Py V := do let p ← ints2 a b; let r ← PyRt.shr p.1 p.2; pure (.int r)
def neg (a : V) : Py V :=
  match asInt a with
  | some x => .ok (.int (-x))
  | none => .error .typeError

/-! ### containers -/

/-- `len(x)`; for a cstruct enum member: the size of the underlying integer type (`BaseType.__len__`) -/
def len : V → Py V
  | .enum cls _ => .ok (.int cls.size)
  | .bytes b => .ok (.int b.length)
  | .str s => .ok (.int s.length)
  | .list xs => .ok (.int xs.length)
  | .tuple xs => .ok (.int xs.length)
  | .dict ks _ => .ok (.int ks.length)
  | _ => .error .typeError

mutual
/-- `hash(x)` succeeds: no `list` / `dict` inside -/
def hashable : V → Bool
  | .list _ => false
  | .dict _ _ => false
  | .tuple xs => hashableL xs
  | _ => true
termination_by structural x => x
def hashableL : List V → Bool
  | [] => true
  | x :: xs => hashable x && hashableL xs
termination_by structural x => x
end

/-- two keys select the same dict entry: equal, and both or neither a cstruct enum member (an enum member hashes as the
tuple `(class, name, value)`, not as its integer value) -/
def keyEq (a b : V) : Bool :=
  eq a b && (match a, b with
    | .enum _ _, .enum _ _ => true
    | .enum _ _, _ => false
    | _, .enum _ _ => false
    | _, _ => true)

/-- position of a key -/
def findKey (k : V) : List V → List V → Option V
  | k' :: ks, v :: vs => if keyEq k k' then some v else findKey k ks vs
  | _, _ => none

/-- replace the value stored under a key that is present -/
def setKey (k v : V) : List V → List V → List V
  | k' :: ks, v' :: vs => if keyEq k k' then v :: vs else v' :: setKey k v ks vs
  | _, vs => vs

/-- one `d[k] = v` of a dict display -/
def dictInsert (d : List V × List V) (k v : V) : List V × List V :=
  match findKey k d.1 d.2 with
  | some _ => (d.1, setKey k v d.1 d.2)
  | none => (d.1 ++ [k], d.2 ++ [v])

/-- the dict display `{k1: v1, k2: v2, …}` (a later duplicate key overwrites the value, an unhashable key is a TypeError) -/
def mkDict (items : List (V × V)) : Py V :=
  if items.all (fun kv => hashable kv.1) then
    let d := items.foldl (fun d kv => dictInsert d kv.1 kv.2) ([], [])
    .ok (.dict d.1 d.2)
  else .error .typeError

/-- `d.get(k, default)` -/
def dictGet (d k dflt : V) : Py V :=
  match d with
  | .dict ks vs =>
    if hashable k then .ok ((findKey k ks vs).getD dflt) else .error .typeError
  | _ => .error .attributeError

/-- first occurrence of a non-empty `sep` in `xs`: (before, after) -/
def splitAt? {α : Type} [BEq α] (sep : List α) : List α → Option (List α × List α)
  | [] => none
  | x :: xs =>
    if sep.isPrefixOf (x :: xs) then some ([], (x :: xs).drop sep.length)
    else (splitAt? sep xs).map fun p => (x :: p.1, p.2)

/-- `x in c` -/
def contains (c x : V) : Py Bool :=
  match c with
  | .list xs => .ok (xs.any (eq x))
  | .tuple xs => .ok (xs.any (eq x))
  | .dict ks vs => if hashable x then .ok (findKey x ks vs).isSome else .error .typeError
  | .bytes b =>
    match x with
    | .bytes y => .ok (y.isEmpty || (splitAt? y b).isSome)
    | _ =>
      match asInt x with
      | some n => if 0 ≤ n ∧ n < 256 then .ok (b.contains (UInt8.ofNat n.toNat)) else .error .valueError
      | none => .error .typeError
  | .str t =>
    match x with
    | .str y => .ok (y.isEmpty || (splitAt? y t).isSome)
    | _ => .error .typeError
  | _ => .error .typeError

/-- `x[i]` for an int-like index (sequences) or a key (dict: KeyError) -/
def getItem (x i : V) : Py V :=
  match x with
  | .dict ks vs =>
    if hashable i then (match findKey i ks vs with | some v => .ok v | none => .error .keyError) else .error .typeError
  | .bytes b => match asInt i with
    | some n => (PyRt.normIdx b.length n).map fun j => .int ((b.getD j 0).toNat)
    | none => .error .typeError
  | .str t => match asInt i with
    | some n => (PyRt.normIdx t.length n).map fun j => .str [t.getD j 0]
    | none => .error .typeError
  | .list xs => match asInt i with
    | some n => (PyRt.normIdx xs.length n).map fun j => xs.getD j .none
    | none => .error .typeError
  | .tuple xs => match asInt i with
    | some n => (PyRt.normIdx xs.length n).map fun j => xs.getD j .none
    | none => .error .typeError
  | _ => .error .typeError

/-- a slice bound: `None` or int-like -/
def bound : V → Py (Option Int)
  | .none => .ok none
  | v => match asInt v with
    | some n => .ok (some n)
    | none => .error .typeError

/-- `x[lo:hi]` for a sequence (bounds `None` or int-like); a dict looks the `slice` object up as a key (hashable since
Python 3.12, never present: KeyError) -/
def slice (x lo hi : V) : Py V :=
  match x with
  | .dict _ _ => if hashable lo && hashable hi then .error .keyError else .error .typeError
  | _ => do
    let a ← bound lo
    let b ← bound hi
    match x with
    | .bytes d => pure (.bytes (PyRt.slice d a b))
    | .str d => pure (.str (PyRt.slice d a b))
    | .list d => pure (.list (PyRt.slice d a b))
    | .tuple d => pure (.tuple (PyRt.slice d a b))
    | _ => throw .typeError

/-- the items an unpacking assignment iterates over -/
def iterList : V → Py (List V)
  | .list xs => .ok xs
  | .tuple xs => .ok xs
  | .bytes b => .ok (b.map fun x => .int x.toNat)
  | .str t => .ok (t.map fun c => .str [c])
  | .dict ks _ => .ok ks
  | _ => .error .typeError

/-- `a, b = x` -/
def unpack2 (x : V) : Py (V × V) := do
  match ← iterList x with
  | [a, b] => pure (a, b)
  | _ => throw .valueError

/-- `a, b, c = x` -/
def unpack3 (x : V) : Py (V × V × V) := do
  match ← iterList x with
  | [a, b, c] => pure (a, b, c)
  | _ => throw .valueError

/-- `xs.append(x)`: the new list -/
def append (xs x : V) : Py V :=
  match xs with
  | .list l => .ok (.list (l ++ [x]))
  | _ => .error .attributeError

/-! ### io.BytesIO -/

/-- `io.BytesIO(x)` (`None`: empty) -/
def newBytesIO : V → Py V
  | .none => .ok (.bytesIO [] 0)
  | .bytes b => .ok (.bytesIO b 0)
  | _ => .error .typeError

/-- `p.read(n)`: the data and the object afterwards; `None` or a negative count reads to the end, at the end the
result is short / empty (never raises for an int-like or `None` count) -/
def read (p n : V) : Py (V × V) :=
  match p with
  | .bytesIO data pos =>
    let rest := data.drop pos
    match n with
    | .none => .ok (.bytes rest, .bytesIO data (pos + rest.length))
    | _ =>
      match asInt n with
      | some k =>
        let r := if k < 0 then rest else rest.take k.toNat
        .ok (.bytes r, .bytesIO data (pos + r.length))
      | none => .error .typeError
  | _ => .error .attributeError

/-! ### cstruct enums -/

def beNat : Bytes → Nat → Nat
  | [], acc => acc
  | b :: bs, acc => beNat bs (acc * 256 + b.toNat)

/-- `Cls(x)`: `None` → the default value 0, an int-like value → that value (undefined values are allowed, a member of the
same class is returned as it is), `bytes` → one integer of the underlying type read from the front (EOFError when short).
Not modelled (TypeError; CPython: mostly ValueError / stream reads): `str`, `BytesIO`, members of another enum class. -/
def enumCall (cls : EnumCls) : V → Py V
  | .none => .ok (.enum cls 0)
  | .bool b => .ok (.enum cls (if b then 1 else 0))
  | .int n => .ok (.enum cls n)
  | .enum c v => if c.cid = cls.cid then .ok (.enum c v) else .error .typeError
  | .bytes d =>
    if d.length < cls.size then .error .eofError
    else
      let raw := d.take cls.size
      .ok (.enum cls (beNat (if cls.bigEndian then raw else raw.reverse) 0))
  | _ => .error .typeError

/-- `Cls.NAME` -/
def enumMember (cls : EnumCls) (name : String) : Py V :=
  match cls.members.find? (·.2 == name) with
  | some m => .ok (.enum cls m.1)
  | none => .error .attributeError

/-- `x.name` / `x.value` (the translator accepts these two attribute names only): of an enum member, the name (`None`
for an undefined value) and the integer; every other kind of object here has neither attribute -/
def getAttr (x : V) (attr : String) : Py V :=
  match x with
  | .enum cls v =>
    if attr == "name" then
      .ok (if v < 0 then .none else
        match cls.members.find? (·.1 == v.toNat) with
        | some m => lit m.2
        | none => .none)
    else if attr == "value" then .ok (.int v)
    else .error .attributeError
  | _ => .error .attributeError

/-! ### bytes / str methods -/

def rstripL {α : Type} (p : α → Bool) (l : List α) : List α := (l.reverse.dropWhile p).reverse

/-- ASCII whitespace (the default strip set of `bytes`; for `str` CPython also strips the other Unicode spaces) -/
def isSpace (n : Nat) : Bool := n == 32 || (9 ≤ n && n ≤ 13)

/-- `x.rstrip(chars)`: `bytes` with a `bytes` / `None` argument, `str` with a `str` / `None` argument; a receiver
without that method is an AttributeError.  Not modelled exactly: `str.rstrip(None)` strips ASCII whitespace and
U+001C..U+001F, U+0085, U+00A0 only. -/
def rstrip (x chars : V) : Py V :=
  match x with
  | .bytes b =>
    match chars with
    | .none => .ok (.bytes (rstripL (fun c => isSpace c.toNat) b))
    | .bytes cs => .ok (.bytes (rstripL (fun c => cs.contains c) b))
    | _ => .error .typeError
  | .str t =>
    match chars with
    | .none => .ok (.str (rstripL (fun c => isSpace c || (28 ≤ c && c ≤ 31) || c == 133 || c == 160) t))
    | .str cs => .ok (.str (rstripL (fun c => cs.contains c) t))
    | _ => .error .typeError
  | _ => .error .attributeError

/-- `x.partition(sep)` for `bytes` / `str`: a 3-tuple; empty separator ValueError -/
def partition (x sep : V) : Py V :=
  match x with
  | .bytes b =>
    match sep with
    | .bytes s =>
      if s.isEmpty then .error .valueError
      else match splitAt? s b with
        | some p => .ok (.tuple [.bytes p.1, .bytes s, .bytes p.2])
        | none => .ok (.tuple [.bytes b, .bytes [], .bytes []])
    | _ => .error .typeError
  | .str t =>
    match sep with
    | .str s =>
      if s.isEmpty then .error .valueError
      else match splitAt? s t with
        | some p => .ok (.tuple [.str p.1, .str s, .str p.2])
        | none => .ok (.tuple [.str t, .str [], .str []])
    | _ => .error .typeError
  | _ => .error .attributeError

def isCont (b : UInt8) : Bool := 0x80 ≤ b && b ≤ 0xBF

/-- strict UTF-8 (no overlong forms, no surrogates, ≤ U+10FFFF); any defect is a UnicodeDecodeError (a ValueError) -/
def utf8 (s : Bytes) : Py Str :=
  match s with
  | [] => .ok []
  | b0 :: rest =>
    if b0 < 0x80 then (utf8 rest).map (b0.toNat :: ·)
    else if 0xC2 ≤ b0 ∧ b0 ≤ 0xDF then
      match rest with
      | b1 :: r =>
        if isCont b1 then (utf8 r).map (((b0.toNat - 0xC0) * 64 + (b1.toNat - 0x80)) :: ·)
        else .error .valueError
      | _ => .error .valueError
    else if 0xE0 ≤ b0 ∧ b0 ≤ 0xEF then
      match rest with
      | b1 :: b2 :: r =>
        if isCont b1 ∧ isCont b2 ∧ (b0 = 0xE0 → 0xA0 ≤ b1) ∧ (b0 = 0xED → b1 ≤ 0x9F) then
          (utf8 r).map (((b0.toNat - 0xE0) * 4096 + (b1.toNat - 0x80) * 64 + (b2.toNat - 0x80)) :: ·)
        else .error .valueError
      | _ => .error .valueError
    else if 0xF0 ≤ b0 ∧ b0 ≤ 0xF4 then
      match rest with
      | b1 :: b2 :: b3 :: r =>
        if isCont b1 ∧ isCont b2 ∧ isCont b3 ∧ (b0 = 0xF0 → 0x90 ≤ b1) ∧ (b0 = 0xF4 → b1 ≤ 0x8F) then
          (utf8 r).map (((b0.toNat - 0xF0) * 262144 + (b1.toNat - 0x80) * 4096
            + (b2.toNat - 0x80) * 64 + (b3.toNat - 0x80)) :: ·)
        else .error .valueError
      | _ => .error .valueError
    else .error .valueError
termination_by structural s

/-- `x.decode()` / `x.decode("utf-8")` with `errors="strict"` -/
def decodeUtf8 : V → Py V
  | .bytes b => (utf8 b).map .str
  | _ => .error .attributeError

/-- `x.decode("latin-1", <any error handler>)`: every byte is a code point, nothing is ever rejected -/
def decodeLatin1 : V → Py V
  | .bytes b => .ok (.str (b.map (·.toNat)))
  | _ => .error .attributeError

/-! ### `format` -/

def decStr (n : Int) : Str :=
  if n < 0 then 45 :: (Nat.toDigits 10 n.natAbs).map Char.toNat else (Nat.toDigits 10 n.toNat).map Char.toNat

def hexStr (n : Int) : Str :=
  if n < 0 then 45 :: (Nat.toDigits 16 n.natAbs).map Char.toNat else (Nat.toDigits 16 n.toNat).map Char.toNat

/-- `format(v, spec)` as used by `"{}".format(v)`, `"{:x}".format(v)` and f-strings, for the two format specs the
translator accepts (`""` and `"x"`).  Not modelled (TypeError): `""` on bytes / list / tuple / dict / BytesIO (their
`repr`) and on enum members (`Cls.NAME`). -/
def fmt (v : V) (spec : String) : Py Str :=
  if spec == "" then
    match v with
    | .none => .ok (cps "None")
    | .bool b => .ok (cps (if b then "True" else "False"))
    | .int n => .ok (decStr n)
    | .str t => .ok t
    | _ => .error .typeError
  else if spec == "x" then
    match v with
    | .bool b => .ok (cps (if b then "1" else "0"))
    | .int n => .ok (hexStr n)
    | .enum _ n => .ok (hexStr n)
    | .str _ => .error .valueError
    | _ => .error .typeError
  else .error .valueError

/-! ### calls of typed translations (`Gen.PyUtils`) -/

/-- apply a function of utils.py translated by the typed translator (`data: bytes → int`, body `int.from_bytes(data[:size], …)`)
to a dynamic value: `None` / int-likes / `BytesIO` are not subscriptable and a `str` slice is not bytes-like (TypeError), a
dict has no `slice` key (KeyError).  Not modelled (TypeError): lists / tuples (of ints: accepted by `int.from_bytes`). -/
def liftBytesInt (f : Bytes → Py Int) : V → Py V
  | .bytes d => (f d).map .int
  | .dict _ _ => .error .keyError
  | _ => .error .typeError

/-! ### loops -/

inductive Ctl
  | cont
  | brk
  deriving DecidableEq, Repr

/-- `while True: body` with at most `fuel` iterations of the body; the body answers `brk` (a `break`, or a false loop
condition) or `cont` (end of the body / `continue`) together with the new values of the loop variables -/
def whileFuel {σ : Type} : Nat → (σ → Py (Ctl × σ)) → σ → Py σ
  | 0, _, _ => .error .timeoutDiverge
  | n + 1, body, st =>
    match body st with
    | .error e => .error e
    | .ok (.brk, st') => .ok st'
    | .ok (.cont, st') => whileFuel n body st'

end PyU

import CsVerif.Model.PyU
import CsVerif.Model.PyU_T12
/-
PyU_T11 — additions to the run-time library of the untyped translator (`tools/py2leanu.py`, `Model/PyU.lean`) for the
dictionary view and the block-builder API of c2profile.py (`C2Profile.as_dict`, `ConfigBlock` and its subclasses; generated
unit `Gen/PyC2Dict.lean`, plug-in `tools/gen/py_c2dict.py`).  Every definition carries the prefix `t11`.

  * `lark.Token` is a SUBCLASS OF `str`: an object `V.inst tok [type, value]` (class descriptor `tok`, handed to every
    operation) whose `value` is a `str` takes part in `==`, `in`, `sep.join(…)`, `str(…)`, `tuple(…)`, `repr(…)` as the text
    it carries (`t11View`).  `Token.__eq__` of lark 1.x: two Tokens of different `type` are never equal, otherwise the texts
    are compared.  A Token whose `value` is not a `str` (lark stores `str(value)` as the text and keeps `value` as it is) is
    NOT modelled: such an object is treated like any other instance.
  * list methods `xs.pop()` / `xs.extend(ys)`, the builtins `str(x)`, `tuple(x)`, `dict(x)`, `repr(x)`;
  * `collections.defaultdict(list)`: the object `V.inst t11DdCls [dict]` (so that it can be told from a plain `dict`),
    the statement `d[k].append(v)` (`t11DdAppend`), `dict(d)` (`t11DictOf`).

Same conventions as `PyU.lean`: total functions, CPython 3.12's raising branches explicit, operand kinds that are not modelled
answer TypeError and are named in the doc comment; validated against CPython / lark on random operands by the `pyu` stream of
C11 (tools/harness/pyuval_t11.py).  No imports besides `PyU` / `PyU_T12` (must link into the compiled drivers).
-/
namespace PyU
open PyRt (Str)

/-! ### `lark.Token` as a `str` -/

/-- a `Token` whose value is a `str` is seen as that `str`; everything else as it is -/
def t11View (tok : Cls) : V → V
  | .inst c [ty, .str s] => if c.cid == tok.cid then .str s else .inst c [ty, .str s]
  | v => v

/-- `a == b` with `Token.__eq__`: two Tokens (with `str` values) are equal when their types are equal (`==`) and their texts
are equal; a Token and any other object are compared through the Token's text (`str.__eq__`).  Not modelled exactly:
Tokens INSIDE containers are compared as instances (type and value equal — the same answer for two Tokens, `False` for a
Token against a plain `str`). -/
def t11Eq (tok : Cls) (a b : V) : Bool :=
  match a, b with
  | .inst c [ta, .str sa], .inst d [tb, .str sb] =>
    if c.cid == tok.cid && d.cid == tok.cid then eq ta tb && sa == sb
    else eq (t11View tok a) (t11View tok b)
  | _, _ => eq (t11View tok a) (t11View tok b)

/-- `x in c`: a `str` / Token container is searched for the text of `x` (a `str` or a Token, else TypeError); the items of a
list / tuple are compared with `t11Eq`; every other container as `PyU.contains` -/
def t11Contains (tok : Cls) (c x : V) : Py Bool :=
  match t11View tok c with
  | .str t =>
    match t11View tok x with
    | .str y => .ok (y.isEmpty || (splitAt? y t).isSome)
    | _ => .error .typeError
  | .list xs => .ok (xs.any (t11Eq tok x))
  | .tuple xs => .ok (xs.any (t11Eq tok x))
  | c' => contains c' x

/-- `sep.join(xs)` where Tokens count as the `str`s they are (separator, iterable and items) -/
def t11Join (tok : Cls) (sep xs : V) : Py V :=
  match iterList (t11View tok xs) with
  | .ok items => join (t11View tok sep) (.list (items.map (t11View tok)))
  | .error _ => join (t11View tok sep) (t11View tok xs)

/-- `str(x)`: `None`, `bool`, `int`, `str` (a Token gives a plain `str` with its text), `bytes` (its `repr`).
Not modelled (TypeError): containers, BytesIO, enum members, other instances. -/
def t11StrOf (tok : Cls) (x : V) : Py V :=
  match t11View tok x with
  | .none => .ok (lit "None")
  | .bool b => .ok (lit (if b then "True" else "False"))
  | .int n => .ok (.str (decStr n))
  | .str s => .ok (.str s)
  | .bytes b => .ok (.str (reprBytes b))
  | _ => .error .typeError

/-- `tuple(x)`: the items of an iterable (`iterList`; a Token is iterated as the `str` it is); not iterable: TypeError -/
def t11TupleOf (tok : Cls) (x : V) : Py V := (iterList (t11View tok x)).map .tuple

mutual
/-- `repr(x)` as `PyU.repr`, with `Token(type, value)` objects (`Token.__repr__`: `Token(%r, %r)`) -/
def t11Repr (tok : Cls) : V → Py Str
  | .none => .ok (cps "None")
  | .bool b => .ok (cps (if b then "True" else "False"))
  | .int n => .ok (decStr n)
  | .bytes b => .ok (reprBytes b)
  | .str t => .ok (reprStr t)
  | .list xs =>
    match t11ReprL tok xs with
    | .ok r => .ok (91 :: r ++ [93])
    | .error e => .error e
  | .tuple xs =>
    match t11ReprL tok xs with
    | .ok r => .ok (if xs.length == 1 then 40 :: r ++ [44, 41] else 40 :: r ++ [41])
    | .error e => .error e
  | .inst c xs =>
    if c.cid == tok.cid && xs.length == 2 then
      match t11ReprL tok xs with
      | .ok r => .ok (cps "Token(" ++ r ++ [41])
      | .error e => .error e
    else .error .typeError
  | _ => .error .typeError
termination_by structural x => x
def t11ReprL (tok : Cls) : List V → Py Str
  | [] => .ok []
  | x :: xs =>
    match t11Repr tok x, t11ReprL tok xs with
    | .ok a, .ok b => .ok (if xs.isEmpty then a else a ++ [44, 32] ++ b)
    | .error e, _ => .error e
    | _, .error e => .error e
termination_by structural x => x
end

/-- `repr(x)` as a value -/
def t11ReprV (tok : Cls) (x : V) : Py V := (t11Repr tok x).map .str

/-! ### list methods -/

/-- `xs.pop()`: the last item and the list without it (empty: IndexError); `dict.pop()` without a key is a TypeError; every
other kind of object here has no `pop` (AttributeError) -/
def t11Pop (xs : V) : Py (V × V) :=
  match xs with
  | .list l =>
    match l.getLast? with
    | some x => .ok (x, .list l.dropLast)
    | none => .error .indexError
  | .dict _ _ => .error .typeError
  | _ => .error .attributeError

/-- `xs.extend(ys)`: the new list (`ys` any iterable, a Token as the `str` it is; not iterable: TypeError); a receiver that is
not a list has no `extend` (AttributeError) -/
def t11Extend (tok : Cls) (xs ys : V) : Py V :=
  match xs with
  | .list l =>
    match iterList (t11View tok ys) with
    | .ok items => .ok (.list (l ++ items))
    | .error _ => .error .typeError
  | _ => .error .attributeError

/-! ### `collections.defaultdict(list)` -/

/-- the class of the objects `collections.defaultdict(list)` makes: one field, the `dict` of the items -/
def t11DdCls : Cls := { cid := 1100, fields := ["items"], isTuple := false, bases := [] }

/-- `collections.defaultdict(list)` -/
def t11DdNew : V := .inst t11DdCls [.dict [] []]

/-- the list stored under the key gets one more item -/
def t11AppendAt (k v : V) : List V → List V → Py (List V)
  | k' :: ks, x :: xs =>
    if keyEq k k' then (append x v).map (· :: xs) else (t11AppendAt k v ks xs).map (x :: ·)
  | _, vs => .ok vs

/-- the statement `d[k].append(v)`: for a `defaultdict(list)` a missing key is inserted with `[v]`; for a plain `dict` a
missing key is a KeyError; an unhashable key is a TypeError; a stored value that is not a list has no `append`
(AttributeError).  Not modelled (TypeError): every other kind of `d` (a list of lists, …). -/
def t11DdAppend (d k v : V) : Py V :=
  match d with
  | .inst c [.dict ks vs] =>
    if c.cid == t11DdCls.cid then
      if hashable k then
        match findKey k ks vs with
        | some _ => (t11AppendAt k v ks vs).map fun vs' => .inst c [.dict ks vs']
        | none => .ok (.inst c [.dict (ks ++ [k]) (vs ++ [.list [v]])])
      else .error .typeError
    else .error .typeError
  | .dict ks vs =>
    if hashable k then
      match findKey k ks vs with
      | some _ => (t11AppendAt k v ks vs).map fun vs' => .dict ks vs'
      | none => .error .keyError
    else .error .typeError
  | _ => .error .typeError

/-- `dict(x)` for a `dict` (a copy) or a `defaultdict(list)` (a plain `dict` with the same items).
Not modelled (TypeError): an iterable of pairs. -/
def t11DictOf (x : V) : Py V :=
  match x with
  | .dict ks vs => .ok (.dict ks vs)
  | .inst c [.dict ks vs] => if c.cid == t11DdCls.cid then .ok (.dict ks vs) else .error .typeError
  | _ => .error .typeError

end PyU

import CsVerif.Lemmas.C17Gen
import CsVerif.Props.C20Gen
/-!
C17 — compiled-code replacements for the typed translations of `payload_checksum` (`Gen/PyGuard.lean`) and `utils.xor`
(`Gen/PyUtils.lean`).

The translated definition indexes the byte list once per byte (`data[i]`), which is quadratic on Lean lists; the selection loop
translated from `iter_guardrail_configs_with_beacon` (`Gen/PyGuardU.lean`) calls it on a 6144-byte area for up to 510 candidate keys
per record.  The compiler is told — by the proved equation `C17Gen.payload_checksum_eq'` (`Lemmas/C17Gen.lean`, no axioms) — to run
the linear model function instead, in every definition compiled AFTER this file (the generated unit `Gen/PyGuardU.lean` imports it).
Logically nothing changes: the definitions and every theorem keep talking about `Gen.PyGuard.payload_checksum`.
The `g-cks` stream of the driver, which validates the typed translation itself, runs `payloadChecksumT` below — compiled here,
before the replacement exists, so it executes the translated definition as generated.
-/
namespace C17Gen

/-- the typed translation as generated (compiled before the replacement below is declared; used by the `g-cks` stream) -/
@[noinline] def payloadChecksumT (d : Bytes) : Py Int := Gen.PyGuard.payload_checksum d

def payloadChecksumFast (d : Bytes) : Py Int := .ok ((C17.payloadChecksum d : Nat) : Int)

@[csimp] theorem payload_checksum_eq_fast : @Gen.PyGuard.payload_checksum = @payloadChecksumFast := by
  funext d
  exact payload_checksum_eq' d

/-- The typed translation of `utils.xor` converts both operands to unbounded integers (`int.from_bytes`, quadratic on lists of
6144 bytes); the selection loop calls it once per candidate key.  Compiled code (of the definitions compiled after this file: the
generated unit `Gen/PyGuardU.lean`; the `g-*` streams of C20 / C15 that validate the typed translation itself are other
executables) runs the array-based `C17.xorFast` instead — justified by `C20Gen.gen_xor` (translated = `C20.xor`) and
`C17.xor_eq_xorFast`, no axioms. -/
def xorT (d k : Bytes) : Py Bytes := .ok (C17.xorFast d k)

@[csimp] theorem xor_eq_fast : @Gen.PyUtils.xor = @xorT := by
  funext d k
  rw [C20Gen.gen_xor]
  unfold xorT
  rw [C17.xor_eq_xorFast]

end C17Gen

import CsVerif.Model.PyU_T15
import CsVerif.Gen.PyXor
/-
PyU_T01 — additions to the run-time library of the untyped translator (`tools/py2leanu.py`) for the configuration extraction
of C01 (`beacon.find_beacon_config_bytes`, `iter_beacon_config_blocks`, `BeaconConfig.from_file`; plug-in gen/py_extractu.py):

  * FILE-LIKE OBJECTS WITH DYNAMIC DISPATCH.  `find_beacon_config_bytes(fh, xorkey)` is called with an ordinary binary file
    (`PyU.mkFile`, Model/PyU_T15.lean) and with an `XorEncodedFile` view over one.  A view is the instance
    `.inst Gen.PyXor.XorEncodedFile [file, nonce_offset, initial_nonce, nonced_filesize]` that OWNS its file (Gen/PyXor.lean).
    `fh.read(n)` / `fh.seek(off)` / `fh.tell()` look at the class of the receiver: an instance of `XorEncodedFile` runs the method
    TRANSLATED from xordecode.py (`Gen.PyXor.XorEncodedFile_read / _seek_default1 / _tell`, which answer `(result, self afterwards)`),
    everything else the file operation of `PyU_T15` (a receiver that is not a file object has no such method: AttributeError).
    All three answer the result AND the object afterwards.
  * a HANDLE is how the caller of `XorEncodedFile.from_file(fobj)` refers to the file-like object it got while `fobj` — the one
    underlying file, threaded as a value — goes on being used directly: the view WITHOUT its file (`t01Detach`), or `t01Self`
    (the file itself: `fxor = fobj`).  `t01Attach h fobj` is the file-like object the handle stands for, `t01Store` takes the
    underlying file out again.  Exact because the translated methods of the view change nothing but the file inside it.
  * `b.hex()`, and `str()` of a value as an f-string field prints it;
  * the order of the residual keys of the all-keys retry: `make_byte_list` (pinned to its source text by the plug-in), `list.index`,
    `list.sort(key=…)` with the keys computed beforehand, `p8`.
No imports besides `PyU_T15` and the generated `Gen.PyXor` (must link into the compiled drivers).
-/
namespace PyU

/-! ### dynamic dispatch of `read` / `seek` / `tell` -/

/-- is the value an instance of the class `xordecode.XorEncodedFile` (as translated in Gen/PyXor.lean)? -/
def t01IsView : V → Bool
  | .inst c _ => c == Gen.PyXor.XorEncodedFile
  | _ => false

/-- `(result, self afterwards)` as a translated method answers it -/
def t01Pair (r : Py V) : Py (V × V) :=
  match r with
  | .error e => .error e
  | .ok (.tuple [a, b]) => .ok (a, b)
  | .ok _ => .error .typeError

/-- `f.read(n)` (one argument) -/
def t01Read (fuel : Nat) (f n : V) : Py (V × V) :=
  if t01IsView f then t01Pair (Gen.PyXor.XorEncodedFile_read fuel f n) else fileRead f n

/-- `f.seek(off)` (one argument: `whence` is left to the default of the method that is called) -/
def t01Seek (f off : V) : Py (V × V) :=
  if t01IsView f then t01Pair (Gen.PyXor.XorEncodedFile_seek_default1 f off) else fileSeek f off (.int 0)

/-- `f.tell()` -/
def t01Tell (f : V) : Py (V × V) :=
  if t01IsView f then t01Pair (Gen.PyXor.XorEncodedFile_tell f)
  else
    match fileTell f with
    | .error e => .error e
    | .ok p => .ok (p, f)

/-! ### handles -/

/-- class of the one value `t01Self` -/
def T01SelfCls : Cls := { cid := 9010, fields := [], isTuple := false, bases := [] }

/-- the handle "the underlying file itself" (`fxor = fobj`); also the place holder for the file inside a detached view -/
def t01Self : V := .inst T01SelfCls []

/-- the file-like object a handle stands for, given the underlying file: the file itself, or the view with the file inside -/
def t01Attach (h file : V) : Py V :=
  match h with
  | .inst c (slot :: rest) =>
    if c == Gen.PyXor.XorEncodedFile ∧ slot == t01Self then .ok (.inst c (file :: rest)) else .error .typeError
  | .inst c [] => if c == T01SelfCls then .ok file else .error .typeError
  | _ => .error .typeError

/-- the underlying file of a file-like object (the file inside a view; an ordinary file is its own underlying file) -/
def t01Store (x : V) : V :=
  match x with
  | .inst c (file :: _) => if c == Gen.PyXor.XorEncodedFile then file else x
  | _ => x

/-- the handle of a file-like object: a view without its file; `t01Self` for an ordinary file -/
def t01Detach (x : V) : V :=
  match x with
  | .inst c (_ :: rest) => if c == Gen.PyXor.XorEncodedFile then .inst c (t01Self :: rest) else t01Self
  | _ => t01Self

/-! ### `bytes.hex()` -/

/-- `x.hex()` (no arguments) for a `bytes` receiver: two lowercase hex digits per byte; other kinds of receiver have no
`hex` method here (AttributeError; not modelled: `float.hex`, `bytearray`, `memoryview`) -/
def t01Hex (x : V) : Py V :=
  match x with
  | .bytes b => .ok (.str (b.flatMap fun c => (Hex.ofByte c).map Char.toNat))
  | _ => .error .attributeError

/-! ### the order of the residual keys: `make_byte_list`, `list.index`, `list.sort(key=…)`, `p8` -/

/-- apply a typed translation `int → bytes` of Gen/PyUtils.lean (`utils.p8`: `n.to_bytes(1, …)`) to a dynamic value; a value that is
not an int has no `to_bytes` (AttributeError) -/
def t01LiftIntBytes (f : Int → Py Bytes) (n : V) : Py V :=
  match asInt n with
  | some v => (f v).map .bytes
  | none => .error .attributeError

/-- `beacon.make_byte_list(exclude)` = `sorted({p8(x) for x in range(256)} - set(exclude or []))` (the plug-in checks that the
source of the function is this very expression): the 256 one-byte `bytes` objects in ascending order without those that occur
in `exclude`.  `set(…)` of something that cannot be iterated, or of an unhashable item, is a TypeError. -/
def t01MakeByteList (exclude : V) : Py V :=
  let ex := if truthy exclude then exclude else .list []
  match iterList ex with
  | .error _ => .error .typeError
  | .ok items =>
    if items.all hashable then
      .ok (.list (((List.range 256).map fun n => V.bytes [UInt8.ofNat n]).filter fun k => !(items.any fun i => eq k i)))
    else .error .typeError

/-- position of the first item equal to `x` -/
def t01IndexGo (x : V) : List V → Nat → Option Nat
  | [], _ => none
  | y :: ys, i => if eq y x then some i else t01IndexGo x ys (i + 1)

/-- `xs.index(x)` for a list / tuple receiver: the first position of an equal item, ValueError when there is none.  Not modelled
(TypeError): `bytes.index` / `str.index`; a receiver of another kind has no `index` (AttributeError). -/
def t01Index (xs x : V) : Py V :=
  match xs with
  | .list l | .tuple l =>
    match t01IndexGo x l 0 with
    | some i => .ok (.int (i : Int))
    | none => .error .valueError
  | .bytes _ | .str _ => .error .typeError
  | _ => .error .attributeError

/-- insert `(k, v)` in front of a list sorted by key, behind no entry: before the first entry whose key is not smaller -/
def t01InsertByKey (k : Int) (v : V) : List (Int × V) → List (Int × V)
  | [] => [(k, v)]
  | h :: t => if k ≤ h.1 then (k, v) :: h :: t else h :: t01InsertByKey k v t

/-- `v.sort(key=f)` with the keys `[f(x) for x in v]` computed beforehand (as CPython does, in list order): the items in ascending
key order, items with equal keys in their original order (the sort is stable).  Modelled for `int` keys; not modelled (TypeError):
keys of other kinds. -/
def t01SortByKeys (items keys : V) : Py V :=
  match items, keys with
  | .list xs, .list ks =>
    match ks.mapM asInt with
    | some ns => if ns.length = xs.length then .ok (.list (((ns.zip xs).foldr (fun p acc => t01InsertByKey p.1 p.2 acc) []).map (·.2))) else .error .typeError
    | none => .error .typeError
  | _, _ => .error .typeError

end PyU

import CsVerif.Model.C17
import CsVerif.Gen.PyGuardU
/-!
C17 — glue between the hand-written model (`Model/C17.lean`) and the definitions translated from the source of
`iter_guardrail_configs_with_beacon`, `find_xor_key_candidates` and `iter_guardrail_configs` (`Gen/PyGuardU.lean`, untyped
translator): the encoding of the model's file objects, metadata records and settings as Python values, the fuel the translated
`while` loops are run with, the selection function of the model with the candidate keys as a parameter, and the two EXTERNAL
functions of the translated selection loop instantiated with the other two translated definitions.
Used by the driver (`g-*` streams) and by `Props/C17Gen.lean`.
-/
namespace C17Gen
open PyU (V)

/-- 0 = `io.BytesIO`, 1 = a regular file opened "rb" (the `kind` component of `PyU.mkFile`) -/
def kindNat : FileKind → Nat
  | .bytesIO => 0
  | .osFile => 1

/-- a file object of the model as the Python value the translated definitions work on -/
def encFile (f : PyFile) : V := PyU.mkFile f.data f.pos (kindNat f.kind)

/-- a parsed `GuardrailSetting`: `option` / `type` are cstruct enum members, `length` an int, `value` bytes -/
def encSetting (s : C17.Setting) : V :=
  .inst Gen.PyGuardU.GuardrailSettingCls
    [.enum Gen.PyGuardU.GuardOption (s.option : Int), .enum Gen.PyGuardU.SettingsType (s.type : Int), .int (s.length : Int), .bytes s.value]

/-- `bytes | None` -/
def encOptBytes : Option Bytes → V
  | none => .none
  | some b => .bytes b

/-- a `GuardrailMetadata` record (fields in the order of the dataclass) -/
def encMeta (m : C17.Meta) : V :=
  .inst Gen.PyGuardU.GuardrailMetadata
    [.int (m.beaconConfigOffset : Int), .int (m.guardConfigOffset : Int), .bytes m.maskedBeaconConfig, .bytes m.maskedGuardConfig,
     .bytes m.beaconXorKey, .bytes m.guardrailXorKey, .bytes m.unmaskedGuardConfig, .int (m.checksum : Int),
     encOptBytes m.payloadXorKey, encOptBytes m.unmaskedBeaconConfig, .list (m.settings.map encSetting)]

/-- what `list(<generator>(fh))` returns for a generator of metadata records, together with the file object afterwards -/
def encMetas (ms : List C17.Meta) (f : PyFile) : V := .tuple [.list (ms.map encMeta), encFile f]

/-- what `list(find_xor_key_candidates(fh))` returns, together with the file object afterwards -/
def encCands (ks : List Bytes) (f : PyFile) : V := .tuple [.list (ks.map .bytes), encFile f]

/-- both generators leave the file at its end (the last `read` of each answered `b""`) -/
def atEnd (f : PyFile) : PyFile := { f with pos := f.data.length }

/-! ### the selection function of the model, with the candidate keys as a parameter -/

/-- `C17.withBeaconOne` with `find_xor_key_candidates(io.BytesIO(guarded))` abstracted to `cands guarded` -/
def withBeaconOneC (cands : Bytes → List Bytes) (m : C17.Meta) : C17.Meta :=
  let m1 := { m with beaconXorKey := Gen.Guardrails.beaconXorKey }
  let guarded := C20.xor m1.maskedBeaconConfig m1.beaconXorKey
  match C17.selectKey guarded m1.checksum (cands guarded) with
  | some (k, u) => { m1 with payloadXorKey := some k, unmaskedBeaconConfig := some u }
  | none => m1

theorem withBeaconOne_eq (bufSize : Nat) :
    C17.withBeaconOne bufSize = withBeaconOneC (fun g => C17.findXorKeyCandidates g bufSize) := rfl

/-! ### fuel -/

/-- the guard settings loop consumes at least 6 bytes of at most `GUARD_PATCH_SIZE` per run -/
def settingsFuel : Nat := Gen.Guardrails.GUARD_PATCH_SIZE / 6 + 2

/-- fuel that is sufficient for both loops of `iter_guardrail_configs` (`Props/C17Gen.lean`: every fuel from this bound on
gives the same answer): one run of the scan loop per byte offset plus the final empty read -/
def scanFuel (f : PyFile) : Nat := f.data.length + settingsFuel + 2

/-- fuel that is sufficient for the chunk loop of `find_xor_key_candidates` -/
def candFuel (f : PyFile) : Nat := f.data.length + 2

/-! ### the translated definitions on model arguments -/

/-- the translated `iter_guardrail_configs(fh, xorkey)` -/
def iterGuardrailConfigsG (f : PyFile) (xorkey : Bytes) : Py V :=
  Gen.PyGuardU.iter_guardrail_configs (scanFuel f) (encFile f) (.bytes xorkey)

/-- the translated `find_xor_key_candidates(fh)`, `io.DEFAULT_BUFFER_SIZE = bufSize` -/
def findXorKeyCandidatesG (bufSize : Nat) (f : PyFile) : Py V :=
  Gen.PyGuardU.find_xor_key_candidates (.int (bufSize : Int)) (candFuel f) (encFile f)

/-- the EXTERNAL function `iter_guardrail_configs(fh)` of the translated selection loop, instantiated with the translated
`iter_guardrail_configs` (default `xorkey`); an argument that is not a file object has no `seek` (AttributeError) -/
def iterX (fh : V) : Py V :=
  match PyU.asFile fh with
  | some (d, _, _) => Gen.PyGuardU.iter_guardrail_configs_default1 (d.length + settingsFuel + 2) fh
  | none => .error .attributeError

/-- the EXTERNAL function `find_xor_key_candidates(io.BytesIO(…))` of the translated selection loop, instantiated with the
translated `find_xor_key_candidates`: the `BytesIO` becomes the file object with the same content and position, the answer is
the list of the yielded keys (the file object afterwards is dropped: nothing else refers to the temporary `BytesIO`) -/
def candX (bufSize : Nat) (bio : V) : Py V :=
  match bio with
  | .bytesIO d p =>
    match Gen.PyGuardU.find_xor_key_candidates (.int (bufSize : Int)) (d.length + 2) (PyU.mkFile d p 0) with
    | .ok (.tuple [ys, _]) => .ok ys
    | .ok _ => .error .typeError
    | .error e => .error e
  | _ => .error .attributeError

/-- the translated `iter_guardrail_configs_with_beacon(fh)` over the other two translated definitions,
`io.DEFAULT_BUFFER_SIZE = bufSize` -/
def iterGuardrailConfigsWithBeaconG (bufSize : Nat) (f : PyFile) : Py V :=
  Gen.PyGuardU.iter_guardrail_configs_with_beacon iterX (candX bufSize) (encFile f)

end C17Gen

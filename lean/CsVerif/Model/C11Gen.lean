import CsVerif.Model.C11
import CsVerif.Model.C12Gen
import CsVerif.Gen.PyC2Dict
/-!
C11 — glue between the hand-written model (`Model/C11.lean`) and the definitions translated from the source of
`C2Profile.as_dict` and the block builders (`Gen/PyC2Dict.lean`, untyped translator): the encoding of the model's types as
Python values, and the instances of the external functions.  Used by the driver (`g-*` streams) and by `Props/C11Gen.lean`.

A `lark.Token(type, text)` is the object `V.inst Gen.PyC2Prof.Token [type, text]` (as in C12).  The model's items only say whether a
token's type is `"STRING"`; the encoding takes the type name of the other tokens from a function `ty` of their text (any
function that never answers `"STRING"` — for the grammar as it is, `fun _ => "OPTION"`).
-/
namespace C11Gen
open PyU (V)
open C10 (Text)

/-- `Token(type, value)` -/
abbrev tokenV (type value : V) : V := C12Gen.tokenV type value

/-- `"STRING"` -/
def strName : V := PyU.lit "STRING"

/-- an item of the Reconstructor's stream: a plain `str`, or a `Token` -/
def encItem (ty : Text → Text) : C11.Item' → V
  | .plain s => .str s
  | .token true s => tokenV strName (.str s)
  | .token false s => tokenV (.str (ty s)) (.str s)

def encItems (ty : Text → Text) (l : List C11.Item') : V := .list (l.map (encItem ty))

/-- a component of a dictionary value -/
def encAtom (ty : Text → Text) : C11.Atom → V
  | .str s => .str s
  | .tok s => tokenV (.str (ty s)) (.str s)
  | .bytes b => .bytes b

def encValue (ty : Text → Text) : C11.Value → V
  | .atom a => encAtom ty a
  | .tuple as => .tuple (as.map (encAtom ty))

/-- the dictionary as a `dict`: keys in insertion order, each value the list of the statement values -/
def encDict (ty : Text → Text) (d : C11.Dict) : V :=
  .dict (d.map fun kv => .str kv.1) (d.map fun kv => .list (kv.2.map (encValue ty)))

/-- the same items held by a `collections.defaultdict(list)` -/
def encDD (ty : Text → Text) (d : C11.Dict) : V := .inst PyU.t11DdCls [encDict ty d]

/-- the literal `list_props` of the source, as the translation spells it -/
def listPropsV : V := .list (ProfileApi.listProps.map .str)

/-- `string_token_to_bytes` as translated in `Gen/PyC2Prof.lean`, with the given fuel, as a function into `Py` (it never raises
StopIteration — `C12Gen.gen_string_token_to_bytes`; the branch is answered with a TypeError) -/
def stbG (fuel : Nat) (x : V) : Py V :=
  match Gen.PyC2Prof.string_token_to_bytes fuel x with
  | .ok v => .ok v
  | .error (.py e) => .error e
  | .error .stop => .error .typeError

/-- fuel that is enough for every STRING token of an item list: longer than the longest token text -/
def fuelForItems (l : List C11.Item') : Nat := (l.map fun i => i.text.length).foldl max 0 + 1

/-- the translated walk on the model's items: `as_dict_walk` with the translated `string_token_to_bytes` -/
def asDictWalkG (ty : Text → Text) (items : List C11.Item') : Py V :=
  Gen.PyC2Dict.as_dict_walk (stbG (fuelForItems items)) (encItems ty items)

/-! ### the profile object and its cache -/

/-- a `C2Profile` object: `tree` (any value standing for the Lark tree), `_dict_cache`, `_dict_hash` -/
def profileV (tree cache hash : V) : V := .inst Gen.PyC2Dict.C2ProfileCls [tree, cache, hash]

/-- `_dict_hash`: `None`, or the hash the cache was filled for -/
def encHashOpt {H : Type} (encH : H → V) : Option H → V
  | none => .none
  | some h => encH h

/-- the state of the model's profile object; the tree and its hash are encoded by the caller (`encT`, `encH`) -/
def encState {H : Type} (ty : Text → Text) (encT : C10.Tree → V) (encH : H → V) (s : C11.PState H) : V :=
  profileV (encT s.tree) (encDict ty s.dictCache) (encHashOpt encH s.dictHash)

/-- A history of modifications and accesses run through the TRANSLATED method: the object is the encoded state; a modification
replaces the tree; an access calls `as_dict`; an exception leaves the object as it was (in the translated text every attribute
assignment comes after the last operation that can raise). -/
def runHistG (encT : C10.Tree → V) (asd : V → Py V) : C10.Tree → V → List C11.Op → List (Py V)
  | _, _, [] => []
  | t, obj, .modify f :: ops =>
    match obj with
    | .inst c [_, cache, hash] => runHistG encT asd (f t) (.inst c [encT (f t), cache, hash]) ops
    | other => runHistG encT asd (f t) other ops
  | t, obj, .access :: ops =>
    match asd obj with
    | .ok (.tuple [r, obj']) => .ok r :: runHistG encT asd t obj' ops
    | .ok other => .ok other :: runHistG encT asd t obj ops
    | .error e => .error e :: runHistG encT asd t obj ops


/-! ### the block builders -/

/-- a value handed to the builder: `str` or `bytes` -/
def encPyVal : C11.PyVal → V
  | .str s => .str s
  | .bytes b => .bytes b

/-- `value_to_string` as translated in `Gen/PyC2Prof.lean` -/
def v2sG : V → Py V := Gen.PyC2Prof.value_to_string

/-- `Tree(data, children)` -/
def treeV (lbl : V) (kids : List V) : V := .inst Gen.PyC2Dict.TreeCls [lbl, .list kids]

/-- `Tree("string", [Token("STRING", text)])` -/
def strNodeV (text : Text) : V := treeV (PyU.lit "string") [tokenV strName (.str text)]

/-- what `ConfigBlock.set_option(name, v)` appends (`text` = `value_to_string(v)`) -/
def optNodeV (name : V) (text : Text) : V := treeV name [strNodeV text]

/-- what `C2Profile.set_option(name, v)` appends -/
def globalOptNodeV (name : V) (text : Text) : V := treeV (PyU.lit "option") [tokenV (PyU.lit "OPTION") name, strNodeV text]

/-- one node of `_pair` / `_header` / `_parameter` -/
def pairNodeV (lbl : V) (a b : Text) : V := treeV lbl [strNodeV a, strNodeV b]

/-- what `_enable(name, _)` appends -/
def enableNodeV (name : V) : V := treeV name []

/-- a `ConfigBlock` object (any subclass without attributes of its own) whose tree has the label `lbl` and the children `kids` -/
def blockV (lbl : V) (kids : List V) : V := .inst Gen.PyC2Dict.ConfigBlockCls [treeV lbl kids]

/-- a `C2Profile` object with that tree and an empty cache -/
def profileBlockV (lbl : V) (kids : List V) : V := profileV (treeV lbl kids) (.dict [] []) .none

/-- a `DataTransformBlock` object before `__init__` has run (the two attributes exist, their values are never read) -/
def dtBlank : V := .inst Gen.PyC2Dict.DataTransformBlockCls [.none, .none]

mutual
/-- one child of a Lark tree as a prefix of the model's forest: a `Tree(label, children)` or a `Token(type, text)`; labels and
token types are interned through the grammar's name table like the model does (`C11.nameId`: an unknown name gets the id
`names.length`) -/
def absChild (G : C10.Table) : V → Option (C10.Forest → C10.Forest)
  | .inst c vals =>
    if c.cid == Gen.PyC2Dict.TreeCls.cid then
      match absTreeParts G vals with
      | some (l, ks) => some (fun r => .node l ks r)
      | none => none
    else if c.cid == Gen.PyC2Prof.Token.cid then
      match vals with
      | [.str ty, .str s] => some (fun r => .leaf (C11.nameId G ty) s r)
      | _ => none
    else none
  | _ => none
termination_by structural x => x
def absTreeParts (G : C10.Table) : List V → Option (Nat × C10.Forest)
  | [.str d, kidsV] =>
    match absListV G kidsV with
    | some ks => some (C11.nameId G d, ks)
    | none => none
  | _ => none
termination_by structural x => x
def absListV (G : C10.Table) : V → Option C10.Forest
  | .list kids => absKids G kids
  | _ => none
termination_by structural x => x
/-- the children of a Lark tree as the model's forest -/
def absKids (G : C10.Table) : List V → Option C10.Forest
  | [] => some .nil
  | x :: xs =>
    match absChild G x, absKids G xs with
    | some f, some r => some (f r)
    | _, _ => none
termination_by structural x => x
end

/-- the Lark tree held by a builder object, as the model's tree -/
def absTreeOf (G : C10.Table) (obj : V) : Option C10.Tree :=
  match PyU.getAttr obj "tree" with
  | .ok (.inst c [.str d, .list kids]) =>
    if c.cid == Gen.PyC2Dict.TreeCls.cid then (absKids G kids).map fun ks => ⟨C11.nameId G d, ks⟩ else none
  | _ => none

/-- the object a self-mode method leaves behind (`(result, self afterwards)`) -/
def selfAfter (r : Py V) : Py V :=
  match r with
  | .ok (.tuple [_, s]) => .ok s
  | .ok _ => .error .typeError
  | .error e => .error e

def encPairs (ps : List (C11.PyVal × C11.PyVal)) : V := .list (ps.map fun p => .tuple [encPyVal p.1, encPyVal p.2])

def encStep : C11.Step → V
  | .bare name => .str name
  | .arg name v => .tuple [.str name, encPyVal v]

def encExecItem : C11.ExecItem → V
  | .bare name => .str name
  | .pair name v => .tuple [.str name, encPyVal v]

/-- `DataTransformBlock(steps)` seen as a block object: the constructor, then the property `tree` -/
def dtBlockG (steps : List C11.Step) : Py V := do
  let dt ← selfAfter (Gen.PyC2Dict.DataTransformBlock___init__ v2sG dtBlank (.list (steps.map encStep)))
  match Gen.PyC2Dict.DataTransformBlock_tree dt with
  | .ok (.tuple [t, _]) => .ok (.inst Gen.PyC2Dict.ConfigBlockCls [t])
  | .ok _ => .error .typeError
  | .error e => .error e

/-- `set_option` of an object of class `c`: `C2Profile` overrides it -/
def setOptionG (c : ProfileApi.Cls) (self : V) (name : Text) (v : C11.PyVal) : Py V :=
  match c.attrs.lookup C11.nmSetOption with
  | some .globalOption => selfAfter (Gen.PyC2Dict.C2Profile_set_option v2sG self (.str name) (encPyVal v))
  | _ => selfAfter (Gen.PyC2Dict.ConfigBlock_set_option v2sG self (.str name) (encPyVal v))

mutual
/-- the calls of the model's call language (`C11.Calls`) run through the TRANSLATED methods on the object `self` of class `c`.
The keyword-argument dispatch of `init_kwargs` (not translated) is the model's: the generated attribute table says which
method a keyword names. -/
def buildCallsG (api : List ProfileApi.Cls) (c : ProfileApi.Cls) (self : V) : C11.Calls → Py V
  | .done => .ok self
  | .kwVal name v rest => do
    let s ← (match c.attrs.lookup name with
      | some .setOption => selfAfter (Gen.PyC2Dict.ConfigBlock_set_option v2sG self (.str name) (encPyVal v))
      | some .globalOption => selfAfter (Gen.PyC2Dict.C2Profile_set_option v2sG self (.str name) (encPyVal v))
      | some .enable => selfAfter (Gen.PyC2Dict.ConfigBlock__enable self (.str name) (encPyVal v))
      | some .pair => selfAfter (Gen.PyC2Dict.ConfigBlock__pair v2sG self (.str name) (encPyVal v))
      | some .header => selfAfter (Gen.PyC2Dict.ConfigBlock__header v2sG self (.str name) (encPyVal v))
      | some .parameter => selfAfter (Gen.PyC2Dict.ConfigBlock__parameter v2sG self (.str name) (encPyVal v))
      | some .other => .error .typeError
      | none => setOptionG c self name v)
    buildCallsG api c s rest
  | .kwPairs name ps rest => do
    let s ← (match c.attrs.lookup name with
      | some .pair => selfAfter (Gen.PyC2Dict.ConfigBlock__pair v2sG self (.str name) (encPairs ps))
      | some .header => selfAfter (Gen.PyC2Dict.ConfigBlock__header v2sG self (.str name) (encPairs ps))
      | some .parameter => selfAfter (Gen.PyC2Dict.ConfigBlock__parameter v2sG self (.str name) (encPairs ps))
      | some .enable => selfAfter (Gen.PyC2Dict.ConfigBlock__enable self (.str name) (encPairs ps))
      | _ => .error .typeError)
    buildCallsG api c s rest
  | .kwBlock name b rest => do
    let blk ← buildBlockG api b
    let s ← (match c.attrs.lookup name with
      | some .enable => selfAfter (Gen.PyC2Dict.ConfigBlock__enable self (.str name) blk)
      | none => selfAfter (Gen.PyC2Dict.ConfigBlock_set_config_block self (.str name) blk)
      | _ => .error .typeError)
    buildCallsG api c s rest
  | .setOption name v rest => do
    let s ← setOptionG c self name v
    buildCallsG api c s rest
  | .pair name ps rest => do
    let s ← selfAfter (Gen.PyC2Dict.ConfigBlock__pair v2sG self (.str name) (encPairs ps))
    buildCallsG api c s rest
  | .enable name rest => do
    let s ← selfAfter (Gen.PyC2Dict.ConfigBlock__enable self (.str name) (.bool true))
    buildCallsG api c s rest
  | .headerC ps rest => do
    let s ← selfAfter (Gen.PyC2Dict.ConfigBlock__header v2sG self (PyU.lit "header") (encPairs ps))
    buildCallsG api c s rest
  | .parameterC ps rest => do
    let s ← selfAfter (Gen.PyC2Dict.ConfigBlock__parameter v2sG self (PyU.lit "parameter") (encPairs ps))
    buildCallsG api c s rest
  | .setConfigBlock name b rest => do
    let blk ← buildBlockG api b
    let s ← selfAfter (Gen.PyC2Dict.ConfigBlock_set_config_block self (.str name) blk)
    buildCallsG api c s rest
  | .setNonEmptyConfigBlock name b rest => do
    let blk ← buildBlockG api b
    let s ← selfAfter (Gen.PyC2Dict.ConfigBlock_set_non_empty_config_block self (.str name) blk)
    buildCallsG api c s rest
/-- a block object built through the translated methods -/
def buildBlockG (api : List ProfileApi.Cls) : C11.BlockV → Py V
  | .cls c calls =>
    match api[c]? with
    | some cl => buildCallsG api cl (blockV (.str cl.treeName) []) calls
    | none => .error .typeError
  | .dt steps => dtBlockG steps
  | .exec xs =>
    selfAfter (Gen.PyC2Dict.ExecuteOptionsBlock_from_execute_list v2sG (blockV (PyU.lit "ExecuteOptionsBlock") []) (.list (xs.map encExecItem)))
  | .gate xs =>
    selfAfter (Gen.PyC2Dict.BeaconGateBlock_from_beacon_gate_option_strings (blockV (PyU.lit "BeaconGateBlock") []) (.list (xs.map V.str)))
end

/-- `C2Profile(**kwargs)` followed by further calls, through the translated methods: the profile object -/
def buildProfileG (api : List ProfileApi.Cls) (calls : C11.Calls) : Py V :=
  match api.find? (·.pyName == C11.nmC2Profile) with
  | none => .error .typeError
  | some c => buildCallsG api c (profileBlockV (.str c.treeName) []) calls

end C11Gen

import CsVerif.Model.C18
import CsVerif.Model.C15Gen
import CsVerif.Gen.PyPe
/-!
C18 — glue between the hand-written model (`Model/C18.lean`) and the definitions translated from the source of pe.py
(`Gen/PyPe.lean`, untyped translator): the encoding of the model's file objects (`PyFile`, shared with C15: `C15Gen.encFile`),
arguments and results as Python values.  Used by the driver (`g-*` streams) and by `Props/C18Gen.lean`.
The translated helpers contain no `while`: no fuel.
-/
namespace C18Gen
open PyU (V)
open C15Gen (encFile encOptNat)

/-- `None` or `bytes` -/
def encOptBytes : Option Bytes → V
  | none => .none
  | some b => .bytes b

/-- `None` or an `int` -/
def encOptI : Option Int → V
  | none => .none
  | some n => .int n

/-- `None`, `"x86"` or `"x64"` -/
def encArch : Option C18.Arch → V
  | none => .none
  | some a => PyU.lit a.name

/-- `(compile_stamp, export_stamp)` -/
def encStamps (p : Option Int × Option Int) : V := .tuple [encOptI p.1, encOptI p.2]

/-- `(prepend, append)` -/
def encPair (p : Option Bytes × Option Bytes) : V := .tuple [encOptBytes p.1, encOptBytes p.2]

/-- what a translated helper answers: `(result, the file object afterwards)` -/
def encRes {α : Type} (enc : α → V) (r : α × PyFile) : Py V := .ok (.tuple [enc r.1, encFile r.2])

/-- … for a helper that can raise (an exception discards the file object: its position is not observable through the
translated definition) -/
def encPy {α : Type} (enc : α → V) (r : Py α × PyFile) : Py V :=
  match r.1 with
  | .ok a => .ok (.tuple [enc a, encFile r.2])
  | .error e => .error e

/-- the value a translated helper returned (`none`: it raised / an answer of another shape) -/
def valOf (r : Py V) : Option V :=
  match r with
  | .ok (.tuple [x, _]) => some x
  | _ => none

/-- the position of the file object a translated helper handed back -/
def tellOf (r : Py V) : Option Nat :=
  match r with
  | .ok (.tuple [_, f]) => (PyU.asFile f).map (·.2.1)
  | _ => none

/-- the answer of a file-like-generic model function (`C18.Generic.*` over `C18.pyFileLike`, i.e. over Python file objects; these take ANY
int `start_offset`) -/
def encGen {α : Type} (enc : α → V) (r : Py (α × PyFile)) : Py V :=
  match r with
  | .ok p => .ok (.tuple [enc p.1, encFile p.2])
  | .error e => .error e

/-- the result of `C18.peCall` for every helper -/
def encOut (r : C18.PeOut × PyFile) : Py V :=
  match r.1 with
  | .mz x => encRes encOptNat (x, r.2)
  | .arch x => encRes encArch (x, r.2)
  | .stamps x => encPy encStamps (x, r.2)
  | .mmz x => encRes encOptBytes (x, r.2)
  | .mpe x => encPy encOptBytes (x, r.2)
  | .ppa x => encPy encPair (x, r.2)

/-- the translated helper for `op`, on values -/
def peCallV (fh start maxrange : V) : C18.PeOp → Py V
  | .mz => Gen.PyPe.find_mz_offset fh start maxrange
  | .arch => Gen.PyPe.find_architecture fh start maxrange
  | .stamps => Gen.PyPe.find_compile_stamps fh start maxrange
  | .mmz => Gen.PyPe.find_magic_mz fh start maxrange
  | .mpe => Gen.PyPe.find_magic_pe fh start maxrange
  | .ppa => Gen.PyPe.find_stage_prepend_append fh start maxrange

/-- the default of `start_offset` as the source of the helper has it -/
def dfltStart : C18.PeOp → V
  | .mz => Gen.PyPe.find_mz_offset_dflt_start_offset
  | .arch => Gen.PyPe.find_architecture_dflt_start_offset
  | .stamps => Gen.PyPe.find_compile_stamps_dflt_start_offset
  | .mmz => Gen.PyPe.find_magic_mz_dflt_start_offset
  | .mpe => Gen.PyPe.find_magic_pe_dflt_start_offset
  | .ppa => Gen.PyPe.find_stage_prepend_append_dflt_start_offset

/-- the default of `maxrange` as the source of the helper has it -/
def dfltMaxrange : C18.PeOp → V
  | .mz => Gen.PyPe.find_mz_offset_dflt_maxrange
  | .arch => Gen.PyPe.find_architecture_dflt_maxrange
  | .stamps => Gen.PyPe.find_compile_stamps_dflt_maxrange
  | .mmz => Gen.PyPe.find_magic_mz_dflt_maxrange
  | .mpe => Gen.PyPe.find_magic_pe_dflt_maxrange
  | .ppa => Gen.PyPe.find_stage_prepend_append_dflt_maxrange

/-- the translated helper for `op`, on model arguments -/
def peCallG (f : PyFile) (start : Option Nat) (maxrange : Nat) (op : C18.PeOp) : Py V :=
  peCallV (encFile f) (encOptNat start) (.int (maxrange : Int)) op

/-! ### version deduction -/

/-- instances of `BeaconVersion` as the model constructs them: the text, and what the constructor parsed out of it -/
def BeaconVersionCls : PyU.Cls := { cid := 1820, fields := ["version", "tuple", "date"], isTuple := false, bases := [] }

def encVersion (t : C18.Txt) (v : Option C18.VersionInfo) : V :=
  .inst BeaconVersionCls [.str t,
    (match v with | none => .none | some i => .tuple (i.tuple.map fun (n : Nat) => V.int (n : Int))),
    (match v with | none => .none | some i => .tuple [.int (i.date.y : Int), .int (i.date.m : Int), .int (i.date.d : Int)])]

/-- the EXTERNAL function `BeaconVersion(text)` instantiated with the model's constructor (`C18.parseVersion`: regex + strptime);
a `str` argument only (the tables of version.py hold nothing else) -/
def beaconVersionM : V → Py V
  | .str t => (C18.parseVersion t).map (encVersion t)
  | _ => .error .typeError

/-- a `BeaconConfig` as far as `BeaconConfig.version` looks at it: the attribute `pe_export_stamp` -/
def ConfigCls : PyU.Cls := { cid := 1821, fields := ["pe_export_stamp"], isTuple := false, bases := [] }

def encConfig (stamp : Option Int) : V := .inst ConfigCls [encOptI stamp]

/-- the EXTERNAL function `self.max_setting_enum` instantiated with the model (`max` of the setting indices; ValueError when empty) -/
def maxSettingEnumM (enums : List Nat) : V → Py V := fun _ => (C18.maxEnumOf enums).map fun (n : Nat) => V.int (n : Int)

/-- the translated `BeaconConfig.version` on model arguments -/
def configVersionG (stamp : Option Int) (enums : List Nat) : Py V :=
  Gen.PyPe.config_version beaconVersionM (maxSettingEnumM enums) (encConfig stamp)

end C18Gen

import CsVerif.Model.C15
import CsVerif.Gen.PyScan
/-!
C15 — glue between the hand-written model (`Model/C15.lean`) and the definitions translated from the source of
`utils.iter_find_needle` and `artifact.iter_artifactkit_payloads` (`Gen/PyScan.lean`, untyped translator): the encoding of the
model's file objects (`PyFile`), arguments and results as Python values, and the fuel the translated `while` loops are run
with.  Used by the driver (`g-*` streams) and by `Props/C15Gen.lean`.
-/
namespace C15Gen
open PyU (V)

/-- 0 = `io.BytesIO`, 1 = a regular file opened "rb" (the `kind` component of `PyU.mkFile`) -/
def kindNat : FileKind → Nat
  | .bytesIO => 0
  | .osFile => 1

/-- a file object of the model as the Python value the translated definitions work on -/
def encFile (f : PyFile) : V := PyU.mkFile f.data f.pos (kindNat f.kind)

/-- an optional `int` argument (`None`) -/
def encOptInt : Option Int → V
  | none => .none
  | some n => .int n

/-- an optional non-negative `int` argument (`None`) -/
def encOptNat : Option Nat → V
  | none => .none
  | some n => .int (n : Int)

/-- what `list(iter_find_needle(…))` returns, together with the file object afterwards -/
def encNeedle (r : List Int × PyFile) : V := .tuple [.list (r.1.map .int), encFile r.2]

/-- an `ArtifactKitPayload(offset, size, xorkey, hints, payload)` -/
def encHit (h : C15.Hit) : V :=
  .inst Gen.PyScan.ArtifactKitPayload [.int (h.offset : Int), .int (h.size : Int), .bytes h.xorkey, .bytes h.hints, .bytes h.payload]

/-- what `list(iter_artifactkit_payloads(…))` returns, together with the file object afterwards -/
def encArt (r : List C15.Hit × PyFile) : V := .tuple [.list (r.1.map encHit), encFile r.2]

/-- fuel that is sufficient for both loops of `iter_find_needle` and for the loop of `iter_artifactkit_payloads`
(`Props/C15Gen.lean`: every fuel from this bound on gives the same answer) -/
def fuelFor (f : PyFile) : Nat := f.data.length + 3

/-- the translated `iter_find_needle`, `io.DEFAULT_BUFFER_SIZE = B`, on model arguments -/
def iterFindNeedleG (B : Nat) (f : PyFile) (needle : Bytes) (start : Option Int) (maxOff : Nat) : Py V :=
  Gen.PyScan.iter_find_needle (.int (B : Int)) (fuelFor f) (encFile f) (.bytes needle) (encOptInt start) (.int (maxOff : Int))

/-- the translated `iter_artifactkit_payloads` on model arguments -/
def iterArtifactkitG (f : PyFile) (start : Option Int) (maxrange : Option Nat) : Py V :=
  Gen.PyScan.iter_artifactkit_payloads (fuelFor f) (encFile f) (encOptInt start) (encOptNat maxrange)

end C15Gen

import CsVerif.Model.PyFile
import CsVerif.Gen.PeStruct
import CsVerif.Gen.Version
/-
C18 — PE artifacts and version deduction
  dissect/cobaltstrike/pe.py       find_mz_offset, find_architecture, find_compile_stamps, find_magic_mz,
                                   find_magic_pe, find_stage_prepend_append
  dissect/cobaltstrike/version.py  BeaconVersion (regex + strptime), the two lookup tables
  dissect/cobaltstrike/beacon.py   BeaconConfig.version (precedence)

Struct layouts (sizes, field offsets, signedness), machine constants and the DOS-stub markers come from
`Gen/PeStruct.lean`, the version tables from `Gen/Version.lean` (both regenerated from the imported package).

Names other properties rely on (keep stable): `findMzOffset findArchitecture findCompileStamps findMagicMz findMagicPe
findStagePrependAppend` (over `PyFile`), `FileLike`, `pyFileLike`, `Generic.*` (the same six over any file-like state,
e.g. the XorEncoded view), `parseVersion versionFor configVersion lookup`.

Modelling notes
* a compiled cstruct structure read is `buf = fh.read(size); if len(buf) != size: raise EOFError` (measured on
  dissect.cstruct 4.7: the optional headers do `read(96|112)` followed by 16 reads of 8 bytes, which on a Python
  file object is the same as one `read(224|240)`: a short read leaves the position at EOF either way).
* `readStruct` returns `none` for that EOFError *together with the advanced file* (Python keeps the side effect).
* every `seek` whose argument is not syntactically non-negative keeps its ValueError/OSError branch.
-/
namespace C18
open Gen.PeStruct

/-! ### integers in structures -/

/-- little-endian unsigned value -/
def leNat : Bytes → Nat
  | [] => 0
  | b :: bs => b.toNat + 256 * leNat bs

/-- `buf[off : off+size]` -/
def slice (buf : Bytes) (off size : Nat) : Bytes := (buf.drop off).take size

/-- value of the integer field `fld` of a structure parsed from `buf` (two's complement when signed). -/
def fieldVal (buf : Bytes) (fld : Field) : Int :=
  let raw := leNat (slice buf fld.off fld.size)
  if fld.signed && decide (2 * raw ≥ 256 ^ fld.size) then (raw : Int) - ((256 ^ fld.size : Nat) : Int) else (raw : Int)

/-! ### file helpers -/

/-- `fh.seek(n)` for a non-negative `n` (never raises; `PyFile.seekSet_ok`). -/
def seekNat (f : PyFile) (n : Nat) : PyFile := { f with pos := n }

/-- `pestruct.X(fh)`: `none` = EOFError (short read); the file keeps the advanced position. -/
def readStruct (f : PyFile) (size : Nat) : Option Bytes × PyFile :=
  let r := f.read size
  if r.1.length = size then (some r.1, r.2) else (none, r.2)

/-- `[pestruct.IMAGE_SECTION_HEADER(fh) for _ in range(n)]`; `none` = EOFError. -/
def readSections : Nat → PyFile → Option (List Bytes) × PyFile
  | 0, f => (some [], f)
  | n + 1, f =>
    match readStruct f sectionSize with
    | (none, f1) => (none, f1)
    | (some s, f1) =>
      match readSections n f1 with
      | (none, f2) => (none, f2)
      | (some ss, f2) => (some (s :: ss), f2)

/-! ### the scan loop of find_mz_offset / find_architecture -/

/-- body of one loop iteration at absolute offset `base = start_offset + offset`:
`some machine` when both structures could be read and `0 < e_lfanew < maxrange`, `none` when the iteration
falls through (`continue` after EOFError, or the e_lfanew test fails). -/
def probe (f : PyFile) (base maxrange : Nat) : Option Int × PyFile :=
  let f1 := seekNat f base                                   -- fh.seek(start_offset + offset, io.SEEK_SET)
  match readStruct f1 dosHeaderSize with                     -- mz = pestruct.IMAGE_DOS_HEADER(fh)
  | (none, f2) => (none, f2)                                 -- except EOFError: continue
  | (some mz, f2) =>
    let e := fieldVal mz dosLfanew
    if 0 < e ∧ e < (maxrange : Int) then                     -- mz.e_lfanew > 0 and mz.e_lfanew < maxrange
      let f3 := seekNat f2 (base + 4 + e.toNat)              -- fh.seek(start_offset + offset + 4 + mz.e_lfanew)
      match readStruct f3 fileHeaderSize with                -- image = pestruct.IMAGE_FILE_HEADER(fh)
      | (none, f4) => (none, f4)
      | (some img, f4) => (some (fieldVal img fhMachine), f4)
    else (none, f2)

/-- `for offset in range(maxrange): …` with the per-function decision `classify` on `image.Machine`. -/
def scanLoop (classify : Int → Option α) (start maxrange : Nat) : List Nat → PyFile → Option (Nat × α) × PyFile
  | [], f => (none, f)
  | off :: rest, f =>
    match probe f (start + off) maxrange with
    | (some m, f1) =>
      match classify m with
      | some a => (some (start + off, a), f1)
      | none => scanLoop classify start maxrange rest f1
    | (none, f1) => scanLoop classify start maxrange rest f1

/-- `image.Machine in (IMAGE_FILE_MACHINE_AMD64, IMAGE_FILE_MACHINE_I386)` -/
def classifyMz (m : Int) : Option Unit :=
  if m = (machineAmd64 : Int) ∨ m = (machineI386 : Int) then some () else none

inductive Arch | x86 | x64 deriving DecidableEq, Repr

def Arch.name : Arch → String
  | .x86 => "x86"
  | .x64 => "x64"

/-- `if Machine == AMD64: return "x64" elif Machine == I386: return "x86"` -/
def classifyArch (m : Int) : Option Arch :=
  if m = (machineAmd64 : Int) then some .x64 else if m = (machineI386 : Int) then some .x86 else none

/-- `start_offset if start_offset is not None else fh.tell()` -/
def startOf (f : PyFile) (start : Option Nat) : Nat :=
  match start with
  | some s => s
  | none => f.tell

/-- `pe.find_mz_offset(fh, start_offset, maxrange)` -/
def findMzOffset (f : PyFile) (start : Option Nat) (maxrange : Nat) : Option Nat × PyFile :=
  match scanLoop classifyMz (startOf f start) maxrange (List.range maxrange) f with
  | (some (o, _), f1) => (some o, f1)
  | (none, f1) => (none, f1)

/-- `pe.find_architecture(fh, start_offset, maxrange)` -/
def findArchitecture (f : PyFile) (start : Option Nat) (maxrange : Nat) : Option Arch × PyFile :=
  match scanLoop classifyArch (startOf f start) maxrange (List.range maxrange) f with
  | (some (_, a), f1) => (some a, f1)
  | (none, f1) => (none, f1)

/-! ### find_compile_stamps -/

/-- `section.VirtualAddress <= rva < section.VirtualAddress + section.VirtualSize` -/
def sectionContains (rva : Int) (s : Bytes) : Bool :=
  decide (fieldVal s secVirtualAddress ≤ rva ∧ rva < fieldVal s secVirtualAddress + fieldVal s secVirtualSize)

def optSize (is64 : Bool) : Nat := if is64 then opt64Size else opt32Size
def optExportVA (is64 : Bool) : Field := if is64 then opt64ExportVA else opt32ExportVA
def optSizeOfHeaders (is64 : Bool) : Field := if is64 then opt64SizeOfHeaders else opt32SizeOfHeaders

/-- the `try:` block of find_compile_stamps once `mz_offset` is known.
Result `(compile_stamp, export_stamp)`; the `.error` cases are the uncaught ValueError/OSError of a negative seek. -/
def compileStampsAt (f : PyFile) (mzOff : Nat) : Py (Option Int × Option Int) × PyFile :=
  let f1 := seekNat f mzOff                                              -- fh.seek(mz_offset)
  match readStruct f1 dosHeaderSize with                                 -- mz = IMAGE_DOS_HEADER(fh)
  | (none, f2) => (.ok (none, none), f2)
  | (some mz, f2) =>
    match f2.seekSet (fieldVal mz dosLfanew + (mzOff : Int)) with        -- fh.seek(mz.e_lfanew + mz_offset)
    | .error e => (.error e, f2)
    | .ok (_, f3) =>
      match readStruct f3 sigSize with                                   -- signature = pestruct.uint32(fh)
      | (none, f4) => (.ok (none, none), f4)
      | (some _, f4) =>
        match readStruct f4 fileHeaderSize with                          -- image = IMAGE_FILE_HEADER(fh)
        | (none, f5) => (.ok (none, none), f5)
        | (some img, f5) =>
          let compile := fieldVal img fhTimeDateStamp
          let is64 := decide (fieldVal img fhMachine = (machineAmd64 : Int))
          match readStruct f5 (optSize is64) with                        -- IMAGE_OPTIONAL_HEADER[64](fh)
          | (none, f6) => (.ok (some compile, none), f6)
          | (some opt, f6) =>
            let rva := fieldVal opt (optExportVA is64)                   -- DataDirectory[EXPORT].VirtualAddress
            match readSections (fieldVal img fhNumberOfSections).toNat f6 with
            | (none, f7) => (.ok (some compile, none), f7)
            | (some secs, f7) =>
              match secs.find? (sectionContains rva) with
              | none => (.ok (some compile, none), f7)
              | some ds =>
                match f7.seekSet (rva - fieldVal ds secVirtualAddress + fieldVal ds secPointerToRawData + (mzOff : Int)) with
                | .error e => (.error e, f7)
                | .ok (_, f8) =>
                  match readStruct f8 exportDirSize with                 -- IMAGE_EXPORT_DIRECTORY(fh)
                  | (none, f9) => (.ok (some compile, none), f9)
                  | (some ed, f9) => (.ok (some compile, some (fieldVal ed expTimeDateStamp)), f9)

/-- `pe.find_compile_stamps(fh, start_offset, maxrange)` -/
def findCompileStamps (f : PyFile) (start : Option Nat) (maxrange : Nat) : Py (Option Int × Option Int) × PyFile :=
  match findMzOffset f start maxrange with
  | (none, f1) => (.ok (none, none), f1)
  | (some mzOff, f1) => compileStampsAt f1 mzOff

/-! ### find_magic_mz / find_magic_pe -/

/-- `hay.find(needle)`; `none` = -1 -/
def findSub (needle : Bytes) : Bytes → Nat → Option Nat
  | [], i => if needle.isPrefixOf [] then some i else none
  | h :: t, i => if needle.isPrefixOf (h :: t) then some i else findSub needle t (i + 1)

/-- `bytes.rstrip(b"\x00")` -/
def rstrip0 (b : Bytes) : Bytes := (b.reverse.dropWhile (· == 0)).reverse

def magicMzAt (f : PyFile) (mzOff : Nat) : Option Bytes × PyFile :=
  let r := (seekNat f mzOff).read 256                                    -- fh.seek(mz_offset); data = fh.read(256)
  let pos := match findSub dosHeaderX86 r.1 0 with                       -- pos = data.find(X86); X64 if pos == -1
    | some p => some p
    | none => findSub dosHeaderX64 r.1 0
  match pos with
  | some p => (some (r.1.take p), r.2)
  | none => (none, r.2)

/-- `pe.find_magic_mz` -/
def findMagicMz (f : PyFile) (start : Option Nat) (maxrange : Nat) : Option Bytes × PyFile :=
  match findMzOffset f start maxrange with
  | (none, f1) => (none, f1)
  | (some mzOff, f1) => magicMzAt f1 mzOff

/-- body of find_magic_pe (no `try`: an EOFError of the struct read would escape). -/
def magicPeAt (f : PyFile) (mzOff : Nat) : Py (Option Bytes) × PyFile :=
  match readStruct (seekNat f mzOff) dosHeaderSize with
  | (none, f2) => (.error .eofError, f2)
  | (some mz, f2) =>
    match f2.seekSet (fieldVal mz dosLfanew + (mzOff : Int)) with
    | .error e => (.error e, f2)
    | .ok (_, f3) =>
      let r := f3.read 4
      (.ok (some (rstrip0 r.1)), r.2)

/-- `pe.find_magic_pe` -/
def findMagicPe (f : PyFile) (start : Option Nat) (maxrange : Nat) : Py (Option Bytes) × PyFile :=
  match findMzOffset f start maxrange with
  | (none, f1) => (.ok none, f1)
  | (some mzOff, f1) => magicPeAt f1 mzOff

/-! ### find_stage_prepend_append -/

/-- `size = SizeOfHeaders; for section in sections: size += section.SizeOfRawData` -/
def totalSize (opt : Bytes) (is64 : Bool) (secs : List Bytes) : Int :=
  secs.foldl (fun acc s => acc + fieldVal s secSizeOfRawData) (fieldVal opt (optSizeOfHeaders is64))

def prependAppendAt (f : PyFile) (mzOff : Nat) : Py (Option Bytes × Option Bytes) × PyFile :=
  -- if mz_offset > 0: fh.seek(0); prepend = fh.read(mz_offset)
  let pf : Option Bytes × PyFile :=
    if mzOff > 0 then
      let r := (seekNat f 0).read mzOff
      (some r.1, r.2)
    else (none, f)
  let prepend := pf.1
  match readStruct (seekNat pf.2 mzOff) dosHeaderSize with
  | (none, f2) => (.ok (prepend, none), f2)
  | (some mz, f2) =>
    match f2.seekSet (fieldVal mz dosLfanew + (mzOff : Int) + 4) with     -- fh.seek(mz.e_lfanew + mz_offset + 4)
    | .error e => (.error e, f2)
    | .ok (_, f3) =>
      match readStruct f3 fileHeaderSize with
      | (none, f4) => (.ok (prepend, none), f4)
      | (some img, f4) =>
        let m := fieldVal img fhMachine
        if m = (machineAmd64 : Int) ∨ m = (machineI386 : Int) then
          let is64 := decide (m = (machineAmd64 : Int))
          match readStruct f4 (optSize is64) with
          | (none, f5) => (.ok (prepend, none), f5)
          | (some opt, f5) =>
            match readSections (fieldVal img fhNumberOfSections).toNat f5 with
            | (none, f6) => (.ok (prepend, none), f6)
            | (some secs, f6) =>
              match f6.seekSet ((mzOff : Int) + totalSize opt is64 secs) with   -- fh.seek(mz_offset + size)
              | .error e => (.error e, f6)
              | .ok (_, f7) =>
                let r := f7.read 1024                                     -- append = fh.read(1024) or None
                if r.1.isEmpty then (.ok (prepend, none), r.2)
                else (.ok (prepend, some (rstrip0 r.1)), r.2)             -- append.rstrip(b"\x00")
        else (.ok (prepend, none), f4)

/-- `pe.find_stage_prepend_append` -/
def findStagePrependAppend (f : PyFile) (start : Option Nat) (maxrange : Nat) :
    Py (Option Bytes × Option Bytes) × PyFile :=
  match findMzOffset f start maxrange with
  | (none, f1) => (.ok (none, none), f1)
  | (some mzOff, f1) => prependAppendAt f1 mzOff


/-! ### several calls on ONE file object

The helpers are documented to have the file position as their only side effect; `peRun` threads the file through a
list of calls (optionally preceded by an absolute `fh.seek`), returning every result with the position left behind. -/

inductive PeOp | mz | arch | stamps | mmz | mpe | ppa
  deriving DecidableEq, Repr

inductive PeOut
  | mz (r : Option Nat)
  | arch (r : Option Arch)
  | stamps (r : Py (Option Int × Option Int))
  | mmz (r : Option Bytes)
  | mpe (r : Py (Option Bytes))
  | ppa (r : Py (Option Bytes × Option Bytes))
  deriving DecidableEq

def peCall (f : PyFile) (start : Option Nat) (maxrange : Nat) : PeOp → PeOut × PyFile
  | .mz => let r := findMzOffset f start maxrange; (.mz r.1, r.2)
  | .arch => let r := findArchitecture f start maxrange; (.arch r.1, r.2)
  | .stamps => let r := findCompileStamps f start maxrange; (.stamps r.1, r.2)
  | .mmz => let r := findMagicMz f start maxrange; (.mmz r.1, r.2)
  | .mpe => let r := findMagicPe f start maxrange; (.mpe r.1, r.2)
  | .ppa => let r := findStagePrependAppend f start maxrange; (.ppa r.1, r.2)

structure PeCall where
  op : PeOp
  start : Option Nat
  seekTo : Option Nat := none
  deriving DecidableEq, Repr

/-- optional `fh.seek(p)` before a call -/
def seekOpt (f : PyFile) : Option Nat → PyFile
  | some p => seekNat f p
  | none => f

def peRun (maxrange : Nat) : PyFile → List PeCall → List (PeOut × Nat)
  | _, [] => []
  | f, c :: cs =>
    let r := peCall (seekOpt f c.seekTo) c.start maxrange c.op
    (r.1, r.2.tell) :: peRun maxrange r.2 cs

/-! ### the same functions over an abstract file-like object

`pe.py` only uses `read(n)`, `seek(off)` and `tell()`, and the library also runs these functions over the
`XorEncodedFile` view (beacon.py 824-825, xordecode.py 121).  `Generic.*` are the six functions over any `FileLike σ`;
`Lemmas/C18.lean` (`generic_*`) proves that on `pyFileLike` they coincide with the PyFile versions above. -/

/-- What `pe.py` needs from a binary file object: `fh.read(n)`, `fh.seek(off)` (SEEK_SET) and `fh.tell()`.
`read`/`seek` may raise; `pe.py` never catches those (it only catches the EOFError of the cstruct read itself),
so they propagate out of every function below. -/
structure FileLike (σ : Type) where
  read : σ → Int → Py (Bytes × σ)
  seek : σ → Int → Py (Nat × σ)
  tell : σ → Int

/-- `io.BytesIO` / OS files -/
def pyFileLike : FileLike PyFile where
  read f n := .ok (f.read n)
  seek f off := f.seekSet off
  tell f := (f.tell : Int)

/-- a raising call of the PyFile model as a generic result -/
def liftPy {α : Type} (r : Py α × PyFile) : Py (α × PyFile) :=
  match r.1 with
  | .ok a => .ok (a, r.2)
  | .error e => .error e

namespace Generic
variable {σ : Type} (F : FileLike σ)

/-- cstruct structure read: `none` = EOFError (short read) -/
def readStruct (s : σ) (size : Nat) : Py (Option Bytes × σ) :=
  match F.read s (size : Int) with
  | .error e => .error e
  | .ok (buf, s1) => if buf.length = size then .ok (some buf, s1) else .ok (none, s1)

def readSections : Nat → σ → Py (Option (List Bytes) × σ)
  | 0, s => .ok (some [], s)
  | n + 1, s =>
    match readStruct F s sectionSize with
    | .error e => .error e
    | .ok (none, s1) => .ok (none, s1)
    | .ok (some b, s1) =>
      match readSections n s1 with
      | .error e => .error e
      | .ok (none, s2) => .ok (none, s2)
      | .ok (some bs, s2) => .ok (some (b :: bs), s2)

def probe (s : σ) (base : Int) (maxrange : Nat) : Py (Option Int × σ) :=
  match F.seek s base with
  | .error e => .error e
  | .ok (_, s1) =>
    match readStruct F s1 dosHeaderSize with
    | .error e => .error e
    | .ok (none, s2) => .ok (none, s2)
    | .ok (some mz, s2) =>
      let e := fieldVal mz dosLfanew
      if 0 < e ∧ e < (maxrange : Int) then
        match F.seek s2 (base + 4 + e) with
        | .error x => .error x
        | .ok (_, s3) =>
          match readStruct F s3 fileHeaderSize with
          | .error x => .error x
          | .ok (none, s4) => .ok (none, s4)
          | .ok (some img, s4) => .ok (some (fieldVal img fhMachine), s4)
      else .ok (none, s2)

def scanLoop (classify : Int → Option α) (start : Int) (maxrange : Nat) : List Nat → σ → Py (Option (Int × α) × σ)
  | [], s => .ok (none, s)
  | off :: rest, s =>
    match probe F s (start + (off : Int)) maxrange with
    | .error e => .error e
    | .ok (some m, s1) =>
      match classify m with
      | some a => .ok (some (start + (off : Int), a), s1)
      | none => scanLoop classify start maxrange rest s1
    | .ok (none, s1) => scanLoop classify start maxrange rest s1

def startOf (s : σ) (start : Option Int) : Int :=
  match start with
  | some x => x
  | none => F.tell s

def findMzOffset (s : σ) (start : Option Int) (maxrange : Nat) : Py (Option Int × σ) :=
  match scanLoop F classifyMz (startOf F s start) maxrange (List.range maxrange) s with
  | .error e => .error e
  | .ok (some (o, _), s1) => .ok (some o, s1)
  | .ok (none, s1) => .ok (none, s1)

def findArchitecture (s : σ) (start : Option Int) (maxrange : Nat) : Py (Option Arch × σ) :=
  match scanLoop F classifyArch (startOf F s start) maxrange (List.range maxrange) s with
  | .error e => .error e
  | .ok (some (_, a), s1) => .ok (some a, s1)
  | .ok (none, s1) => .ok (none, s1)

end Generic

namespace Generic
variable {σ : Type} (F : FileLike σ)

def compileStampsAt (s : σ) (mzOff : Int) : Py ((Option Int × Option Int) × σ) :=
  match F.seek s mzOff with
  | .error e => .error e
  | .ok (_, s1) =>
  match readStruct F s1 dosHeaderSize with
  | .error e => .error e
  | .ok (none, s2) => .ok ((none, none), s2)
  | .ok (some mz, s2) =>
    match F.seek s2 (fieldVal mz dosLfanew + mzOff) with
    | .error e => .error e
    | .ok (_, s3) =>
      match readStruct F s3 sigSize with
      | .error e => .error e
      | .ok (none, s4) => .ok ((none, none), s4)
      | .ok (some _, s4) =>
        match readStruct F s4 fileHeaderSize with
        | .error e => .error e
        | .ok (none, s5) => .ok ((none, none), s5)
        | .ok (some img, s5) =>
          let compile := fieldVal img fhTimeDateStamp
          let is64 := decide (fieldVal img fhMachine = (machineAmd64 : Int))
          match readStruct F s5 (optSize is64) with
          | .error e => .error e
          | .ok (none, s6) => .ok ((some compile, none), s6)
          | .ok (some opt, s6) =>
            let rva := fieldVal opt (optExportVA is64)
            match readSections F (fieldVal img fhNumberOfSections).toNat s6 with
            | .error e => .error e
            | .ok (none, s7) => .ok ((some compile, none), s7)
            | .ok (some secs, s7) =>
              match secs.find? (sectionContains rva) with
              | none => .ok ((some compile, none), s7)
              | some ds =>
                match F.seek s7 (rva - fieldVal ds secVirtualAddress + fieldVal ds secPointerToRawData + mzOff) with
                | .error e => .error e
                | .ok (_, s8) =>
                  match readStruct F s8 exportDirSize with
                  | .error e => .error e
                  | .ok (none, s9) => .ok ((some compile, none), s9)
                  | .ok (some ed, s9) => .ok ((some compile, some (fieldVal ed expTimeDateStamp)), s9)

def findCompileStamps (s : σ) (start : Option Int) (maxrange : Nat) : Py ((Option Int × Option Int) × σ) :=
  match findMzOffset F s start maxrange with
  | .error e => .error e
  | .ok (none, s1) => .ok ((none, none), s1)
  | .ok (some mzOff, s1) => compileStampsAt F s1 mzOff

end Generic

namespace Generic
variable {σ : Type} (F : FileLike σ)

def magicMzAt (s : σ) (mzOff : Int) : Py (Option Bytes × σ) :=
  match F.seek s mzOff with
  | .error e => .error e
  | .ok (_, s1) =>
    match F.read s1 256 with
    | .error e => .error e
    | .ok (data, s2) =>
      let pos := match findSub dosHeaderX86 data 0 with
        | some p => some p
        | none => findSub dosHeaderX64 data 0
      match pos with
      | some p => .ok (some (data.take p), s2)
      | none => .ok (none, s2)

def findMagicMz (s : σ) (start : Option Int) (maxrange : Nat) : Py (Option Bytes × σ) :=
  match findMzOffset F s start maxrange with
  | .error e => .error e
  | .ok (none, s1) => .ok (none, s1)
  | .ok (some mzOff, s1) => magicMzAt F s1 mzOff

def magicPeAt (s : σ) (mzOff : Int) : Py (Option Bytes × σ) :=
  match F.seek s mzOff with
  | .error e => .error e
  | .ok (_, s1) =>
    match readStruct F s1 dosHeaderSize with
    | .error e => .error e
    | .ok (none, _) => .error .eofError
    | .ok (some mz, s2) =>
      match F.seek s2 (fieldVal mz dosLfanew + mzOff) with
      | .error e => .error e
      | .ok (_, s3) =>
        match F.read s3 4 with
        | .error e => .error e
        | .ok (b, s4) => .ok (some (rstrip0 b), s4)

def findMagicPe (s : σ) (start : Option Int) (maxrange : Nat) : Py (Option Bytes × σ) :=
  match findMzOffset F s start maxrange with
  | .error e => .error e
  | .ok (none, s1) => .ok (none, s1)
  | .ok (some mzOff, s1) => magicPeAt F s1 mzOff

/-- `if mz_offset > 0: fh.seek(0); prepend = fh.read(mz_offset)` -/
def readPrepend (s : σ) (mzOff : Int) : Py (Option Bytes × σ) :=
  if mzOff > 0 then
    match F.seek s 0 with
    | .error e => .error e
    | .ok (_, s0) =>
      match F.read s0 mzOff with
      | .error e => .error e
      | .ok (b, s0') => .ok (some b, s0')
  else .ok (none, s)

def prependAppendAt (s : σ) (mzOff : Int) : Py ((Option Bytes × Option Bytes) × σ) :=
  match readPrepend F s mzOff with
  | .error e => .error e
  | .ok (prepend, sp) =>
  match F.seek sp mzOff with
  | .error e => .error e
  | .ok (_, s1) =>
  match readStruct F s1 dosHeaderSize with
  | .error e => .error e
  | .ok (none, s2) => .ok ((prepend, none), s2)
  | .ok (some mz, s2) =>
    match F.seek s2 (fieldVal mz dosLfanew + mzOff + 4) with
    | .error e => .error e
    | .ok (_, s3) =>
      match readStruct F s3 fileHeaderSize with
      | .error e => .error e
      | .ok (none, s4) => .ok ((prepend, none), s4)
      | .ok (some img, s4) =>
        let m := fieldVal img fhMachine
        if m = (machineAmd64 : Int) ∨ m = (machineI386 : Int) then
          let is64 := decide (m = (machineAmd64 : Int))
          match readStruct F s4 (optSize is64) with
          | .error e => .error e
          | .ok (none, s5) => .ok ((prepend, none), s5)
          | .ok (some opt, s5) =>
            match readSections F (fieldVal img fhNumberOfSections).toNat s5 with
            | .error e => .error e
            | .ok (none, s6) => .ok ((prepend, none), s6)
            | .ok (some secs, s6) =>
              match F.seek s6 (mzOff + totalSize opt is64 secs) with
              | .error e => .error e
              | .ok (_, s7) =>
                match F.read s7 1024 with
                | .error e => .error e
                | .ok (b, s8) =>
                  if b.isEmpty then .ok ((prepend, none), s8) else .ok ((prepend, some (rstrip0 b)), s8)
        else .ok ((prepend, none), s4)

def findStagePrependAppend (s : σ) (start : Option Int) (maxrange : Nat) : Py ((Option Bytes × Option Bytes) × σ) :=
  match findMzOffset F s start maxrange with
  | .error e => .error e
  | .ok (none, s1) => .ok ((none, none), s1)
  | .ok (some mzOff, s1) => prependAppendAt F s1 mzOff

end Generic

/-! ### BeaconVersion -/

/-- Python `str` as Unicode code points. -/
abbrev Txt := List Nat

def toTxt (s : String) : Txt := s.toList.map Char.toNat

/-- value of a Unicode decimal digit: the characters `\d` (str pattern) matches and `int()` converts come in aligned
runs 0..9; `Gen.Version.decimalZeros` lists the zero of every run (measured on `re`/`int` at generation time). -/
def digitValue? (c : Nat) : Option Nat :=
  match Gen.Version.decimalZeros.find? (fun z => decide (z ≤ c ∧ c < z + 10)) with
  | some z => some (c - z)
  | none => none

/-- `\d` -/
def isDigit (c : Nat) : Bool := (digitValue? c).isSome

/-- digit value; only applied to characters for which `isDigit` holds -/
def digitVal (c : Nat) : Nat :=
  match digitValue? c with
  | some v => v
  | none => 0

/-- `\s` of a str pattern (`Gen.Version.whitespace`, measured on `re` over all code points) -/
def isSpace (c : Nat) : Bool := Gen.Version.whitespace.contains c

/-- `int(digits)` -/
def digitsVal (ds : Txt) : Nat := ds.foldl (fun a c => a * 10 + digitVal c) 0

def stripPrefix : Txt → Txt → Option Txt
  | [], t => some t
  | _ :: _, [] => none
  | p :: ps, c :: cs => if p = c then stripPrefix ps cs else none

structure Date where
  y : Nat
  m : Nat
  d : Nat
  deriving DecidableEq, Repr

structure VersionInfo where
  tuple : List Nat
  date : Date
  deriving DecidableEq, Repr

/-- `"Cobalt Strike "` -/
def prefixCS : Txt := [67, 111, 98, 97, 108, 116, 32, 83, 116, 114, 105, 107, 101, 32]

/-- `"Unknown"` -/
def unknownTxt : Txt := [85, 110, 107, 110, 111, 119, 110]

/-- the groups of `re.match(REGEX_VERSION, text)`:
`Cobalt Strike (\d+)\.(\d+)(\.(\d+))? \((.*)\)` — prefix match; `.*` is greedy and does not cross a newline, so the
date group ends at the last `)` of the first line. -/
def matchVersion (t : Txt) : Option (Txt × Txt × Option Txt × Txt) :=
  match stripPrefix prefixCS t with
  | none => none
  | some r0 =>
    let major := r0.takeWhile isDigit
    if major.isEmpty then none else
    match r0.dropWhile isDigit with
    | 46 :: r2 =>
      let minor := r2.takeWhile isDigit
      if minor.isEmpty then none else
      let r3 := r2.dropWhile isDigit
      -- optional group (\.(\d+))? : taken iff a dot and at least one digit follow (no other split can succeed)
      let pr : Option Txt × Txt :=
        match r3 with
        | 46 :: r3' =>
          let p := r3'.takeWhile isDigit
          if p.isEmpty then (none, r3) else (some p, r3'.dropWhile isDigit)
        | _ => (none, r3)
      match stripPrefix [32, 40] pr.2 with
      | none => none
      | some r5 =>
        let line := r5.takeWhile (· != 10)
        match line.reverse.dropWhile (· != 41) with
        | [] => none
        | _ :: revDate => some (major, minor, pr.1, revDate.reverse)
    | _ => none

def lower (c : Nat) : Nat := if 65 ≤ c ∧ c ≤ 90 then c + 32 else c

/-- 1-based index of a month abbreviation (`%b`, matched with re.IGNORECASE, then `.lower()` looked up). -/
def monthIndex (a b c : Nat) : Option Nat :=
  match Gen.Version.monthAbbr.findIdx? (· == [lower a, lower b, lower c]) with
  | some i => some (i + 1)
  | none => none

def isLeap (y : Nat) : Bool := decide (y % 4 = 0 ∧ (y % 100 ≠ 0 ∨ y % 400 = 0))

def daysInMonth (y m : Nat) : Nat :=
  if m = 2 then (if isLeap y then 29 else 28)
  else if m = 4 ∨ m = 6 ∨ m = 9 ∨ m = 11 then 30 else 31

/-- `datetime.date(y, m, d)` accepts exactly these. -/
def validDate (y m d : Nat) : Bool := decide (1 ≤ y ∧ y ≤ 9999 ∧ 1 ≤ m ∧ m ≤ 12 ∧ 1 ≤ d ∧ d ≤ daysInMonth y m)

/-- `%d` = `3[0-1]|[1-2]\d|0[1-9]|[1-9]| [1-9]`, followed by the literal comma of the format.
Returns the day and the text after the comma. -/
def parseDay : Txt → Option (Nat × Txt)
  | c1 :: c2 :: 44 :: rest =>
    if (c1 = 51 ∧ (c2 = 48 ∨ c2 = 49)) ∨ ((c1 = 49 ∨ c1 = 50) ∧ isDigit c2) ∨ (c1 = 48 ∧ 49 ≤ c2 ∧ c2 ≤ 57)
    then some ((c1 - 48) * 10 + digitVal c2, rest) else none
  | c1 :: 44 :: rest => if 49 ≤ c1 ∧ c1 ≤ 57 then some (c1 - 48, rest) else none
  | _ => none

/-- `datetime.datetime.strptime(s, "%b %d, %Y").date()`; `none` = ValueError.
The format's blanks are `\s+`; the whole string must be consumed; the year is exactly four digits. -/
def strptimeDate (s : Txt) : Option Date :=
  match s with
  | a :: b :: c :: r0 =>
    match monthIndex a b c with
    | none => none
    | some m =>
      let r1 := r0.dropWhile isSpace
      if r1.length = r0.length then none else
      match parseDay r1 with
      | none => none
      | some (d, r2) =>
        let r3 := r2.dropWhile isSpace
        if r3.length = r2.length then none else
        match r3 with
        | [y1, y2, y3, y4] =>
          if isDigit y1 ∧ isDigit y2 ∧ isDigit y3 ∧ isDigit y4 then
            let y := digitsVal [y1, y2, y3, y4]
            if validDate y m d then some ⟨y, m, d⟩ else none
          else none
        | _ => none
  | _ => none

/-- `BeaconVersion(text)`: `.ok none` = the regex does not match (tuple = date = None);
`.error valueError` = the regex matches but `strptime` raises. -/
def parseVersion (t : Txt) : Py (Option VersionInfo) :=
  match matchVersion t with
  | none => .ok none
  | some (major, minor, patch, date) =>
    match strptimeDate date with
    | none => .error .valueError
    | some d =>
      match patch with
      | some p => .ok (some ⟨[digitsVal major, digitsVal minor, digitsVal p], d⟩)
      | none => .ok (some ⟨[digitsVal major, digitsVal minor], d⟩)

/-- `table.get(key, "Unknown")` -/
def lookup (tbl : List Gen.Version.Entry) (k : Int) : Txt :=
  match tbl.find? (fun e => decide ((e.key : Int) = k)) with
  | some e => e.text
  | none => Gen.Version.unknownText

/-! ### order of releases (used by the table-monotonicity obligations) -/

/-- Python tuple order (lexicographic; a proper prefix is smaller) -/
def tupleLe : List Nat → List Nat → Bool
  | [], _ => true
  | _ :: _, [] => false
  | a :: as, b :: bs => a < b || (a == b && tupleLe as bs)

/-- `datetime.date` order -/
def dateLe (a b : Date) : Bool :=
  a.y < b.y || (a.y == b.y && (a.m < b.m || (a.m == b.m && a.d ≤ b.d)))

/-- "a later key never maps to an earlier release", evaluated through the lookup + parser of the model -/
def monotoneAt (tbl : List Gen.Version.Entry) (k1 k2 : Int) : Bool :=
  !(decide (k1 < k2)) ||
    (match parseVersion (lookup tbl k1), parseVersion (lookup tbl k2) with
     | .ok (some a), .ok (some b) => tupleLe a.tuple b.tuple && dateLe a.date b.date
     | _, _ => false)

/-- `BeaconConfig.version`: `if self.pe_export_stamp:` (None and 0 are falsy) … else the max setting enum. -/
def versionFor (exportStamp : Option Int) (maxEnum : Int) : Txt :=
  match exportStamp with
  | some s => if s ≠ 0 then lookup Gen.Version.peExportStampEntries s else lookup Gen.Version.maxEnumEntries maxEnum
  | none => lookup Gen.Version.maxEnumEntries maxEnum

/-- `max(self.setting_enums)` — ValueError on an empty configuration. -/
def maxEnumOf : List Nat → Py Nat
  | [] => .error .valueError
  | x :: xs => .ok (xs.foldl max x)

/-- `BeaconVersion.from_max_setting_enum(self.max_setting_enum)` -/
def enumVersion (enums : List Nat) : Py Txt :=
  match maxEnumOf enums with
  | .error e => .error e
  | .ok m => .ok (lookup Gen.Version.maxEnumEntries (m : Int))

/-- `BeaconConfig.version` from the export stamp and the setting indices of the configuration
(`max_setting_enum` is only evaluated when the stamp is falsy). -/
def configVersion (exportStamp : Option Int) (enums : List Nat) : Py Txt :=
  match exportStamp with
  | some s => if s ≠ 0 then .ok (lookup Gen.Version.peExportStampEntries s) else enumVersion enums
  | none => enumVersion enums

/-! ### histories on ONE `BeaconConfig` object

`BeaconConfig.version` is a property computed from the object's *current* attributes: `pe_export_stamp`
(a public attribute, assigned by `from_file` and assignable by users) and the immutable settings.
`pe_compile_stamp` and `architecture` are other public attributes that must not matter. -/

inductive CfgOp
  | readVersion
  | readMaxEnum
  | setExportStamp (s : Option Int)
  | setCompileStamp (s : Option Int)
  | setArch (a : Option Arch)
  deriving DecidableEq, Repr

structure CfgState where
  exportStamp : Option Int := none
  compileStamp : Option Int := none
  arch : Option Arch := none
  deriving DecidableEq, Repr

inductive CfgOut
  | version (r : Py Txt)
  | maxEnum (r : Py Nat)
  deriving DecidableEq

/-- attribute assignment -/
def cfgNext (s : CfgState) : CfgOp → CfgState
  | .setExportStamp x => { s with exportStamp := x }
  | .setCompileStamp x => { s with compileStamp := x }
  | .setArch a => { s with arch := a }
  | _ => s

/-- what a step returns to the caller (reads only) -/
def cfgRead (enums : List Nat) (s : CfgState) : CfgOp → List CfgOut
  | .readVersion => [.version (configVersion s.exportStamp enums)]
  | .readMaxEnum => [.maxEnum (maxEnumOf enums)]
  | _ => []

/-- outputs of all reads of a history executed on one object with setting indices `enums` -/
def cfgRun (enums : List Nat) : CfgState → List CfgOp → List CfgOut
  | _, [] => []
  | s, op :: ops => cfgRead enums s op ++ cfgRun enums (cfgNext s op) ops

/-- `version_only` -/
def natDigits (n : Nat) : Txt :=
  if h : n < 10 then [48 + n] else natDigits (n / 10) ++ [48 + n % 10]
decreasing_by omega

def joinDots : List Nat → Txt
  | [] => []
  | [x] => natDigits x
  | x :: xs => natDigits x ++ 46 :: joinDots xs

def versionOnly : Option VersionInfo → Txt
  | none => unknownTxt
  | some v => joinDots v.tuple

/-! ### the documented shape (used by `version_parse_format`) -/

def pad2 (n : Nat) : Txt := [48 + n / 10 % 10, 48 + n % 10]
def pad4 (n : Nat) : Txt := [48 + n / 1000 % 10, 48 + n / 100 % 10, 48 + n / 10 % 10, 48 + n % 10]

/-- `Jan`, `Feb`, … (capitalised entry of the `%b` table); empty for an index outside 1..12. -/
def monthName (m : Nat) : Txt :=
  match Gen.Version.monthAbbr[m - 1]? with
  | some (a :: r) => (if 97 ≤ a ∧ a ≤ 122 then a - 32 else a) :: r
  | _ => []

/-- `"Cobalt Strike {major}.{minor}[.{patch}] ({Mon} {DD}, {YYYY})"` -/
def formatVersion (major minor : Nat) (patch : Option Nat) (d : Date) : Txt :=
  prefixCS ++ natDigits major ++ 46 :: natDigits minor ++
    (match patch with
     | some p => 46 :: natDigits p
     | none => []) ++
    [32, 40] ++ monthName d.m ++ 32 :: pad2 d.d ++ [44, 32] ++ pad4 d.y ++ [41]

end C18

import CsVerif.Model.C19
import CsVerif.Gen.PyClient
/-!
C19 — glue between the hand-written model (`Model/C19.lean`) and the definitions translated from the source of
dissect/cobaltstrike/client.py (`Gen/PyClient.lean`, untyped translator; plug-in `tools/gen/py_client.py`): the EXTERNAL functions
of the translated definitions instantiated with the model's primitives, and the encodings of the model's types as Python values.
Used by the driver (`g-*` streams) and by `Props/C19Gen.lean`.
-/
namespace C19Gen
open PyU (V)
open C19

/-! ### identity -/

/-- `random.getrandbits(k)` answering `r` -/
def getrandbitsX (r : Int) : V → Py V := fun _ => .ok (.int r)

/-- `seeded_getrandbits(seed, k)` = `random.seed(seed); random.getrandbits(k)` for a Mersenne-Twister stand-in `mt seed k`
(ints only; anything else is not part of this instance: TypeError) -/
def seededX (mt : Int → Int → Int) (seed k : V) : Py V :=
  match seed, k with
  | .int s, .int k => .ok (.int (mt s k))
  | _, _ => .error .typeError

/-- `sha256_digest(data)` = `hashlib.sha256(data).digest()` for a stand-in `sha` (bytes only) -/
def shaX (sha : Bytes → Bytes) : V → Py V
  | .bytes b => .ok (.bytes (sha b))
  | _ => .error .typeError

/-- `n.to_bytes(16, "big")` for `0 ≤ n < 2^128` -/
def bytes16 (n : Int) : Bytes := (PyRt.toLE 16 n.toNat).reverse

/-- the primitives of the hand model made of the two stand-ins: `aesRand bid` is
`random.seed(bid ^ 0xACCE55ED); random.getrandbits(128).to_bytes(16, "big")` -/
def primsOf (mt : Int → Int → Int) (sha : Bytes → Bytes) : Prims :=
  { aesRand := fun bid => bytes16 (mt (PyRt.bxor bid 2899203565) 128), sha256 := sha }

def encKeys (k : Keys) : V := .tuple [.bytes k.aesRand, .bytes k.aesKey, .bytes k.hmacKey]

def encIdentity (a : Identity) : V := .tuple [.int a.beaconId, encKeys a.keys, .bytes a.info]

/-- the identity part of `run(dry_run=True, beacon_id=…, computer=…, user=…, process=…)` made of the three translated slices, in
the order of `run` (the id check, the keys — which cannot raise for a 128-bit draw —, then the info) -/
def runG (getrandbits : V → Py V) (seeded : V → V → Py V) (sha : V → Py V) (id computer user process : V) : Py V := do
  let bid ← Gen.PyClient.normalise_beacon_id getrandbits id
  let keys ← Gen.PyClient.session_keys seeded sha bid
  let info ← Gen.PyClient.make_info computer user process
  pure (.tuple [bid, keys, info])

/-! ### the registry -/

def encKey : Key → V
  | none => .none
  | some n => .int n

/-- the dict `task_map` as a value: keys in insertion order, each with the contents of its list (`Client.view`) -/
def encView (enc : Handler → V) (v : List (Key × List Handler)) : V :=
  .dict (v.map fun kh => encKey kh.1) (v.map fun kh => .list (kh.2.map enc))

/-- the client object as far as the translated methods look at it -/
def encClient (enc : Handler → V) (c : Client) : V := .inst Gen.PyClient.HttpBeaconClientCls [encView enc c.view]

/-- `getattr(self, name, default)` for the `on_*` attributes of the model's client (instance first, then class) -/
def getattrX (enc : Handler → V) (c : Client) (_self name dflt : V) : Py V :=
  match name with
  | .str n => .ok (match c.getattr n with | some h => enc h | none => dflt)
  | _ => .error .typeError

/-- a truthy object with the attribute `value` (what `handle(command)` accepts besides `None` and ints) -/
def ValueObjCls : PyU.Cls := { cid := 7104, fields := ["value"], isTuple := false, bases := [] }

/-- the argument of `handle(command)`; an IntEnum member is the int it is (as in the hand model), an object without `.value`
is the string `"sleep"` -/
def encArg : CmdArg → V
  | .none => .none
  | .int n => .int n
  | .valueObj v => .inst ValueObjCls [encKey v]
  | .plainObj => PyU.lit "sleep"

/-- one registration through the TRANSLATED registration code (`handle(command)(h)`, `register_task(k, h)`, `catch_all()(h)`);
the definition of an `on_*` attribute does not touch `task_map` (attributes are reached through `getattrX`) -/
def applyRegG (enc : Handler → V) (cv : V) : Reg → Py V
  | .handle a h => do
    let p ← Gen.PyClient.handle_decorator cv (encArg a) (enc h)
    let q ← PyU.unpack2 p
    pure q.2
  | .register k h => Gen.PyClient.register_task cv (encKey k) (enc h)
  | .catchAll h => do
    let p ← Gen.PyClient.catch_all_decorator cv (enc h)
    let q ← PyU.unpack2 p
    pure q.2
  | .instAttr _ _ => pure cv
  | .classAttr _ _ => pure cv

/-- a script of registrations in which each raising one is caught by the caller (it leaves the client as it was) -/
def applyRegsG (enc : Handler → V) (cv : V) : List Reg → V × List (Option PyExc)
  | [] => (cv, [])
  | r :: rs =>
    match applyRegG enc cv r with
    | .error e =>
      let (c', es) := applyRegsG enc cv rs
      (c', some e :: es)
    | .ok c1 =>
      let (c', es) := applyRegsG enc c1 rs
      (c', none :: es)

/-- `HttpBeaconClient()` as far as the translated methods look at it: `__init__` sets `self.task_map = {}` -/
def newClientG : V := .inst Gen.PyClient.HttpBeaconClientCls [.dict [] []]

/-! ### dispatch -/

def CommandCls : PyU.Cls := { cid := 7105, fields := ["value"], isTuple := false, bases := [] }
def TaskCls : PyU.Cls := { cid := 7106, fields := ["command"], isTuple := false, bases := [] }

/-- what `get_task()` returned: `None`, or a task packet (always truthy) whose `command.value` is `v` -/
def encTask : Option Int → V
  | none => .none
  | some v => .inst TaskCls [.inst CommandCls [.int v]]

def encEvent : Event → V
  | .call i => .tuple [.int 0, .int i]
  | .send i => .tuple [.int 1, .int i]
  | .sleep => .tuple [.int 2]

/-- what the `try` statement around the call of one handler does, as a value: the list of its events -/
def encEvents (es : List Event) : V := .list (es.map encEvent)

/-! ### a concrete representation of handler objects (driver, non-vacuity) -/

def HandlerCls : PyU.Cls := { cid := 7102, fields := ["id", "callable", "raises", "responds"], isTuple := false, bases := [] }

/-- a falsy object: an empty NamedTuple instance; the handler is kept in the class descriptor -/
def falsyCls (h : Handler) : PyU.Cls :=
  { cid := 7103, fields := [], isTuple := true,
    bases := [h.id, if h.callable then 1 else 0, if h.raises then 1 else 0, if h.responds then 1 else 0] }

def encH (h : Handler) : V :=
  if h.truthy then .inst HandlerCls [.int h.id, .bool h.callable, .bool h.raises, .bool h.responds]
  else .inst (falsyCls h) []

def decH : V → Option Handler
  | .inst c vs =>
    if c.cid = 7102 then
      match vs with
      | [.int i, .bool cl, .bool r, .bool s] => some ⟨i.toNat, cl, true, r, s⟩
      | _ => none
    else if c.cid = 7103 then
      match c.bases with
      | [i, cl, r, s] => some ⟨i, cl == 1, false, r == 1, s == 1⟩
      | _ => none
    else none
  | _ => none

/-- `callable(h)` -/
def callableH (v : V) : Py V :=
  match decH v with
  | some h => .ok (.bool h.callable)
  | none => .ok (.bool false)

/-- the `try` statement around the call of one handler -/
def invokeH (v _task : V) : Py V :=
  match decH v with
  | some h => .ok (encEvents (invokeOne h))
  | none => .error .typeError

/-- the events of the per-handler values returned by the translated `dispatch` -/
def flattenEvents : V → Option (List V)
  | .list xs => xs.foldr (fun x acc => match x, acc with | .list es, some r => some (es ++ r) | _, _ => none) (some [])
  | _ => none

end C19Gen

import CsVerif.Model.PyU
/-!
PyU_T02 — additions to the run-time library of the untyped translator (`tools/py2leanu.py`) for `iter_settings` and
`BeaconConfig.settings_map` of beacon.py (property C02).  Same conventions as `PyU.lean`: every operation is a total function into
`Py`, the raising branches of CPython 3.12 / dissect.cstruct 4.7 are explicit, the operand kinds an operation does not model are
stated in its doc comment (they answer `TypeError`) and left out of the `pyu` validation stream of C02
(tools/harness/pyuval_t02.py runs every operation of this file against CPython / dissect.cstruct on random operands).
No new constructor of `PyU.V`: a cstruct structure instance is an `inst` of a plain class, a callable value is an `inst` too.
No imports besides `PyU` (must link into the compiled drivers).
-/
namespace PyU
open PyRt (Str)

/-! ### `io.BytesIO.seek` -/

/-- `Py_ssize_t` / C `int` bounds of the argument conversion of `BytesIO.seek` -/
def ssizeMax : Int := 9223372036854775807
def cintMax : Int := 2147483647

/-- `p.seek(off, whence)` for an `io.BytesIO`: the new position and the object afterwards.  Both arguments int-like (otherwise
TypeError; an offset outside `Py_ssize_t` / a whence outside C `int` is an OverflowError); `whence` 0: a negative offset is a
ValueError; 1 / 2: relative to the position / the end, a negative target is clamped to 0, a target above `PY_SSIZE_T_MAX` is an
OverflowError (only a positive offset can get there: the position of a real object never exceeds `PY_SSIZE_T_MAX`); any other
`whence` is a ValueError.  A receiver that is not a BytesIO has no `seek` (AttributeError). -/
def bioSeek (p off whence : V) : Py (V × V) :=
  match p with
  | .bytesIO data pos =>
    match asInt off with
    | none => .error .typeError
    | some o =>
      if o < -ssizeMax - 1 ∨ ssizeMax < o then .error .overflowError
      else
        match asInt whence with
        | none => .error .typeError
        | some w =>
          if w < -cintMax - 1 ∨ cintMax < w then .error .overflowError
          else if w = 0 then
            if o < 0 then .error .valueError else .ok (.int o, .bytesIO data o.toNat)
          else if w = 1 ∨ w = 2 then
            let base : Int := if w = 1 then pos else data.length
            if 0 < o ∧ o > ssizeMax - base then .error .overflowError
            else
              let t := base + o
              let n := if t < 0 then 0 else t.toNat
              .ok (.int n, .bytesIO data n)
          else .error .valueError
  | _ => .error .attributeError

/-! ### cstruct structures read from a file object -/

/-- the type of one field of a cstruct structure, as far as the translated code needs it: an unsigned integer of `size` bytes,
a cstruct enum (read as its underlying unsigned integer), or `char name[<earlier field>]` (as many bytes as the value of that
field) -/
inductive FieldTy
  | uint (size : Nat)
  | enum (cls : EnumCls)
  | chars (lenField : String)
  deriving Repr

/-- a cstruct structure class: the class of its instances (plain class, one attribute per field) and the field types in
declaration order; `bigEndian`: the byte order of the cstruct instance -/
structure StructCls where
  cls : Cls
  bigEndian : Bool
  tys : List FieldTy
  deriving Repr

/-- the unsigned integer in `raw` -/
def uintOf (bigEndian : Bool) (raw : Bytes) : Nat := beNat (if bigEndian then raw else raw.reverse) 0

/-- read the fields `fs` (names) / `tys` from `rest`; `acc`: the values read so far (for `char x[field]`), newest first.
A read that delivers fewer bytes than the field needs is an EOFError (dissect.cstruct 4.7). -/
def readFields (bigEndian : Bool) : List String → List FieldTy → Bytes → List (String × V) → Py (List V × Bytes)
  | f :: fs, ty :: tys, rest, acc =>
    let n : Option Nat := match ty with
      | .uint size => some size
      | .enum cls => some cls.size
      | .chars lf => match acc.find? (·.1 == lf) with
        | some (_, v) => (asInt v).map Int.toNat
        | none => none
    match n with
    | none => .error .typeError
    | some n =>
      if rest.length < n then .error .eofError
      else
        let raw := rest.take n
        let v : V := match ty with
          | .uint _ => .int (uintOf bigEndian raw)
          | .enum cls => .enum cls (uintOf bigEndian raw)
          | .chars _ => .bytes raw
        match readFields bigEndian fs tys (rest.drop n) ((f, v) :: acc) with
        | .error e => .error e
        | .ok (vs, r) => .ok (v :: vs, r)
  | _, _, rest, _ => .ok ([], rest)

/-- `Cls(fobj)` for a cstruct structure class and an `io.BytesIO`: the new instance (fields read one after the other from the
current position) and the file object afterwards; short data is an EOFError (the position the real object is left at in that case
is not modelled: the translator only accepts a program that never uses the object again after catching the exception).
Not modelled (TypeError): every other kind of argument (`bytes` are parsed from the front, `None` / no argument give the
default instance, other values initialise the first field). -/
def structRead (sc : StructCls) (p : V) : Py (V × V) :=
  match p with
  | .bytesIO data pos =>
    match readFields sc.bigEndian sc.cls.fields sc.tys (data.drop pos) [] with
    | .error e => .error e
    | .ok (vs, rest) => .ok (.inst sc.cls vs, .bytesIO data (data.length - rest.length))
  | _ => .error .typeError

/-! ### attribute assignment -/

/-- `x.attr = v` for an instance of a plain class (cstruct structure instances included): the changed instance.  A NamedTuple
instance and every other kind of value here do not support attribute assignment (AttributeError).
Not modelled (AttributeError): a new attribute (a plain class instance would gain it), cstruct enum members and BytesIO objects
(objects with a `__dict__`: they gain the attribute). -/
def instSetAttr (x : V) (attr : String) (v : V) : Py V :=
  match x with
  | .inst cls vals =>
    if cls.isTuple then .error .attributeError
    else match setField attr v cls.fields vals with
      | some vs => .ok (.inst cls vs)
      | none => .error .attributeError
  | _ => .error .attributeError

/-! ### `try` / `except` -/

/-- one raising operation inside `try: … except <excs>:` — `none` when it raised one of the listed exceptions (the handler runs),
any other exception (in particular the fuel pseudo-exception) propagates -/
def attempt {α : Type} (excs : List PyExc) (x : Py α) : Py (Option α) :=
  match x with
  | .ok a => .ok (some a)
  | .error e => if excs.contains e then .ok none else .error e

/-! ### `str(x)`, `str.replace`, `tuple(x)`, `types.MappingProxyType` -/

/-- `str(x)`: `None`, `bool`, `int`, `str` as `format(x, "")`; `bytes`, lists and tuples give their `repr`; a cstruct enum member
is `<class name>.<member name>` (`<class name>.<value>` for an undefined value); `names`: the class names by `cid`.
Not modelled (TypeError): dicts, BytesIO, instances, members of a class without an entry in `names`. -/
def strOf (names : List (Nat × String)) (x : V) : Py V :=
  match x with
  | .enum cls v =>
    match names.find? (·.1 == cls.cid) with
    | none => .error .typeError
    | some (_, cn) =>
      let member : Str :=
        if v < 0 then decStr v
        else match cls.members.find? (·.1 == v.toNat) with
          | some m => cps m.2
          | none => decStr v
      .ok (.str (cps cn ++ [46] ++ member))
  | _ => (fmtS x).map .str

/-- all non-overlapping occurrences of the non-empty `old`, left to right -/
def replaceGo {α : Type} [BEq α] (old new : List α) : List α → Nat → List α
  | [], _ => []
  | _ :: xs, skip + 1 => replaceGo old new xs skip
  | x :: xs, 0 =>
    if old.isPrefixOf (x :: xs) then new ++ replaceGo old new xs (old.length - 1)
    else x :: replaceGo old new xs 0

/-- `x.replace(old, new)` for `str` / `bytes` (both arguments of the receiver's kind, otherwise TypeError); a receiver
without that method is an AttributeError.  Not modelled (TypeError): an empty `old` (CPython inserts `new` between all items). -/
def strReplace (x old new : V) : Py V :=
  match x with
  | .str t =>
    match old, new with
    | .str o, .str n => if o.isEmpty then .error .typeError else .ok (.str (replaceGo o n t 0))
    | _, _ => .error .typeError
  | .bytes t =>
    match old, new with
    | .bytes o, .bytes n => if o.isEmpty then .error .typeError else .ok (.bytes (replaceGo o n t 0))
    | _, _ => .error .typeError
  | _ => .error .attributeError

/-- `tuple(x)` -/
def tupleOf (x : V) : Py V := (iterList x).map .tuple

/-- `types.MappingProxyType(d)`: a read-only view of the dict — the same items in the same order (that the view cannot be
changed is not expressed here; C14's subject).  A list / tuple / `None` / int-like argument is a TypeError.
Not modelled (TypeError): `str` / `bytes` / instances (CPython accepts any object with `__getitem__`). -/
def mappingProxy : V → Py V
  | .dict ks vs => .ok (.dict ks vs)
  | _ => .error .typeError

/-- `max(xs)` of a list / tuple of int-likes: the first maximal item; an empty argument is a ValueError.
Not modelled (TypeError): items that are not int-like, other iterables. -/
def maxOf (x : V) : Py V :=
  let go (xs : List V) : Py V :=
    match xs with
    | [] => .error .valueError
    | y :: ys =>
      if (y :: ys).all (fun v => (asInt v).isSome) then
        .ok (ys.foldl (fun m v => if (asInt m).getD 0 < (asInt v).getD 0 then v else m) y)
      else .error .typeError
  match x with
  | .list xs => go xs
  | .tuple xs => go xs
  | _ => .error .typeError

end PyU

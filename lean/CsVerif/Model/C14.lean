import CsVerif.Model.Basic
import CsVerif.Gen.Beacon
/-!
C14 — "a parsed beacon configuration is an immutable value".

Executable model of the *object graph* around `BeaconConfig` (beacon.py 888-1004), `HttpDataTransform.__init__`
/ `C2Http.__init__` (c2.py 245-258, 411-469), `HttpBeaconClient.run(dry_run=True)` (client.py 184-315) and
`C2Profile.from_beacon_config` (c2profile.py 443-686).

Python `list` objects live in an explicit heap (`Heap := List (List Step)`, address = index); the cached
`MappingProxyType` views hold *references* into that heap, so aliasing between the configuration and the objects
built from it is representable.  Scalars (ints, bytes, str, the immutable step tuples) are interned `Nat` ids:
they cannot be mutated in Python, only the list objects can.

The parameter `copies : Bool` of the operations selects the code of `HttpDataTransform.__init__`:
`true`  = the tree as it is (`self.tsteps = list(steps)`),
`false` = the code before commit 9ab9399 (`self.tsteps = steps`): kept so that the invariant can be shown to FAIL for it.
-/
namespace C14

abbrev Step := Nat
abbrev Addr := Nat
abbrev Heap := List (List Step)

/-- interned id of the tuple `("BUILD", "output")` (reserved by the harness' interning table). -/
def buildOutput : Step := 0

/-- A (deep) Python value: an immutable scalar or the contents of a list. -/
inductive PVal
  | scalar (id : Nat)
  | list (xs : List Step)
  deriving DecidableEq, Repr

/-- One element of `settings_tuple`, abstracted: the three possible dict keys, the value without parsing, the
value with `parse=True` and the value after the pretty function (the pretty functions `parse_recover_binary`,
`parse_transform_binary`, `parse_execute_list`, … return a NEW list on every call). -/
structure Setting where
  nameKey : Nat
  constKey : Nat
  enumKey : Nat
  unparsed : Nat
  parsed : Nat
  pretty : PVal
  deriving DecidableEq, Repr

/-- The immutable part of a configuration plus the facts about its scalar contents that decide which
exception the constructors raise. -/
structure Config where
  tuple : List Setting
  /-- `RSA.import_key(bconfig.public_key)` succeeds -/
  pubkeyOk : Bool
  /-- `bconfig.is_trial` -/
  trial : Bool
  /-- `bconfig.protocol in ("http", "https")` -/
  protoHttp : Bool
  /-- `bconfig.domains` is non-empty (otherwise `random.choice` raises IndexError) -/
  hasDomains : Bool
  deriving DecidableEq, Repr

inductive KeyKind
  | name | const | enum
  deriving DecidableEq, Repr

structure Key where
  kind : KeyKind
  id : Nat
  deriving DecidableEq, Repr

/-- A value stored in a mapping: a scalar or a reference to a list object. -/
inductive Val
  | scalar (id : Nat)
  | ref (a : Addr)
  deriving DecidableEq, Repr

abbrev Mapping := List (Key × Val)
abbrev DMapping := List (Key × PVal)

/-- `d[k] = v` on an insertion-ordered dict. -/
def dictSet {β : Type} : List (Key × β) → Key → β → List (Key × β)
  | [], k, v => [(k, v)]
  | (k', v') :: rest, k, v => if k' = k then (k', v) :: rest else (k', v') :: dictSet rest k v

def dictGet? {β : Type} : List (Key × β) → Key → Option β
  | [], _ => none
  | (k', v') :: rest, k => if k' = k then some v' else dictGet? rest k

def keyOf (kind : KeyKind) (s : Setting) : Key :=
  match kind with
  | .name => ⟨.name, s.nameKey⟩
  | .const => ⟨.const, s.constKey⟩
  | .enum => ⟨.enum, s.enumKey⟩

/-! ### settings_map -/

/-- value of one setting inside `settings_map`; a list-valued pretty value is a freshly allocated list object. -/
def mkVal (h : Heap) (s : Setting) (pretty parse : Bool) : Heap × Val :=
  if pretty then
    match s.pretty with
    | .scalar i => (h, .scalar i)
    | .list xs => (h ++ [xs], .ref h.length)
  else if parse then (h, .scalar s.parsed)
  else (h, .scalar s.unparsed)

def settingsMapFrom (kind : KeyKind) (pretty parse : Bool) : Heap → Mapping → List Setting → Heap × Mapping
  | h, acc, [] => (h, acc)
  | h, acc, s :: rest =>
    settingsMapFrom kind pretty parse (mkVal h s pretty parse).1 (dictSet acc (keyOf kind s) (mkVal h s pretty parse).2) rest

/-- `BeaconConfig.settings_map(index_type, pretty, parse)`: a new mapping whose list values are new objects. -/
def settingsMap (h : Heap) (tuple : List Setting) (kind : KeyKind) (pretty parse : Bool) : Heap × Mapping :=
  settingsMapFrom kind pretty parse h [] tuple

/-- deep value of one setting (what a reader sees) -/
def deepVal (s : Setting) (pretty parse : Bool) : PVal :=
  if pretty then s.pretty else if parse then .scalar s.parsed else .scalar s.unparsed

def deepMapFrom (kind : KeyKind) (pretty parse : Bool) : DMapping → List Setting → DMapping
  | acc, [] => acc
  | acc, s :: rest => deepMapFrom kind pretty parse (dictSet acc (keyOf kind s) (deepVal s pretty parse)) rest

/-- the deep contents of `settings_map(...)` as a pure function of the settings tuple -/
def pureMap (tuple : List Setting) (kind : KeyKind) (pretty parse : Bool) : DMapping :=
  deepMapFrom kind pretty parse [] tuple

/-! ### the four cached views -/

inductive View
  | settings | settingsByIndex | rawSettings | rawSettingsByIndex
  deriving DecidableEq, Repr

def View.kind : View → KeyKind
  | .settings => .name
  | .settingsByIndex => .const
  | .rawSettings => .name
  | .rawSettingsByIndex => .const

def View.pretty : View → Bool
  | .settings => true
  | .settingsByIndex => true
  | .rawSettings => false
  | .rawSettingsByIndex => false

def View.all : List View := [.settings, .settingsByIndex, .rawSettings, .rawSettingsByIndex]

def pureView (c : Config) (v : View) : DMapping := pureMap c.tuple v.kind v.pretty true

structure Transform where
  tsteps : Addr
  rsteps : Addr
  deriving DecidableEq, Repr

/-- which AES/HMAC session keys a decoder currently holds in `beacon_keys` -/
inductive Keys
  | none      -- no keys yet (a decoder that was given only the RSA private key)
  | foreign   -- keys that do not belong to the recorded session (e.g. the dry-run client's own keys)
  | session   -- the keys of the recorded session
  deriving DecidableEq, Repr

/-- the mutable, per-decoder part of a `C2Http` object: `priv`, `beacon_keys`, and whether the check-in metadata
is in ITS `metadata_cache` -/
structure KeyState where
  hasPriv : Bool
  keys : Keys
  cached : Bool
  deriving DecidableEq, Repr

/-- a `C2Http` object: its three `HttpDataTransform`s and its key state -/
structure Decoder where
  submit : Transform
  get : Transform
  response : Transform
  ks : KeyState
  deriving DecidableEq, Repr

structure State where
  heap : Heap
  cSettings : Option Mapping
  cByIndex : Option Mapping
  cRaw : Option Mapping
  cRawByIndex : Option Mapping
  /-- every `C2Http` built so far (also the one inside a dry-run client) -/
  decoders : List Decoder
  /-- list objects owned by other results handed to the caller (profiles, uncached `settings_map` results) -/
  externals : List (List Addr)
  deriving DecidableEq, Repr

def State.init : State := ⟨[], none, none, none, none, [], []⟩

def State.getCache (s : State) : View → Option Mapping
  | .settings => s.cSettings
  | .settingsByIndex => s.cByIndex
  | .rawSettings => s.cRaw
  | .rawSettingsByIndex => s.cRawByIndex

def State.setCache (s : State) (v : View) (h : Heap) (m : Mapping) : State :=
  match v with
  | .settings => { s with heap := h, cSettings := some m }
  | .settingsByIndex => { s with heap := h, cByIndex := some m }
  | .rawSettings => { s with heap := h, cRaw := some m }
  | .rawSettingsByIndex => { s with heap := h, cRawByIndex := some m }

/-- property access `cfg.settings` etc.: first access builds and caches, later accesses return the cached object -/
def viewAccess (c : Config) (s : State) (v : View) : State × Mapping :=
  match s.getCache v with
  | some m => (s, m)
  | none =>
    (s.setCache v (settingsMap s.heap c.tuple v.kind v.pretty true).1 (settingsMap s.heap c.tuple v.kind v.pretty true).2,
     (settingsMap s.heap c.tuple v.kind v.pretty true).2)

/-! ### HttpDataTransform.__init__ -/

def heapModify (h : Heap) (a : Addr) (f : List Step → List Step) : Heap :=
  match h, a with
  | [], _ => []
  | x :: rest, 0 => f x :: rest
  | x :: rest, a + 1 => x :: heapModify rest a f

/-- `HttpDataTransform(steps, reverse, build)` where `steps` is the list object at address `a`.
`none` = dangling address (never happens for reachable states, see `Lemmas`). -/
def mkTransform (copies : Bool) (h : Heap) (a : Addr) (reverse : Bool) (build : Option Step) : Option (Heap × Transform) :=
  match h[a]? with
  | none => none
  | some xs =>
    -- self.tsteps = list(steps)        (before 9ab9399: = steps)
    let h1 := if copies then h ++ [xs] else h
    let t := if copies then h.length else a
    -- self.rsteps = list(steps)[::-1]  (a slice is always a new list)
    let r := h1.length
    let h2 := h1 ++ [xs.reverse]
    let t' := if reverse then r else t
    let r' := if reverse then t else r
    match build with
    | none => some (h2, ⟨t', r'⟩)
    | some b =>
      -- self.tsteps.insert(0, build_step); self.rsteps.append(build_step)
      some (heapModify (heapModify h2 t' (fun l => b :: l)) r' (fun l => l ++ [b]), ⟨t', r'⟩)

/-! ### results -/

inductive Res
  | mapping (m : Mapping)
  | decoder (d : Decoder)
  | profile (cells : List Addr)
  | steps (xs : List Step)
  /-- `list(decoder.iter_recover_http(msg))`: kinds of the packets (1 BeaconMetadata, 2 TaskPacket, 3 CallbackPacket) -/
  | packets (kinds : List Nat)
  | snap (ms : List Mapping)
  | unit
  | exc (e : PyExc)
  /-- the harness asked for a decoder that was never built -/
  | noDecoder
  /-- model-internal: dangling heap address -/
  | dangling
  deriving DecidableEq, Repr

abbrev DTransform := List Step × List Step
abbrev DDecoder := DTransform × DTransform × DTransform

inductive DRes
  | mapping (m : DMapping)
  | decoder (d : DDecoder)
  | profile (cells : List (List Step))
  | steps (xs : List Step)
  | packets (kinds : List Nat)
  | snap (ms : List DMapping)
  | unit
  | exc (e : PyExc)
  | noDecoder
  | dangling
  deriving DecidableEq, Repr

def derefVal (h : Heap) : Val → Option PVal
  | .scalar i => some (.scalar i)
  | .ref a => (h[a]?).map .list

def derefMap (h : Heap) : Mapping → Option DMapping
  | [] => some []
  | (k, v) :: r =>
    match derefVal h v, derefMap h r with
    | some dv, some dr => some ((k, dv) :: dr)
    | _, _ => none

def derefCells (h : Heap) : List Addr → Option (List (List Step))
  | [] => some []
  | a :: r =>
    match h[a]?, derefCells h r with
    | some x, some dr => some (x :: dr)
    | _, _ => none

def derefMaps (h : Heap) : List Mapping → Option (List DMapping)
  | [] => some []
  | m :: r =>
    match derefMap h m, derefMaps h r with
    | some x, some dr => some (x :: dr)
    | _, _ => none

def derefT (h : Heap) (t : Transform) : Option DTransform :=
  match h[t.tsteps]?, h[t.rsteps]? with
  | some a, some b => some (a, b)
  | _, _ => none

def derefD (h : Heap) (d : Decoder) : Option DDecoder :=
  match derefT h d.submit, derefT h d.get, derefT h d.response with
  | some a, some b, some c => some (a, b, c)
  | _, _, _ => none

/-- the caller's view of a result: references resolved through the heap -/
def deepRes (h : Heap) : Res → DRes
  | .mapping m => match derefMap h m with | some d => .mapping d | none => .dangling
  | .decoder d => match derefD h d with | some x => .decoder x | none => .dangling
  | .profile cs => match derefCells h cs with | some x => .profile x | none => .dangling
  | .steps xs => .steps xs
  | .packets ks => .packets ks
  | .snap ms => match derefMaps h ms with | some x => .snap x | none => .dangling
  | .unit => .unit
  | .exc e => .exc e
  | .noDecoder => .noDecoder
  | .dangling => .dangling

/-! ### name lookups (`bconfig.settings["SETTING_…"]`) — constants come from the generated enum table -/

def nameConst (name : String) : Option Nat :=
  (Gen.Beacon.settingNames.find? (fun p => p.2 == name)).map (·.1)

def hasName {β : Type} (m : List (Key × β)) (name : String) : Bool :=
  match nameConst name with
  | none => false
  | some k => (dictGet? m ⟨.name, k⟩).isSome

def hasConst {β : Type} (m : List (Key × β)) (name : String) : Bool :=
  match nameConst name with
  | none => false
  | some k => (dictGet? m ⟨.const, k⟩).isSome

def getName? {β : Type} (m : List (Key × β)) (name : String) : Option β :=
  match nameConst name with
  | none => none
  | some k => dictGet? m ⟨.name, k⟩

inductive KeyVariant
  | aesHmac | aesRand | rsaPriv | noKey | aesRandRsa
  deriving DecidableEq, Repr

/-- key state right after `C2Http.__init__` (the key material given is the recorded session's) -/
def initKeyState : KeyVariant → KeyState
  | .aesHmac => ⟨false, .session, false⟩
  | .aesRand => ⟨false, .session, false⟩
  | .rsaPriv => ⟨true, .none, false⟩
  | .aesRandRsa => ⟨true, .session, false⟩
  | .noKey => ⟨false, .none, false⟩

/-- the three recorded wire messages of the session the configuration belongs to -/
inductive Wire
  | checkin | task | callback
  /-- a request the configuration's routing does not accept (the check-in's path under the submit verb, the submit path under the
  get verb): `get_transform_for_http` raises ValueError before anything of the decoder is read or written -/
  | unrelated
  deriving DecidableEq, Repr

/-- effect of `iter_recover_http(msg)` on the decoder's own state (c2.py 494-535): a check-in is RSA-decrypted when
the decoder has the private key and the metadata is not in its cache; on that miss the session keys are derived
if the decoder has none. -/
def wireStep (ks : KeyState) : Wire → KeyState
  | .checkin =>
    if ks.hasPriv then
      if ks.cached then ks
      else { ks with cached := true, keys := if ks.keys = .none then .session else ks.keys }
    else ks
  | .task => ks
  | .callback => ks
  | .unrelated => ks

/-- what `list(iter_recover_http(msg))` gives, as a function of the decoder's own state -/
def wireRes (ks : KeyState) : Wire → List Nat ⊕ PyExc
  | .checkin => .inl (if ks.hasPriv then [1] else [])
  | .task => if ks.keys = .session then .inl [2] else .inr .valueError
  | .callback => if ks.keys = .session then .inl [3] else .inr .valueError
  | .unrelated => .inr .valueError

def setKs : List Decoder → Nat → (KeyState → KeyState) → List Decoder
  | [], _, _ => []
  | d :: rest, 0, f => { d with ks := f d.ks } :: rest
  | d :: rest, i + 1, f => d :: setKs rest i f

/-- `HttpDataTransform(steps=bconfig.settings[name], …)`: KeyError when absent, TypeError when the value is not
iterable, otherwise the constructor runs on the list object the mapping refers to. -/
def mkTFrom (copies : Bool) (s : State) (m : Mapping) (name : String) (reverse : Bool) (build : Option Step) :
    State × Except Res Transform :=
  match getName? m name with
  | none => (s, .error (.exc .keyError))
  | some (.scalar _) => (s, .error (.exc .typeError))
  | some (.ref a) =>
    match mkTransform copies s.heap a reverse build with
    | none => (s, .error .dangling)
    | some (h, t) => ({ s with heap := h }, .ok t)

/-- `C2Http.__init__` (c2.py 411-469).  The state persists when an exception is raised half-way. -/
def c2http (copies : Bool) (c : Config) (s : State) (k : KeyVariant) (ks0 : KeyState) : State × Except Res Decoder :=
  if k = .noKey then (s, .error (.exc .valueError))           -- "One of the following arguments is required"
  else
    -- bconfig.public_key  → raw_settings
    let s1 := (viewAccess c s .rawSettings).1
    if !c.pubkeyOk then (s1, .error (.exc .valueError))        -- RSA.import_key
    else if c.trial then (s1, .error (.exc .valueError))       -- "Trial beacons are not yet supported"
    else
      let s2 := (viewAccess c s1 .settings).1
      let m := (viewAccess c s1 .settings).2
      if !(hasName m "SETTING_SUBMITURI" && hasName m "SETTING_C2_VERB_POST" && hasName m "SETTING_C2_VERB_GET") then
        (s2, .error (.exc .keyError))
      else
        match mkTFrom copies s2 m "SETTING_C2_POSTREQ" false none with
        | (s3, .error e) => (s3, .error e)
        | (s3, .ok ts) =>
          match mkTFrom copies s3 m "SETTING_C2_REQUEST" false none with
          | (s4, .error e) => (s4, .error e)
          | (s4, .ok tg) =>
            match mkTFrom copies s4 m "SETTING_C2_RECOVER" true (some buildOutput) with
            | (s5, .error e) => (s5, .error e)
            | (s5, .ok tr) =>
              ({ s5 with decoders := s5.decoders ++ [⟨ts, tg, tr, ks0⟩] }, .ok ⟨ts, tg, tr, ks0⟩)

/-- copies made by `from_beacon_config` of every list it iterates (c2_recover, block_steps, headers, …) -/
def copyLists : Heap → Mapping → Option (Heap × List Addr)
  | h, [] => some (h, [])
  | h, (_, .scalar _) :: rest => copyLists h rest
  | h, (_, .ref a) :: rest =>
    match h[a]? with
    | none => none
    | some xs =>
      match copyLists (h ++ [xs]) rest with
      | none => none
      | some (h', as) => some (h', h.length :: as)

def refsOf : Mapping → List Addr
  | [] => []
  | (_, .scalar _) :: rest => refsOf rest
  | (_, .ref a) :: rest => a :: refsOf rest

inductive Which
  | submit | get | response
  deriving DecidableEq, Repr

def Decoder.pick (d : Decoder) : Which → Transform
  | .submit => d.submit
  | .get => d.get
  | .response => d.response

inductive MutTarget
  | view (v : View)
  | fresh (kind : KeyKind) (pretty parse : Bool)
  deriving DecidableEq, Repr

inductive Op
  /-- `cfg.settings`, `cfg.settings_by_index`, `cfg.raw_settings`, `cfg.raw_settings_by_index` -/
  | viewAccess (v : View)
  /-- `cfg.settings_map(index_type, pretty, parse)` -/
  | settingsMap (kind : KeyKind) (pretty parse : Bool)
  /-- `C2Http(cfg, <key material>)` -/
  | mkC2Http (k : KeyVariant)
  /-- `HttpBeaconClient().run(cfg, dry_run=True, beacon_id=…)`; the flag says whether `beacon_id ≤ 0x7FFFFFFF` -/
  | clientDryRun (beaconIdOk : Bool)
  /-- `C2Profile.from_beacon_config(cfg)` -/
  | mkProfile
  /-- `decoder.transform_<w>.transform(c2data, request)` with the `d`-th decoder built so far -/
  | transform (d : Nat) (w : Which)
  /-- `decoder.transform_<w>.recover(http)` -/
  | recover (d : Nat) (w : Which)
  /-- `list(decoder.iter_recover_http(msg))` with the `d`-th decoder and a recorded message of the session -/
  | recoverWire (d : Nat) (w : Wire)
  /-- `setting_enums`, `domains`, `uris`, `domain_uri_pairs`, `protocol`, `port`, `public_key`, … (read `raw_settings`) -/
  | propsRaw
  /-- `submit_uri`, `killdate` (read `settings`) -/
  | propsPretty
  /-- `mapping[key] = value` / `del mapping[key]` on a view or on a `settings_map` result -/
  | mutateAttempt (t : MutTarget)
  /-- the harness' deep snapshot: accesses all four views -/
  | snapshotAll
  deriving DecidableEq, Repr

def Op.decoderFree : Op → Bool
  | .transform _ _ => false
  | .recover _ _ => false
  | .recoverWire _ _ => false
  | _ => true

def Op.isWire : Op → Bool
  | .recoverWire _ _ => true
  | _ => false

def clientRun (copies : Bool) (c : Config) (s : State) (beaconIdOk : Bool) : State × Res :=
  if !beaconIdOk then (s, .exc .valueError)
  else
    -- self.bconfig.protocol → raw_settings
    let s1 := (viewAccess c s .rawSettings).1
    if !c.protoHttp then (s1, .exc .valueError)
    else
      match c2http copies c s1 .aesHmac ⟨false, .foreign, false⟩ with
      | (s2, .error e) => (s2, e)
      | (s2, .ok d) =>
        if !c.hasDomains then (s2, .exc .indexError)            -- random.choice([])
        else
          let s3 := (viewAccess c s2 .settings).1
          let m := (viewAccess c s2 .settings).2
          if !(hasName m "SETTING_SLEEPTIME" && hasName m "SETTING_JITTER" && hasName m "SETTING_USERAGENT"
               && hasName m "SETTING_HOST_HEADER") then (s3, .exc .keyError)
          else (s3, .decoder d)

def profileRun (c : Config) (s : State) : State × Res :=
  let s1 := (viewAccess c s .settingsByIndex).1
  let m := (viewAccess c s .settingsByIndex).2
  -- `config.uris` when SETTING_DOMAINS is present
  let s2 := if hasConst m "SETTING_DOMAINS" then (viewAccess c s1 .rawSettings).1 else s1
  match copyLists s2.heap m with
  | none => (s2, .dangling)
  | some (h, cells) => ({ s2 with heap := h, externals := s2.externals ++ [cells] }, .profile cells)

def snapshotRun (c : Config) (s : State) : State × List Mapping :=
  let r1 := viewAccess c s .settings
  let r2 := viewAccess c r1.1 .settingsByIndex
  let r3 := viewAccess c r2.1 .rawSettings
  let r4 := viewAccess c r3.1 .rawSettingsByIndex
  (r4.1, [r1.2, r2.2, r3.2, r4.2])

def readSteps (s : State) (d : Nat) (w : Which) (recover : Bool) : Res :=
  match s.decoders[d]? with
  | none => .noDecoder
  | some dec =>
    match s.heap[if recover then (dec.pick w).rsteps else (dec.pick w).tsteps]? with
    | none => .dangling
    | some xs => .steps xs

/-- one use of the configuration object -/
def step (copies : Bool) (c : Config) (s : State) : Op → State × Res
  | .viewAccess v => ((viewAccess c s v).1, .mapping (viewAccess c s v).2)
  | .settingsMap kind pretty parse =>
    ({ s with heap := (settingsMap s.heap c.tuple kind pretty parse).1,
              externals := s.externals ++ [refsOf (settingsMap s.heap c.tuple kind pretty parse).2] },
     .mapping (settingsMap s.heap c.tuple kind pretty parse).2)
  | .mkC2Http k =>
    match c2http copies c s k (initKeyState k) with
    | (s', .ok d) => (s', .decoder d)
    | (s', .error e) => (s', e)
  | .clientDryRun ok => clientRun copies c s ok
  | .mkProfile => profileRun c s
  -- transform()/recover() iterate the decoder's own step lists; the dicts they write belong to the request
  | .transform d w => (s, readSteps s d w false)
  | .recover d w => (s, readSteps s d w true)
  -- iter_recover_http reads and writes the decoder's OWN cache and keys
  | .recoverWire d w =>
    match s.decoders[d]? with
    | none => (s, .noDecoder)
    | some dec =>
      ({ s with decoders := setKs s.decoders d (fun ks => wireStep ks w) },
       match wireRes dec.ks w with
       | .inl ps => .packets ps
       | .inr e => .exc e)
  | .propsRaw => ((viewAccess c s .rawSettings).1, .unit)
  | .propsPretty => ((viewAccess c s .settings).1, .unit)
  | .mutateAttempt (.view v) => ((viewAccess c s v).1, .exc .typeError)
  | .mutateAttempt (.fresh kind pretty parse) =>
    ({ s with heap := (settingsMap s.heap c.tuple kind pretty parse).1,
              externals := s.externals ++ [refsOf (settingsMap s.heap c.tuple kind pretty parse).2] },
     .exc .typeError)
  | .snapshotAll => ((snapshotRun c s).1, .snap (snapshotRun c s).2)

def runState (copies : Bool) (c : Config) (s : State) (ops : List Op) : State :=
  ops.foldl (fun s op => (step copies c s op).1) s

/-- what the caller observes of one operation -/
def obs (copies : Bool) (c : Config) (s : State) (op : Op) : DRes :=
  deepRes (step copies c s op).1.heap (step copies c s op).2

/-- deep contents of one view as seen by accessing it now -/
def obsView (c : Config) (s : State) (v : View) : Option DMapping :=
  derefMap (viewAccess c s v).1.heap (viewAccess c s v).2

/-- deep snapshot of the configuration: the four views, references resolved -/
def snapshot (c : Config) (s : State) : List (Option DMapping) := View.all.map (obsView c s)

def cfgRefs (s : State) : List Addr :=
  View.all.flatMap (fun v => match s.getCache v with | some m => refsOf m | none => [])

def Transform.refs (t : Transform) : List Addr := [t.tsteps, t.rsteps]
def Decoder.refs (d : Decoder) : List Addr := d.submit.refs ++ d.get.refs ++ d.response.refs

def extRefs (s : State) : List Addr := s.decoders.flatMap Decoder.refs ++ s.externals.flatten

/-- some object handed to a caller shares a list object with the configuration -/
def aliased (s : State) : Bool := (extRefs s).any (fun a => (cfgRefs s).contains a)

/-- run a history collecting what the caller sees after each operation -/
def runObs (copies : Bool) (c : Config) : State → List Op → List (DRes × Bool)
  | _, [] => []
  | s, op :: rest =>
    (obs copies c s op, aliased (step copies c s op).1) :: runObs copies c (step copies c s op).1 rest

end C14

import CsVerif.Model.PyFile
import CsVerif.Gen.Beacon
/-
C02 — settings decoding and views
(dissect/cobaltstrike/beacon.py: struct Setting, iter_settings, BeaconConfig.__init__,
 setting_enums, max_setting_enum, settings_map, raw_settings, raw_settings_by_index,
 settings, settings_by_index; utils.py: u16be / u32be)

Enum numbers (SETTING_USERAGENT, SETTING_WATERMARKHASH, TYPE_SHORT, …), the value→name tables and the
key set of SETTING_TO_PRETTYFUNC come from `Gen.Beacon` (regenerated from the imported package).
The layout of `struct Setting` (three big-endian uint16 + `char value[length]`) is written out here and
pinned to the generated description by `C02.struct_layout` (Props/C02.lean).
-/
namespace C02
open Gen.Beacon

/-- A Python `Setting` object as yielded by `iter_settings`.
`index`/`type` are the integer values of the cstruct enum objects; `deprecated = true` means that
`setting.index` is an instance of `DeprecatedBeaconSetting` (only ever assigned by `iter_settings`),
`false` that it is a `BeaconSetting`.  `length` is the *header* field (it is not updated by the
User-Agent continuation, so it can differ from `value.length`). -/
structure Setting where
  index : Nat
  type : Nat
  length : Nat
  value : Bytes
  deprecated : Bool := false
  deriving DecidableEq, Repr

/-- `int.from_bytes(bs, "big")` (unsigned) -/
def fromBE (bs : Bytes) : Nat := bs.foldl (fun a b => a * 256 + b.toNat) 0

/-- `b.rstrip(b"\x00")` -/
def rstripNul (b : Bytes) : Bytes := (b.reverse.dropWhile (· == 0)).reverse

/-- cstruct `Setting(fobj)`: 6 header bytes (index, type, length: big-endian uint16), then
`char value[length]`; a short read of either part raises EOFError (measured with dissect.cstruct 4.7). -/
def readSetting (f : PyFile) : Py (Setting × PyFile) :=
  let (hdr, f1) := f.read 6
  if hdr.length < 6 then .error .eofError
  else
    let len := fromBE ((hdr.drop 4).take 2)
    let (v, f2) := f1.read (len : Int)
    if v.length < len then .error .eofError
    else .ok ({ index := fromBE (hdr.take 2), type := fromBE ((hdr.drop 2).take 2), length := len, value := v }, f2)

/-- The User-Agent continuation loop (beacon.py 453-461), one `read(1)` per iteration.
`fuel` bounds the number of iterations; running out of it is reported as `timeoutDiverge`
(`C02.uaLoop_at` in Lemmas/C02.lean shows that `remaining bytes + 1` always suffices for the repaired code). -/
def uaLoop : Nat → PyFile → Bytes → Py (Bytes × PyFile)
  | 0, _, _ => .error .timeoutDiverge
  | fuel + 1, f, value =>
    let (x, f1) := f.read 1
    if x = [] then .ok (value, f1)                       -- `if not x: break`
    else if x = [0] then                                 -- `if x == b"\x00":`
      match f1.seekCur (-1) with
      | .error e => .error e
      | .ok (_, f2) => .ok (value, f2)
    else uaLoop fuel f1 (value ++ x)                     -- `setting.value += x`

/-- The two edge cases handled after a record was read (beacon.py 448-466). -/
def fixups (s : Setting) (f : PyFile) : Py (Setting × PyFile) :=
  if s.index = settingUserAgent then
    if s.length = 0x80 then
      if (rstripNul s.value).length ≥ 0x80 then
        match uaLoop (f.data.length - f.pos + 1) f s.value with
        | .error e => .error e
        | .ok (v, f') => .ok ({ s with value := v }, f')
      else .ok (s, f)
    else .ok (s, f)
  else if s.index = settingWatermarkHash then
    if s.type = typeShort then
      .ok ({ s with index := deprecatedInjectOptions, deprecated := true }, f)
    else .ok (s, f)
  else .ok (s, f)

/-- The `while True` loop of `iter_settings` (beacon.py 438-468) collected into a list
(`BeaconConfig.__init__` does `tuple(iter_settings(config_block))`). -/
def iterLoop : Nat → PyFile → Py (List Setting)
  | 0, _ => .error .timeoutDiverge
  | fuel + 1, f =>
    let (r, f1) := f.read 2
    let peek := r.take 2                                  -- `fobj.read(2)[:2]`
    if peek = [0, 0] then .ok []                          -- end of beacon config
    else
      match f1.seekCur (-2) with                          -- inside `try`, but only EOFError is caught
      | .error e => .error e
      | .ok (_, f2) =>
        match readSetting f2 with
        | .error .eofError => .ok []                      -- `except EOFError: break`
        | .error e => .error e
        | .ok (s, f3) =>
          match fixups s f3 with
          | .error e => .error e
          | .ok (s', f4) =>
            match iterLoop fuel f4 with
            | .error e => .error e
            | .ok ss => .ok (s' :: ss)

/-- `tuple(iter_settings(config_block))` for `config_block : bytes` (wrapped in `io.BytesIO`). -/
def iterSettingsE (d : Bytes) : Py (List Setting) := iterLoop (d.length + 1) (PyFile.ofBytes d)

/-- `BeaconConfig(d).settings_tuple`.  The error arm is dead: `C02.iterSettingsE_eq` proves
`iterSettingsE d = .ok (iterSettings d)` for every `d`. -/
def iterSettings (d : Bytes) : List Setting :=
  match iterSettingsE d with
  | .ok ss => ss
  | .error _ => []

/-! ### spec encoder -/

def be16 (n : Nat) : Bytes := [UInt8.ofNat (n / 256), UInt8.ofNat (n % 256)]

def serializeOne (s : Setting) : Bytes := be16 s.index ++ be16 s.type ++ be16 s.length ++ s.value

def serialize (ss : List Setting) : Bytes := ss.flatMap serializeOne

/-- the condition under which `iter_settings` continues a User-Agent value beyond its length field -/
def Setting.uaOverlong (s : Setting) : Prop :=
  s.index = settingUserAgent ∧ s.length = 0x80 ∧ (rstripNul s.value).length ≥ 0x80

instance (s : Setting) : Decidable s.uaOverlong := by unfold Setting.uaOverlong; infer_instance

/-- a record that the TLV format can carry: 16-bit fields, non-zero index (a zero index is the terminator),
`length` = number of value bytes -/
def Setting.Encodable (s : Setting) : Prop :=
  0 < s.index ∧ s.index < 65536 ∧ s.type < 65536 ∧ s.length < 65536 ∧ s.value.length = s.length

instance (s : Setting) : Decidable s.Encodable := by unfold Setting.Encodable; infer_instance

/-- what `iter_settings` can yield unchanged: an encodable record that is not an over-long User-Agent and whose
enum identity is the one the decoder assigns (deprecated INJECT_OPTIONS iff index 36 with TYPE_SHORT) -/
def Setting.WellFormed (s : Setting) : Prop :=
  s.Encodable ∧ ¬ s.uaOverlong ∧
  s.deprecated = (decide (s.index = settingWatermarkHash) && decide (s.type = typeShort))

instance (s : Setting) : Decidable s.WellFormed := by unfold Setting.WellFormed; infer_instance

def WellFormedList (ss : List Setting) : Prop := ∀ s ∈ ss, s.WellFormed

instance (ss : List Setting) : Decidable (WellFormedList ss) := by unfold WellFormedList; infer_instance

/-! ### setting_enums / max_setting_enum -/

def settingEnums (ss : List Setting) : List Nat := ss.map (·.index)

/-- `max(self.setting_enums)`; `max([])` raises ValueError. -/
def maxSettingEnum (ss : List Setting) : Py Nat :=
  match settingEnums ss with
  | [] => .error .valueError
  | x :: xs => .ok (xs.foldl max x)

/-! ### settings_map -/

/-- Values stored in the mappings: Python `int`, `bytes`, or the result of a pretty function
(whose content is the subject of C03; here it is whatever the parameter `prettyF` returns,
the driver uses the tagged term `opaque index argument`). -/
inductive Val
  | int (n : Nat)
  | bytes (b : Bytes)
  | opaque (tag : Nat) (arg : Val)
  deriving DecidableEq, Repr

inductive IndexType | name | const | enum
  deriving DecidableEq, Repr

/-- Dictionary keys: `str` (name view; enum member names are ASCII identifiers, modelled as `Bytes`),
`int` (const view), enum object = (class, value) (enum view).
cstruct enum objects compare equal iff same class and same value, and hash consistently. -/
inductive Key
  | name (s : Bytes)
  | const (n : Nat)
  | enum (deprecated : Bool) (n : Nat)
  deriving DecidableEq, Repr

/-- `setting.index.name` -/
def enumName (deprecated : Bool) (v : Nat) : Option Bytes :=
  if deprecated then deprecatedNameBytes.lookup v else settingNameBytes.lookup v

/-- `str(n)` for a non-negative int: ASCII decimal digits -/
def decimal (n : Nat) : Bytes :=
  if n < 10 then [UInt8.ofNat (48 + n)] else decimal (n / 10) ++ [UInt8.ofNat (48 + n % 10)]

/-- `setting.index.name or str(setting.index).replace(".", "_")`
(`str` of a nameless member is `<EnumName>.<value>`; all generated names are non-empty). -/
def nameKey (deprecated : Bool) (v : Nat) : Bytes :=
  match enumName deprecated v with
  | some n => n
  | none => (if deprecated then deprecatedUnknownPrefixBytes else unknownPrefixBytes) ++ decimal v

def keyOf (it : IndexType) (s : Setting) : Key :=
  match it with
  | .name => .name (nameKey s.deprecated s.index)
  | .const => .const s.index
  | .enum => .enum s.deprecated s.index

/-- `u16be(val)` = `int.from_bytes(val[:2], "big")` — any length is accepted. -/
def u16be (val : Bytes) : Nat := fromBE (val.take 2)
/-- `u32be(val)` = `int.from_bytes(val[:4], "big")` -/
def u32be (val : Bytes) : Nat := fromBE (val.take 4)

/-- beacon.py 917-921 -/
def convert (pretty parse : Bool) (s : Setting) : Val :=
  if parse || pretty then
    if s.type = typeShort then .int (u16be s.value)
    else if s.type = typeInt then .int (u32be s.value)
    else .bytes s.value
  else .bytes s.value

/-- `SETTING_TO_PRETTYFUNC.get(setting.index)`: the dict is keyed by `BeaconSetting` members, so a
`DeprecatedBeaconSetting` index never finds an entry. -/
def prettyLookup (prettyF : Nat → Option (Val → Py Val)) (s : Setting) : Option (Val → Py Val) :=
  if s.deprecated then none else prettyF s.index

/-- value stored for one setting (beacon.py 910, 917-925); a pretty function may raise. -/
def valueOf (prettyF : Nat → Option (Val → Py Val)) (pretty parse : Bool) (s : Setting) : Py Val :=
  let v := convert pretty parse s
  if pretty then
    match prettyLookup prettyF s with
    | some fn => fn v
    | none => .ok v
  else .ok v

/-- `d[k] = v` on an insertion-ordered dict: an existing key keeps its position (and the original key object). -/
def dictSet {K V : Type} [DecidableEq K] : List (K × V) → K → V → List (K × V)
  | [], k, v => [(k, v)]
  | (k', v') :: rest, k, v => if k' = k then (k', v) :: rest else (k', v') :: dictSet rest k v

/-- the `for setting in self.settings_tuple:` loop with an accumulator dict -/
def buildDict {K V : Type} [DecidableEq K] (key : Setting → K) (val : Setting → Py V) :
    List Setting → List (K × V) → Py (List (K × V))
  | [], acc => .ok acc
  | s :: ss, acc =>
    match val s with
    | .error e => .error e
    | .ok v => buildDict key val ss (dictSet acc (key s) v)

/-- `BeaconConfig.settings_map(index_type, pretty, parse)` as the ordered item list of the mapping.
`prettyF i = some fn` iff `SETTING_TO_PRETTYFUNC` has an entry for `BeaconSetting(i)`. -/
def settingsMapG (prettyF : Nat → Option (Val → Py Val)) (ss : List Setting)
    (it : IndexType) (pretty parse : Bool) : Py (List (Key × Val)) :=
  buildDict (keyOf it) (valueOf prettyF pretty parse) ss []

/-- The dispatch of the real table: exactly the generated keys have a pretty function; what the
functions compute is the parameter `content`. -/
def dispatch (content : Nat → Val → Py Val) (i : Nat) : Option (Val → Py Val) :=
  if prettyKeys.contains i then some (content i) else none

def settingsMap (content : Nat → Val → Py Val) (ss : List Setting)
    (it : IndexType) (pretty parse : Bool) : Py (List (Key × Val)) :=
  settingsMapG (dispatch content) ss it pretty parse

/-! the four cached views (the cache itself is not modelled: the views are functions of `settings_tuple`) -/
def rawSettings (c) (ss : List Setting) := settingsMap c ss .name false true
def rawSettingsByIndex (c) (ss : List Setting) := settingsMap c ss .const false true
def settings (c) (ss : List Setting) := settingsMap c ss .name true true
def settingsByIndex (c) (ss : List Setting) := settingsMap c ss .const true true

/-! ### the per-object cache of the four views, and access histories on one object

`raw_settings`, `raw_settings_by_index`, `settings`, `settings_by_index` are computed on first access and
kept in `self._raw_settings` … (beacon.py 945-947, 966-968, 984-986, 1002-1004); `settings_map`,
`setting_enums`, `max_setting_enum`, `settings_tuple` do not read or write the cache. -/

/-- one access to a `BeaconConfig` object -/
inductive Op
  | rawSettings | rawSettingsByIndex | settings | settingsByIndex
  | settingsMap (it : IndexType) (pretty parse : Bool)
  | settingEnums | maxSettingEnum | settingsTuple
  deriving DecidableEq, Repr

inductive Answer
  | map (m : Py (List (Key × Val)))
  | enums (l : List Nat)
  | max (m : Py Nat)
  | tuple (ss : List Setting)
  deriving DecidableEq

/-- the four `self._…` attributes (`none` = Python `None`) -/
structure Cache where
  rawSettings : Option (List (Key × Val)) := none
  rawSettingsByIndex : Option (List (Key × Val)) := none
  settings : Option (List (Key × Val)) := none
  settingsByIndex : Option (List (Key × Val)) := none
  deriving DecidableEq

/-- `if self._x is None: self._x = <compute>` / `return self._x`; when `<compute>` raises the attribute stays `None` -/
def cachedView (slot : Option (List (Key × Val))) (compute : Py (List (Key × Val))) :
    Py (List (Key × Val)) × Option (List (Key × Val)) :=
  match slot with
  | some m => (.ok m, some m)
  | none =>
    match compute with
    | .ok m => (.ok m, some m)
    | .error e => (.error e, none)

/-- one access on an object whose cache is `c`: the answer and the new cache -/
def access (content : Nat → Val → Py Val) (ss : List Setting) (c : Cache) : Op → Answer × Cache
  | .rawSettings =>
    let r := cachedView c.rawSettings (settingsMap content ss .name false true)
    (.map r.1, { c with rawSettings := r.2 })
  | .rawSettingsByIndex =>
    let r := cachedView c.rawSettingsByIndex (settingsMap content ss .const false true)
    (.map r.1, { c with rawSettingsByIndex := r.2 })
  | .settings =>
    let r := cachedView c.settings (settingsMap content ss .name true true)
    (.map r.1, { c with settings := r.2 })
  | .settingsByIndex =>
    let r := cachedView c.settingsByIndex (settingsMap content ss .const true true)
    (.map r.1, { c with settingsByIndex := r.2 })
  | .settingsMap it pretty parse => (.map (settingsMap content ss it pretty parse), c)
  | .settingEnums => (.enums (settingEnums ss), c)
  | .maxSettingEnum => (.max (maxSettingEnum ss), c)
  | .settingsTuple => (.tuple ss, c)

/-- the answer of the same access on a fresh object -/
def answer (content : Nat → Val → Py Val) (ss : List Setting) (op : Op) : Answer :=
  (access content ss {} op).1

/-- a sequence of accesses on one object: all answers and the final cache -/
def runHistory (content : Nat → Val → Py Val) (ss : List Setting) : Cache → List Op → List Answer × Cache
  | c, [] => ([], c)
  | c, op :: ops =>
    let r := access content ss c op
    let rest := runHistory content ss r.2 ops
    (r.1 :: rest.1, rest.2)

end C02

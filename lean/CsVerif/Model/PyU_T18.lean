import CsVerif.Model.PyU
import CsVerif.Model.PyU_T15
/-
PyU_T18 — additions to the run-time library of the untyped translator (`tools/py2leanu.py`) for pe.py, version.py and
`BeaconConfig.version` (property C18; the same functions are entry points of C08):

  * cstruct TYPES READ FROM A FILE OBJECT of the caller (`pestruct.IMAGE_DOS_HEADER(fh)`, `pestruct.uint32(fh)`): the file is the
    value `mkFile data pos kind` of `PyU_T15.lean`.  A fixed-size cstruct type is read with ONE `fh.read(size)`; fewer bytes than
    `size` are an EOFError *and the file keeps the advanced position* (dissect.cstruct 4.7: a compiled structure reads its
    fixed-size fields with one `read`, an array of structures item by item — on a Python file object a short read leaves the
    position at the end of the data either way).  `t18ReadE` answers `(none, file afterwards)` for that EOFError, so that a
    translated `try: … except EOFError:` can go on with the file as the failed read left it; `t18Read` raises it.
    A structure instance is `.inst cls vals` with the attributes the translated code reads (`T18Ty.struct`: the plug-in exposes
    every field whose name is read as an attribute anywhere in the translated functions): little-endian integers (`.int`,
    two's complement when signed) and arrays of structures of integers (`.list` of instances).
  * `[Struct(fh) for _ in range(n)]` (`t18ReadMany` / `t18ReadManyE`): `n` reads one after the other, stopping at the first EOFError;
  * `return` inside a loop: the hidden variable `ret0` holds `t18NoRet`, or `t18Ret v` once `return v` was executed;
  * `n.to_bytes(length, byteorder)` (`t18ToBytes`; the text of `PyU_T19.toBytes`, which cannot be imported together with `PyU_T15`).
Same conventions as `PyU.lean`; validated against CPython / dissect.cstruct by tools/harness/pyuval_t18.py (`pyu` stream of C18).
No imports besides `PyU` / `PyU_T15` (must link into the compiled drivers).
-/
namespace PyU

/-! ### integers in a structure -/

/-- an integer field: byte offset inside the structure, width, signedness -/
structure T18Int where
  off : Nat
  size : Nat
  signed : Bool
  deriving DecidableEq, Repr

/-- an exposed field of a structure: an integer, or an array of `count` structures (`stride` bytes each, class `cls`) whose exposed
fields `sub` are integers (offsets relative to the item) -/
inductive T18Fld
  | int (f : T18Int)
  | arr (off count stride : Nat) (cls : Cls) (sub : List T18Int)
  deriving Repr

/-- a fixed-size cstruct type: a structure (`cls.fields` = the names of the exposed fields, in the order of `flds`) or an integer type -/
inductive T18Ty
  | struct (cls : Cls) (size : Nat) (flds : List T18Fld)
  | int (size : Nat) (signed : Bool)
  deriving Repr

/-- little-endian unsigned value -/
def t18LeNat : Bytes → Nat
  | [] => 0
  | b :: bs => b.toNat + 256 * t18LeNat bs

/-- the integer stored at `buf[off : off+size]` (two's complement when signed) -/
def t18IntVal (buf : Bytes) (f : T18Int) : Int :=
  let raw := t18LeNat ((buf.drop f.off).take f.size)
  if f.signed && decide (2 * raw ≥ 256 ^ f.size) then (raw : Int) - ((256 ^ f.size : Nat) : Int) else (raw : Int)

/-- the value of an exposed field of a structure parsed from `buf` -/
def t18Decode (buf : Bytes) : T18Fld → V
  | .int f => .int (t18IntVal buf f)
  | .arr off count stride cls sub =>
    .list ((List.range count).map fun i => .inst cls (sub.map fun s => .int (t18IntVal buf { s with off := off + i * stride + s.off })))

def T18Ty.size : T18Ty → Nat
  | .struct _ size _ => size
  | .int size _ => size

/-- the Python value of a cstruct type parsed from exactly `size` bytes -/
def t18Value (ty : T18Ty) (buf : Bytes) : V :=
  match ty with
  | .struct cls _ flds => .inst cls (flds.map (t18Decode buf))
  | .int size signed => .int (t18IntVal buf ⟨0, size, signed⟩)

/-! ### reading from a file object -/

/-- `Type(fh)` inside `try: … except EOFError:` — `fh.read(size)`; `(none, file afterwards)` when fewer bytes came back (the
EOFError of dissect.cstruct; the file keeps the advanced position).  A receiver that is not a file object of `PyU_T15` has no
`read` here (AttributeError).  Not modelled: arguments that are not file objects (`bytes` are parsed from the front, `None` and
other values initialise the first field). -/
def t18ReadE (ty : T18Ty) (f : V) : Py (Option V × V) :=
  match fileRead f (.int (ty.size : Int)) with
  | .error e => .error e
  | .ok (.bytes r, f') => if r.length = ty.size then .ok (some (t18Value ty r), f') else .ok (none, f')
  | .ok _ => .error .typeError

/-- `Type(fh)` outside a `try`: the value and the file afterwards; short data raises EOFError -/
def t18Read (ty : T18Ty) (f : V) : Py (V × V) :=
  match t18ReadE ty f with
  | .error e => .error e
  | .ok (none, _) => .error .eofError
  | .ok (some v, f') => .ok (v, f')

/-- `n` reads of `Type(fh)` one after the other; `none` = one of them raised EOFError (the file as that read left it) -/
def t18ReadManyGo (ty : T18Ty) : Nat → V → Py (Option (List V) × V)
  | 0, f => .ok (some [], f)
  | n + 1, f =>
    match t18ReadE ty f with
    | .error e => .error e
    | .ok (none, f1) => .ok (none, f1)
    | .ok (some v, f1) =>
      match t18ReadManyGo ty n f1 with
      | .error e => .error e
      | .ok (none, f2) => .ok (none, f2)
      | .ok (some vs, f2) => .ok (some (v :: vs), f2)

/-- `[Type(fh) for _ in range(n)]` inside `try: … except EOFError:` — `range(n)` is evaluated first (an `n` that is not int-like is a
TypeError; `n ≤ 0`: no read at all), then the reads -/
def t18ReadManyE (ty : T18Ty) (f n : V) : Py (Option V × V) :=
  match asInt n with
  | none => .error .typeError
  | some k =>
    match t18ReadManyGo ty k.toNat f with
    | .error e => .error e
    | .ok (r, f') => .ok (r.map .list, f')

/-- `[Type(fh) for _ in range(n)]` outside a `try` -/
def t18ReadMany (ty : T18Ty) (f n : V) : Py (V × V) :=
  match t18ReadManyE ty f n with
  | .error e => .error e
  | .ok (none, _) => .error .eofError
  | .ok (some v, f') => .ok (v, f')

/-! ### `return` inside a loop -/

/-- the hidden variable `ret0` before any `return` was executed -/
def t18NoRet : V := .list []
/-- `return v` inside a loop: the value is kept in `ret0`, the loops are left, the function returns it -/
def t18Ret (v : V) : V := .list [v]
def t18Returned : V → Bool
  | .list [_] => true
  | _ => false
def t18RetVal : V → V
  | .list [v] => v
  | _ => .none

/-! ### `int.to_bytes` -/

/-- `n.to_bytes(length, byteorder)` (unsigned) for an int-like receiver: a negative length or a byteorder other than
`"little"` / `"big"` is a ValueError, a negative `n` or one that needs more bytes an OverflowError (`PyRt.intToBytes`); a length
that is not int-like or a byteorder that is not a `str` is a TypeError; a receiver without that method an AttributeError.
Not modelled (TypeError; CPython: the enum's own method): cstruct enum members. -/
def t18ToBytes (n len order : V) : Py V :=
  match n with
  | .enum _ _ => .error .typeError
  | _ =>
    match asInt n with
    | none => .error .attributeError
    | some x =>
      match asInt len, order with
      | some l, .str o => (PyRt.intToBytes x l o false).map .bytes
      | _, _ => .error .typeError

end PyU

import CsVerif.Model.Basic
/-
C20 — byte codecs and stager URI classification
(dissect/cobaltstrike/utils.py: xor, netbios_encode/decode, pack/unpack,
 checksum8, is_stager_x86/x64, random_stager_uri; pcap.py: find_staged_beacon gate)
-/
namespace C20

/-! ### xor -/

/-- byte of the tiled key at position `i` (`key * k` then `[:size]`). -/
def keyAt (key : Bytes) (i : Nat) : UInt8 := key.getD (i % key.length) 0

def xorCore (data key : Bytes) : Bytes := data.mapIdx fun i b => b ^^^ keyAt key i

/-- `utils.xor`: `sum(key) == 0` (empty or all-zero key) returns the data unchanged. -/
def xor (data key : Bytes) : Bytes :=
  if key.all (· == 0) then data else xorCore data key

/-! ### the big-int formulation actually used by the code -/

def fromLE : Bytes → Nat
  | [] => 0
  | b :: bs => b.toNat + 256 * fromLE bs

def toLE : Nat → Nat → Bytes
  | 0, _ => []
  | n+1, v => UInt8.ofNat (v % 256) :: toLE n (v / 256)

def tile (key : Bytes) (size : Nat) : Bytes :=
  let k := if key.length < size then (List.replicate (size / key.length + 1) key).flatten else key
  k.take size

/-- `int.to_bytes(int.from_bytes(data) ^ int.from_bytes(key[:size]), size)` -/
def xorBig (data key : Bytes) : Bytes :=
  if key.all (· == 0) then data
  else toLE data.length (fromLE data ^^^ fromLE (tile key data.length))

/-! ### NetBIOS -/

/-- Python `bytes([...])`: every element must be in `range(256)`. -/
def bytesOfInts : List Int → Py Bytes
  | [] => .ok []
  | v :: vs =>
    if 0 ≤ v ∧ v < 256 then (bytesOfInts vs).map (UInt8.ofNat v.toNat :: ·)
    else .error .valueError

def nbEncodeInts (data : Bytes) (off : Int) : List Int :=
  data.flatMap fun c => [((c.toNat / 16 : Nat) : Int) + off, ((c.toNat % 16 : Nat) : Int) + off]

def netbiosEncode (data : Bytes) (off : Int) : Py Bytes := bytesOfInts (nbEncodeInts data off)

/-- pairs of the decode loop; an odd tail raises IndexError before `bytes()` is reached. -/
def nbDecodeInts : Bytes → Int → Py (List Int)
  | [], _ => .ok []
  | [_], _ => .error .indexError
  | a :: b :: rest, off =>
    (nbDecodeInts rest off).map ((((a.toNat : Int) - off) * 16 + ((b.toNat : Int) - off)) :: ·)

def netbiosDecode (data : Bytes) (off : Int) : Py Bytes :=
  match nbDecodeInts data off with
  | .error e => .error e
  | .ok vs => bytesOfInts vs

/-! ### pack / unpack -/

inductive Order | little | big deriving DecidableEq, Repr

def fromBytesU (o : Order) (d : Bytes) : Nat :=
  match o with
  | .little => fromLE d
  | .big => fromLE d.reverse

/-- `int.from_bytes(d, byteorder, signed)` -/
def fromBytes (o : Order) (signed : Bool) (d : Bytes) : Int :=
  let u := fromBytesU o d
  if signed ∧ d.length > 0 ∧ u ≥ 256 ^ d.length / 2 then (u : Int) - (256 ^ d.length : Nat) else u

def toBytesU (o : Order) (size : Nat) (v : Nat) : Bytes :=
  match o with
  | .little => toLE size v
  | .big => (toLE size v).reverse

/-- `int.to_bytes(n, size, byteorder, signed)` incl. OverflowError. -/
def toBytes (o : Order) (signed : Bool) (size : Nat) (n : Int) : Py Bytes :=
  if signed then
    if size = 0 ∧ n = -1 then .ok []  -- CPython quirk: (-1).to_bytes(0, signed=True) == b''
    else if -((256 ^ size / 2 : Nat) : Int) ≤ n ∧ n < ((256 ^ size : Nat) : Int) - ((256 ^ size / 2 : Nat) : Int) then
      .ok (toBytesU o size (if n ≥ 0 then n.toNat else (n + (256 ^ size : Nat)).toNat))
    else .error .overflowError
  else
    if 0 ≤ n ∧ n < (256 ^ size : Nat) then .ok (toBytesU o size n.toNat)
    else .error .overflowError

/-- `int.bit_length()` of |n| -/
def bitLength (n : Int) : Nat := if n.natAbs = 0 then 0 else Nat.log2 n.natAbs + 1

/-- `utils.unpack(data, size, byteorder, signed)` -/
def unpack (data : Bytes) (size : Option Int) (o : Order) (signed : Bool) : Int :=
  fromBytes o signed (pySliceTo data size)

/-- `utils.pack(n, size, byteorder, signed)` -/
def pack (n : Int) (size : Option Nat) (o : Order) (signed : Bool) : Py Bytes :=
  let sz := match size with
    | some s => s
    | none => (bitLength n + 7) / 8
  toBytes o signed sz n

/-! ### checksum8 and stager URIs (text = list of code points) -/

abbrev Txt := List Nat

def checksum8 (t : Txt) : Nat :=
  if t.length < 4 then 0 else ((t.filter (· ≠ 47)).sum) % 256

def isAlnum (c : Nat) : Bool :=
  (48 ≤ c && c ≤ 57) || (65 ≤ c && c ≤ 90) || (97 ≤ c && c ≤ 122)

/-- `re.match("^/[A-Za-z0-9]{4}$", uri)`: `$` also matches before one trailing newline. -/
def matchX64Shape (t : Txt) : Bool :=
  match t with
  | [s, a, b, c, d] => s == 47 && isAlnum a && isAlnum b && isAlnum c && isAlnum d
  | [s, a, b, c, d, nl] => s == 47 && isAlnum a && isAlnum b && isAlnum c && isAlnum d && nl == 10
  | _ => false

def isStagerX86 (t : Txt) : Bool := checksum8 t == 92
def isStagerX64 (t : Txt) : Bool := checksum8 t == 93 && matchX64Shape t

/-- `random_stager_uri` driven by an explicit stream of `random.choice` results.
`none` = the stream ran out before a stager URI was produced. -/
def randomStagerUri (x64 : Bool) (length : Int) (choices : List Nat) : Py (Option Txt) :=
  if x64 ∧ length ≠ 4 then .error .valueError
  else if length < 3 then .error .valueError
  else
    let n := length.toNat
    let rec go (fuel : Nat) (cs : List Nat) : Option Txt :=
      match fuel with
      | 0 => none
      | fuel+1 =>
        if cs.length < n then none
        else
          let uri := 47 :: cs.take n
          if (if x64 then isStagerX64 uri else isStagerX86 uri) then some uri
          else go fuel (cs.drop n)
    .ok (go (choices.length + 1) choices)

/-- `bytes.decode("ascii", errors="ignore")` as code points. -/
def asciiIgnore (b : Bytes) : Txt := (b.filter (· < 128)).map (·.toNat)

/-- `BeaconCapture.find_staged_beacon` gate.  `req` = ascii-decoded URI of the linked request
(if any); `extract` = outcome of `BeaconConfig.from_bytes(body)` (`none` = ValueError). -/
def findStagedBeacon (req : Option Txt) (extract : Option α) : Option α :=
  match req with
  | some uri => if isStagerX86 uri || isStagerX64 uri then extract else none
  | none => extract

end C20

import CsVerif.Model.Basic
import CsVerif.Gen.Commands
/-
C19 — the beacon client (dissect/cobaltstrike/client.py)

  * `HttpBeaconClient.run`   : beacon id normalisation + range check, deterministic `aes_rand`, key split,
                               construction and truncation of the `info` string (lines 221-252);
  * `get_sleep_time`         : exact rational arithmetic (float rounding is NOT modelled);
  * `register_task`, `handle`, `catch_all`, `get_handlers`, and the body of `_beacon_loop`.

Python `str` is a list of code points (`Txt`); Python lists are objects on an explicit heap so that
aliasing (the defect repaired by 7330121: `get_handlers` appended to the *stored* list) is expressible.
-/
namespace C19

abbrev Txt := List Nat

/-! ### beacon id -/

/-- Python `x & m` for a mask `m ≥ 0` on unbounded two's-complement integers:
for `x = -(n+1)` the bits of `x` are the complement of the bits of `n`, so `x & m = m AND NOT n = m - (m AND n)`. -/
def pyAndMask (x : Int) (m : Nat) : Int :=
  match x with
  | .ofNat n => ((n &&& m : Nat) : Int)
  | .negSucc n => ((m - (m &&& n) : Nat) : Int)

/-- `self.beacon_id = (id - id % 2) & 0xFFFFFFFF; if self.beacon_id > 0x7FFFFFFF: raise ValueError`.
Lean's `%` on `Int` with a positive divisor is Python's floored modulo. -/
def normaliseId (id : Int) : Py Int :=
  let r := pyAndMask (id - id % 2) 0xFFFFFFFF
  if r > 0x7FFFFFFF then .error .valueError else .ok r

/-- `beacon_id=None`: `random.getrandbits(32) & 0x7FFFFFFF`, then the same normalisation -/
def defaultId (rand32 : Int) : Py Int := normaliseId (pyAndMask rand32 0x7FFFFFFF)

/-! ### keys: `aes_rand` is a function of the normalised id (Mersenne Twister not modelled), sha256 a parameter -/

structure Prims where
  /-- `random.seed(bid ^ 0xACCE55ED); random.getrandbits(128).to_bytes(16, "big")` -/
  aesRand : Int → Bytes
  /-- `hashlib.sha256(x).digest()` -/
  sha256 : Bytes → Bytes

structure Keys where
  aesRand : Bytes
  aesKey : Bytes
  hmacKey : Bytes
  deriving DecidableEq, Repr

def deriveKeys (p : Prims) (bid : Int) : Keys :=
  let r := p.aesRand bid
  let digest := p.sha256 r
  { aesRand := r, aesKey := digest.take 16, hmacKey := digest.drop 16 }

/-! ### UTF-8 (`str.encode()`, `bytes.decode(errors="ignore")`) -/

/-- UTF-8 encoding of one code point.  Lone surrogates raise UnicodeEncodeError (a ValueError); values
`≥ 0x110000` are not code points at all (`chr` raises ValueError). -/
def encodeCp (c : Nat) : Py Bytes :=
  if c < 0x80 then .ok [UInt8.ofNat c]
  else if c < 0x800 then .ok [UInt8.ofNat (0xC0 + c / 64), UInt8.ofNat (0x80 + c % 64)]
  else if c < 0x10000 then
    if 0xD800 ≤ c ∧ c < 0xE000 then .error .valueError
    else .ok [UInt8.ofNat (0xE0 + c / 4096), UInt8.ofNat (0x80 + c / 64 % 64), UInt8.ofNat (0x80 + c % 64)]
  else if c < 0x110000 then
    .ok [UInt8.ofNat (0xF0 + c / 262144), UInt8.ofNat (0x80 + c / 4096 % 64),
         UInt8.ofNat (0x80 + c / 64 % 64), UInt8.ofNat (0x80 + c % 64)]
  else .error .valueError

def utf8Encode : Txt → Py Bytes
  | [] => .ok []
  | c :: cs =>
    match encodeCp c with
    | .error e => .error e
    | .ok b =>
      match utf8Encode cs with
      | .error e => .error e
      | .ok r => .ok (b ++ r)

def isCont (b : UInt8) : Bool := 0x80 ≤ b.toNat && b.toNat ≤ 0xBF

/-- One well-formed UTF-8 sequence starting with `b0` (followed by `rest`): the code point and the number of
*additional* bytes consumed.  `none` = `b0` does not start a well-formed, complete sequence (invalid start byte,
bad/missing continuation, overlong form, surrogate, above U+10FFFF). -/
def decodeStep (b0 : UInt8) (rest : Bytes) : Option (Nat × Nat) :=
  let x := b0.toNat
  if x < 0x80 then some (x, 0)
  else if 0xC2 ≤ x ∧ x ≤ 0xDF then
    match rest with
    | b1 :: _ => if isCont b1 then some ((x - 0xC0) * 64 + (b1.toNat - 0x80), 1) else none
    | _ => none
  else if 0xE0 ≤ x ∧ x ≤ 0xEF then
    match rest with
    | b1 :: b2 :: _ =>
      let c := (x - 0xE0) * 4096 + (b1.toNat - 0x80) * 64 + (b2.toNat - 0x80)
      if isCont b1 ∧ isCont b2 ∧ 0x800 ≤ c ∧ ¬ (0xD800 ≤ c ∧ c < 0xE000) then some (c, 2) else none
    | _ => none
  else if 0xF0 ≤ x ∧ x ≤ 0xF4 then
    match rest with
    | b1 :: b2 :: b3 :: _ =>
      let c := (x - 0xF0) * 262144 + (b1.toNat - 0x80) * 4096 + (b2.toNat - 0x80) * 64 + (b3.toNat - 0x80)
      if isCont b1 ∧ isCont b2 ∧ isCont b3 ∧ 0x10000 ≤ c ∧ c < 0x110000 then some (c, 3) else none
    | _ => none
  else none

/-- `bytes.decode("utf-8", errors="ignore")`; `skip` = bytes of the current sequence still to be consumed.
With the `ignore` handler, skipping the offending byte and resuming at the next one yields the same text as
CPython's "maximal subpart" rule, because the other bytes of such a subpart are continuation bytes, which never
start a sequence. -/
def decodeAux : Nat → Bytes → Txt
  | _, [] => []
  | skip + 1, _ :: rest => decodeAux skip rest
  | 0, b :: rest =>
    match decodeStep b rest with
    | some (c, k) => c :: decodeAux k rest
    | none => decodeAux 0 rest

def utf8DecodeIgnore (b : Bytes) : Txt := decodeAux 0 b

/-- `info = f"{computer}\t{user}\t{process}"; info = info.encode()[:51].decode(errors="ignore")`;
`metadata.info = info.encode()` -/
def mkInfo (computer user process : Txt) : Py Bytes :=
  let info := computer ++ [9] ++ user ++ [9] ++ process
  match utf8Encode info with
  | .error e => .error e
  | .ok enc => utf8Encode (utf8DecodeIgnore (enc.take 51))

/-- number of bytes of the UTF-8 form of a code point -/
def cpLen (c : Nat) : Nat := if c < 0x80 then 1 else if c < 0x800 then 2 else if c < 0x10000 then 3 else 4

/-- bytes needed for the UTF-8 form of a text -/
def byteLen (s : Txt) : Nat := (s.map cpLen).sum

/-- specification of the truncation: whole characters from the front while their encodings fit in `n` bytes -/
def fitPrefix : Txt → Nat → Txt
  | [], _ => []
  | c :: cs, n => if cpLen c ≤ n then c :: fitPrefix cs (n - cpLen c) else []

/-- length of `metadata.dumps()`: the fixed fields (generated from the structure definition) plus `info`. -/
def metadataLen (info : Bytes) : Nat := Gen.Commands.metadataFixedLen + info.length

/-! ### `run(dry_run=True)`: the identity part -/

structure Identity where
  beaconId : Int
  keys : Keys
  info : Bytes
  deriving DecidableEq, Repr

/-- order of the raising steps as in `run`: id check, (protocol/scheme checks: not modelled, the harness uses an
http beacon), then the info encoding. -/
def run (p : Prims) (id : Int) (computer user process : Txt) : Py Identity :=
  match normaliseId id with
  | .error e => .error e
  | .ok bid =>
    let keys := deriveKeys p bid
    match mkInfo computer user process with
    | .error e => .error e
    | .ok info => .ok { beaconId := bid, keys := keys, info := info }

/-! ### get_sleep_time over exact fractions -/

structure Frac where
  num : Int
  den : Nat
  deriving DecidableEq, Repr

/-- `self.sleeptime - random.uniform(0, self.sleeptime * self.jitter / 100)` where the uniform draw is
`0 + (hi - 0) * u`, `u = un/ud`.  Result `= s - u·(s·j/100) = (100·ud·s − un·s·j) / (100·ud)`; exact arithmetic. -/
def getSleepTime (sleeptime jitter : Int) (u : Frac) : Frac :=
  { num := 100 * (u.den : Int) * sleeptime - u.num * (sleeptime * jitter), den := 100 * u.den }

/-! ### handler registry -/

/-- A handler object as far as the loop can tell objects apart. -/
structure Handler where
  id : Nat
  /-- `callable(h)` -/
  callable : Bool
  /-- `bool(h)`: consulted only for `on_<name>` attributes -/
  truthy : Bool
  /-- calling it raises an `Exception` -/
  raises : Bool
  /-- it returns a truthy response `(callback_id, data)` → `send_callback` -/
  responds : Bool
  deriving DecidableEq, Repr

abbrev Key := Option Int   -- `None` or an int (`-1` = catch-all)

/-- The client object: Python list objects live on `heap` (addressed by index); `taskMap` is the dict
`task_map` (insertion ordered; values are *references*); `iattrs`/`cattrs` are the `on_*` attributes found on the
instance / on the (sub)class. -/
structure Client where
  heap : List (List Handler) := []
  taskMap : List (Key × Nat) := []
  iattrs : List (Txt × Handler) := []
  cattrs : List (Txt × Handler) := []
  deriving DecidableEq, Repr

namespace Client

/-- contents of the list object `r` (references held by a client always point into its heap, see `Lemmas.WF`;
a dangling reference is not a Python state, it reads as the empty list). -/
def readList (c : Client) (r : Nat) : List Handler := (c.heap[r]?).getD []

/-- allocate a new list object -/
def newList (c : Client) (xs : List Handler) : Client × Nat :=
  ({ c with heap := c.heap ++ [xs] }, c.heap.length)

/-- `lst.append(h)` on the list object `r` (in place: every alias sees it) -/
def appendTo (c : Client) (r : Nat) (h : Handler) : Client :=
  { c with heap := c.heap.modify r (· ++ [h]) }

def lookupKey (c : Client) (k : Key) : Option Nat := c.taskMap.lookup k

/-- `self.task_map.get(k, [])` as a value (the contents, not the list object) -/
def stored (c : Client) (k : Key) : List Handler :=
  match c.lookupKey k with
  | some r => c.readList r
  | none => []

/-- the dict as a value: keys in insertion order with the contents of their lists -/
def view (c : Client) : List (Key × List Handler) := c.taskMap.map fun kr => (kr.1, c.readList kr.2)

def setAssoc (l : List (Txt × Handler)) (n : Txt) (h : Handler) : List (Txt × Handler) :=
  match l with
  | [] => [(n, h)]
  | (m, g) :: rest => if m = n then (n, h) :: rest else (m, g) :: setAssoc rest n h

/-- `getattr(self, name, None)`: instance dict first, then the class -/
def getattr (c : Client) (n : Txt) : Option Handler :=
  match c.iattrs.lookup n with
  | some h => some h
  | none => c.cattrs.lookup n

/-- `register_task(command_id, func)` -/
def registerTask (c : Client) (k : Key) (h : Handler) : Client :=
  match c.lookupKey k with
  | some r => c.appendTo r h
  | none =>
    let (c1, r) := c.newList []
    let c2 := { c1 with taskMap := c1.taskMap ++ [(k, r)] }
    c2.appendTo r h

end Client

/-- the argument of the decorator `handle(command)` -/
inductive CmdArg
  /-- `None` -/
  | none
  /-- an `int`, including IntEnum members such as `BeaconCommand.COMMAND_SLEEP` (they are ints, so the
  `.value` branch is not taken) -/
  | int (n : Int)
  /-- a truthy non-int object with attribute `.value` -/
  | valueObj (v : Key)
  /-- a truthy non-int object without `.value` (e.g. the string "sleep") → AttributeError -/
  | plainObj
  deriving DecidableEq, Repr

/-- `value = command; if command and not isinstance(command, int): value = command.value` -/
def handleKey : CmdArg → Py Key
  | .none => .ok none
  | .int n => .ok (some n)
  | .valueObj v => .ok v
  | .plainObj => .error .attributeError

inductive Reg
  /-- `@client.handle(command)` applied to `h` -/
  | handle (c : CmdArg) (h : Handler)
  /-- `client.register_task(k, h)` -/
  | register (k : Key) (h : Handler)
  /-- `@client.catch_all()` applied to `h` -/
  | catchAll (h : Handler)
  /-- `setattr(client, name, h)` -/
  | instAttr (name : Txt) (h : Handler)
  /-- attribute `name` defined on the subclass -/
  | classAttr (name : Txt) (h : Handler)
  deriving DecidableEq, Repr

/-- one registration; a raising registration leaves the client unchanged -/
def applyReg (c : Client) : Reg → Py Client
  | .handle a h =>
    match handleKey a with
    | .error e => .error e
    | .ok k => .ok (c.registerTask k h)
  | .register k h => .ok (c.registerTask k h)
  | .catchAll h => .ok (c.registerTask (some (-1)) h)
  | .instAttr n h => .ok { c with iattrs := Client.setAssoc c.iattrs n h }
  | .classAttr n h => .ok { c with cattrs := Client.setAssoc c.cattrs n h }

/-- a script of registrations in which each raising one is caught by the caller; returns the client and the
outcome of every registration -/
def applyRegs (c : Client) : List Reg → Client × List (Option PyExc)
  | [] => (c, [])
  | r :: rs =>
    match applyReg c r with
    | .error e =>
      let (c', es) := applyRegs c rs
      (c', some e :: es)
    | .ok c1 =>
      let (c', es) := applyRegs c1 rs
      (c', none :: es)

def build (regs : List Reg) : Client := (applyRegs {} regs).1

/-! ### command names -/

def commandName (id : Int) : Option Txt := Gen.Commands.commandNames.lookup id

/-- `str.replace(pat, "")` for a non-empty pattern: leftmost non-overlapping occurrences are removed.
`skip` = characters of the current occurrence still to be dropped. -/
def removeAllAux (pat : Txt) : Nat → Txt → Txt
  | _, [] => []
  | skip + 1, _ :: cs => removeAllAux pat skip cs
  | 0, c :: cs =>
    if pat ≠ [] ∧ pat.isPrefixOf (c :: cs) then removeAllAux pat (pat.length - 1) cs
    else c :: removeAllAux pat 0 cs

def removeAll (pat s : Txt) : Txt := removeAllAux pat 0 s

/-- `str.lower()` on ASCII text (member names are ASCII identifiers; checked by the translator) -/
def lowerAscii (s : Txt) : Txt := s.map fun c => if 65 ≤ c ∧ c ≤ 90 then c + 32 else c

def txtCOMMAND_ : Txt := [67, 79, 77, 77, 65, 78, 68, 95]            -- "COMMAND_"
def txtOn_ : Txt := [111, 110, 95]                                     -- "on_"
def txtEmptyTask : Txt := [101, 109, 112, 116, 121, 95, 116, 97, 115, 107]   -- "empty_task"
def txtOnCatchAll : Txt := [111, 110, 95, 99, 97, 116, 99, 104, 95, 97, 108, 108]  -- "on_catch_all"

def txtUnknown_ : Txt := [117, 110, 107, 110, 111, 119, 110, 95]          -- "unknown_"

/-- decimal digits of a natural number, most significant first (`fuel` bounds the number of digits) -/
def natDigitsAux : Nat → Nat → Txt → Txt
  | 0, _, acc => acc
  | fuel + 1, n, acc =>
    let acc' := (48 + n % 10) :: acc
    if n / 10 = 0 then acc' else natDigitsAux fuel (n / 10) acc'

def natDigits (n : Nat) : Txt := natDigitsAux (n + 1) n []

/-- `str(i)` / `f"{i}"` for an int -/
def intDecimal : Int → Txt
  | .ofNat n => natDigits n
  | .negSucc n => 45 :: natDigits (n + 1)

/-- the attribute name looked up by `get_handlers(command_id)`:
`on_empty_task` for `None`; for a `BeaconCommand` value the lower-cased member name without `COMMAND_` (an IntEnum
member equal to 0 would be falsy: `... if task else "empty_task"`); `BeaconCommand(command_id)` raises ValueError
for any other value, which is caught (c54c447): the name is then `on_unknown_<command_id>`. -/
def methodName : Key → Txt
  | none => txtOn_ ++ txtEmptyTask
  | some id =>
    match commandName id with
    | none => txtOn_ ++ txtUnknown_ ++ intDecimal id
    | some n =>
      if id ≠ 0 then txtOn_ ++ lowerAscii (removeAll txtCOMMAND_ n)
      else txtOn_ ++ txtEmptyTask

/-- `on = getattr(self, name, None); if on: handlers.append(on)` -/
def appendIfTruthy (c : Client) (r : Nat) : Option Handler → Client
  | some h => if h.truthy then c.appendTo r h else c
  | none => c

/-- `get_handlers(command_id)`; returns the new heap state and the reference of the returned list -/
def getHandlers (c : Client) (k : Key) : Client × Nat :=
  let on := c.getattr (methodName k)
  -- handlers = list(self.task_map.get(command_id, []))
  let (c1, hr) := c.newList (c.stored k)
  let c2 := appendIfTruthy c1 hr on
  if (c2.readList hr).isEmpty then
    -- handlers = list(self.task_map.get(-1, []))
    let (c3, hr') := c2.newList (c2.stored (some (-1)))
    let c4 := appendIfTruthy c3 hr' (c.getattr txtOnCatchAll)
    (c4, hr')
  else (c2, hr)

/-! ### the loop body -/

inductive Event
  | call (id : Nat)
  | send (id : Nat)
  | sleep
  deriving DecidableEq, Repr

/-- `if callable(handler): try: response = handler(task); if response: self.send_callback(*response)
    except Exception: log` -/
def invokeOne (h : Handler) : List Event :=
  if h.callable then
    if ¬ h.raises ∧ h.responds then [.call h.id, .send h.id] else [.call h.id]
  else []

def invoke (hs : List Handler) : List Event := hs.flatMap invokeOne

/-- one iteration of `_beacon_loop` for the value returned by `get_task()` (`none` = no task; `some v` = a task
whose `command.value` is `v`; a TaskPacket is always truthy).  Nothing in the body can raise any more: the enum
lookup is guarded and handler exceptions are caught. -/
def loopStep (silent : Bool) (c : Client) (task : Option Int) : Client × List Event :=
  if task = none ∧ ¬ silent then (c, [.sleep])
  else
    let (c', hr) := getHandlers c task
    (c', invoke (c'.readList hr) ++ [.sleep])

/-- the loop over a scripted sequence of `get_task()` results; the third component is the exception that left the
loop before the script was exhausted (`none` for the current code: no iteration can raise) -/
def runLoop (silent : Bool) (c : Client) : List (Option Int) → Client × List Event × Option PyExc
  | [] => (c, [], none)
  | t :: ts =>
    let (c', ev) := loopStep silent c t
    let (c'', evs, r) := runLoop silent c' ts
    (c'', ev ++ evs, r)

/-! ### declarative specification of dispatch, stated over the registration script itself -/

/-- the `(key, handler)` pair a registration adds to `task_map` (none for attribute definitions and for
registrations that raise) -/
def Reg.entry : Reg → Option (Key × Handler)
  | .handle a h =>
    match handleKey a with
    | .ok k => some (k, h)
    | .error _ => none
  | .register k h => some (k, h)
  | .catchAll h => some (some (-1), h)
  | .instAttr _ _ => none
  | .classAttr _ _ => none

/-- the handlers registered for key `k`, in registration order, with repetitions -/
def registeredFor (regs : List Reg) (k : Key) : List Handler :=
  regs.filterMap fun r =>
    match r.entry with
    | some (k', h) => if k' = k then some h else none
    | none => none

def instAttrStep (n : Txt) (acc : Option Handler) : Reg → Option Handler
  | .instAttr m h => if m = n then some h else acc
  | _ => acc

def classAttrStep (n : Txt) (acc : Option Handler) : Reg → Option Handler
  | .classAttr m h => if m = n then some h else acc
  | _ => acc

/-- the attribute `n` of the client after the script: the last instance-level definition, else the last class-level one -/
def attrOf (regs : List Reg) (n : Txt) : Option Handler :=
  match regs.foldl (instAttrStep n) none with
  | some h => some h
  | none => regs.foldl (classAttrStep n) none

def truthyAttr : Option Handler → List Handler
  | some h => if h.truthy then [h] else []
  | none => []

/-- the handlers a task with command `k` must be dispatched to -/
def specHandlers (regs : List Reg) (k : Key) : List Handler :=
  let own := registeredFor regs k ++ truthyAttr (attrOf regs (methodName k))
  if own.isEmpty then registeredFor regs (some (-1)) ++ truthyAttr (attrOf regs txtOnCatchAll)
  else own

/-- expected events of one loop iteration, for any command id (known to `BeaconCommand` or not) -/
def specStep (regs : List Reg) (silent : Bool) (task : Option Int) : List Event :=
  if task = none ∧ ¬ silent then [.sleep]
  else invoke (specHandlers regs task) ++ [.sleep]

/-! ### histories on ONE client object

Nothing the client computes is cached: every observation is a function of the *current* attributes.  A session is
what the observations can depend on: the registry, the current `sleeptime`/`jitter` attributes (absent until a
successful `run` or an assignment) and the identity presented by `metadata`/`c2http` (absent until a successful
`run`). -/

structure Session where
  client : Client := {}
  sleeptime : Option Int := none
  jitter : Option Int := none
  ident : Option Identity := none

inductive HStep
  /-- `client.sleeptime = s` (what a COMMAND_SLEEP handler does) -/
  | setSleep (s : Int)
  /-- `client.jitter = j` -/
  | setJitter (j : Int)
  /-- `client.run(bconfig, dry_run=True, beacon_id=id, sleeptime=s, jitter=j, computer=…, user=…, process=…)` -/
  | run (id s j : Int) (computer user process : Txt)
  /-- `client.get_sleep_time()` with the uniform draw `u` -/
  | sleep (u : Frac)
  /-- `client.get_handlers(k)` -/
  | getHandlers (k : Key)
  /-- one iteration of `_beacon_loop` with `get_task()` returning `t` -/
  | task (silent : Bool) (t : Option Int)
  /-- a registration -/
  | reg (r : Reg)
  /-- read `metadata.bid`, `metadata.aes_rand`, the keys of `c2http`, `metadata.info` -/
  | show

inductive HAnswer
  | done
  | exc (e : PyExc)
  | frac (f : Frac)
  | handlers (hs : List Handler)
  /-- events of a loop iteration and the exception that ended it, if any -/
  | events (es : List Event) (e : Option PyExc)
  | ident (i : Identity)

/-- `get_sleep_time()` on the current attributes; a missing attribute raises AttributeError -/
def Session.sleepTime (st : Session) (u : Frac) : Py Frac :=
  match st.sleeptime, st.jitter with
  | some s, some j => .ok (getSleepTime s j u)
  | _, _ => .error .attributeError

def applyStep (p : Prims) (st : Session) : HStep → Session × HAnswer
  | .setSleep s => ({ st with sleeptime := some s }, .done)
  | .setJitter j => ({ st with jitter := some j }, .done)
  | .run id s j c u q =>
    -- a raising `run` leaves metadata/c2http (the presented identity) and sleeptime/jitter as they were:
    -- both are assigned after the last raising statement
    match C19.run p id c u q with
    | .error e => (st, .exc e)
    | .ok a => ({ st with sleeptime := some s, jitter := some j, ident := some a }, .done)
  | .sleep u =>
    match st.sleepTime u with
    | .ok f => (st, .frac f)
    | .error e => (st, .exc e)
  | .getHandlers k =>
    let (c', hr) := C19.getHandlers st.client k
    ({ st with client := c' }, .handlers (c'.readList hr))
  | .task silent t =>
    let (c', ev) := loopStep silent st.client t
    -- the `sleep` that ends the iteration is preceded by `get_sleep_time()`
    match st.sleepTime ⟨0, 1⟩ with
    | .ok _ => ({ st with client := c' }, .events ev none)
    | .error e => ({ st with client := c' }, .events ev.dropLast (some e))
  | .reg r =>
    match applyReg st.client r with
    | .ok c' => ({ st with client := c' }, .done)
    | .error e => (st, .exc e)
  | .show =>
    match st.ident with
    | some a => (st, .ident a)
    | none => (st, .exc .attributeError)

def runHistory (p : Prims) (st : Session) : List HStep → Session × List HAnswer
  | [] => (st, [])
  | h :: hs =>
    let (st1, a) := applyStep p st h
    let (st', as) := runHistory p st1 hs
    (st', a :: as)

def sessionAfter (p : Prims) (st : Session) (hs : List HStep) : Session := (runHistory p st hs).1

/-- the registrations contained in a history -/
def regsOf : List HStep → List Reg
  | [] => []
  | .reg r :: hs => r :: regsOf hs
  | _ :: hs => regsOf hs

end C19

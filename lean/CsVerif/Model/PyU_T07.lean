import CsVerif.Model.PyU
import CsVerif.Model.PyU_T02
/-!
PyU_T07 — additions to the run-time library of the untyped translator (`tools/py2leanu.py`) for `decrypt_metadata` /
`encrypt_metadata` (property C06) and `C2Http` (property C07) of c2.py.  Same conventions as `PyU.lean`: every operation is a total
function, the raising branches of CPython 3.12 / dissect.cstruct 4.7 are explicit, the operand kinds an operation does not model
are stated in its doc comment (they answer `TypeError`) and left out of the `pyu` validation stream of C06 / C07
(tools/harness/pyuval_t07.py runs every operation of this file against CPython / dissect.cstruct on random operands).
No new constructor of `PyU.V`: a cstruct structure instance is an `inst` of a plain class.  Every definition of this file carries
the prefix `t07` / `T07`.  Imports: `PyU`, `PyU_T02` (`instSetAttr`, `attempt`, `uintOf`); no Mathlib (links into the drivers).
-/
namespace PyU
open PyRt (Str)

/-! ### `struct.error` -/

/-- exceptions of a function that packs cstruct structures: `PyExc` plus `struct.error` (which is not a member of the shared
enumeration `PyExc`) -/
inductive T07Exc
  | py (e : PyExc)
  | structError
  deriving DecidableEq, Repr

/-- the monad of the translated functions that call `len(<structure>)` / `<structure>.dumps()`; every operation of the run-time
library is lifted into it -/
abbrev T07PyE (α : Type) := Except T07Exc α

def t07Lift {α : Type} : Py α → T07PyE α
  | .ok a => .ok a
  | .error e => .error (.py e)

instance : MonadLift Py T07PyE := ⟨t07Lift⟩

/-! ### cstruct structures: fixed-width integers, `char x[n]`, `char x[<field> - k]` -/

/-- the type of one field of a cstruct structure, as far as the translated code needs it: an unsigned integer of `size` bytes,
`char name[n]`, or `char name[<earlier field> - sub]` (cstruct evaluates the expression and reads `max(0, ·)` bytes) -/
inductive T07FieldTy
  | uint (size : Nat)
  | chars (n : Nat)
  | charsExpr (lenField : String) (sub : Nat)
  deriving DecidableEq, Repr

/-- a cstruct structure class: the class of its instances (plain class, one attribute per field), the byte order of the cstruct
instance, the field types in declaration order and the static offset cstruct computed for every field -/
structure T07StructCls where
  cls : Cls
  bigEndian : Bool
  tys : List T07FieldTy
  offsets : List Nat
  deriving Repr

/-- read the fields `fs` (names) / `tys` from `rest`; `acc`: the values read so far (for `char x[field - k]`), newest first.
A read that delivers fewer bytes than the field needs is an EOFError (dissect.cstruct 4.7). -/
def t07ReadFields (bigEndian : Bool) : List String → List T07FieldTy → Bytes → List (String × V) → Py (List V)
  | f :: fs, ty :: tys, rest, acc =>
    let n : Option Nat := match ty with
      | .uint size => some size
      | .chars n => some n
      | .charsExpr lf sub => match acc.find? (·.1 == lf) with
        | some (_, v) => (asInt v).map fun x => (x - (sub : Int)).toNat
        | none => none
    match n with
    | none => .error .typeError
    | some n =>
      if rest.length < n then .error .eofError
      else
        let raw := rest.take n
        let v : V := match ty with
          | .uint _ => .int (uintOf bigEndian raw)
          | _ => .bytes raw
        match t07ReadFields bigEndian fs tys (rest.drop n) ((f, v) :: acc) with
        | .error e => .error e
        | .ok vs => .ok (v :: vs)
  | _, _, _, _ => .ok []

/-- `Cls(data)` for a cstruct structure class and a `bytes` object: the new instance, fields read one after the other from the
front of `data`; short data is an EOFError, trailing data is ignored.
Not modelled (TypeError): every other kind of argument (`None` / no argument give the default instance, an int-like value
initialises the first field, a file object is read from its position; `str` / list / tuple are a TypeError in cstruct as well). -/
def t07StructParse (sc : T07StructCls) (x : V) : Py V :=
  match x with
  | .bytes d =>
    match t07ReadFields sc.bigEndian sc.cls.fields sc.tys d [] with
    | .error e => .error e
    | .ok vs => .ok (.inst sc.cls vs)
  | _ => .error .typeError

/-- `struct.pack` of one unsigned integer of `w` bytes (`v < 256 ^ w`), most significant byte first -/
def t07BeBytes : Nat → Nat → Bytes
  | 0, _ => []
  | w + 1, v => t07BeBytes w (v / 256) ++ [UInt8.ofNat (v % 256)]

/-- the bytes one field contributes to `dumps()`: an unsigned integer field takes an int-like value in `0 .. 256^size - 1`
(anything else — negative, too large, not an integer — is a `struct.error`; `None` is the default 0); a `char` array takes `bytes`
as they are, whatever their length (`None`: the default, `n` NUL bytes / the empty string).
Not modelled (TypeError): a `char` array field holding a `str` (written latin-1 encoded), a list of ints, or any other value
(CPython: TypeError from `BytesIO.write` for most of them). -/
def t07FieldBytes (bigEndian : Bool) (ty : T07FieldTy) (v : V) : T07PyE Bytes :=
  match ty with
  | .uint size =>
    match v with
    | .none => .ok (List.replicate size 0)
    | _ =>
      match asInt v with
      | some n =>
        if 0 ≤ n ∧ n < (256 : Int) ^ size then
          let b := t07BeBytes size n.toNat
          .ok (if bigEndian then b else b.reverse)
        else .error .structError
      | none => .error .structError
  | .chars n =>
    match v with
    | .none => .ok (List.replicate n 0)
    | .bytes b => .ok b
    | _ => .error (.py .typeError)
  | .charsExpr _ _ =>
    match v with
    | .none => .ok []
    | .bytes b => .ok b
    | _ => .error (.py .typeError)

/-- `dumps()` field by field: before a field with a static offset that lies behind what was written so far, NUL bytes fill the gap
(so a too short `char[n]` value is padded, a too long one is NOT cut: the following fields simply start later) -/
def t07DumpFields (bigEndian : Bool) : List T07FieldTy → List Nat → List V → Bytes → T07PyE Bytes
  | ty :: tys, off :: offs, v :: vs, out =>
    let out' := out ++ List.replicate (off - out.length) 0
    match t07FieldBytes bigEndian ty v with
    | .error e => .error e
    | .ok b => t07DumpFields bigEndian tys offs vs (out' ++ b)
  | _, _, _, out => .ok out

/-- the registered structure class an instance belongs to -/
def t07FindStruct (scs : List T07StructCls) (c : Cls) : Option T07StructCls := scs.find? (·.cls.cid == c.cid)

/-- `x.dumps()`: for an instance of one of the registered cstruct structure classes `scs` the packed bytes (`struct.error` when an
integer field does not fit); every other kind of value here has no `dumps` (AttributeError).
Not modelled (TypeError): cstruct enum members (they have `dumps` too). -/
def t07Dumps (scs : List T07StructCls) (x : V) : T07PyE V :=
  match x with
  | .inst c vals =>
    match t07FindStruct scs c with
    | some sc => (t07DumpFields sc.bigEndian sc.tys sc.offsets vals []).map .bytes
    | none => .error (.py .attributeError)
  | .enum _ _ => .error (.py .typeError)
  | _ => .error (.py .attributeError)

/-- `len(x)`: for an instance of a registered cstruct structure class `len(x.dumps())` (dissect.cstruct: `Structure.__len__`),
otherwise `PyU.len` -/
def t07Len (scs : List T07StructCls) (x : V) : T07PyE V :=
  match x with
  | .inst c vals =>
    match t07FindStruct scs c with
    | some sc => (t07DumpFields sc.bigEndian sc.tys sc.offsets vals []).map fun b => .int b.length
    | none => t07Lift (len x)
  | _ => t07Lift (len x)

/-! ### `format(v, "0<w>x")` -/

/-- `format(v, "0<w>x")` (f-string field `{v:08x}`): lower-case hexadecimal, zero-filled to `w` characters, the sign counted in;
int-likes only: a `str` is a ValueError (unknown format code), every other kind of value a TypeError -/
def t07FmtZeroHex (v : V) (w : Nat) : Py Str :=
  let pad (digits : Str) (k : Nat) : Str := List.replicate (k - digits.length) 48 ++ digits
  match v with
  | .str _ => .error .valueError
  | _ =>
    match asInt v with
    | some n =>
      if n < 0 then .ok (45 :: pad ((Nat.toDigits 16 n.natAbs).map Char.toNat) (w - 1))
      else .ok (pad ((Nat.toDigits 16 n.toNat).map Char.toNat) w)
    | none => .error .typeError

/-- `format(v, "#x")` (f-string field `{v:#x}`): lower-case hexadecimal with the prefix `0x` (`-0x…` for a negative number);
int-likes only: a `str` is a ValueError, every other kind of value a TypeError -/
def t07FmtAltHex (v : V) : Py Str :=
  match v with
  | .str _ => .error .valueError
  | _ =>
    match asInt v with
    | some n =>
      if n < 0 then .ok (45 :: 48 :: 120 :: (Nat.toDigits 16 n.natAbs).map Char.toNat)
      else .ok (48 :: 120 :: (Nat.toDigits 16 n.toNat).map Char.toNat)
    | none => .error .typeError

/-! ### `x.startswith(prefix | tuple of prefixes)`, `any`, `all`, `repr` of a discarded message -/

/-- one candidate of `x.startswith((p1, p2, …))` for a `bytes` / `str` receiver: `none` = the candidate is of the wrong kind -/
def t07Prefix1 (x p : V) : Option Bool :=
  match x, p with
  | .bytes b, .bytes q => some (q.isPrefixOf b)
  | .str t, .str q => some (q.isPrefixOf t)
  | _, _ => none

/-- the candidates of a tuple in order: the first match answers `True`; a candidate of the wrong kind that is reached before a
match is a TypeError -/
def t07PrefixAny (x : V) : List V → Py Bool
  | [] => .ok false
  | p :: ps =>
    match t07Prefix1 x p with
    | none => .error .typeError
    | some true => .ok true
    | some false => t07PrefixAny x ps

/-- `x.startswith(pre)` for `bytes` / `str`: `pre` of the receiver's kind, or a `tuple` of such (`False` for the empty tuple); any
other kind of `pre` (a list included) is a TypeError; a receiver without that method is an AttributeError.
Not modelled (TypeError): a NamedTuple instance as `pre` (CPython: it is a tuple). -/
def t07Startswith (x pre : V) : Py V :=
  match x with
  | .bytes _ | .str _ =>
    match pre with
    | .tuple ps => (t07PrefixAny x ps).map .bool
    | _ =>
      match t07Prefix1 x pre with
      | some b => .ok (.bool b)
      | none => .error .typeError
  | _ => .error .attributeError

/-- `any(x)` for the iterables of `PyU.iterList` (a dict: its keys); anything else is a TypeError -/
def t07Any (x : V) : Py V := (iterList x).map fun xs => .bool (xs.any truthy)

/-- `all(x)` -/
def t07All (x : V) : Py V := (iterList x).map fun xs => .bool (xs.all truthy)

/-- `repr(v)` in a position where the text is thrown away (the message of an exception that is raised at once): `PyU.repr` where
that models the kind of object; for the other kinds (dict, instances, enum members, BytesIO) an UNSPECIFIED text and — assumed of
the `__repr__` of these objects — never an exception -/
def t07ReprText (v : V) : Py Str :=
  match repr v with
  | .ok s => .ok s
  | .error _ => .ok (cps "<object>")

/-! ### external generators -/

/-- an exception as a value (the second component of what an external generator function answers): its position in `PyExc` -/
def t07ExcCode : PyExc → Int
  | .valueError => 0 | .eofError => 1 | .osError => 2 | .indexError => 3 | .keyError => 4
  | .attributeError => 5 | .overflowError => 6 | .typeError => 7 | .timeoutDiverge => 8 | .zeroDivisionError => 9

def t07ExcOfCode (k : Int) : Option PyExc :=
  [PyExc.valueError, .eofError, .osError, .indexError, .keyError, .attributeError, .overflowError, .typeError, .timeoutDiverge,
   .zeroDivisionError].find? (t07ExcCode · == k)

/-- behind a `for` loop over an external generator: `None` — the generator ended normally; an exception code — it ended with that
exception, which surfaces now (after the last item was processed) -/
def t07Reraise : V → Py V
  | .none => .ok .none
  | .int k =>
    match t07ExcOfCode k with
    | some e => .error e
    | none => .error .typeError
  | _ => .error .typeError

end PyU

import CsVerif.Model.C01
import CsVerif.Model.C09Gen
import CsVerif.Model.C02Gen
import CsVerif.Model.C17Gen
import CsVerif.Gen.PyExtract
/-!
C01 — glue between the hand-written model (`Model/C01.lean`) and the definitions translated from the source of
`utils.iter_find_needle`, `beacon.find_beacon_config_bytes`, `beacon.iter_beacon_config_blocks` and `BeaconConfig.from_file`
(`Gen/PyExtract.lean`, untyped translator, FIRST-YIELD FORM: the function that runs the body of the generator up to its first
`yield` and answers the 1-tuple of the yielded value, or `None`, together with the file object as it is at that moment).

  * `firstOf`: what a consumer that never resumes the generator observes of a trace of `Model/C01.lean` (the first yielded value;
    if there is none, how the generator ended);
  * `needleFirst`, `findFirst`, …: the first-yield runs written as functions of the model's `FileLike` objects — the explicit
    right-hand sides of the `gen_*` theorems of `Props/C01Gen.lean`, which also prove them equal to `firstOf` of the model's traces
    (the ASSUMPTION "a generator consumed up to its first yield behaves as the prefix of the fully consumed run" of the hand
    model, as a theorem);
  * encodings of the model's values as Python values, the fuel, and the definitions the driver runs (`g-*` streams).
-/
namespace C01Gen
open PyU (V)
open C01 Gen.Extract
open C15Gen (encFile)
open C09Gen (encXor)

/-! ### what a consumer that stops at the first yield observes -/

/-- the first yielded value; if nothing is yielded: `none` when the generator ends normally, else its exception -/
def firstOf {σ α : Type} (t : Trace σ α) : Py (Option α) :=
  match t.yields with
  | y :: _ => .ok (some y)
  | [] =>
    match t.fin with
    | .ok _ => .ok none
    | .error e => .error e

/-! ### the first-yield runs on the model's file-like objects -/

/-- the block loop of `iter_find_needle(fp, needle, start_offset, max_offset=0)` up to its first `yield offset`: the offset and
the file as it is then (`none`: the loop ends without a yield).  As in `C01.scanLoop` the recursion is guarded by the termination
measure. -/
def needleFirst {σ : Type} (F : FileLike σ) (B : Nat) (needle : Bytes) (s : σ) (saved : Bytes) : Py (Option Int × σ) :=
  let pos := F.tell s                                      -- pos = fp.tell()
  match F.read s B with                                    -- block = fp.read(io.DEFAULT_BUFFER_SIZE)
  | .error e => .error e
  | .ok (block, s1) =>
    if block = [] then .ok (none, s1)                      -- if not block: break
    else
      let d := saved ++ block
      match C15.bytesFind? d needle 0 with                 -- p = d.find(needle, p + 1)
      | some p => .ok (some (pos + (p : Int) - (saved.length : Int)), s1)   -- yield pos + p - len(saved)
      | none =>
        if _h : F.remaining s1 < F.remaining s then needleFirst F B needle s1 (C15.nextSaved needle d)
        else .error .timeoutDiverge
termination_by F.remaining s

/-- `iter_find_needle(fp, needle, start_offset)` (no limit) up to its first yield; `start = none`: from the current position -/
def iterNeedleFirst {σ : Type} (F : FileLike σ) (B : Nat) (s : σ) (needle : Bytes) (start : Option Nat) : Py (Option Int × σ) :=
  match start with
  | none => needleFirst F B needle s []
  | some t =>
    match F.seek s (t : Int) with                          -- fp.seek(start_offset)
    | .error e => .error e
    | .ok s0 => needleFirst F B needle s0 []

/-- `find_beacon_config_bytes(fh, xorkey)` up to its first yield: the block and the file as it is then -/
def findFirst {σ : Type} (F : FileLike σ) (B : Nat) (s : σ) (key : Bytes) : Py (Option Bytes × σ) :=
  match iterNeedleFirst F B s (C20.xor configHeader key) (some 0) with   -- iter_find_needle(fh, xorred_config_block, start_offset=0)
  | .error e => .error e
  | .ok (none, s1) => .ok (none, s1)
  | .ok (some off, s1) =>
    match F.seek s1 off with                               -- fh.seek(pos)
    | .error e => .error e
    | .ok s2 =>
      match F.read s2 patchSize with                       -- data = fh.read(PATCH_SIZE)
      | .error e => .error e
      | .ok (data, s3) => .ok (some (C20.xor data key), s3)     -- yield xor(data, xorkey)

/-- `for xorkey in keys: for config_block in find_beacon_config_bytes(fh, xorkey): yield …` up to the first yield -/
def overKeysFirst {σ : Type} (F : FileLike σ) (B : Nat) (enc : Bool) : List Bytes → σ → Py (Option Result × σ)
  | [], s => .ok (none, s)
  | k :: ks, s =>
    match findFirst F B s k with
    | .error e => .error e
    | .ok (some b, s') => .ok (some ⟨b, k, enc⟩, s')
    | .ok (none, s') => overKeysFirst F B enc ks s'

/-! ### encodings -/

/-- the value `ret0` of a first-yield form: `None`, or the 1-tuple of the yielded value -/
def encRet (enc : α → V) : Option α → V
  | none => .none
  | some a => .tuple [enc a]

/-- what a first-yield form over a file parameter answers: `(ret0, file afterwards)` -/
def encFirst {σ α : Type} (encv : α → V) (encs : σ → V) (r : Option α × σ) : V := .tuple [encRet encv r.1, encs r.2]

/-- `(config_block, {"xorkey": xorkey, "xorencoded": flag})` -/
def encResult (r : Result) : V :=
  .tuple [.bytes r.block, .dict [PyU.lit "xorkey", PyU.lit "xorencoded"] [.bytes r.xorkey, .bool r.xorencoded]]

/-- a key list argument (`[]` stands for `None` as well: `xor_keys or DEFAULT_XOR_KEYS`) -/
def encKeys (ks : List Bytes) : V := .list (ks.map .bytes)

/-- what the (reified) detector `XorEncodedFile.from_file(fobj)` answers: the handle of the view it returns and the file, which the
view holds; or `None` (it raised ValueError) and the file as it was left -/
def encDetect (dx : Option C09.XorFile × PyFile) : V :=
  match dx with
  | (some x, _) => .tuple [PyU.t01Detach (encXor x), encFile x.fh]
  | (none, g) => .tuple [.none, encFile g]

/-- the contract of the external detector `XorEncodedFile.from_file` (reified) on the states of one file: its answer depends on the
content only — `det = some c`: it returns the view at nonce offset `c` (`C01.openView`), which holds the file; `det = none`: it raises
ValueError and leaves the file somewhere -/
def XffSpec (xff : V → Py V) (data : Bytes) (det : Option Nat) : Prop :=
  ∀ g : PyFile, g.data = data →
    match det with
    | none => ∃ g' : PyFile, xff (encFile g) = .ok (encDetect (none, g')) ∧ g'.data = data
    | some c => ∃ x, openView g c = .ok x ∧ xff (encFile g) = .ok (encDetect (some x, x.fh))

/-- a key list argument: `None`, or a list of `bytes` -/
def encKeysOpt : Option (List Bytes) → V
  | none => .none
  | some ks => encKeys ks

/-- `xor_keys or DEFAULT_XOR_KEYS` -/
def effKeysOpt (ks : Option (List Bytes)) : List Bytes := effKeys (ks.getD [])

/-- the first candidate of the declarative specification, as the value `ret0` of a first-yield form -/
def encSpec (data : Bytes) (det : Option Nat) (keys : List Bytes) : V :=
  encRet encResult ((candidates (views data det) keys).head?.map Cand.result)

/-- the contract of the key-order statements of the all-keys retry (cut out of `iter_beacon_config_blocks` as a function of the
file-like object `fxor` and `xor_keys`): for the effective keys `keys` they answer the residual keys in the order `left`, whatever
state the file-like object over `data` is in, and give it back over the same content -/
def LeftSpec (lk : V → V → Py V) (data : Bytes) (keys left : List Bytes) : Prop :=
  (∀ g : PyFile, g.data = data →
    ∃ g' : PyFile, lk (encFile g) (encKeys keys) = .ok (.tuple [encKeys left, encFile g']) ∧ g'.data = data) ∧
  (∀ x : C09.XorFile, x.fh.data = data →
    ∃ x' : C09.XorFile, lk (encXor x) (encKeys keys) = .ok (.tuple [encKeys left, encXor x']) ∧ x'.fh.data = data)

/-- first candidate under the given keys, else (all-keys mode) under the residual keys -/
def encSearch (data : Bytes) (xorKeys : List Bytes) (allKeys : Bool) (det : Option Nat) (left : List Bytes) : V :=
  encRet encResult ((searchSpec data xorKeys allKeys det left).map Cand.result)

/-! ### contracts of the external functions of `BeaconConfig.from_file` -/

/-- a file-like object as the translated programs hold it: an ordinary file, or an `XorEncodedFile` view with its file inside -/
def IsFileLike (data : Bytes) (v : V) : Prop :=
  (∃ g : PyFile, v = encFile g ∧ g.data = data) ∨ (∃ x : C09.XorFile, v = encXor x ∧ x.fh.data = data)

/-- an external function that is handed a file-like object (`pe.find_compile_stamps`, `pe.find_architecture`,
`iter_guardrail_configs_with_beacon`): it answers a result of the shape `P` and the object, over the same content -/
def FileExtSpec (ext : V → Py V) (data : Bytes) (P : V → Prop) : Prop :=
  ∀ v, IsFileLike data v → ∃ r v', ext v = .ok (.tuple [r, v']) ∧ P r ∧ IsFileLike data v'

/-- the external constructor `BeaconConfig(config_block)` on `bytes`: the object `BeaconConfig.__init__` builds (this is what the
definition translated from its source computes: `C02Gen.gen_beacon_config_init`) -/
def CfgSpec (nc : V → Py V) : Prop :=
  ∀ b : Bytes, nc (.bytes b) = .ok (C02Gen.encConfig (.bytes b) (C02.iterSettings b))

/-- the `BeaconConfig` object `from_file` returns: `config_block`, `settings_tuple`, `xorkey`, `xorencoded`, the PE artifacts
(`pe_export_stamp`, `pe_compile_stamp`, `architecture`: whatever the external functions answered), `guardrails` -/
def encExtracted (block : Bytes) (key : V) (enc : Bool) (pe_export pe_compile arch guard : V) : V :=
  .inst Gen.PyBeaconCfg.BeaconConfig
    [.bytes block, .tuple ((C02.iterSettings block).map C02Gen.encSetting), key, .bool enc, pe_export, pe_compile, arch, guard,
     .none, .none, .none, .none]

/-- `BeaconConfig(config_block)` through the definition translated from the source of `BeaconConfig.__init__`, with fuel for the
argument at hand -/
def newConfigG (v : V) : Py V :=
  Gen.PyBeaconCfg.beacon_config_init ((match v with | .bytes b => b.length | _ => 0) + 1) v

/-! ### the external functions as the driver instantiates them (`g-*` streams), and the runs it prints -/

/-- a Python file object as a model file -/
def decFile (v : V) : Option PyFile :=
  match PyU.asFile v with
  | some (d, p, k) => some { data := d, pos := p, kind := if k = 0 then .bytesIO else .osFile }
  | none => none

/-- an `XorEncodedFile` instance (with its file inside) as a model view -/
def decXor : V → Option C09.XorFile
  | .inst c [f, .int o, .bytes n, .bytes sz] =>
    if c = Gen.PyXor.XorEncodedFile ∧ 0 ≤ o then (decFile f).map fun fh => ⟨fh, o.toNat, n, sz⟩ else none
  | _ => none

def decKeys : V → Option (List Bytes)
  | .list l => l.mapM fun v => match v with | .bytes b => some b | _ => none
  | _ => none

/-- `XorEncodedFile.from_file(fobj)`, reified, as the hand-written model runs it (`C01.detectRun` = C09's detector) -/
def xffModel (B : Nat) (v : V) : Py V :=
  match decFile v with
  | none => .error .attributeError
  | some f =>
    match detectRun B f with
    | .error e => .error e
    | .ok dx => .ok (encDetect dx)

/-- the key-order statements through the definition TRANSLATED from them (`Gen.PyExtract.iter_beacon_config_blocks__left_keys`) -/
def leftG (B fuel : Nat) (a keys : V) : Py V :=
  Gen.PyExtract.iter_beacon_config_blocks__left_keys (.int (B : Int)) fuel a keys

/-- the translated `iter_beacon_config_blocks` (first-yield form) on model arguments, with the model's detector and the translated
key-order statements -/
def blocksFirstG (B : Nat) (f : PyFile) (ks : Option (List Bytes)) (ak : Bool) : Py V :=
  Gen.PyExtract.iter_beacon_config_blocks__first (xffModel B) (.int (B : Int)) (leftG B (2 * f.data.length + 4)) (2 * f.data.length + 4)
    (encFile f) (encKeysOpt ks) (.bool ak)

/-- the residual key order of the all-keys retry through the translated statements, on the file-like object the (model's) detector
hands over: the view at logical offset 0, or the file where the failed detection left it -/
def leftKeysG (B : Nat) (f : PyFile) (ks : List Bytes) : Py V := do
  let r ← xffModel B (encFile f)
  let q ← PyU.unpack2 r
  let a ← PyU.t01Attach (if PyU.isNone q.1 then PyU.t01Self else q.1) q.2
  let out ← leftG B (2 * f.data.length + 4) a (encKeys (effKeys ks))
  let o ← PyU.unpack2 out
  pure o.1

/-- the translated `find_beacon_config_bytes` (first-yield form) on the file itself (`view = false`) or on the view the model's
detector returns for it (`view = true`; `none`: no view detected) -/
def findFirstG (B : Nat) (f : PyFile) (key : Bytes) (view : Bool) : Py (Option V) :=
  let fuel := 2 * f.data.length + 4
  if view then
    match detectRun B f with
    | .error e => .error e
    | .ok (none, _) => .ok none
    | .ok (some x, _) => (Gen.PyExtract.find_beacon_config_bytes__first (.int (B : Int)) fuel (encXor x) (.bytes key)).map some
  else (Gen.PyExtract.find_beacon_config_bytes__first (.int (B : Int)) fuel (encFile f) (.bytes key)).map some


/-- `iter_guardrail_configs_with_beacon(fxor)` (EXTERNAL, C17) as the hand-written model runs it: on the file itself, or — for a view —
on the decoded bytes as an ordinary file (`C01.viewFile`); the list of the records, the file-like object handed back as it was -/
def igModel (B : Nat) (a : V) : Py V :=
  let plain : Option PyFile :=
    if PyU.t01IsView a then (decXor a).map fun x => viewFile x.fh x.nonceOff else decFile a
  match plain with
  | none => .error .attributeError
  | some pf =>
    match C17.iterGuardrailConfigsWithBeacon pf B with
    | .error e => .error e
    | .ok ms => .ok (.tuple [.list (ms.map C17Gen.encMeta), a])

/-- `pe.find_compile_stamps(fh)` / `pe.find_architecture(fh)` (EXTERNAL, C18; not part of this property): place holders that answer
`(None, None)` / `None` and leave the file-like object alone -/
def peStamps (a : V) : Py V := .ok (.tuple [.tuple [.none, .none], a])
def peArch (a : V) : Py V := .ok (.tuple [.none, a])

/-- the translated `BeaconConfig.from_file` on model arguments: detector, key order and Guardrails scan supplied by the model, the
constructor `BeaconConfig(config_block)` by the definition translated from its source (Gen/PyBeaconCfg.lean) -/
def fromFileG (B : Nat) (f : PyFile) (ks : Option (List Bytes)) (ak : Bool) : Py V :=
  Gen.PyExtract.from_file (xffModel B) (.int (B : Int)) (leftG B (2 * f.data.length + 4)) newConfigG
    peStamps peArch (igModel B) (2 * f.data.length + 4) (encFile f) (encKeysOpt ks) (.bool ak)

end C01Gen

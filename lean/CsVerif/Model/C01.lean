import CsVerif.Model.PyFile
import CsVerif.Model.C20
import CsVerif.Model.C15
import CsVerif.Model.C09
import CsVerif.Model.C02
import CsVerif.Model.C17
import CsVerif.Gen.Extract
/-
C01 — Beacon configuration extraction
  dissect/cobaltstrike/beacon.py   DEFAULT_XOR_KEYS (309), find_beacon_config_bytes (313-344),
                                   iter_beacon_config_blocks (347-410), make_byte_list (413-415),
                                   BeaconConfig.from_file / from_path / from_bytes (779-875)

Built on the finished models: `C20.xor`, `C15.findLoop` / `C15.nextSaved` (the inner `find` loop and the overlap
carry of `iter_find_needle`), the `C09.XorFile` view, `C02.iterSettings`.  `DEFAULT_XOR_KEYS`, `PATCH_SIZE` and
`CONFIG_HEADER` come from `Gen.Extract` (regenerated from the imported package on every run).

Generators are modelled by their *trace*: the list of values yielded when the generator is run to completion,
followed by how it ended (normally, with the final state of the file object, or by an exception).  A consumer
that stops at the first yield (`BeaconConfig.from_file`) sees exactly the head of that list; an exception that
would be raised after the first yield is never seen by it (`fromFile` below only looks at the end of the trace
when nothing was yielded).

What is a parameter of the functions up to `fromFile` (section "nothing left as a parameter" at the end instantiates
all three: `fromFileReal` is what the driver runs and what the end-to-end theorems are about):
  * `det : Option Nat` — the answer of `XorEncodedFile.from_file(fobj)` (C09's subject): `some c` = a view at
    nonce offset `c` was returned, `none` = `ValueError`.  The answer depends on the file content only (the
    detector starts with `seek(0, SEEK_END)` and absolute seeks), so the three calls made by the code agree.
    `detectRun` (below) is the executable composition of C09's pieces used by the driver to supply `det`.
  * `left : List Bytes` — the residual keys of the all-keys retry in the order in which they are tried
    (`leftKeys` computes it as the code does: 4-gram byte counter, `most_common()`, stable sort by `.index`).
  * `guard : Option Result` — outcome of the Guardrails fallback (C17's subject).
The PE artifacts (`pe.find_compile_stamps`, `pe.find_architecture`) that `from_file` attaches to the result are
not part of the property and not modelled (C18).
-/
namespace C01
open Gen.Extract

/-! ### file-like objects -/

/-- The operations `iter_find_needle` / `find_beacon_config_bytes` use on their file argument:
`read(n)` for `n ≥ 0`, `seek(off)` (SEEK_SET, return value unused), `tell()`.
`remaining` is only a termination measure: raw bytes behind the raw cursor. -/
structure FileLike (σ : Type) where
  read : σ → Nat → Py (Bytes × σ)
  seek : σ → Int → Py σ
  tell : σ → Int
  remaining : σ → Nat

/-- an ordinary binary file (`io.BytesIO`, or an OS file opened "rb") -/
def rawFile : FileLike PyFile where
  read f n := .ok (f.read (n : Int))
  seek f off := (f.seekSet off).map (·.2)
  tell f := (f.tell : Int)
  remaining f := f.data.length - f.pos

/-- the `XorEncodedFile` view (C09) -/
def xorView : FileLike C09.XorFile where
  read x n := C09.read x (some (n : Int))
  seek x off := (C09.seek x off 0).map (·.2)
  tell x := C09.tell x
  remaining x := x.fh.data.length - x.fh.pos

/-! ### generator traces -/

/-- values yielded by a generator run to completion, then its end: final state or the exception raised -/
structure Trace (σ α : Type) where
  yields : List α
  fin : Py σ

/-! ### `find_beacon_config_bytes` -/

/-- What happens at the yields of one pass of the inner `find` loop of `iter_find_needle`: for every buffer index
`q` (`hits`, from `C15.findLoop`), the offset `pos + p - len(saved)` = `base + q` is yielded to
`find_beacon_config_bytes`, which seeks there, reads `PATCH_SIZE` bytes and yields them un-XORed.  The file
object is shared, so the scan continues from wherever these reads leave it. -/
def consume (F : FileLike σ) (key : Bytes) (base : Int) : List Int → σ → Trace σ Bytes
  | [], s => ⟨[], .ok s⟩
  | q :: qs, s =>
    match F.seek s (base + q) with                         -- fh.seek(pos)   (raises for a negative offset)
    | .error e => ⟨[], .error e⟩
    | .ok s1 =>
      match F.read s1 patchSize with                       -- data = fh.read(PATCH_SIZE)
      | .error e => ⟨[], .error e⟩
      | .ok (data, s2) =>
        let r := consume F key base qs s2
        ⟨C20.xor data key :: r.yields, r.fin⟩              -- yield xor(data, xorkey)

/-- The block loop of `iter_find_needle(fh, needle, start_offset=0)` (no limit) fused with its consumer
`find_beacon_config_bytes`.  `B = io.DEFAULT_BUFFER_SIZE`.  The recursion is guarded by the termination measure
(every iteration that read a non-empty block must leave fewer raw bytes behind the cursor); the guard failing
would mean the real loop need not terminate and is reported as `timeoutDiverge`
(`Lemmas/C01.lean` shows it is never taken before the first yield). -/
def scanLoop (F : FileLike σ) (B : Nat) (needle key : Bytes) (s : σ) (saved : Bytes) : Trace σ Bytes :=
  let pos := F.tell s                                      -- pos = fp.tell()
  match F.read s B with                                    -- block = fp.read(io.DEFAULT_BUFFER_SIZE)
  | .error e => ⟨[], .error e⟩
  | .ok (block, s1) =>
    if block = [] then ⟨[], .ok s1⟩                        -- if not block: break
    else
      let d := saved ++ block                              -- d = saved + block
      let hits := C15.findLoop d needle 0 0 0 0            -- p = d.find(needle, p + 1) … (buffer indices)
      let r := consume F key (pos - (saved.length : Int)) hits s1   -- offset = pos + p - len(saved); yield offset
      match r.fin with
      | .error e => ⟨r.yields, .error e⟩
      | .ok s2 =>
        if _h : F.remaining s2 < F.remaining s then
          let t := scanLoop F B needle key s2 (C15.nextSaved needle d)   -- saved = d[-overlap_len:] …
          ⟨r.yields ++ t.yields, t.fin⟩
        else ⟨r.yields, .error .timeoutDiverge⟩
termination_by F.remaining s

/-- `find_beacon_config_bytes(fh, xorkey)` run to completion. -/
def findConfigBytes (F : FileLike σ) (B : Nat) (s : σ) (key : Bytes) : Trace σ Bytes :=
  let needle := C20.xor configHeader key                   -- xorred_config_block = xor(CONFIG_HEADER, xorkey)
  match F.seek s 0 with                                    -- iter_find_needle(…, start_offset=0): fp.seek(0)
  | .error e => ⟨[], .error e⟩
  | .ok s0 => scanLoop F B needle key s0 []

/-! ### `iter_beacon_config_blocks` -/

/-- `(config_block, {"xorkey": …, "xorencoded": …})` -/
structure Result where
  block : Bytes
  xorkey : Bytes
  xorencoded : Bool
  deriving DecidableEq, Repr

/-- `for xorkey in xor_keys: for config_block in find_beacon_config_bytes(fh, xorkey): yield …` -/
def overKeys (F : FileLike σ) (B : Nat) (enc : Bool) : List Bytes → σ → Trace σ Result
  | [], s => ⟨[], .ok s⟩
  | k :: ks, s =>
    let t := findConfigBytes F B s k
    let ys := t.yields.map fun b => (⟨b, k, enc⟩ : Result)
    match t.fin with
    | .error e => ⟨ys, .error e⟩
    | .ok s' =>
      let r := overKeys F B enc ks s'
      ⟨ys ++ r.yields, r.fin⟩

/-- `xor_keys or DEFAULT_XOR_KEYS` (`None` and the empty list both select the defaults) -/
def effKeys (xorKeys : List Bytes) : List Bytes := if xorKeys = [] then defaultXorKeys else xorKeys

/-- the object `XorEncodedFile.from_file` returns when it settles on nonce offset `c`:
`cls(fh, nonce_offset=c)` followed by `xf.seek(0)` -/
def openView (f : PyFile) (c : Nat) : Py C09.XorFile :=
  match C09.mk' f c with
  | .error e => .error e
  | .ok x =>
    match C09.seek x 0 0 with
    | .error e => .error e
    | .ok (_, x') => .ok x'

/-- yields of a generator body and the exception (if any) that ended it -/
abbrev Blocks := List Result × Option PyExc

/-- The first two phases of `iter_beacon_config_blocks(fobj, keys, xordecode, all_xor_keys=False)`.
Phase 1 (XorEncoded view) runs inside `try … except ValueError: pass`, so a `ValueError` ends the phase silently
— whatever was yielded before stays yielded and `found` stays set.  Phase 2 (the file itself) runs only when
nothing was yielded (`found` is set at every yield).  Every scan starts with an absolute seek, so the position
in which the earlier steps leave `fobj` does not matter and `f` is used as it was given. -/
def pass (B : Nat) (f : PyFile) (keys : List Bytes) (xordecode : Bool) (det : Option Nat) : Blocks :=
  let p1 : Blocks :=
    if xordecode then                                      -- if not found and xordecode:
      match det with
      | none => ([], none)                                 -- from_file raised ValueError → pass
      | some c =>
        match openView f c with                            -- fxor = XorEncodedFile.from_file(fobj)
        | .error e => ([], if e = .valueError then none else some e)
        | .ok x =>
          let t := overKeys xorView B true keys x
          (t.yields, match t.fin with
            | .error e => if e = .valueError then none else some e
            | .ok _ => none)
    else ([], none)
  match p1.2 with
  | some e => (p1.1, some e)
  | none =>
    if p1.1 ≠ [] then (p1.1, none)                         -- found
    else
      let t := overKeys rawFile B false keys f             -- if not found: for xorkey in xor_keys: …
      (t.yields, match t.fin with
        | .error e => some e
        | .ok _ => none)

/-- `iter_beacon_config_blocks(fobj, xor_keys, xordecode=True, all_xor_keys)` run to completion.
`left` = `left_xor_keys` after the sort (see `leftKeys`); the retry is the recursive call
`iter_beacon_config_blocks(fobj, left_xor_keys, xordecode=True, all_xor_keys=False)`, in which an empty key list
again selects the defaults.
(With `xordecode=False` and `all_xor_keys=True` the code reads the unbound local `fxor` — a `NameError`; the entry
points never pass `xordecode`, and that combination is outside the model.  `pass … false none` is the model of
`xordecode=False, all_xor_keys=False`.) -/
def iterConfigBlocks (B : Nat) (f : PyFile) (xorKeys : List Bytes) (allKeys : Bool) (det : Option Nat)
    (left : List Bytes) : Blocks :=
  let r := pass B f (effKeys xorKeys) true det
  match r.2 with
  | some _ => r
  | none =>
    if r.1 = [] ∧ allKeys = true then                      -- if not found and all_xor_keys:
      pass B f (effKeys left) true det                     -- yield from iter_beacon_config_blocks(fobj, left_xor_keys, …)
    else r

/-! ### `BeaconConfig.from_file` / `from_path` / `from_bytes` -/

/-- `BeaconConfig.from_file(fobj, xor_keys, all_xor_keys)`: the first yielded block wins (`return bconfig` inside the
`for`), otherwise the Guardrails fallback (`guard`), otherwise `ValueError`.  An exception raised by the generator
before its first yield propagates.  `from_bytes` is this with `f.kind = .bytesIO`, `from_path` with `.osFile`. -/
def fromFile (B : Nat) (f : PyFile) (xorKeys : List Bytes) (allKeys : Bool) (det : Option Nat)
    (left : List Bytes) (guard : Option Result) : Py Result :=
  let r := iterConfigBlocks B f xorKeys allKeys det left
  match r.1 with
  | y :: _ => .ok y                                        -- bconfig = cls(config_block); … return bconfig
  | [] =>
    match r.2 with
    | some e => .error e
    | none =>
      match guard with
      | some g => .ok g                                    -- Guardrails recovery
      | none => .error .valueError                         -- raise ValueError("No valid Beacon configuration found")

/-- `bconfig.settings_tuple = tuple(iter_settings(config_block))` -/
def settingsTuple (r : Result) : List C02.Setting := C02.iterSettings r.block

/-! ### the residual key order of the all-keys retry -/

/-- `make_byte_list(exclude)`: `sorted({p8(x) for x in range(256)} - set(exclude))` -/
def makeByteList (exclude : List Bytes) : List Bytes :=
  ((List.range 256).map fun n => [UInt8.ofNat n]).filter fun k => !exclude.contains k

/-- `gram[0] for gram in grouper(chunk, 4, fillvalue=0) if gram[0] == gram[1] == gram[2] == gram[3]` -/
def fourgrams : Bytes → List UInt8
  | a :: b :: c :: d :: rest =>
    if a = b ∧ b = c ∧ c = d then a :: fourgrams rest else fourgrams rest
  | [] => []
  | g => if g.all (· == 0) then [0] else []                -- last group, padded with the fill value 0

/-- `for chunk in iter(partial(fxor.read, io.DEFAULT_BUFFER_SIZE), b""): bytes_counter.update(…)`
(`acc` = the Counter as an insertion-ordered association list, `C09.counterAdd`). -/
def countLoop (F : FileLike σ) (B : Nat) (s : σ) (acc : List (Nat × Nat)) : Py (List (Nat × Nat)) :=
  match F.read s B with
  | .error e => .error e
  | .ok (chunk, s1) =>
    if chunk = [] then .ok acc
    else
      let acc' := (fourgrams chunk).foldl (fun a g => C09.counterAdd a g.toNat) acc
      if _h : F.remaining s1 < F.remaining s then countLoop F B s1 acc'
      else .error .timeoutDiverge
termination_by F.remaining s

/-- sort key `most_common_bytes.index(x) if x in most_common_bytes else 256` -/
def rank (mc : List Nat) (k : Bytes) : Nat :=
  match k with
  | [b] => if mc.contains b.toNat then mc.idxOf b.toNat else 256
  | _ => 256

/-- insert `k` (which precedes every element of the list in the original order) keeping the sort stable -/
def insertByRank (r : Bytes → Nat) (k : Bytes) : List Bytes → List Bytes
  | [] => [k]
  | h :: t => if r k ≤ r h then k :: h :: t else h :: insertByRank r k t

/-- `list.sort(key=r)` (stable) -/
def stableSort (r : Bytes → Nat) (l : List Bytes) : List Bytes := l.foldr (insertByRank r) []

/-- The 4-gram counter of the all-keys retry.  The loop reads `fxor` from its *current* position: a freshly detected
view stands at logical offset 0 (whole decoded payload counted); when detection fails `fxor = fobj`, which stands where
the failed detection left it (`failPos`, see `detectRun`). -/
def leftCounts (B : Nat) (f : PyFile) (det : Option Nat) (failPos : Nat) : Py (List (Nat × Nat)) :=
  match det with
  | some c =>
    match openView f c with
    | .error e => .error e
    | .ok x => countLoop xorView B x []
  | none => countLoop rawFile B { f with pos := failPos } []

/-- `left_xor_keys` as `iter_beacon_config_blocks` computes it: `make_byte_list(exclude=xor_keys)` sorted (stably) by the
position of the byte in `bytes_counter.most_common()`. -/
def leftKeys (B : Nat) (f : PyFile) (det : Option Nat) (failPos : Nat) (xorKeys : List Bytes) : Py (List Bytes) :=
  match leftCounts B f det failPos with
  | .error e => .error e
  | .ok cnt => .ok (stableSort (rank ((C09.mostCommon cnt).map (·.1))) (makeByteList (effKeys xorKeys)))

/-! ### the detector with the state it leaves behind (driver side; detection itself is C09's subject) -/

/-- the candidate loop of `XorEncodedFile.from_file` as `C09.tryCandidatesFull`, but returning the raw file in the
state in which a *failing* run leaves it -/
def tryCands (f : PyFile) : List Nat → Py (Option C09.XorFile × PyFile)
  | [] => .ok (none, f)                                    -- raise ValueError("MZ header not found …")
  | c :: cs =>
    match C09.mk' f c with
    | .error e => .error e
    | .ok xf =>
      match C09.findMzOffset xf with
      | .error e => .error e
      | .ok (some _, xf1) =>
        match C09.seek xf1 0 0 with
        | .error e => .error e
        | .ok (_, xf') => .ok (some xf', xf'.fh)
      | .ok (none, xf1) => tryCands xf1.fh cs

/-- `XorEncodedFile.from_file(fobj)`: nonce offsets by size, `ff ff ff` marker scan (C15, limit 1024),
candidates in `Counter.most_common()` order, MZ check.  `(some xf, _)` = returned view,
`(none, f')` = `ValueError`, the file being left as `f'`. -/
def detectRun (B : Nat) (f : PyFile) : Py (Option C09.XorFile × PyFile) :=
  match C09.iterNonceOffsets f none 1024 with
  | .error e => .error e
  | .ok (offs, f1) =>
    match C15.iterFindNeedle B f1 [0xff, 0xff, 0xff] (some 0) 1024 with
    | .error e => .error e
    | .ok (hits, f2) => tryCands f2 (C09.candidates (hits.map Int.toNat) offs)

/-! ### Specification -/

/-- the decoded payload seen through a view at nonce offset `c`: raw layout `stub(c) ++ nonce(4) ++ size(4) ++ enc` -/
def decodedView (data : Bytes) (c : Nat) : Bytes :=
  C09.rollDecode ((data.drop c).take 4) (data.drop (c + 8))

/-- a place where `CONFIG_HEADER ⊕ key` occurs: in the decoded view (`xorencoded`) or in the file itself -/
structure Cand where
  xorencoded : Bool
  plain : Bytes
  key : Bytes
  offset : Nat
  deriving DecidableEq, Repr

/-- the views in the order in which they are searched -/
def views (data : Bytes) (det : Option Nat) : List (Bool × Bytes) :=
  (match det with
   | some c => [(true, decodedView data c)]
   | none => []) ++ [(false, data)]

/-- offsets at which `CONFIG_HEADER ⊕ key` occurs in `plain`, ascending -/
def occK (plain key : Bytes) : List Nat := C15.occ plain (C20.xor configHeader key)

/-- candidates in one view: key priority, then file order -/
def candsIn (enc : Bool) (plain : Bytes) (keys : List Bytes) : List Cand :=
  keys.flatMap fun k => (occK plain k).map fun i => ⟨enc, plain, k, i⟩

/-- all candidates: view priority, key priority, file order -/
def candidates (vs : List (Bool × Bytes)) (keys : List Bytes) : List Cand :=
  vs.flatMap fun v => candsIn v.1 v.2 keys

/-- the block a candidate stands for: `PATCH_SIZE` bytes from its offset (fewer at the end of the data), un-XORed -/
def Cand.block (c : Cand) : Bytes := C20.xor ((c.plain.drop c.offset).take patchSize) c.key

def Cand.result (c : Cand) : Result := ⟨c.block, c.key, c.xorencoded⟩

/-- what `from_file` is expected to return -/
def extractSpec (data : Bytes) (xorKeys : List Bytes) (allKeys : Bool) (det : Option Nat) (left : List Bytes)
    (guard : Option Result) : Py Result :=
  match (candidates (views data det) (effKeys xorKeys)).head? with
  | some c => .ok c.result
  | none =>
    match (if allKeys then (candidates (views data det) (effKeys left)).head? else none) with
    | some c => .ok c.result
    | none =>
      match guard with
      | some g => .ok g
      | none => .error .valueError

/-! ### `BeaconConfig.from_file` with nothing left as a parameter

`fromFileReal` composes the pieces above with the detector (`detectRun`: C09's `fromFileReal` plus the state a failing run
leaves behind), the residual key order the code computes (`leftKeys`) and the Guardrails fallback
(`C17.fromFileFallback`).  It is the function the driver runs on the `ext` stream.  `Model/C08.lean` composes the same
pieces (its `search` / `fhFor` / `viewFile` are these definitions; `Props/C01.lean` `fromFile_C08_factors` proves that
`C08.fromFile` is `fromFileReal` followed by C08's `finish`, i.e. the settings decoding as an `Except` and the PE
artifacts, which are not part of this property). -/

/-- the ordinary file the XorEncoded view at nonce offset `c` refines (C09 `history_refines_all_seeks`): the Guardrails
scan is run on it (the same modelling step as `Model/C08.lean` / `Driver/C17.lean` `ffx`) -/
def viewFile (f : PyFile) (c : Nat) : PyFile := { data := decodedView f.data c, pos := 0, kind := f.kind }

/-- `try: XorEncodedFile.from_file(fobj) except ValueError: fobj` -/
def fhFor (f : PyFile) (det : Option Nat) : PyFile :=
  match det with
  | some c => viewFile f c
  | none => f

/-- `next(iter_beacon_config_blocks(fobj, xor_keys, all_xor_keys=…), None)`: the first yielded block, if any.
`det` = answer of the detector, `failPos` = where a failing detection leaves `fobj` (the 4-gram counter of the
all-keys retry reads from there).  The residual key order is computed only when the first pass found nothing, as in
the code.  An exception raised before the first yield propagates. -/
def search (B : Nat) (f : PyFile) (ks : List Bytes) (allKeys : Bool) (det : Option Nat) (failPos : Nat) :
    Py (Option Result) :=
  let first := pass B f (effKeys ks) true det
  match first.1 with
  | y :: _ => .ok (some y)
  | [] =>
    match first.2 with
    | some e => .error e
    | none =>
      if allKeys then                                       -- if not found and all_xor_keys:
        match leftKeys B f det failPos ks with
        | .error e => .error e
        | .ok left =>
          let second := pass B f (effKeys left) true det
          match second.1 with
          | y :: _ => .ok (some y)
          | [] =>
            match second.2 with
            | some e => .error e
            | none => .ok none
      else .ok none

/-- what `from_file` returns, as far as this property is concerned: `config_block`, `xorkey`, `xorencoded`,
`guardrails` (the `GuardrailMetadata` record of a Guardrails recovery, else `None`) -/
structure Extracted where
  block : Bytes
  xorkey : Bytes
  xorencoded : Bool
  guardrails : Option C17.Meta
  deriving DecidableEq, Repr

/-- `bconfig.settings_tuple = tuple(iter_settings(config_block))` -/
def Extracted.settings (x : Extracted) : List C02.Setting := C02.iterSettings x.block

def Result.extracted (r : Result) : Extracted := ⟨r.block, r.xorkey, r.xorencoded, none⟩

/-- the Guardrails fallback of `from_file` on `fxor`: `bconfig = cls(grconfig.unmasked_beacon_config)`,
`bconfig.guardrails = grconfig`, `bconfig.xorkey = grconfig.beacon_xor_key` (`xorencoded` keeps its default `False`);
`ValueError("No valid Beacon configuration found")` otherwise -/
def guardFallback (B : Nat) (fxor : PyFile) : Py Extracted :=
  match C17.fromFileFallback fxor B with                   -- for grconfig in iter_guardrail_configs_with_beacon(fxor): …
  | .error e => .error e                                   -- raise ValueError("No valid Beacon configuration found")
  | .ok m =>
    match m.unmaskedBeaconConfig with
    | some cfg => .ok ⟨cfg, m.beaconXorKey, false, some m⟩
    | none => .error .valueError

/-- `BeaconConfig.from_file(fobj, xor_keys, all_xor_keys)` — detector, both search phases, all-keys retry with the
computed key order, Guardrails fallback; `B = io.DEFAULT_BUFFER_SIZE`.  `from_bytes` is this with `f.kind = .bytesIO`
and `f.pos = 0`, `from_path` with `.osFile`. -/
def fromFileReal (B : Nat) (f : PyFile) (ks : List Bytes) (allKeys : Bool) : Py Extracted :=
  match detectRun B f with                                  -- XorEncodedFile.from_file(fobj) (inside try/except ValueError)
  | .error e => .error e
  | .ok (dx, fFail) =>
    let det := dx.map (·.nonceOff)
    match search B f ks allKeys det fFail.pos with
    | .error e => .error e
    | .ok (some y) => .ok y.extracted                       -- bconfig = cls(config_block); … return bconfig
    | .ok none => guardFallback B (fhFor f det)             -- try: fxor = XorEncodedFile.from_file(fobj) except ValueError: fxor = fobj

/-- first candidate of the declarative specification: given keys, then (all-keys mode) the residual keys -/
def searchSpec (data : Bytes) (xorKeys : List Bytes) (allKeys : Bool) (det : Option Nat) (left : List Bytes) : Option Cand :=
  match (candidates (views data det) (effKeys xorKeys)).head? with
  | some c => some c
  | none => if allKeys then (candidates (views data det) (effKeys left)).head? else none

end C01

import CsVerif.Model.Basic
/-
Shared model of Python binary file objects (DESIGN.md §2): `io.BytesIO` and OS files opened "rb".
Only the behaviour the library relies on is modelled:
  * `read(n)`: `n < 0` (or None) reads to EOF, short at EOF, position may be past EOF (reads return b"");
  * `seek(off, SEEK_SET)`: negative offset raises ValueError (BytesIO) / OSError (OS file);
  * `seek(off, SEEK_CUR/SEEK_END)`: a negative target clamps to 0 on BytesIO
    (measured: `BytesIO(b"abcdef").seek(-2, 1)` at 0 → 0) and raises OSError on an OS file;
  * `tell()`.
-/

inductive FileKind | bytesIO | osFile deriving DecidableEq, Repr

structure PyFile where
  data : Bytes
  pos : Nat := 0
  kind : FileKind := .bytesIO
  deriving Repr

namespace PyFile

def ofBytes (d : Bytes) : PyFile := { data := d }

def size (f : PyFile) : Nat := f.data.length

def tell (f : PyFile) : Nat := f.pos

/-- `f.read(n)` -/
def read (f : PyFile) (n : Int) : Bytes × PyFile :=
  let rest := f.data.drop f.pos
  let out := if n < 0 then rest else rest.take n.toNat
  (out, { f with pos := f.pos + out.length })

/-- `f.read()` -/
def readAll (f : PyFile) : Bytes × PyFile := f.read (-1)

def negSeekExc (f : PyFile) : PyExc :=
  match f.kind with
  | .bytesIO => .valueError
  | .osFile => .osError

/-- `f.seek(off)` / `f.seek(off, io.SEEK_SET)`; returns the new absolute position. -/
def seekSet (f : PyFile) (off : Int) : Py (Nat × PyFile) :=
  if off < 0 then .error f.negSeekExc else .ok (off.toNat, { f with pos := off.toNat })

def seekRel (f : PyFile) (base : Nat) (off : Int) : Py (Nat × PyFile) :=
  let t : Int := (base : Int) + off
  if t < 0 then
    match f.kind with
    | .bytesIO => .ok (0, { f with pos := 0 })
    | .osFile => .error .osError
  else .ok (t.toNat, { f with pos := t.toNat })

/-- `f.seek(off, io.SEEK_CUR)` -/
def seekCur (f : PyFile) (off : Int) : Py (Nat × PyFile) := f.seekRel f.pos off

/-- `f.seek(off, io.SEEK_END)` -/
def seekEnd (f : PyFile) (off : Int) : Py (Nat × PyFile) := f.seekRel f.data.length off

/-- `f.seek(off, whence)` with whence ∈ {0,1,2}; other whence values raise ValueError. -/
def seek (f : PyFile) (off : Int) (whence : Nat) : Py (Nat × PyFile) :=
  match whence with
  | 0 => f.seekSet off
  | 1 => f.seekCur off
  | 2 => f.seekEnd off
  | _ => .error .valueError

@[simp] theorem read_data (f : PyFile) (n : Int) : (f.read n).2.data = f.data := rfl
@[simp] theorem read_kind (f : PyFile) (n : Int) : (f.read n).2.kind = f.kind := rfl
@[simp] theorem read_pos (f : PyFile) (n : Int) : (f.read n).2.pos = f.pos + (f.read n).1.length := rfl

theorem read_nonneg (f : PyFile) (n : Nat) :
    (f.read n).1 = (f.data.drop f.pos).take n := by
  have : ¬ ((n : Int) < 0) := by omega
  simp [read, this]

theorem read_neg (f : PyFile) (n : Int) (h : n < 0) : (f.read n).1 = f.data.drop f.pos := by
  simp [read, h]

theorem read_length_le (f : PyFile) (n : Nat) : (f.read n).1.length ≤ n := by
  rw [read_nonneg]; simp; omega

theorem seekSet_ok (f : PyFile) (off : Nat) :
    f.seekSet off = .ok (off, { f with pos := off }) := by
  simp [seekSet]

end PyFile

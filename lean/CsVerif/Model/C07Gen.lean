import CsVerif.Model.C07
import CsVerif.Model.C04Gen
import CsVerif.Model.C16Gen
import CsVerif.Model.C06Gen
import CsVerif.Gen.PyC2
import CsVerif.Gen.PyC2H
/-!
C07 — glue between the hand-written model (`Model/C07.lean`) and the definitions translated from the source of class `C2Http`
(`Gen/PyC2H.lean`, untyped translator): the encoding of a `C2Http` instance, of the `bconfig` argument and of RSA key objects as
records of what the code reads from them, the EXTERNAL functions of the translated definitions (`derive_aes_hmac_keys` = the TYPED
translation `Gen.PyC2.derive_aes_hmac_keys` lifted to dynamic values; `RSA.import_key`; `urlsplit` / `parse_qsl` as in `C16Gen`), and
the routing decision of the model as a function into Python values.  Used by the driver (`g-*` streams) and by `Props/C07Gen.lean`.
-/
namespace C07Gen
open PyU (V)
open C07 (HttpCfg Route)

/-! ### objects the code only reads attributes of -/

/-- an RSA key object (`Crypto.PublicKey.RSA.RsaKey`), as far as `C2Http.__init__` looks at it: always truthy, attribute `n` -/
def RsaKeyCls : PyU.Cls := { cid := 7705, fields := ["n"], isTuple := false, bases := [] }

def encKey (n : Int) : V := .inst RsaKeyCls [.int n]

/-- the `bconfig` argument, as far as `C2Http.__init__` looks at it: the results of the reads `bconfig.settings`, `.uris`,
`.public_key`, `.is_trial` -/
def BConfigCls : PyU.Cls := { cid := 7706, fields := ["settings", "uris", "public_key", "is_trial"], isTuple := false, bases := [] }

def encBConfig (settings uris publicKey isTrial : V) : V := .inst BConfigCls [settings, uris, publicKey, isTrial]

/-! ### a `C2Http` instance -/

/-- the attributes of a `C2Http` instance that routing does not look at -/
structure Rest where
  bconfig : V := .none
  aes_key : V := .none
  hmac_key : V := .none
  verify_hmac : V := .bool true
  pub : V := .none
  priv : V := .none
  metadata_cache : V := .dict [] []
  beacon_keys : V := .none

/-- a `C2Http` instance whose routing attributes are those of `cfg`; `tg ts tr`: the three transform objects (any values) -/
def encSelf (cfg : HttpCfg) (tg ts tr : V) (o : Rest) : V :=
  .inst Gen.PyC2H.C2Http [o.bconfig, o.aes_key, o.hmac_key, o.verify_hmac, o.pub, o.priv, .bytes cfg.submitUri, .bytes cfg.submitVerb,
    .tuple (cfg.getUris.map .bytes), .bytes cfg.getVerb, ts, tg, tr, o.metadata_cache, o.beacon_keys]

/-- the transform object a route selects -/
def pick (tg ts tr : V) : Route → V
  | .get => tg
  | .submit => ts
  | .response => tr

/-- the decision of `get_transform_for_http` in the terms of the model: parse raw bytes (C16), then route by verb and URI prefix -/
def routeInput (cfg : HttpCfg) : C07.Input → Py Route
  | .raw d =>
    match C16.parseRawHttp d with
    | .error e => .error e
    | .ok m =>
      match C07.routeHttp cfg (C07.msgToHttp m) with
      | some rt => .ok rt
      | none => .error .valueError
  | .msg h =>
    match C07.routeHttp cfg h with
    | some rt => .ok rt
    | none => .error .valueError

/-- the `http` argument: raw bytes, or a message object (`status`, `reason`, `request` of a response: any values) -/
def encInput (status reason request : V) : C07.Input → V
  | .raw d => .bytes d
  | .msg h => C04Gen.encHttp status reason request h

/-! ### external functions -/

/-- `derive_aes_hmac_keys(aes_random)`: the typed translation (Gen/PyC2.lean, tied to the model by Props/C05Gen.lean) on a dynamic
value; `hashlib.sha256(x)` of anything but a bytes-like object is a TypeError -/
def deriveX (sha256 : Bytes → Bytes) : V → Py V
  | .bytes r => (Gen.PyC2.derive_aes_hmac_keys sha256 r).map fun p => .tuple [.bytes p.1, .bytes p.2]
  | _ => .error .typeError

/-- `RSA.import_key(bconfig.public_key)`: `pub` is the key object a valid encoding gives (`none`: ValueError) -/
def importKeyX (pub : Option V) (_data : V) : Py V :=
  match pub with
  | some k => .ok k
  | none => .error .valueError

/-- UTF-8 of every item -/
def encodeAll : List PyRt.Str → Py (List Bytes)
  | [] => .ok []
  | s :: ss =>
    match PyU.utf8Enc s with
    | .error e => .error e
    | .ok b => (encodeAll ss).map (b :: ·)

def encPriv : Option Int → V
  | none => .none
  | some n => encKey n

def encExcA : C07.Exc → PyU.ExcA
  | .py e => .py e
  | .assertion => .assertion
  | .structError => .py .typeError

/-- the instance the constructor builds, in the terms of the model: the routing attributes of `cfg`, the keys `k1 k2` -/
def encC2Http (cfg : HttpCfg) (bconfig : V) (k1 k2 : Option Bytes) (verify : Bool) (npub : Int) (privN : Option Int)
    (postVs reqVs recVs : List V) : V :=
  encSelf cfg
    (C04Gen.encT (C04Gen.mkLists reqVs false .none).1 (C04Gen.mkLists reqVs false .none).2)
    (C04Gen.encT (C04Gen.mkLists postVs false .none).1 (C04Gen.mkLists postVs false .none).2)
    (C04Gen.encT (C04Gen.mkLists recVs true (PyU.lit "output")).1 (C04Gen.mkLists recVs true (PyU.lit "output")).2)
    { bconfig := bconfig, aes_key := C04Gen.encOB k1, hmac_key := C04Gen.encOB k2, verify_hmac := .bool verify, pub := encKey npub,
      priv := encPriv privN, metadata_cache := .dict [] [],
      beacon_keys := .inst Gen.PyC2H.BeaconKeys [C04Gen.encOB k1, C04Gen.encOB k2, .bytes Gen.C2Struct.defaultAesIv] }

/-- what the constructor answers for the model's answer -/
def encInitResult (cfg : HttpCfg) (bconfig : V) (verify : Bool) (npub : Int) (privN : Option Int) (postVs reqVs recVs : List V) :
    C07.X C07.Decoder → PyU.PyA V
  | .error e => .error (encExcA e)
  | .ok dec => .ok (encC2Http cfg bconfig dec.keys.aesKey dec.keys.hmacKey verify npub privN postVs reqVs recVs)

/-- the translated `get_transform_for_http` with the external functions of `parse_raw_http` instantiated as in C16 -/
def getTransformG (self http : V) : Py V := Gen.PyC2H.get_transform_for_http C16Gen.urlsplitX C16Gen.parseQslX self http

/-- the translated constructor call `C2Http(bconfig, aes_key, hmac_key, aes_rand, rsa_private_key, verify_hmac)` -/
def initG (sha256 : Bytes → Bytes) (pub : Option V) (bconfig aes_key hmac_key aes_rand priv verify : V) : PyU.PyA V :=
  Gen.PyC2H.c2http_init (deriveX sha256) (importKeyX pub) bconfig aes_key hmac_key aes_rand priv verify

/-! ### `iter_recover_http`: encodings and external functions -/

/-- `EncryptedPacket(ciphertext, signature)` (NamedTuple) -/
def EncryptedPacketCls : PyU.Cls := { cid := 7707, fields := ["ciphertext", "signature"], isTuple := true, bases := [] }
/-- a `CallbackPacket` object: `counter, size, callback, data` (the enum member `callback` as its integer value) -/
def CallbackPacketCls : PyU.Cls := { cid := 7708, fields := ["counter", "size", "callback", "data"], isTuple := false, bases := [] }
/-- a `TaskPacket` object: `epoch, total_size, command, size, data` (the enum member `command` as its integer value) -/
def TaskPacketCls : PyU.Cls := { cid := 7709, fields := ["epoch", "total_size", "command", "size", "data"], isTuple := false, bases := [] }

def encPacket (p : C05.Packet) : V := .inst EncryptedPacketCls [.bytes p.ciphertext, .bytes p.signature]

def encExcCode : Option PyExc → V
  | none => .none
  | some e => .int (PyU.t07ExcCode e)

/-- `c2data.iter_encrypted_packets()` run to its end — `(packets, the exception that ended the generator or None)`: the C05 framing
models, by the class of the object (`ClientC2Data`: size-framed packets, `ServerC2Data`: at most one packet); an object of any
other class has no such method (AttributeError) -/
def iterPacketsX (c2data : V) : Py V :=
  match c2data with
  | .inst cls [output, _, _] =>
    let out : Option (Option Bytes) := match output with
      | .none => some none
      | .bytes b => some (some b)
      | _ => none
    match out with
    | none => .error .typeError
    | some o =>
      if cls.cid == Gen.PyC2U.ClientC2Data.cid then
        let r := C05.iterClient o
        .ok (.tuple [.list (r.1.map encPacket), encExcCode r.2])
      else if cls.cid == Gen.PyC2U.ServerC2Data.cid then
        .ok (.tuple [.list ((C05.iterServerPacket o).map encPacket), .none])
      else .error .attributeError
  | _ => .error .attributeError

def optBytes? : V → Option (Option Bytes)
  | .none => some none
  | .bytes b => some (some b)
  | _ => none

/-- `decrypt_packet(packet, verify=verify, **keys._asdict())`: the TYPED translation `Gen.PyC2.decrypt_packet` (Gen/PyC2.lean, tied
to the C05 model by Props/C05Gen.lean) applied to the fields `aes_key`, `hmac_key`, `iv` of the keys object.  Operands of other
kinds are not part of this instance (TypeError; `keys._asdict()` of an object that is no NamedTuple: AttributeError). -/
def decryptPacketStarX (c : C05.Crypto) (packet verify keys : V) : Py V :=
  match packet, keys with
  | .inst _ [.bytes ct, .bytes sig], .inst kc [ak, hk, .bytes iv] =>
    if kc.isTuple && kc.fields == ["aes_key", "hmac_key", "iv"] then
      match optBytes? ak, optBytes? hk with
      | some a, some h => (Gen.PyC2.decrypt_packet c.hmacSha256 c.aesCbcDec ⟨ct, sig⟩ a h iv (PyU.truthy verify)).map .bytes
      | _, _ => .error .typeError
    else .error .attributeError
  | _, .inst _ _ => .error .typeError
  | _, _ => .error .attributeError

def encCallback (cb : C07.Callback) : V :=
  .inst CallbackPacketCls [.int cb.counter, .int cb.size, .int cb.callback, .bytes cb.data]

def encTask (t : C07.Task) : V :=
  .inst TaskPacketCls [.int t.epoch, .int t.totalSize, .int t.command, .int t.size, .bytes t.data]

/-- `CallbackPacket(plaintext)` / `TaskPacket(plaintext)` for `bytes`: the two layouts of the C07 model (EOFError when short) -/
def callbackPacketX : V → Py V
  | .bytes pt => (C07.parseCallback pt).map encCallback
  | _ => .error .typeError

def taskPacketX : V → Py V
  | .bytes pt => (C07.parseTask pt).map encTask
  | _ => .error .typeError

/-- the translated `iter_recover_http` with all external functions instantiated: `(packets yielded, self afterwards)`, or the
exception that ended the generator (then what was yielded before and the state of `self` are not part of the answer) -/
def iterRecoverG (c : C07.Crypto) (self http keys : V) : PyU.PyA V :=
  Gen.PyC2H.iter_recover_http C16Gen.urlsplitX C16Gen.parseQslX C04Gen.b64decodeX C04Gen.urlsafeB64decodeX (C06Gen.decX c.asym)
    (deriveX c.asym.sha256) iterPacketsX (decryptPacketStarX c.sym) callbackPacketX taskPacketX self http keys

/-! ### `iter_recover_http`: the instance of a decoder object, the answer of the generator -/

def encItem : C07.Item → V
  | .metadata m => C06Gen.encMeta m
  | .task t => encTask t
  | .callback cb => encCallback cb

def keysV (k : C07.Keys) : V := .inst Gen.PyC2H.BeaconKeys [C04Gen.encOB k.aesKey, C04Gen.encOB k.hmacKey, .bytes k.iv]

def encCache (cache : List (Bytes × C06.Metadata)) : V :=
  .dict (cache.map fun p => .bytes p.1) (cache.map fun p => C06Gen.encMeta p.2)

/-- the `C2Http` instance of the decoder object `d`: `tg ts tr` the three transform objects, `privV` the private key object
(`None` iff the decoder has none), `o` the attributes the generator never reads -/
def encDec (tg ts tr : V) (o : Rest) (privV : V) (d : C07.Decoder) : V :=
  encSelf d.cfg tg ts tr
    { bconfig := o.bconfig, aes_key := o.aes_key, hmac_key := o.hmac_key, pub := o.pub, verify_hmac := .bool d.verify,
      priv := privV, metadata_cache := encCache d.cache, beacon_keys := keysV d.keys }

def encExt : Option C07.Keys → V
  | none => .none
  | some k => keysV k

/-- what the translated generator answers for the model's answer -/
def encOut (tg ts tr : V) (o : Rest) (privV : V) (out : C07.Out) : PyU.PyA V :=
  match out.exc with
  | none => .ok (.tuple [.list (out.items.map encItem), encDec tg ts tr o privV out.dec])
  | some e => .error (encExcA e)

/-- the three transform objects denote the model's transforms (C04 domain) -/
structure TransformsOk (cfg : HttpCfg) (tg ts tr : V) : Prop where
  get : ∃ a b, tg = C04Gen.encT a b ∧ C04Gen.stepsOf b = some (C07.transformGet cfg).rsteps
  submit : ∃ a b, ts = C04Gen.encT a b ∧ C04Gen.stepsOf b = some (C07.transformSubmit cfg).rsteps
  response : ∃ a b, tr = C04Gen.encT a b ∧ C04Gen.stepsOf b = some (C07.transformResponse cfg).rsteps

def clsOf (isReq : Bool) : PyU.Cls := if isReq then Gen.PyC2U.ClientC2Data else Gen.PyC2U.ServerC2Data

/-- the result of the packet part of the generator -/
def packResult (c : C07.Crypto) (k : C07.Keys) (verify isReq : Bool) (output : Option Bytes) (ys : List V) (self' : V) : PyU.PyA V :=
  match (C07.decodePackets c k verify isReq (C07.frames isReq output).1).exc with
  | some e => .error (encExcA e)
  | none =>
    match (C07.frames isReq output).2 with
    | some e => .error (.py e)
    | none => .ok (.tuple [.list (ys ++ (C07.decodePackets c k verify isReq (C07.frames isReq output).1).items.map encItem), self'])

end C07Gen

import CsVerif.Model.Basic
/-
C12 — profile string literals
(dissect/cobaltstrike/c2profile.py 29-110: value_to_string, string_token_to_bytes, StringIterator;
 c2profile.lark: terminal STRING)

Text (`Txt`) is a list of latin-1 code units: `repr(bytes)` only produces printable ASCII and
`StringIterator` masks every character with `& 0xFF`.  Code points ≥ 256 only occur as *input* of the
decoder and are handled by `stringTokenToBytesCP`.
-/
namespace C12

abbrev Txt := List UInt8

/-- `"` -/
abbrev dq : UInt8 := 0x22
/-- `'` -/
abbrev sq : UInt8 := 0x27
/-- `\` -/
abbrev bsl : UInt8 := 0x5c

/-! ### `repr(bytes)` (CPython `bytes_repr`, smart quotes) -/

/-- `"0123456789abcdef"[n]` for `n < 16` -/
def hexDigit (n : UInt8) : UInt8 := if n < 10 then 48 + n else 87 + n

/-- text emitted for one byte when the surrounding quote is `quote` -/
def reprUnit (quote c : UInt8) : Txt :=
  if c = quote ∨ c = bsl then [bsl, c]
  else if c = 9 then [bsl, 116]
  else if c = 10 then [bsl, 110]
  else if c = 13 then [bsl, 114]
  else if c < 0x20 ∨ c ≥ 0x7f then [bsl, 120, hexDigit (c >>> 4), hexDigit (c &&& 0xf)]
  else [c]

/-- single quotes unless the bytes contain `'` and no `"` -/
def reprQuote (bs : Bytes) : UInt8 :=
  if bs.contains sq && !bs.contains dq then dq else sq

/-- `repr(bs)` for a `bytes` object -/
def reprBytes (bs : Bytes) : Txt :=
  [98, reprQuote bs] ++ bs.flatMap (reprUnit (reprQuote bs)) ++ [reprQuote bs]

/-! ### `str.replace(old, new)` — left to right, non-overlapping -/

/-- scanner: `skip` = characters of the current match that are still to be dropped -/
def replaceGo (old new : Txt) : Txt → Nat → Txt
  | [], _ => []
  | _ :: cs, skip + 1 => replaceGo old new cs skip
  | c :: cs, 0 =>
    if old.isPrefixOf (c :: cs) then new ++ replaceGo old new cs (old.length - 1)
    else c :: replaceGo old new cs 0

/-- `s.replace(old, new)`; for `old = ""` Python inserts `new` before every character and at the end -/
def strReplace (old new s : Txt) : Txt :=
  if old = [] then s.flatMap (fun c => new ++ [c]) ++ new else replaceGo old new s 0

/-! ### value_to_string -/

/-- the `isinstance(value, str)` part: two replaces and the surrounding quotes -/
def valueToStringStr (value : Txt) : Txt :=
  let value := strReplace [dq] [bsl, dq] value
  let value := strReplace [bsl, sq] [sq] value
  [dq] ++ value ++ [dq]

/-- `value_to_string(value)` for `bytes` input: `repr(b'"' + value)[3:-1]`, then the `str` part -/
def valueToString (value : Bytes) : Txt :=
  valueToStringStr (pySliceFrom (pySliceTo (reprBytes ([dq] ++ value)) (some (-1))) 3)

/-! ### the STRING terminal  `"(.|\n)*?(?<!\\)(\\\\)*?"`

`re.match` at the start of the input: the opening quote, then the *first* position `p` (lazy `(.|\n)*?`) that
is not preceded by a backslash (`(?<!\\)`) and from which an even number of backslashes (lazy `(\\\\)*?`)
leads to a `"`.  Since `p` is not preceded by a backslash, the backslashes from `p` on are a maximal run, so
this is the first `"` (after the opening one) preceded by an even-length maximal backslash run. -/

/-- the regex text this model was derived from, as Lark hands it to `re` (the alternative is a real LF) -/
def modelledPattern : String := "\"(.|\n)*?(?<!\\\\)(\\\\\\\\)*?\""

/-- `even` = the maximal backslash run ending just before the current position has even length.
Returns (matched text up to and including the closing quote, remaining input). -/
def scanBody : Txt → Bool → Option (Txt × Txt)
  | [], _ => none
  | c :: cs, even =>
    if c = dq ∧ even = true then some ([c], cs)
    else (scanBody cs (if c = bsl then !even else true)).map fun (m, r) => (c :: m, r)

/-- what the STRING regex matches at the start of the input: `some (token text, rest)` -/
def scanString : Txt → Option (Txt × Txt)
  | [] => none
  | c :: cs =>
    if c = dq then (scanBody cs true).map fun (m, r) => (c :: m, r) else none

/-! #### literal reading of the regex (backtracking order of `re`), proved equal to `scanString` in Lemmas -/

/-- `(\\\\)*?"` at the current position: number of characters consumed -/
def rxPairsQuote : Txt → Option Nat
  | [] => none
  | [c] => if c = dq then some 1 else none
  | c :: d :: r =>
    if c = dq then some 1
    else if c = bsl ∧ d = bsl then (rxPairsQuote r).map (· + 2)
    else none

/-- `(.|\n)*?(?<!\\)(\\\\)*?"` with `prev` = the character before the current position:
try zero more characters first, then one more, … -/
def rxBody (prev : UInt8) : Txt → Option Nat
  | [] => none
  | c :: cs =>
    match (if prev ≠ bsl then rxPairsQuote (c :: cs) else none) with
    | some n => some n
    | none => (rxBody c cs).map (· + 1)

/-- length-based result turned into (match, rest) -/
def rxMatch : Txt → Option (Txt × Txt)
  | [] => none
  | c :: cs =>
    if c = dq then (rxBody c cs).map fun n => (c :: cs.take n, cs.drop n) else none

/-! ### int(hexstr, 16) on the strings the decoder can pass (length ≤ 2, latin-1) -/

def hexVal (c : UInt8) : Option Nat :=
  if 48 ≤ c ∧ c ≤ 57 then some (c.toNat - 48)
  else if 97 ≤ c ∧ c ≤ 102 then some (c.toNat - 87)
  else if 65 ≤ c ∧ c ≤ 70 then some (c.toNat - 55)
  else none

/-- characters `int()` strips around the digits (CPython 3.12, latin-1 range): ASCII whitespace
`\t \n \v \f \r space` plus the non-ASCII Unicode spaces NEL (0x85) and NBSP (0xa0).
(0x1c–0x1f are `str.isspace()` but are *not* accepted by `int()`.) -/
def intSpace (c : UInt8) : Bool :=
  c = 9 ∨ c = 10 ∨ c = 11 ∨ c = 12 ∨ c = 13 ∨ c = 32 ∨ c = 0x85 ∨ c = 0xa0

/-- `int("".join(cs), 16)` for `cs` of length ≤ 2 (what `it.next(2)` can return).  Besides two hex digits,
`int()` accepts one digit with a sign or with leading/trailing white space; `"0x"`, `"_f"`, `"f_"` are errors.
Longer inputs do not occur (`List.take 2`); they are mapped to `ValueError` and never reached. -/
def pyIntHex : Txt → Py Int
  | [] => .error .valueError
  | [a] => match hexVal a with
    | some x => .ok x
    | none => .error .valueError
  | [a, b] =>
    match hexVal a, hexVal b with
    | some x, some y => .ok ((16 * x + y : Nat) : Int)
    | none, some y =>
      if intSpace a ∨ a = 43 then .ok (y : Int)
      else if a = 45 then .ok (-(y : Int))
      else .error .valueError
    | some x, none => if intSpace b then .ok (x : Int) else .error .valueError
    | none, none => .error .valueError
  | _ :: _ :: _ :: _ => .error .valueError

/-- Python `bytes(list_of_ints)`: every element must be in `range(256)` -/
def pyBytes : List Int → Py Bytes
  | [] => .ok []
  | v :: vs =>
    if 0 ≤ v ∧ v < 256 then
      match pyBytes vs with
      | .ok r => .ok (UInt8.ofNat v.toNat :: r)
      | .error e => .error e
    else .error .valueError

/-! ### StringIterator + string_token_to_bytes -/

/-- `StringIterator.has_next(count)` -/
def hasNext (buffer : Txt) (index : Nat) (count : Nat := 1) : Bool :=
  index + count ≤ buffer.length

/-- `StringIterator.next(count)`: `(buffer[index : index + count], new index)` -/
def nextN (buffer : Txt) (index count : Nat) : Txt × Nat :=
  ((buffer.take (index + count)).drop index, index + count)

/-- The `for c in it:` loop of `string_token_to_bytes`; `out` is the Python list `buffer` of ints.
`__next__` is `if index < len: c = buffer[index]; index += 1 else StopIteration`. The inner `next(it)` is
guarded by `it.has_next()` (`index + 1 ≤ len`), the very condition under which `__next__` returns. -/
def decodeLoop (buffer : Txt) (index : Nat) (out : List Int) : Py (List Int) :=
  if h : index < buffer.length then
    let c := buffer[index]
    if h1 : c = bsl ∧ hasNext buffer (index + 1) = true then
      let next2 := buffer[index + 1]'(by simp only [hasNext, decide_eq_true_eq] at h1; omega)
      if next2 = 117 then                                  -- \uXXXX
        if h4 : hasNext buffer (index + 2) 4 = true then
          let i1 := (nextN buffer (index + 2) 2).2          -- `_ = it.next(2)`
          let r := nextN buffer i1 2                        -- `it.next(2)`
          match pyIntHex r.1 with
          | .error e => .error e
          | .ok v => decodeLoop buffer r.2 (out ++ [v])
        else .error .valueError
      else if next2 = 120 then                             -- \xXX
        if h2 : hasNext buffer (index + 2) 2 = true then
          let r := nextN buffer (index + 2) 2
          match pyIntHex r.1 with
          | .error e => .error e
          | .ok v => decodeLoop buffer r.2 (out ++ [v])
        else .error .valueError
      else if next2 = 110 then decodeLoop buffer (index + 2) (out ++ [10])
      else if next2 = 114 then decodeLoop buffer (index + 2) (out ++ [13])
      else if next2 = 116 then decodeLoop buffer (index + 2) (out ++ [9])
      else if next2 = bsl then decodeLoop buffer (index + 2) (out ++ [0x5c])
      else if next2 = dq then decodeLoop buffer (index + 2) (out ++ [0x22])
      else if next2 = sq then decodeLoop buffer (index + 2) (out ++ [0x27])
      else decodeLoop buffer (index + 2) out               -- unknown escape: both characters dropped
    else decodeLoop buffer (index + 1) (out ++ [(c.toNat : Int)])   -- incl. a lone trailing backslash
  else .ok out
termination_by buffer.length - index
decreasing_by
  all_goals (try simp only [hasNext, nextN, decide_eq_true_eq] at *)
  all_goals omega

/-- `StringIterator.__init__`: `[chr(ord(c) & 0xFF) for c in string]` (identity on latin-1 text) -/
def maskBuffer (s : Txt) : Txt := s.map (· &&& 0xFF)

/-- `string_token_to_bytes(Token("STRING", tok))` for latin-1 token text -/
def stringTokenToBytes (tok : Txt) : Py Bytes :=
  let bstring := pySliceTo (pySliceFrom tok 1) (some (-1))      -- token.value[1:-1]
  match decodeLoop (maskBuffer bstring) 0 [] with
  | .error e => .error e
  | .ok out => pyBytes out

/-- the same for token text given as arbitrary Unicode code points -/
def stringTokenToBytesCP (tok : List Nat) : Py Bytes :=
  let bstring := pySliceTo (pySliceFrom tok 1) (some (-1))
  match decodeLoop (bstring.map fun c => UInt8.ofNat (c &&& 0xFF)) 0 [] with
  | .error e => .error e
  | .ok out => pyBytes out

/-! ### literal inside a statement: lex one STRING at the current position, then read it -/

/-- scan one STRING token at the start of `input`; result: raw body (`str(token)[1:-1]`),
decoded bytes, remaining input -/
def lexLiteral (input : Txt) : Option (Txt × Py Bytes × Txt) :=
  match scanString input with
  | none => none
  | some (tok, rest) => some (pySliceTo (pySliceFrom tok 1) (some (-1)), stringTokenToBytes tok, rest)

end C12

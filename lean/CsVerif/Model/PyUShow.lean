import CsVerif.Model.PyU
/-!
A generic text notation for `PyU.V` values, used by the `pyu` / `g-*` streams of the drivers that run definitions translated
by `tools/py2leanu.py` (the Python side, `tools/harness/pyuval.py`, renders the real objects the same way):
`N` None, `T` / `F`, `i<int>`, `b<hex>`, `s<cp>.<cp>…` str, `L[a;b]` list, `U[a;b]` tuple, `D[k;…|v;…]` dict, `O<hex>:<pos>` BytesIO,
`E<cid>:<value>` cstruct enum member, `I<cid>[a;b]` instance of the class with that `cid`.
Driver plumbing only (no semantics): the parser is a `partial def`.
-/
namespace PyU

mutual
def vShow : V → String
  | .none => "N"
  | .bool b => if b then "T" else "F"
  | .int n => "i" ++ toString n
  | .bytes b => "b" ++ Hex.encode b
  | .str cs => "s" ++ ".".intercalate (cs.map toString)
  | .list xs => "L[" ++ vShowL xs ++ "]"
  | .tuple xs => "U[" ++ vShowL xs ++ "]"
  | .dict ks vs => "D[" ++ vShowL ks ++ "|" ++ vShowL vs ++ "]"
  | .bytesIO d p => "O" ++ Hex.encode d ++ ":" ++ toString p
  | .enum c v => "E" ++ toString c.cid ++ ":" ++ toString v
  | .inst c vs => "I" ++ toString c.cid ++ "[" ++ vShowL vs ++ "]"
termination_by structural x => x
def vShowL : List V → String
  | [] => ""
  | [x] => vShow x
  | x :: y :: r => vShow x ++ ";" ++ vShowL (y :: r)
termination_by structural x => x
end

def isHexChar (c : Char) : Bool := c.isDigit || ('a' ≤ c && c ≤ 'f')

mutual
/-- `enumOf` / `clsOf`: the descriptors of the unit, by `cid` -/
partial def pV (enumOf : Nat → Option EnumCls) (clsOf : Nat → Option Cls) : List Char → Option (V × List Char)
  | 'N' :: r => some (.none, r)
  | 'T' :: r => some (.bool true, r)
  | 'F' :: r => some (.bool false, r)
  | 'i' :: r =>
    let (ds, r') := r.span (fun c => c.isDigit || c == '-')
    (String.ofList ds).toInt?.map fun n => (.int n, r')
  | 'b' :: r =>
    let (hs, r') := r.span isHexChar
    (Hex.decodeChars hs).map fun b => (.bytes b, r')
  | 's' :: r =>
    let (ds, r') := r.span (fun c => c.isDigit || c == '.')
    if ds.isEmpty then some (.str [], r')
    else (((String.ofList ds).splitOn ".").mapM String.toNat?).map fun cs => (.str cs, r')
  | 'L' :: '[' :: r =>
    match pL enumOf clsOf r [] with
    | some (xs, ']' :: r') => some (.list xs, r')
    | _ => none
  | 'U' :: '[' :: r =>
    match pL enumOf clsOf r [] with
    | some (xs, ']' :: r') => some (.tuple xs, r')
    | _ => none
  | 'D' :: '[' :: r =>
    match pL enumOf clsOf r [] with
    | some (ks, '|' :: r') =>
      match pL enumOf clsOf r' [] with
      | some (vs, ']' :: r'') => some (.dict ks vs, r'')
      | _ => none
    | _ => none
  | 'O' :: r =>
    let (hs, r') := r.span isHexChar
    match Hex.decodeChars hs, r' with
    | some b, ':' :: r'' =>
      let (ds, r3) := r''.span Char.isDigit
      (String.ofList ds).toNat?.map fun p => (.bytesIO b p, r3)
    | _, _ => none
  | 'E' :: r =>
    let (cs, r') := r.span Char.isDigit
    match (String.ofList cs).toNat?.bind enumOf, r' with
    | some cls, ':' :: r'' =>
      let (ds, r3) := r''.span (fun c => c.isDigit || c == '-')
      (String.ofList ds).toInt?.map fun n => (.enum cls n, r3)
    | _, _ => none
  | 'I' :: r =>
    let (cs, r') := r.span Char.isDigit
    match (String.ofList cs).toNat?.bind clsOf, r' with
    | some cls, '[' :: r'' =>
      match pL enumOf clsOf r'' [] with
      | some (xs, ']' :: r3) => some (.inst cls xs, r3)
      | _ => none
    | _, _ => none
  | _ => none
/-- items separated by `;` up to (not including) the closing `]` / `|` -/
partial def pL (enumOf : Nat → Option EnumCls) (clsOf : Nat → Option Cls) : List Char → List V → Option (List V × List Char)
  | ']' :: r, acc => some (acc.reverse, ']' :: r)
  | '|' :: r, acc => some (acc.reverse, '|' :: r)
  | cs, acc =>
    match pV enumOf clsOf cs with
    | some (v, ';' :: r) => pL enumOf clsOf r (v :: acc)
    | some (v, r) => some ((v :: acc).reverse, r)
    | none => none
end

def vTok (enumOf : Nat → Option EnumCls) (clsOf : Nat → Option Cls) (s : String) : Option V :=
  match pV enumOf clsOf s.toList with
  | some (v, []) => some v
  | _ => none

end PyU

import CsVerif.Model.C16
import CsVerif.Gen.PyC2U
/-!
C16 — glue between the hand-written model (`Model/C16.lean`) and the definition translated from the source of
`parse_raw_http` (`Gen/PyC2U.lean`, untyped translator): the two EXTERNAL functions of the translated definition
(`urllib.parse.urlsplit`, `urllib.parse.parse_qsl(…, encoding=…)`) instantiated with the C16 sub-models, and the encoding of
the model's result type as Python values.  Used by the driver (`g-*` streams) and by `Props/C16Gen.lean`.
-/
namespace C16Gen
open PyU (V)

/-- `bytes` as the latin-1 `str` with the same numbers -/
def latin (b : Bytes) : V := .str (b.map (·.toNat))

/-- `urlsplit(url)` for a `bytes` argument: non-ASCII bytes are a UnicodeDecodeError (the argument is decoded as ASCII), an
ASCII argument gives the `SplitResultBytes` of the C16 sub-model `C16.urlsplit`.  Other argument kinds (`str`) are not part of
this instance (TypeError). -/
def urlsplitX : V → Py V
  | .bytes b =>
    if b.all (· < 128) then
      (C16.urlsplit b).map fun r =>
        .inst Gen.PyC2U.SplitResultBytes [.bytes r.scheme, .bytes r.netloc, .bytes r.path, .bytes r.query, .bytes r.fragment]
    else .error .valueError
  | _ => .error .typeError

/-- `parse_qsl(qs, encoding="latin-1")` for an ASCII `str`: the `(name, value)` pairs of the C16 sub-model `C16.parseQsl`
(which returns them re-encoded as latin-1) as `str`s.  Other arguments are not part of this instance (TypeError). -/
def parseQslX (qs encoding : V) : Py V :=
  match qs, encoding with
  | .str s, .str e =>
    if e == PyU.cps "latin-1" && s.all (· < 128) then
      .ok (.list ((C16.parseQsl (s.map UInt8.ofNat)).map fun p => .tuple [latin p.1, latin p.2]))
    else .error .typeError
  | _, _ => .error .typeError

/-- a `Dict[bytes, bytes]` in insertion order -/
def encDict (d : List (Bytes × Bytes)) : V := .dict (d.map fun p => .bytes p.1) (d.map fun p => .bytes p.2)

/-- `HttpRequest(method, uri, params, headers, body)` / `HttpResponse(status, headers, reason, body, request=None)` -/
def encMsg : C16.Msg → V
  | .request m u ps hs b => .inst Gen.PyC2U.HttpRequest [.bytes m, .bytes u, encDict ps, encDict hs, .bytes b]
  | .response st r hs b => .inst Gen.PyC2U.HttpResponse [.int st, encDict hs, .bytes r, .bytes b, .none]

/-- the translated `parse_raw_http` with the two external functions instantiated -/
def parseRawHttpG (data : V) : Py V := Gen.PyC2U.parse_raw_http urlsplitX parseQslX data

end C16Gen

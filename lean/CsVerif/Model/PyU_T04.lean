import CsVerif.Model.PyU
/-
PyU_T04 — run-time operations of the untyped translator added for `HttpDataTransform` (c2.py, property C04): calls of the
typed translations of utils.py (`Gen/PyUtils.lean`: `netbios_encode`, `netbios_decode`, `xor`, `p32be`) on dynamic values.
Exercised against the real `utils.*` functions on operands of all kinds by the `pyu` stream of C04
(tools/harness/pyuval_t04.py).  No imports besides `PyU` (must link into the compiled drivers).
-/
namespace PyU

/-- apply a function of utils.py translated by the typed translator (`data: bytes → bytes`) to a dynamic value.
`netbios_encode` starts with `bytearray(data)`, `netbios_decode` with `len(data)` / `data[i] - offset`: `None` and a non-empty
`str` are a TypeError in both.  Not modelled (TypeError here): int-likes (`bytearray(n)` is `n` zero bytes; `len(n)` is a
TypeError), the empty `str` (`netbios_decode("")` is `b""`), lists / tuples / dicts / instances (iterated as ints). -/
def liftBytes1 (f : Bytes → Py Bytes) : V → Py V
  | .bytes d => (f d).map .bytes
  | _ => .error .typeError

/-- apply a typed translation `(data: bytes, key: bytes) → bytes` (`utils.xor`) to dynamic values.  Not modelled (TypeError here;
CPython: `xor` returns `data` unchanged, whatever it is, when `sum(key) == 0`, i.e. for an all-zero `bytes` key and for every
empty sequence as key; lists / tuples of ints are accepted by `int.from_bytes`): anything but two `bytes` operands.  For a
`bytes` key that is not all zero, a `data` that is `None`, int-like or `str` is a TypeError in CPython as well. -/
def liftBytes2 (f : Bytes → Bytes → Py Bytes) : V → V → Py V
  | .bytes d, .bytes k => (f d k).map .bytes
  | _, _ => .error .typeError

/-- apply a typed translation `n: int → bytes` whose body is `n.to_bytes(size, …)` with a constant size (`utils.p32be` and the
other `p*` partials of `pack`) to a dynamic value: int-likes have `to_bytes`, every other kind of object here has no such
attribute (AttributeError) -/
def liftIntBytes (f : Int → Py Bytes) (n : V) : Py V :=
  match asInt n with
  | some v => (f v).map .bytes
  | none => .error .attributeError

end PyU

import CsVerif.Model.PyU
/-
PyU_T13 — additions to the run-time library of the untyped translator (`tools/py2leanu.py`, `Model/PyU.lean`) for
`C2Profile.from_beacon_config` of c2profile.py (plug-in `tools/gen/py_c2gen.py`):

  * `x is True` / `x is False` (`t13IsBool`);
  * `d.items()` of a dict, as far as it is iterated (`t13Items`: the list of the `(key, value)` pairs in insertion order);
  * `collections.defaultdict(list)`: the object is the value `V.dict keys [V.list …]` (the default factory is fixed, so it is
    not stored); the statement `v[k].append(e)` is `t13DdItem` (the lookup `v[k]`: a missing key is inserted with an empty
    list) followed — after the evaluation of `e` — by `t13DdAppend`.  The translator threads the dict and its lists as one
    value and rejects every program in which one of them could have a second reference (`_Fn.t13_analyse`).

Same conventions as `PyU.lean`: total functions, CPython 3.12's raising branches explicit; validated against CPython on random
operands by the `pyu` stream of C13 (tools/harness/pyuval_t13.py).  No imports besides `PyU` (must link into the compiled
drivers).  Every definition carries the prefix `t13`.
-/
namespace PyU

/-- `x is True` (`b = true`) / `x is False` (`b = false`): only the `bool` object itself (`1 is True` is false) -/
def t13IsBool (x : V) (b : Bool) : Bool :=
  match x with
  | .bool c => c == b
  | _ => false

/-- the `(key, value)` pairs of a dict, in insertion order -/
def t13Pairs : List V → List V → List V
  | k :: ks, v :: vs => .tuple [k, v] :: t13Pairs ks vs
  | _, _ => []

/-- `d.items()` as the iterable of a `for` (or the argument of `list`): a dict gives the list of its `(key, value)` pairs; every
other kind of object here has no `items` (AttributeError) -/
def t13Items : V → Py V
  | .dict ks vs => .ok (.list (t13Pairs ks vs))
  | _ => .error .attributeError

/-- the lookup `d[k]` of a `collections.defaultdict(list)`, for its effect on `d`: a key that is present leaves the dict as it
is, a missing key is inserted (at the end) with an empty list; an unhashable key is a TypeError.  (The translator only emits
this for a variable bound to `collections.defaultdict(list)`; any other kind of object answers TypeError.) -/
def t13DdItem (d k : V) : Py V :=
  match d with
  | .dict ks vs =>
    if hashable k then
      match findKey k ks vs with
      | some _ => .ok d
      | none => .ok (.dict (ks ++ [k]) (vs ++ [.list []]))
    else .error .typeError
  | _ => .error .typeError

/-- `d[k].append(x)` once `d[k]` has been looked up by `t13DdItem`: the list under `k` with `x` appended, the key keeps its
position; a value that is not a list has no `append` (AttributeError), a key that is absent cannot occur after `t13DdItem`
(KeyError) -/
def t13DdAppend (d k x : V) : Py V :=
  match d with
  | .dict ks vs =>
    if hashable k then
      match findKey k ks vs with
      | some l =>
        match append l x with
        | .ok l' => .ok (.dict ks (setKey k l' ks vs))
        | .error e => .error e
      | none => .error .keyError
    else .error .typeError
  | _ => .error .typeError

end PyU

import CsVerif.Model.C13Gen
import CsVerif.Props.C13
import CsVerif.Lemmas.C13Gen
/-!
C13 — the tie between the source text of `C2Profile.from_beacon_config` and the model, by (untyped) translation.

`Gen/PyC2Gen.lean` is produced on every run by `tools/py2leanu.py` (plug-in `tools/gen/py_c2gen.py`) from the *source* of the class
method: every Python value is a `PyU.V`, every Python operation one total function of `Model/PyU.lean` / `PyU_T12.lean` /
`PyU_T13.lean`.  The plug-in prepares the method in checked steps (see its header): `logger.debug(…)` statements dropped; the builder
API (`ConfigBlock.set_option / _pair / _enable / set_config_block / set_non_empty_config_block`, `C2Profile.set_option`, the block
constructors, `DataTransformBlock(steps=…)`, `HttpOptionsBlock(output=…)`, `BeaconGateBlock.from_beacon_gate_option_strings`) EXTERNAL —
block objects are threaded as values through these functions, which is exact because no block has a second live reference (checked);
the statements in front of the `if / elif` chain and every branch of more than one simple statement outlined into synthetic functions
`settings_value` / `branch_<SETTING NAME>`; the main function keeps the loop over `config.settings_by_index.items()`, the chain of 48
tests `setting == BeaconSetting.<NAME> [and value]` (the members are the constants `V.enum BeaconSetting <value>` read from the class)
and the nine `set_non_empty_config_block` calls of the assembly.

The theorems below state, for the external functions instantiated with the builder functions of the C13 model written on values
(`Model/C13Gen.lean`: `xSetOption`, `xPair`, … — `value_to_string` inside them is the translated one of C12, `DataTransformBlock` is the
model's `dtKids`; these instantiations are tied to the real builder classes by correspondence only), that each translated definition
computes exactly the encoding of what the hand-written model computes:

* `gen_settings_value`, `gen_branch_*` — the slices: text values encoded, the URIs option, the recover list, the two transform
  programs (static headers / parameters, BUILD groups in insertion order — `collections.defaultdict(list)` —, one
  `DataTransformBlock` per group), process-inject permissions, the two process-inject transforms, the execute list (for items given
  as Python `str`: splitting at the first space, `val[1:-1].encode()`, the name tests and `lower().replace("-", "_")` against the
  model's byte-level operations on the UTF-8 encoding), BeaconGate;
* `gen_settings_step` — one run of the loop body for ANY setting number and any pretty value of the shape its branch expects:
  the `if / elif` chain selects the branch the model's `actionTable` selects (so the SHAPE of the chain, which the generated-table
  obligations `chain_matches` … pin as a table, is here proved from the translated text itself);
* `gen_from_beacon_config` — the whole function: loop, `if c2_recover:`, the nine `set_non_empty_config_block` calls.

The domain predicate `shapeOK` is explicit and weak: a value has the shape its branch iterates over (the model answers `TypeError` as an
out-of-domain marker elsewhere), BeaconGate names are ASCII (`str.lower`), execute items are valid UTF-8 (they denote a `str`;
`utf8_roundtrip`: the item is then the encoding of that `str`) and the part behind their first space starts and ends with a
one-byte character (true of everything `parse_execute_list` writes).  Every
`WellFormedCfg` configuration with valid UTF-8 execute items is inside it (`wf_in_domain`), so the property theorems of
`Props/C13.lean` are restated below for the translated definition.  Helper lemmas: `Lemmas/C13Gen.lean`.
-/
namespace C13Gen
open PyU C13

/-! ### the slices -/

/-- `if isinstance(value, str): value = value.encode("latin-1")` (the statements in front of the chain), for every pretty value -/
theorem gen_settings_value (v : PVal) : Gen.PyC2Gen.settings_value (encPVal v) = .ok (preV v) := gen_settings_value_proof v

/-- SETTING_DOMAINS: `", ".join(uri for uri in config.uris if uri is not None)`, the option only when the text is not empty, the
literal written from the latin-1 bytes — for every list of URIs (any text, `None` entries) and any `settings_by_index` -/
theorem gen_branch_domains (x : V) (uris : List (Option Bytes)) (f : PForest) :
    domainsG (.inst Gen.PyC2Gen.BeaconConfigCls [x, encUris uris]) (encBlock f) = .ok (encBlock (
      if (joinUris uris).isEmpty then f else f ++ stmt (b "uri") [C12.valueToString (joinUris uris)])) :=
  gen_domains_proof x uris f

/-- SETTING_C2_RECOVER: the list handed to `DataTransformBlock` (`True` → the bare name, a length `n` → `(name, "X" * n)`) -/
theorem gen_branch_recover (l : List RStep) : recoverG (.list (l.map encRStep)) = .ok (encDOpts (l.map recoverOpt)) :=
  gen_recover_proof l

/-- SETTING_C2_REQUEST: for EVERY program (no well-formedness needed) the branch appends `requestKids prog` to the http-get client -/
theorem gen_branch_request (prog : List TStep) (f : PForest) :
    requestG (encBlock f) (.list (prog.map encTStep)) = .ok (encBlock (f ++ requestKids prog)) :=
  gen_request_proof prog f

/-- SETTING_C2_POSTREQ: the same statements on the http-post client -/
theorem gen_branch_postreq (prog : List TStep) (f : PForest) :
    postreqG (encBlock f) (.list (prog.map encTStep)) = .ok (encBlock (f ++ requestKids prog)) :=
  gen_postreq_proof prog f

/-- SETTING_PROCINJ_PERMS_I, for every pretty value (`value == 64` / `value == 4` is false for anything but that number) -/
theorem gen_branch_perms_i (v : PVal) (f : PForest) :
    permsIG (encBlock f) (preV v) = .ok (encBlock (
      if v.eqInt 64 then f ++ stmt (b "startrwx") [C12.valueToStringStr (b "true")]
      else if v.eqInt 4 then f ++ stmt (b "startrwx") [C12.valueToStringStr (b "false")] else f)) :=
  gen_perms_i_proof v f

/-- SETTING_PROCINJ_PERMS -/
theorem gen_branch_perms (v : PVal) (f : PForest) :
    permsG (encBlock f) (preV v) = .ok (encBlock (
      if v.eqInt 64 then f ++ stmt (b "userwx") [C12.valueToStringStr (b "true")]
      else if v.eqInt 32 then f ++ stmt (b "userwx") [C12.valueToStringStr (b "false")] else f)) :=
  gen_perms_proof v f

/-- SETTING_PROCINJ_TRANSFORM_X86: the last `prepend` / `append` values, each written only when not empty, the block only when
one of them is -/
theorem gen_branch_inj_x86 (l : List (Bool × Bytes)) (f : PForest) :
    injX86G (encBlock f) (.list (l.map encInj))
      = .ok (encBlock (if (injKids l).isEmpty then f else f ++ block (some (b "transform_x86")) (injKids l))) :=
  gen_inj_X86_proof l f

/-- SETTING_PROCINJ_TRANSFORM_X64 -/
theorem gen_branch_inj_x64 (l : List (Bool × Bytes)) (f : PForest) :
    injX64G (encBlock f) (.list (l.map encInj))
      = .ok (encBlock (if (injKids l).isEmpty then f else f ++ block (some (b "transform_x64")) (injKids l))) :=
  gen_inj_X64_proof l f

/-- the run-time library's strict UTF-8 decoder and encoder are inverse: a byte string that decodes is the encoding of the `str` it
decodes to (so "the model's execute item is valid UTF-8" and "it is the encoding of the `str` the method sees" are the same thing) -/
theorem utf8_roundtrip (s : Bytes) (cs : PyRt.Str) (h : PyU.utf8 s = .ok cs) : PyU.utf8Enc cs = .ok s :=
  PyU.utf8Enc_utf8 s cs h

/-- SETTING_PROCINJ_EXECUTE: for every list of items that are `None` (→ TypeError, as in the model) or valid UTF-8 (`execItemOK`;
the method sees the decoded `str`), including the raising branch -/
theorem gen_branch_execute (l : List (Option Bytes)) (h : l.all execItemOK = true) (f : PForest) :
    executeG (encBlock f) (.list (l.map encExecItem))
      = (execKids l).map fun kids => encBlock (if l.isEmpty then f else f ++ block (some (b "execute")) kids) :=
  gen_execute_proof l h f

/-- one execute item given as a Python `str` (code points `cs`, UTF-8 encoding `s`): the loop body computes the model's `execItem`
on the bytes -/
theorem gen_execute_item (cs : PyRt.Str) (s : Bytes) (h : PyU.utf8Enc cs = .ok s) (hsl : execSliceOK s = true) (g : PForest) :
    Gen.PyC2Gen.branch_SETTING_PROCINJ_EXECUTE_loop1 xNew xSetOption xEnable xSetConfigBlock (.str cs) (encBlock g)
      = (execItem (some s)).map fun F => (PyU.Ctl.cont, encBlock (g ++ F)) :=
  gen_execute_step cs s h hsl g

/-- SETTING_BEACON_GATE, for ASCII names -/
theorem gen_branch_gate (l : List Bytes) (h : l.all (fun s => s.all (· < 128)) = true) (f : PForest) :
    gateG (encBlock f) (.list (l.map txt))
      = .ok (encBlock (f ++ block (some (b "beacon_gate")) (PForest.flatten (l.map fun s => stmt (C13.lower s) [])))) :=
  gen_gate_proof l h f

/-! ### the chain and the whole function -/

/-- One run of the body of the settings loop, for ANY setting number `idx` (understood by the chain or not) and any pretty value
in the domain: the translated `if / elif` chain does what the model's `stepOne` (table lookup `actionOf` + `runAct`) does, on
every block variable and on `c2_recover` — including the `and value` guards and the settings the chain passes over. -/
theorem gen_settings_step (x : V) (uris : List (Option Bytes)) (st : St) (idx : Nat) (v : PVal) (hs : shapeOK (idx, v) = true) :
    settingsStepG (.inst Gen.PyC2Gen.BeaconConfigCls [x, encUris uris]) (.tuple [.int (idx : Int), encPVal v]) (encSt st)
      = (stepOne uris st (idx, v)).map fun st' => (PyU.Ctl.cont, encSt st') :=
  gen_settings_step_proof x uris st idx v hs

/-- `C2Profile.from_beacon_config(config)`: for every configuration in the domain and every `config.uris`, the translated method
returns the encoding of the children of the tree the model returns, or raises what the model raises. -/
theorem gen_from_beacon_config (cfg : List (Nat × PVal)) (uris : List (Option Bytes)) (h : cfg.all shapeOK = true) :
    fromBeaconConfigG cfg uris = (fromBeaconConfig cfg uris).map fun t => encBlock t.kids :=
  gen_from_beacon_config_proof cfg uris h

/-- every well-formed configuration whose execute items are valid UTF-8 is in the domain -/
theorem wf_in_domain (cfg : List (Nat × PVal)) (hw : WellFormedCfg cfg = true) (hu : cfg.all execUtf8OK = true) :
    cfg.all shapeOK = true :=
  wf_shape_all cfg hw hu

/-! ### the property theorems, restated for the translated definition -/

/-- `generation_total`: the source of `from_beacon_config` raises nothing on a well-formed configuration -/
theorem gen_generation_total (cfg : List (Nat × PVal)) (uris : List (Option Bytes)) (hw : WellFormedCfg cfg = true)
    (hu : cfg.all execUtf8OK = true) :
    ∃ t, fromBeaconConfigG cfg uris = .ok (encBlock t.kids) ∧ fromBeaconConfig cfg uris = .ok t := by
  obtain ⟨t, ht⟩ := generation_total cfg uris hw
  refine ⟨t, ?_, ht⟩
  rw [gen_from_beacon_config cfg uris (wf_in_domain cfg hw hu), ht]
  rfl

/-- `generated_valid`, `empty_blocks_absent`, `generated_faithful`: the tree the SOURCE builds is the tree of a derivation of the
grammar as it is now (the Reconstructor prints it), contains no empty `{ }` block, and its dictionary is the expected one -/
theorem gen_generated_valid_faithful (cfg : List (Nat × PVal)) (uris : List (Option Bytes)) (hw : WellFormedCfg cfg = true)
    (hu : cfg.all execUtf8OK = true) :
    ∃ t, fromBeaconConfigG cfg uris = .ok (encBlock t.kids) ∧ t.label = some (b "start") ∧
      (∃ d : C10.Deriv, d.WF C10.gen = true ∧ C10.toTree d = t.intern ∧ C10.printTree C10.gen t.intern = some d.yield) ∧
      printable t = true ∧ noEmptyBlocks t.kids = true ∧ specDict t.reparsed = expectedDict cfg uris := by
  obtain ⟨t, hg, ht⟩ := gen_generation_total cfg uris hw hu
  obtain ⟨d, h1, h2, h3, h4⟩ := generated_valid cfg uris hw t ht
  refine ⟨t, hg, ?_, ⟨d, h1, h2, h3⟩, h4, empty_blocks_absent cfg uris hw t ht, generated_faithful cfg uris hw t ht⟩
  unfold fromBeaconConfig at ht
  cases hr : runSettings uris St.init cfg with
  | error e => simp [hr] at ht
  | ok st =>
    simp only [hr, Except.ok.injEq] at ht
    rw [← ht]
    rfl

/-- the `uri` option the source writes decodes (by the source of `string_token_to_bytes`, C12) to the joined URIs: the literal is
`value_to_string` of the latin-1 bytes -/
theorem gen_uris_literal (x : V) (uris : List (Option Bytes)) (hne : (joinUris uris).isEmpty = false) :
    domainsG (.inst Gen.PyC2Gen.BeaconConfigCls [x, encUris uris]) (encBlock .nil)
        = .ok (encBlock (stmt (b "uri") [C12.valueToString (joinUris uris)])) ∧
      C12.stringTokenToBytes (C12.valueToString (joinUris uris)) = .ok (joinUris uris) := by
  refine ⟨?_, (uris_literal_decodes uris).2⟩
  rw [gen_branch_domains, hne]
  rfl

/-! ### Non-vacuity: the translated definition evaluated on concrete inputs -/

-- the example configuration of `Props/C13.lean` (a user agent with a quote, a backslash, a line feed and `é`; an http-get client
-- program; a recover program; an execute list with UTF-8; a BeaconGate list …) is in the domain, and the translated method computes
-- the model's tree on it
example : C13.exampleCfg.all shapeOK = true := by decide +kernel
example : C13.exampleCfg.all execUtf8OK = true := by decide +kernel
example : fromBeaconConfigG C13.exampleCfg [some [47, 120], none]
    = (fromBeaconConfig C13.exampleCfg [some [47, 120], none]).map (fun t => encBlock t.kids) := by decide +kernel
-- an empty configuration: an empty profile
example : fromBeaconConfigG [] [] = .ok (.list []) := by decide +kernel
-- sleeptime 60000 and nothing else: `set sleeptime "60000";`
example : fromBeaconConfigG [(3, .int 60000)] []
    = .ok (.list [treeV (PyU.lit "option") [tokenV "OPTION" (PyU.lit "sleeptime"), strNode (PyU.lit "\"60000\"")]]) := by decide +kernel
-- a `None` execute item: TypeError, as in the model
example : fromBeaconConfigG [(51, .execute [none])] [] = .error .typeError := by decide +kernel
-- values of other kinds (outside the model's domain; compared with the real method by the `g-arg` stream): a number where the
-- recover program is expected (`for k, v in 5` → TypeError), a `str` that is not latin-1 (UnicodeEncodeError, a ValueError)
example : fromBeaconConfigV (.inst Gen.PyC2Gen.BeaconConfigCls [.dict [.int 11] [.int 5], .list []]) = .error .typeError := by
  decide +kernel
example : fromBeaconConfigV (.inst Gen.PyC2Gen.BeaconConfigCls [.dict [.int 9] [.str [321]], .list []]) = .error .valueError := by
  decide +kernel

end C13Gen

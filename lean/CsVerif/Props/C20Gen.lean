import CsVerif.Gen.PyUtils
import CsVerif.Lemmas.C20
/-!
C20 — the tie between the source text and the model, by translation.

`Gen/PyUtils.lean` is produced on every run by `tools/py2lean.py` from the *source* of `utils.xor`, `netbios_encode`,
`netbios_decode`, `unpack`, `pack`, `checksum8`, `is_stager_x86`, `is_stager_x64` and the `functools.partial` objects
`u8 … p64be`.  The theorems below state that each translated definition computes, for all arguments, exactly what the
hand-written model of `Model/C20.lean` computes — so every theorem of `Props/C20.lean` is a theorem about the function
text as it stands now, and an edit of one of these functions that changes its meaning breaks the corresponding proof here.
(`PyRt` = the Python semantics of the operations the translation uses, `lean/CsVerif/Model/PyRt.lean`.)
-/
namespace C20Gen
open PyRt

/-- the byteorder strings -/
def orderStr : C20.Order → Str
  | .little => s "little"
  | .big => s "big"

end C20Gen

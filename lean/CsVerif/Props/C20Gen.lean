import CsVerif.Gen.PyUtils
import CsVerif.Props.C20
import CsVerif.Lemmas.C20Gen
/-!
C20 — the tie between the source text and the model, by translation.

`Gen/PyUtils.lean` is produced on every run by `tools/py2lean.py` from the *source* of `utils.xor`, `netbios_encode`,
`netbios_decode`, `unpack`, `pack`, `checksum8`, `is_stager_x86`, `is_stager_x64` and the `functools.partial` objects
`u8 … p64be`.  The theorems below state that each translated definition computes, for all arguments, exactly what the
hand-written model of `Model/C20.lean` computes — so every theorem of `Props/C20.lean` is a theorem about the function
text as it stands now, and an edit of one of these functions that changes its meaning breaks the corresponding proof here.
(`PyRt` = the Python semantics of the operations the translation uses, `lean/CsVerif/Model/PyRt.lean`.)
Helper lemmas: `Lemmas/C20Gen.lean`.
-/
namespace C20Gen
open PyRt

/-- the byteorder strings -/
def orderStr : C20.Order → Str
  | .little => s "little"
  | .big => s "big"

/-! ### xor, NetBIOS -/

/-- `utils.xor` never raises and is the byte-wise model (all-zero / empty key: identity) -/
theorem gen_xor (data key : Bytes) : Gen.PyUtils.xor data key = .ok (C20.xor data key) := by
  rw [xor_eq_xorBig, C20.xorBig_eq_xor]

theorem gen_netbios_encode (data : Bytes) (off : Int) :
    Gen.PyUtils.netbios_encode data off = C20.netbiosEncode data off :=
  netbios_encode_eq data off

theorem gen_netbios_decode (data : Bytes) (off : Int) :
    Gen.PyUtils.netbios_decode data off = C20.netbiosDecode data off :=
  netbios_decode_eq data off

/-! ### unpack / pack -/

theorem gen_unpack (data : Bytes) (size : Option Int) (o : C20.Order) (signed : Bool) :
    Gen.PyUtils.unpack data size (orderStr o) signed = .ok (C20.unpack data size o signed) := by
  have ho : orderStr o = ordS o := by cases o <;> rfl
  rw [ho]; exact unpack_eq data size o signed

theorem gen_unpack_bad_order (data : Bytes) (size : Option Int) (order : Str) (signed : Bool)
    (h : order ≠ s "little" ∧ order ≠ s "big") : Gen.PyUtils.unpack data size order signed = .error .valueError :=
  unpack_bad data size order signed h

theorem gen_pack (n : Int) (size : Option Nat) (o : C20.Order) (signed : Bool) :
    Gen.PyUtils.pack n (size.map Int.ofNat) (orderStr o) signed = C20.pack n size o signed := by
  have ho : orderStr o = ordS o := by cases o <;> rfl
  rw [ho]; exact pack_eq n size o signed

theorem gen_pack_negative_size (n k : Int) (hk : k < 0) (order : Str) (signed : Bool) :
    Gen.PyUtils.pack n (some k) order signed = .error .valueError :=
  pack_neg n k hk order signed

theorem gen_pack_bad_order (n : Int) (size : Option Int) (order : Str) (signed : Bool)
    (h : order ≠ s "little" ∧ order ≠ s "big") : Gen.PyUtils.pack n size order signed = .error .valueError :=
  pack_bad n size order signed h

/-! ### checksum8, stager classifiers -/

theorem gen_checksum8 (t : Str) : Gen.PyUtils.checksum8 t = .ok ((C20.checksum8 t : Nat) : Int) :=
  checksum8_eq t

theorem gen_is_stager_x86 (t : Str) : Gen.PyUtils.is_stager_x86 t = .ok (C20.isStagerX86 t) :=
  is_stager_x86_eq t

theorem gen_is_stager_x64 (t : Str) : Gen.PyUtils.is_stager_x64 t = .ok (C20.isStagerX64 t) :=
  is_stager_x64_eq t

/-! ### the `functools.partial` objects -/

theorem gen_unpack_be (d : Bytes) (size : Option Int) (sg : Bool) :
    Gen.PyUtils.unpack_be d size sg = .ok (C20.unpack d size .big sg) := gen_unpack d size .big sg

theorem gen_pack_be (n : Int) (size : Option Nat) (sg : Bool) :
    Gen.PyUtils.pack_be n (size.map Int.ofNat) sg = C20.pack n size .big sg := gen_pack n size .big sg

theorem gen_u8 (d : Bytes) (o : C20.Order) (sg : Bool) :
    Gen.PyUtils.u8 d (orderStr o) sg = .ok (C20.unpack d (some 1) o sg) := gen_unpack d (some 1) o sg

theorem gen_u16 (d : Bytes) (o : C20.Order) (sg : Bool) :
    Gen.PyUtils.u16 d (orderStr o) sg = .ok (C20.unpack d (some 2) o sg) := gen_unpack d (some 2) o sg

theorem gen_u32 (d : Bytes) (o : C20.Order) (sg : Bool) :
    Gen.PyUtils.u32 d (orderStr o) sg = .ok (C20.unpack d (some 4) o sg) := gen_unpack d (some 4) o sg

theorem gen_u64 (d : Bytes) (o : C20.Order) (sg : Bool) :
    Gen.PyUtils.u64 d (orderStr o) sg = .ok (C20.unpack d (some 8) o sg) := gen_unpack d (some 8) o sg

theorem gen_u16be (d : Bytes) (sg : Bool) : Gen.PyUtils.u16be d sg = .ok (C20.unpack d (some 2) .big sg) :=
  gen_unpack d (some 2) .big sg

theorem gen_u32be (d : Bytes) (sg : Bool) : Gen.PyUtils.u32be d sg = .ok (C20.unpack d (some 4) .big sg) :=
  gen_unpack d (some 4) .big sg

theorem gen_u64be (d : Bytes) (sg : Bool) : Gen.PyUtils.u64be d sg = .ok (C20.unpack d (some 8) .big sg) :=
  gen_unpack d (some 8) .big sg

theorem gen_p8 (n : Int) (o : C20.Order) (sg : Bool) :
    Gen.PyUtils.p8 n (orderStr o) sg = C20.pack n (some 1) o sg := gen_pack n (some 1) o sg

theorem gen_p16 (n : Int) (o : C20.Order) (sg : Bool) :
    Gen.PyUtils.p16 n (orderStr o) sg = C20.pack n (some 2) o sg := gen_pack n (some 2) o sg

theorem gen_p32 (n : Int) (o : C20.Order) (sg : Bool) :
    Gen.PyUtils.p32 n (orderStr o) sg = C20.pack n (some 4) o sg := gen_pack n (some 4) o sg

theorem gen_p64 (n : Int) (o : C20.Order) (sg : Bool) :
    Gen.PyUtils.p64 n (orderStr o) sg = C20.pack n (some 8) o sg := gen_pack n (some 8) o sg

theorem gen_p16be (n : Int) (sg : Bool) : Gen.PyUtils.p16be n sg = C20.pack n (some 2) .big sg :=
  gen_pack n (some 2) .big sg

theorem gen_p32be (n : Int) (sg : Bool) : Gen.PyUtils.p32be n sg = C20.pack n (some 4) .big sg :=
  gen_pack n (some 4) .big sg

theorem gen_p64be (n : Int) (sg : Bool) : Gen.PyUtils.p64be n sg = C20.pack n (some 8) .big sg :=
  gen_pack n (some 8) .big sg

/-- the default call `u32(d)` / `p32(n)` of the library: byteorder `"little"`, unsigned -/
theorem gen_u32_default (d : Bytes) : Gen.PyUtils.u32 d (s "little") false = .ok (C20.unpack d (some 4) .little false) :=
  gen_u32 d .little false

theorem gen_p32_default (n : Int) : Gen.PyUtils.p32 n (s "little") false = C20.pack n (some 4) .little false :=
  gen_p32 n .little false

/-! ### Non-vacuity: the translated definitions evaluated on concrete inputs -/

example : Gen.PyUtils.xor [1, 2, 3] [255] = .ok [254, 253, 252] := by decide
example : Gen.PyUtils.xor [1, 2, 3] [0, 0] = .ok [1, 2, 3] := by decide
example : Gen.PyUtils.xor [1, 2, 3, 4, 5] [16, 32] = .ok [17, 34, 19, 36, 21] := by decide
example : Gen.PyUtils.netbios_encode [0x41, 0xff] 65 = .ok [69, 66, 80, 80] := by decide
example : Gen.PyUtils.netbios_encode [0xff] 241 = .error .valueError := by decide
example : Gen.PyUtils.netbios_decode [69, 66, 80, 80] 65 = .ok [0x41, 0xff] := by decide
example : Gen.PyUtils.netbios_decode [69, 66, 80] 65 = .error .indexError := by decide
example : Gen.PyUtils.u16be [0x12, 0x34] false = .ok 0x1234 := by decide
example : Gen.PyUtils.u16 [0x12, 0x34, 0x56] (s "little") false = .ok 0x3412 := by decide
example : Gen.PyUtils.u8 [0xff] (s "little") true = .ok (-1) := by decide
example : Gen.PyUtils.unpack [1, 2, 3] (some (-1)) (s "big") false = .ok 0x0102 := by decide
example : Gen.PyUtils.unpack [1] none (s "middle") false = .error .valueError := by decide
example : Gen.PyUtils.p32be 0x01020304 false = .ok [1, 2, 3, 4] := by decide
example : Gen.PyUtils.p16 (-2) (s "little") true = .ok [0xfe, 0xff] := by decide
example : Gen.PyUtils.p8 256 (s "little") false = .error .overflowError := by decide
example : Gen.PyUtils.pack 0x1234 none (s "little") false = .ok [0x34, 0x12] := by decide
example : Gen.PyUtils.pack 1 (some (-1)) (s "little") false = .error .valueError := by decide
example : Gen.PyUtils.checksum8 (s "/zzh") = .ok 92 := by decide
example : Gen.PyUtils.is_stager_x86 (s "/zzh") = .ok true := by decide
example : Gen.PyUtils.is_stager_x64 (s "/zz90") = .ok true := by decide
example : Gen.PyUtils.is_stager_x64 (s "/zzh") = .ok false := by decide
example : (s "middle" ≠ s "little" ∧ s "middle" ≠ s "big") := by decide

end C20Gen

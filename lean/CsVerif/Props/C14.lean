import CsVerif.Lemmas.C14
/-! C14 property theorems: a parsed beacon configuration is an immutable value.

`runState true c State.init ops` is the state of one configuration object after the history `ops` executed by the
code as it is (`copies = true`: `HttpDataTransform.__init__` copies the step list it is given); `copies = false` is the
code before commit 9ab9399, for which the invariant is shown to fail. -/
namespace C14

/-- No history of uses changes the deep snapshot of the four views. -/
theorem config_invariant (c : Config) (ops : List Op) :
    snapshot c (runState true c State.init ops) = snapshot c State.init := by
  rw [snapshot_of_inv (reachable_inv c ops), snapshot_of_inv (Inv.init c)]

/-- The same, between any two points of a history. -/
theorem config_invariant_step (c : Config) (pre : List Op) (op : Op) :
    snapshot c (step true c (runState true c State.init pre) op).1 = snapshot c (runState true c State.init pre) := by
  rw [snapshot_of_inv (step_spec (reachable_inv c pre) op).1, snapshot_of_inv (reachable_inv c pre)]

/-- Every operation that does not name an earlier decoder returns (deep contents, exceptions included) the same
after any prefix as on a fresh configuration. -/
theorem history_independent (c : Config) (pre : List Op) (op : Op) (h : op.decoderFree = true) :
    obs true c (runState true c State.init pre) op = obs true c State.init op := by
  rw [(step_spec (reachable_inv c pre) op).2.1, (step_spec (Inv.init c) op).2.1,
    specObs_decoderFree c _ op h, specObs_decoderFree c (State.init.decoders.length) op h]

/-- The step lists a decoder built at any point of a history uses in `transform` / `recover` are those of a decoder
built (with any key material) from a fresh configuration. -/
theorem history_independent_decoder (c : Config) (pre : List Op) (d : Nat) (w : Which) (rc : Bool)
    (k : KeyVariant) (hk : k ≠ .noKey)
    (hd : d < (runState true c State.init pre).decoders.length) :
    obs true c (runState true c State.init pre) (if rc then .recover d w else .transform d w) =
    obs true c (step true c State.init (.mkC2Http k)).1 (if rc then .recover 0 w else .transform 0 w) := by
  have hi := reachable_inv c pre
  obtain ⟨dd, hdd, -⟩ := hi.decs _ (List.getElem_mem hd)
  obtain ⟨hi1, hout⟩ := c2http_spec (Inv.init c) k hk
  have hs1 : (step true c State.init (.mkC2Http k)).1 = (c2http true c State.init k).1 := by
    simp only [step]; split <;> simp_all
  have hlen : 0 < (c2http true c State.init k).1.decoders.length := by
    unfold C2Outcome at hout
    split at hout
    · obtain ⟨_, _, _, e3⟩ := hout
      rw [e3]; simp
    · obtain ⟨x, e1, _, _⟩ := hout
      rw [hdd] at e1; cases e1
  have hL : ∀ op, obs true c (runState true c State.init pre) op =
      specObs c (runState true c State.init pre).decoders.length op := fun op => (step_spec hi op).2.1
  have hR : ∀ op, obs true c (c2http true c State.init k).1 op =
      specObs c (c2http true c State.init k).1.decoders.length op := fun op => (step_spec hi1 op).2.1
  rw [hs1, hL, hR]
  cases rc <;> simp [specObs, specSteps, hd, hlen]

/-- Item assignment / deletion on a view or on a `settings_map` result raises TypeError and leaves the
configuration as it was. -/
theorem mapping_rejects_mutation (c : Config) (pre : List Op) (t : MutTarget) :
    (step true c (runState true c State.init pre) (.mutateAttempt t)).2 = .exc .typeError ∧
    snapshot c (step true c (runState true c State.init pre) (.mutateAttempt t)).1 =
      snapshot c (runState true c State.init pre) :=
  ⟨(step_mutate (reachable_inv c pre) t).2.1, config_invariant_step c pre _⟩

/-- Decoders, clients, profiles and uncached `settings_map` results never share a list object with the cached
views of the configuration. -/
theorem views_alias_free (c : Config) (ops : List Op) :
    ∀ a ∈ extRefs (runState true c State.init ops), a ∉ cfgRefs (runState true c State.init ops) :=
  (reachable_inv c ops).sep

theorem views_alias_free_bool (c : Config) (ops : List Op) :
    aliased (runState true c State.init ops) = false := by
  have h := views_alias_free c ops
  unfold aliased
  rw [Bool.eq_false_iff]
  intro hany
  rw [List.any_eq_true] at hany
  obtain ⟨a, ha, hc⟩ := hany
  exact h a ha (by simpa using hc)

/-- Two different cached views (e.g. `settings` and `settings_by_index`) hold different list objects. -/
theorem cached_views_disjoint (c : Config) (ops : List Op) (v v' : View) (m m' : Mapping) (hne : v ≠ v')
    (h1 : (runState true c State.init ops).getCache v = some m)
    (h2 : (runState true c State.init ops).getCache v' = some m') :
    ∀ a ∈ refsOf m, a ∉ refsOf m' :=
  (reachable_inv c ops).disj v v' m m' hne h1 h2

/-- Every result is a function of the immutable settings tuple alone (`specObs` never looks at the heap). -/
theorem results_determined_by_config (c : Config) (pre : List Op) (op : Op) :
    obs true c (runState true c State.init pre) op =
      specObs c (runState true c State.init pre).decoders.length op :=
  (step_spec (reachable_inv c pre) op).2.1

/-- The setting names the constructors look up exist in the `BeaconSetting` enum of the tree (generated table). -/
theorem used_names_resolve :
    (["SETTING_SUBMITURI", "SETTING_C2_VERB_POST", "SETTING_C2_VERB_GET", "SETTING_C2_POSTREQ", "SETTING_C2_REQUEST",
      "SETTING_C2_RECOVER", "SETTING_SLEEPTIME", "SETTING_JITTER", "SETTING_USERAGENT", "SETTING_HOST_HEADER",
      "SETTING_DOMAINS"].all (fun n => (nameConst n).isSome)) = true := by
  decide +kernel

/-! ### non-vacuity and the repaired defect -/

/-- a small HTTP configuration: SUBMITURI, verbs, and the three transform programs (ids are interned steps) -/
def demoConfig : Config :=
  { tuple :=
      [⟨10, 10, 10, 100, 100, .scalar 101⟩, ⟨26, 26, 26, 102, 102, .scalar 103⟩, ⟨27, 27, 27, 104, 104, .scalar 105⟩,
       ⟨11, 11, 11, 106, 106, .list [7]⟩, ⟨12, 12, 12, 107, 107, .list [1, 2, 3]⟩, ⟨13, 13, 13, 108, 108, .list [4, 5]⟩],
    pubkeyOk := true, trial := false, protoHttp := true, hasDomains := true }

/-- on `demoConfig` decoder construction succeeds: the theorems are not only about exception paths -/
example : obs true demoConfig State.init (.mkC2Http .aesHmac) =
    .decoder (([4, 5], [5, 4]), ([1, 2, 3], [3, 2, 1]), ([buildOutput, 7], [7, buildOutput])) := by
  decide +kernel

example : (runState true demoConfig State.init [.mkC2Http .aesHmac, .mkProfile]).decoders.length = 1 := by
  decide +kernel

/-- The code before 9ab9399 (`self.tsteps = steps`) VIOLATES the invariant: after one `C2Http(cfg)` the cached
`SETTING_C2_RECOVER` list has grown by `("BUILD","output")`. -/
theorem aliasing_variant_violates :
    snapshot demoConfig (runState false demoConfig State.init [.mkC2Http .aesHmac]) ≠ snapshot demoConfig State.init := by
  decide +kernel

/-- … so a second decoder differs from the first (history dependence of the old code). -/
theorem aliasing_variant_history_dependent :
    obs false demoConfig (runState false demoConfig State.init [.mkC2Http .aesHmac]) (.mkC2Http .aesHmac) ≠
    obs false demoConfig State.init (.mkC2Http .aesHmac) := by
  decide +kernel

/-- … and its decoders share list objects with the configuration. -/
theorem aliasing_variant_shares_cells :
    aliased (runState false demoConfig State.init [.mkC2Http .aesHmac]) = true := by
  decide +kernel

end C14

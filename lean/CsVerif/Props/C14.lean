import CsVerif.Lemmas.C14
/-! C14 property theorems: a parsed beacon configuration is an immutable value.

`runState true c State.init ops` is the state of one configuration object after the history `ops` executed by the
code as it is (`copies = true`: `HttpDataTransform.__init__` copies the step list it is given); `copies = false` is the
code before commit 9ab9399, for which the invariant is shown to fail. -/
namespace C14

/-- No history of uses changes the deep snapshot of the four views. -/
theorem config_invariant (c : Config) (ops : List Op) :
    snapshot c (runState true c State.init ops) = snapshot c State.init := by
  rw [snapshot_of_inv (reachable_inv c ops), snapshot_of_inv (Inv.init c)]

/-- The same, between any two points of a history. -/
theorem config_invariant_step (c : Config) (pre : List Op) (op : Op) :
    snapshot c (step true c (runState true c State.init pre) op).1 = snapshot c (runState true c State.init pre) := by
  rw [snapshot_of_inv (step_spec (reachable_inv c pre) op).1, snapshot_of_inv (reachable_inv c pre)]

/-- Every operation that does not name an earlier decoder returns (deep contents, exceptions included) the same
after any prefix as on a fresh configuration. -/
theorem history_independent (c : Config) (pre : List Op) (op : Op) (h : op.decoderFree = true) :
    obs true c (runState true c State.init pre) op = obs true c State.init op := by
  have hw := isWire_of_decoderFree op h
  rw [(step_spec (reachable_inv c pre) op).2.1 hw, (step_spec (Inv.init c) op).2.1 hw,
    specObs_decoderFree c _ op h, specObs_decoderFree c (State.init.decoders.length) op h]

/-- The step lists a decoder built at any point of a history uses in `transform` / `recover` are those of a decoder
built (with any key material) from a fresh configuration. -/
theorem history_independent_decoder (c : Config) (pre : List Op) (d : Nat) (w : Which) (rc : Bool)
    (k : KeyVariant) (hk : k ≠ .noKey)
    (hd : d < (runState true c State.init pre).decoders.length) :
    obs true c (runState true c State.init pre) (if rc then .recover d w else .transform d w) =
    obs true c (step true c State.init (.mkC2Http k)).1 (if rc then .recover 0 w else .transform 0 w) := by
  have hi := reachable_inv c pre
  obtain ⟨dd, hdd, -⟩ := hi.decs _ (List.getElem_mem hd)
  obtain ⟨hi1, hout⟩ := c2http_spec (Inv.init c) k (initKeyState k) hk
  have hs1 : (step true c State.init (.mkC2Http k)).1 = (c2http true c State.init k (initKeyState k)).1 := by
    simp only [step]; split <;> simp_all
  have hlen : 0 < (c2http true c State.init k (initKeyState k)).1.decoders.length := by
    unfold C2Outcome at hout
    split at hout
    · obtain ⟨_, _, _, e3, _⟩ := hout
      rw [e3]; simp
    · obtain ⟨x, e1, _, _⟩ := hout
      rw [hdd] at e1; cases e1
  have hL : ∀ op, op.isWire = false → obs true c (runState true c State.init pre) op =
      specObs c (runState true c State.init pre).decoders.length op := fun op => (step_spec hi op).2.1
  have hR : ∀ op, op.isWire = false → obs true c (c2http true c State.init k (initKeyState k)).1 op =
      specObs c (c2http true c State.init k (initKeyState k)).1.decoders.length op := fun op => (step_spec hi1 op).2.1
  rw [hs1, hL _ (by cases rc <;> rfl), hR _ (by cases rc <;> rfl)]
  cases rc <;> simp [specObs, specSteps, hd, hlen]

/-- Item assignment / deletion on a view or on a `settings_map` result raises TypeError and leaves the
configuration as it was. -/
theorem mapping_rejects_mutation (c : Config) (pre : List Op) (t : MutTarget) :
    (step true c (runState true c State.init pre) (.mutateAttempt t)).2 = .exc .typeError ∧
    snapshot c (step true c (runState true c State.init pre) (.mutateAttempt t)).1 =
      snapshot c (runState true c State.init pre) :=
  ⟨(step_mutate (reachable_inv c pre) t).2.1, config_invariant_step c pre _⟩

/-- Decoders, clients, profiles and uncached `settings_map` results never share a list object with the cached
views of the configuration. -/
theorem views_alias_free (c : Config) (ops : List Op) :
    ∀ a ∈ extRefs (runState true c State.init ops), a ∉ cfgRefs (runState true c State.init ops) :=
  (reachable_inv c ops).sep

theorem views_alias_free_bool (c : Config) (ops : List Op) :
    aliased (runState true c State.init ops) = false := by
  have h := views_alias_free c ops
  unfold aliased
  rw [Bool.eq_false_iff]
  intro hany
  rw [List.any_eq_true] at hany
  obtain ⟨a, ha, hc⟩ := hany
  exact h a ha (by simpa using hc)

/-- Two different cached views (e.g. `settings` and `settings_by_index`) hold different list objects. -/
theorem cached_views_disjoint (c : Config) (ops : List Op) (v v' : View) (m m' : Mapping) (hne : v ≠ v')
    (h1 : (runState true c State.init ops).getCache v = some m)
    (h2 : (runState true c State.init ops).getCache v' = some m') :
    ∀ a ∈ refsOf m, a ∉ refsOf m' :=
  (reachable_inv c ops).disj v v' m m' hne h1 h2

/-- Every result is a function of the immutable settings tuple alone (`specObs` never looks at the heap). -/
theorem results_determined_by_config (c : Config) (pre : List Op) (op : Op) (hw : op.isWire = false) :
    obs true c (runState true c State.init pre) op =
      specObs c (runState true c State.init pre).decoders.length op :=
  (step_spec (reachable_inv c pre) op).2.1 hw

/-! ### traffic recovery (`iter_recover_http`): decoders built from one configuration are independent -/

/-- The result of `iter_recover_http` on decoder `d` is a function of `d`'s own key state (private key, session keys,
own metadata cache) — of nothing else in the state. -/
theorem wire_result_local (c : Config) (s : State) (d : Nat) (w : Wire) :
    obs true c s (.recoverWire d w) =
      match s.decoders[d]? with
      | none => .noDecoder
      | some dec => match wireRes dec.ks w with
        | .inl ps => .packets ps
        | .inr e => .exc e :=
  wire_spec c s d w

/-- From any point of a history on, the key state of an existing decoder `j` is the fold of ITS OWN
`iter_recover_http` calls: constructing other decoders, recovering traffic with them, view accesses, profiles, …
do not touch it. -/
theorem decoders_independent (c : Config) (pre ops : List Op) (j : Nat)
    (hj : j < (runState true c State.init pre).decoders.length) :
    ((runState true c (runState true c State.init pre) ops).decoders[j]?).map Decoder.ks =
      ((runState true c State.init pre).decoders[j]?).map (fun d => (ownWires j ops).foldl wireStep d.ks) :=
  run_ks ops (reachable_inv c pre) j hj

/-- Hence what decoder `j` (built with key variant `k` after ANY prefix) returns for a recorded message depends only on
`k` and on the messages recovered with `j` itself — the same as on a fresh configuration. -/
theorem wire_history_independent (c : Config) (pre ops : List Op) (k : KeyVariant) (hk : k ≠ .noKey) (w : Wire)
    (hsucc : (step true c (runState true c State.init pre) (.mkC2Http k)).1.decoders.length =
      (runState true c State.init pre).decoders.length + 1) :
    obs true c (runState true c (step true c (runState true c State.init pre) (.mkC2Http k)).1 ops)
        (.recoverWire (runState true c State.init pre).decoders.length w) =
      match wireRes ((ownWires (runState true c State.init pre).decoders.length ops).foldl wireStep (initKeyState k)) w with
      | .inl ps => .packets ps
      | .inr e => .exc e := by
  have hi := reachable_inv c pre
  generalize runState true c State.init pre = s0 at *
  obtain ⟨hi1, hout⟩ := c2http_spec hi k (initKeyState k) hk
  have hs1 : (step true c s0 (.mkC2Http k)).1 = (c2http true c s0 k (initKeyState k)).1 := by
    simp only [step]; split <;> simp_all
  rw [hs1] at hsucc ⊢
  unfold C2Outcome at hout
  split at hout
  · obtain ⟨_, _, _, e3, e4⟩ := hout
    rename_i d _
    have hj : s0.decoders.length < (c2http true c s0 k (initKeyState k)).1.decoders.length := by
      rw [hsucc]; exact Nat.lt_succ_self _
    have hks := run_ks ops hi1 s0.decoders.length hj
    rw [e3] at hks
    simp only [List.getElem?_append_right (Nat.le_refl _), Nat.sub_self, List.getElem?_cons_zero,
      Option.map_some, e4] at hks
    rw [wire_spec]
    show (match (runState true c (c2http true c s0 k (initKeyState k)).1 ops).decoders[s0.decoders.length]? with
      | none => DRes.noDecoder
      | some dec => match wireRes dec.ks w with
        | .inl ps => .packets ps
        | .inr e => .exc e) = _
    cases hd : (runState true c (c2http true c s0 k (initKeyState k)).1 ops).decoders[s0.decoders.length]? with
    | none => rw [hd] at hks; cases hks
    | some dec =>
      rw [hd] at hks
      simp only [Option.map_some, Option.some.injEq] at hks
      dsimp only
      rw [hks]
  · obtain ⟨x, _, _, e3⟩ := hout
    rw [e3] at hsucc
    exact absurd hsucc (by omega)

/-- The seeded variant (the metadata cache hung on the configuration object and shared by all decoders built from
it) is NOT independent: decoder 1 (RSA key only) recovering the check-in after decoder 0 did hits the shared cache,
never derives the session keys, and fails on the task. -/
def runSharedCache : Bool → List KeyState → List (Nat × Wire) → List (List Nat ⊕ PyExc)
  | _, _, [] => []
  | cache, ds, (j, w) :: rest =>
    match ds[j]? with
    | none => runSharedCache cache ds rest
    | some ks =>
      let ks' := wireStep { ks with cached := cache } w     -- the decoder sees the shared cache
      wireRes ks w :: runSharedCache (cache || (w == .checkin && ks.hasPriv)) (ds.set j { ks' with cached := false }) rest

theorem shared_cache_variant_history_dependent :
    runSharedCache false [initKeyState .rsaPriv, initKeyState .rsaPriv] [(0, .checkin), (1, .checkin), (1, .task)] =
      [.inl [1], .inl [1], .inr .valueError] ∧
    wireRes ([Wire.checkin].foldl wireStep (initKeyState .rsaPriv)) .task = .inl [2] := by
  decide +kernel

/-- The setting names the constructors look up exist in the `BeaconSetting` enum of the tree (generated table). -/
theorem used_names_resolve :
    (["SETTING_SUBMITURI", "SETTING_C2_VERB_POST", "SETTING_C2_VERB_GET", "SETTING_C2_POSTREQ", "SETTING_C2_REQUEST",
      "SETTING_C2_RECOVER", "SETTING_SLEEPTIME", "SETTING_JITTER", "SETTING_USERAGENT", "SETTING_HOST_HEADER",
      "SETTING_DOMAINS"].all (fun n => (nameConst n).isSome)) = true := by
  decide +kernel

/-! ### non-vacuity and the repaired defect -/

/-- a small HTTP configuration: SUBMITURI, verbs, and the three transform programs (ids are interned steps) -/
def demoConfig : Config :=
  { tuple :=
      [⟨10, 10, 10, 100, 100, .scalar 101⟩, ⟨26, 26, 26, 102, 102, .scalar 103⟩, ⟨27, 27, 27, 104, 104, .scalar 105⟩,
       ⟨11, 11, 11, 106, 106, .list [7]⟩, ⟨12, 12, 12, 107, 107, .list [1, 2, 3]⟩, ⟨13, 13, 13, 108, 108, .list [4, 5]⟩],
    pubkeyOk := true, trial := false, protoHttp := true, hasDomains := true }

/-- on `demoConfig` decoder construction succeeds: the theorems are not only about exception paths -/
example : obs true demoConfig State.init (.mkC2Http .aesHmac) =
    .decoder (([4, 5], [5, 4]), ([1, 2, 3], [3, 2, 1]), ([buildOutput, 7], [7, buildOutput])) := by
  decide +kernel

example : (runState true demoConfig State.init [.mkC2Http .aesHmac, .mkProfile]).decoders.length = 1 := by
  decide +kernel

/-- The code before 9ab9399 (`self.tsteps = steps`) VIOLATES the invariant: after one `C2Http(cfg)` the cached
`SETTING_C2_RECOVER` list has grown by `("BUILD","output")`. -/
theorem aliasing_variant_violates :
    snapshot demoConfig (runState false demoConfig State.init [.mkC2Http .aesHmac]) ≠ snapshot demoConfig State.init := by
  decide +kernel

/-- … so a second decoder differs from the first (history dependence of the old code). -/
theorem aliasing_variant_history_dependent :
    obs false demoConfig (runState false demoConfig State.init [.mkC2Http .aesHmac]) (.mkC2Http .aesHmac) ≠
    obs false demoConfig State.init (.mkC2Http .aesHmac) := by
  decide +kernel

/-- … and its decoders share list objects with the configuration. -/
theorem aliasing_variant_shares_cells :
    aliased (runState false demoConfig State.init [.mkC2Http .aesHmac]) = true := by
  decide +kernel

end C14

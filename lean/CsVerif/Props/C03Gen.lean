import CsVerif.Gen.PyBeacon
import CsVerif.Props.C03
import CsVerif.Lemmas.C03Gen
/-! C03 — the tie between the source text and the model, by (untyped) translation. -/
namespace C03Gen
open PyU

example : Gen.PyBeacon.parse_pivot_frame (.bytes [0, 6, 65, 66, 67]) = .ok (.bytes [65, 66]) := by decide

end C03Gen

import CsVerif.Gen.PyBeacon
import CsVerif.Props.C03
import CsVerif.Lemmas.C03Gen
/-!
C03 — the tie between the source text and the model, by (untyped) translation.

`Gen/PyBeacon.lean` is produced on every run by `tools/py2leanu.py` from the *source* of `beacon.null_terminated_bytes`,
`null_terminated_str`, `parse_pivot_frame`, `parse_process_injection_transform_steps`, `parse_gargle`,
`parse_recover_binary`, `parse_transform_binary` and `parse_execute_list`: every Python value is a `PyU.V`, every Python
operation one total function of `lean/CsVerif/Model/PyU.lean`, every `while` loop a `PyU.whileFuel` over a separate
loop-body definition.  The theorems below state that each translated definition computes, for every `bytes` argument
(and every fuel above the length of the argument), exactly the encoding (`enc*`, Lemmas/C03Gen.lean) of what the
hand-written model of `Model/C03.lean` computes — including the raising branches of `parse_execute_list`.  So every
theorem of `Props/C03.lean` about these decoders is a theorem about the function text as it stands now, and an edit of
one of these functions that changes its meaning breaks the corresponding proof here.  Helper lemmas: `Lemmas/C03Gen.lean`.
-/
namespace C03Gen
open PyU

/-! ### strings and frames (no loops) -/

/-- `null_terminated_bytes(data)` = the bytes before the first NUL -/
theorem gen_null_terminated_bytes (data : Bytes) :
    Gen.PyBeacon.null_terminated_bytes (.bytes data) = .ok (.bytes (C03.nullTerminatedBytes data)) :=
  gen_null_terminated_bytes_proof data

/-- `null_terminated_str(data)`: the same bytes as a latin-1 `str` (one code point per byte) -/
theorem gen_null_terminated_str (data : Bytes) :
    Gen.PyBeacon.null_terminated_str (.bytes data) = .ok (encLatin (C03.nullTerminatedStr data)) :=
  gen_null_terminated_str_proof data

theorem gen_parse_pivot_frame (data : Bytes) :
    Gen.PyBeacon.parse_pivot_frame (.bytes data) = .ok (.bytes (C03.parsePivot data)) :=
  gen_parse_pivot_frame_proof data

/-- a list of `(name, bytes)` tuples -/
theorem gen_parse_process_injection_transform_steps (data : Bytes) :
    Gen.PyBeacon.parse_process_injection_transform_steps (.bytes data)
      = .ok (.list ((C03.parseInjTransform data).map encInj)) :=
  gen_parse_process_injection_transform_steps_proof data

/-! ### the `while True:` decoders: for every fuel above the length of the input -/

/-- a list of `str` -/
theorem gen_parse_gargle (fuel : Nat) (data : Bytes) (h : data.length < fuel) :
    Gen.PyBeacon.parse_gargle fuel (.bytes data) = .ok (.list ((C03.parseGargle data).map lit)) :=
  gen_parse_gargle_proof fuel data h

/-- a list of `(name, int | True)` tuples; unknown steps (logged by the source) contribute nothing -/
theorem gen_parse_recover_binary (fuel : Nat) (data : Bytes) (h : data.length < fuel) :
    Gen.PyBeacon.parse_recover_binary fuel (.bytes data) = .ok (.list ((C03.parseRecover data).map encROut)) :=
  gen_parse_recover_binary_proof fuel data h

/-- a list of `(name | None, str | True | bytes)` tuples, for every `build` string; never raises (the `IndexError` branch of
the source is dead) -/
theorem gen_parse_transform_binary (fuel : Nat) (data : Bytes) (build : String) (h : data.length < fuel) :
    Gen.PyBeacon.parse_transform_binary fuel (.bytes data) (lit build)
      = .ok (.list ((C03.parseTransform build data).map encTOut)) :=
  gen_parse_transform_binary_proof fuel data build h

/-- the call without `build` (as registered for `SETTING_C2_REQUEST`): the default in the source is `"metadata"` -/
theorem gen_parse_transform_binary_default (fuel : Nat) (data : Bytes) (h : data.length < fuel) :
    Gen.PyBeacon.parse_transform_binary_default1 fuel (.bytes data)
      = .ok (.list ((C03.parseTransform "metadata" data).map encTOut)) := by
  unfold Gen.PyBeacon.parse_transform_binary_default1
  exact gen_parse_transform_binary fuel data "metadata" h

/-- a list of `str | None`, or the model's exception (UnicodeDecodeError ⊂ ValueError from `bytes.decode()`,
AttributeError from `None.rstrip` for an undefined opcode) -/
theorem gen_parse_execute_list (fuel : Nat) (data : Bytes) (h : data.length < fuel) :
    Gen.PyBeacon.parse_execute_list fuel (.bytes data)
      = (C03.parseExecute data).map fun l => .list (l.map encEx) :=
  gen_parse_execute_list_proof fuel data h

/-! ### arguments that are not `bytes`: `io.BytesIO(None)` is an empty stream, so `None` decodes like `b""` -/

theorem gen_none_argument (fuel : Nat) :
    Gen.PyBeacon.parse_pivot_frame .none = Gen.PyBeacon.parse_pivot_frame (.bytes []) ∧
    Gen.PyBeacon.parse_process_injection_transform_steps .none
      = Gen.PyBeacon.parse_process_injection_transform_steps (.bytes []) ∧
    Gen.PyBeacon.parse_gargle fuel .none = Gen.PyBeacon.parse_gargle fuel (.bytes []) ∧
    Gen.PyBeacon.parse_recover_binary fuel .none = Gen.PyBeacon.parse_recover_binary fuel (.bytes []) ∧
    (∀ build, Gen.PyBeacon.parse_transform_binary fuel .none build
      = Gen.PyBeacon.parse_transform_binary fuel (.bytes []) build) ∧
    Gen.PyBeacon.parse_execute_list fuel .none = Gen.PyBeacon.parse_execute_list fuel (.bytes []) :=
  ⟨rfl, rfl, rfl, rfl, fun _ => rfl, rfl⟩

/-! ### Non-vacuity: the translated definitions evaluated on concrete inputs -/

example : Gen.PyBeacon.null_terminated_bytes (.bytes [72, 105, 0, 0, 66]) = .ok (.bytes [72, 105]) := by decide
example : Gen.PyBeacon.null_terminated_str (.bytes [72, 255, 0, 66]) = .ok (.str [72, 255]) := by decide
example : Gen.PyBeacon.null_terminated_bytes .none = .error .attributeError := by decide
example : Gen.PyBeacon.parse_pivot_frame (.bytes [0, 6, 65, 66, 67]) = .ok (.bytes [65, 66]) := by decide
example : Gen.PyBeacon.parse_pivot_frame (.bytes [0, 3, 65, 66, 67]) = .ok (.bytes [65, 66, 67]) := by decide
example : Gen.PyBeacon.parse_pivot_frame (.int 5) = .error .typeError := by decide
example : Gen.PyBeacon.parse_process_injection_transform_steps (.bytes [0, 0, 0, 1, 144, 0, 0, 0, 2, 65, 66])
    = .ok (.list [.tuple [lit "append", .bytes [144]], .tuple [lit "prepend", .bytes [65, 66]]]) := by decide
example : Gen.PyBeacon.parse_gargle 10 (.bytes [1, 0, 0, 0, 255, 0, 0, 0]) = .ok (.list [lit "0x1-0xff"]) := by decide +kernel
example : Gen.PyBeacon.parse_gargle 2 (.bytes [1, 0, 0, 0, 2, 0, 0, 0, 3, 0, 0, 0, 4, 0, 0, 0]) = .error .timeoutDiverge := by
  decide +kernel
example : Gen.PyBeacon.parse_recover_binary 20 (.bytes [0, 0, 0, 1, 0, 0, 1, 0, 0, 0, 0, 3, 0, 0, 0, 99, 0, 0, 0, 0, 7])
    = .ok (.list [.tuple [lit "append", .int 256], .tuple [lit "base64", .bool true]]) := by decide +kernel
example : Gen.PyBeacon.parse_transform_binary 20 (.bytes [0, 0, 0, 7, 0, 0, 0, 0, 0, 0, 0, 3, 0, 0, 0, 1, 0, 0, 0, 1, 65])
      (lit "metadata")
    = .ok (.list [.tuple [lit "BUILD", lit "metadata"], .tuple [lit "BASE64", .bool true],
        .tuple [lit "APPEND", .bytes [65]]]) := by decide +kernel
example : Gen.PyBeacon.parse_execute_list 30 (.bytes [1, 6, 0, 33, 0, 0, 0, 2, 109, 0, 0, 0, 0, 1, 102, 9])
    = .ok (.list [lit "CreateThread", lit "CreateThread \"m!f+0x21\"", .none]) := by decide +kernel
example : Gen.PyBeacon.parse_execute_list 30 (.bytes [7, 0, 0, 0, 0, 0, 1, 255, 0, 0, 0, 0]) = .error .valueError := by decide +kernel
example : Gen.PyBeacon.parse_execute_list 30 (.bytes [9, 6, 0]) = .ok (.list [.none, lit "CreateThread \"!\""]) := by decide +kernel

end C03Gen

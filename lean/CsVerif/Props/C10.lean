import CsVerif.Lemmas.C10U
/-! C10 property theorems: regenerated profile text preserves every token of the parsed profile. -/
namespace C10
open Grammar (Item Form)

set_option maxRecDepth 100000

/-! ### Obligations on the table generated from the grammar as it is now (`decide +kernel`) -/

/-- `forms[i].id = i` -/
theorem gen_idsOK : IdsOK gen = true := by decide +kernel

/-- greedy matching is deterministic for every form, and two forms with the same tree label either print the
same keywords/punctuation or can never match the same children -/
theorem gen_printWF : PrintWF gen = true := by decide +kernel

/-- inside one rule, alternatives that build the same tree label are written with the same keywords
(every statement form is printed under its own keyword) -/
theorem gen_aliasesDistinctPerKeyword : AliasesDistinctPerKeyword gen = true := by decide +kernel

/-- every alternative of a `?rule` has an alias, so the `?` never inlines anything -/
theorem gen_expand1Aliased : Expand1Aliased gen Grammar.expand1 = true := by decide +kernel

/-- no keyword / option word contains a blank, a line feed, or a `;` (other than `;` itself) -/
theorem gen_kwClean : KwClean gen.words = true := by decide +kernel

/-- the only keyword that does not lex back to itself is `#` (it starts a comment) -/
theorem gen_unlexable_keywords : gen.keywords.filter (fun k => !lexableTok gen.words k) = [[35]] := by
  decide +kernel

/-- within one rule the alternatives are distinguishable by keyword prefix + one token of lookahead, and every
repetition / option is decided on one token (token classes compared by identity) -/
theorem gen_parseWF : ParseWF gen = true := by decide +kernel

/-- the same with token classes compared by the texts they accept (`spawnto_x86`, `pipename`, … are keywords inside
`post-ex` / `dns-beacon` AND words of the terminal OPTION): keywords are pairwise different, and wherever one token
decides, no text fits both sides -/
theorem gen_parseWFT : ParseWFT gen = true := by decide +kernel

/-- the grammar is not recursive; the nesting budget of the model parser covers it -/
theorem gen_depthOK : DepthOK gen = true := by decide +kernel

/-- every statement and block ends with `;` or `}`: `postproc` never drops a trailing partial line -/
theorem gen_terminatedWF : TerminatedWF gen = true := by decide +kernel

/-- Every tree label is the lower-cased keyword of its statement (`-` → `_`), except for this pinned list:
`set OPTION …` → `option`, the certificate fields, the two `…Thread "x";` forms and the `# dns_resolver` comment.
(A swapped or misspelt alias — `"set" "module_x64" … -> module_x86` — shows up here.) -/
theorem gen_labelNaming : namingExceptions gen =
    [([], [111, 112, 116, 105, 111, 110]),
     ([[67]], [99, 111, 117, 110, 116, 114, 121]),
     ([[67, 78]], [99, 111, 109, 109, 111, 110, 95, 110, 97, 109, 101]),
     ([[76]], [108, 111, 99, 97, 108, 105, 116, 121]),
     ([[79, 85]], [111, 114, 103, 95, 117, 110, 105, 116]),
     ([[79]], [111, 114, 103]),
     ([[83, 84]], [115, 116, 97, 116, 101]),
     ([[67, 114, 101, 97, 116, 101, 84, 104, 114, 101, 97, 100]],
      [99, 114, 101, 97, 116, 101, 116, 104, 114, 101, 97, 100, 95, 115, 112, 101, 99, 105, 97, 108]),
     ([[67, 114, 101, 97, 116, 101, 82, 101, 109, 111, 116, 101, 84, 104, 114, 101, 97, 100]],
      [99, 114, 101, 97, 116, 101, 114, 101, 109, 111, 116, 101, 116, 104, 114, 101, 97, 100, 95, 115, 112, 101,
       99, 105, 97, 108]),
     ([[100, 110, 115, 95, 114, 101, 115, 111, 108, 118, 101, 114]],
      [99, 111, 109, 109, 101, 110, 116, 95, 100, 110, 115, 95, 114, 101, 115, 111, 108, 118, 101, 114])] := by
  decide +kernel

/-- the lexer model was written for exactly these regular expressions -/
theorem gen_stringPattern : Grammar.stringPattern = "\"(.|\n)*?(?<!\\\\)(\\\\\\\\)*?\"" := by decide

theorem gen_ignored :
    Grammar.ignored = [("WS", "(?:[ \t\x0c\r\n])+"), ("SH_COMMENT", "#[^\n]*"), ("NEWLINE", "(?:(?:\r)?\n)+")] := by
  decide

/-! ### The Reconstructor prints the source tokens -/

/-- Central theorem: for any table satisfying `PrintWF` and any derivation of it, printing the Lark tree of the
derivation gives back exactly the token sequence the derivation was parsed from. -/
theorem print_eq_source (G : Table) (h : PrintWF G = true) (d : Deriv) (hd : d.WF G = true) :
    printTree G (toTree d) = some d.yield := by
  unfold Deriv.WF at hd
  simp only [Bool.and_eq_true] at hd
  unfold printTree toTree Deriv.yield
  simp only [printKids_parts G h hd.2]
  exact printNode_self G h hd.1 hd.2

/-- The same without committing to the matcher's strategy: whichever production with the right label and
whichever split of the children Lark's Earley-based tree matcher chooses, at every node, the output is the
token sequence of the source. -/
theorem print_any_choice (G : Table) (h : PrintWF G = true) (d : Deriv) (hd : d.WF G = true)
    (out : List Tok) (hr : ReconsTree G (toTree d) out) : out = d.yield := by
  unfold Deriv.WF at hd
  simp only [Bool.and_eq_true] at hd
  obtain ⟨ko, g, hk, hg, hl, hw⟩ := hr
  have e := recons_parts G h hd.2 hk
  subst e
  exact weaves_any_form G h hd.1 hd.2 hg hl hw

/-- for the grammar as it is now -/
theorem print_eq_source_gen (d : Deriv) (hd : d.WF gen = true) : printTree gen (toTree d) = some d.yield :=
  print_eq_source gen gen_printWF d hd

/-! ### The whitespace post-processor keeps the tokens -/

/-- `Reconstructor.reconstruct` never inserts a blank of its own into `postproc`'s output -/
theorem join_eq_concat (idc : Nat → Bool) (h : IdcOK idc) (ts : List Text) :
    joinItems idc (postproc ts) = (postproc ts).flatten :=
  joinItems_postproc h ts

/-- Lexing the text produced by `as_text`'s post-processor gives the item list back, for item lists made of
lexable tokens (well-formed STRING literals, keywords/options other than `#`) that end with `;`, `{` or `}`. -/
theorem postproc_tokens (kws : List Text) (hk : KwClean kws = true) (idc : Nat → Bool) (hi : IdcOK idc)
    (ts : List Text) (hl : ∀ t ∈ ts, lexableTok kws t = true) (ht : terminated ts = true) :
    lexProfile kws (joinItems idc (postproc ts)) = some ts := by
  rw [joinItems_postproc hi]
  exact lex_postproc hk ts hl ht

/-- `as_text` re-lexes to the source tokens. -/
theorem as_text_relex (G : Table) (h : PrintWF G = true) (hk : KwClean G.words = true)
    (idc : Nat → Bool) (hi : IdcOK idc) (d : Deriv) (hd : d.WF G = true)
    (hl : ∀ t ∈ d.yield, lexableTok G.words (G.tokText t) = true)
    (ht : terminated (d.yield.map G.tokText) = true) :
    (asText G idc (toTree d)).bind (lexProfile G.words) = some (d.yield.map G.tokText) := by
  unfold asText asTextOf
  rw [print_eq_source G h d hd]
  simp only [Option.map_some, Option.bind_some]
  exact postproc_tokens G.words hk idc hi _ (by simpa using hl) ht

/-! ### `from_text` (model parser) and the round trip on text -/

/-- The model parser only returns well-formed derivations from the start symbol whose yield is the token list it
was given (soundness; ordered choice and greedy repetition cannot invent or lose tokens). -/
theorem parse_sound (G : Table) (hi : IdsOK G = true) (toks : List Text) (d : Deriv)
    (h : parseToks G toks = .ok d) :
    d.WF G = true ∧ d.form.origin = G.start ∧ d.yield.map G.tokText = toks :=
  parseToks_sound G hi h

/-- Round trip on text, inside the model: if the source parses to `d`, then the text regenerated from the tree
of `d` lexes to exactly the tokens of the source (comments and white space aside). -/
theorem roundtrip_tokens (G : Table) (hp : PrintWF G = true) (hi : IdsOK G = true)
    (hk : KwClean G.words = true) (ht : TerminatedWF G = true) (idc : Nat → Bool) (hc : IdcOK idc)
    (src : Text) (d : Deriv) (h : parseText G src = .ok d) :
    (asText G idc (toTree d)).bind (lexProfile G.words) = lexProfile G.words src := by
  unfold parseText at h
  split at h
  · cases h
  · rename_i toks hlex
    obtain ⟨hwf, hstart, hy⟩ := parseToks_sound G hi h
    have hy' : d.yield.map G.tokText = toks := hy
    rw [hlex, ← hy']
    refine as_text_relex G hp hk idc hc d hwf ?_ (yield_terminated G ht hwf hstart)
    intro t htm
    have : G.tokText t ∈ toks := by rw [← hy']; exact List.mem_map_of_mem htm
    exact lex_lexable' G.words hlex _ this

/-- for the grammar as it is now -/
theorem roundtrip_tokens_gen (idc : Nat → Bool) (hc : IdcOK idc) (src : Text) (d : Deriv)
    (h : parseText gen src = .ok d) :
    (asText gen idc (toTree d)).bind (lexProfile gen.words) = lexProfile gen.words src :=
  roundtrip_tokens gen gen_printWF gen_idsOK gen_kwClean gen_terminatedWF idc hc src d h

/-- Second half of the property, inside the model: the regenerated text exists and parses back to the very same
derivation, hence to an identical tree.  (The model parser is a function of the token list, and the token list is
preserved by `roundtrip_tokens`.) -/
theorem reparse_same_tree (G : Table) (hp : PrintWF G = true) (hi : IdsOK G = true)
    (hk : KwClean G.words = true) (ht : TerminatedWF G = true) (idc : Nat → Bool) (hc : IdcOK idc)
    (src : Text) (d : Deriv) (h : parseText G src = .ok d) :
    ∃ text, asText G idc (toTree d) = some text ∧ parseText G text = .ok d := by
  have hrt := roundtrip_tokens G hp hi hk ht idc hc src d h
  have hwf : d.WF G = true := by
    unfold parseText at h
    split at h
    · cases h
    · exact (parseToks_sound G hi h).1
  have hprint := print_eq_source G hp d hwf
  refine ⟨asTextOf G idc d.yield, by simp [asText, hprint], ?_⟩
  simp only [asText, hprint, Option.map_some, Option.bind_some] at hrt
  unfold parseText at h ⊢
  rw [hrt]
  exact h

/-- The specification has no memory: whatever was parsed, printed or edited before (`pre`, starting from any
object state `st`), the answer to `from_text(src)` is the answer it has on its own — in particular it depends on
every character of `src`, white space inside literals and the line feed ending a comment included.  (True by
construction of the model; stated because the implementation is compared against it step by step in the
harness stream `hist`.) -/
theorem parse_history_independent (G : Table) (st : Option Tree) (pre : List HStep) (src : Text) :
    (runHistory G st (pre ++ [HStep.parse src])).getLast? = (runHistory G none [HStep.parse src]).getLast? := by
  rw [runHistory_append]
  have h : ∀ s : Option Tree, runHistory G s [HStep.parse src] = [(hstep G none (HStep.parse src)).2] := by
    intro s
    simp only [runHistory, hstep]
    cases parseText G src <;> rfl
  rw [h, h, List.getLast?_append]
  simp

/-! ### A sentence has one tree; the model parser finds it -/

/-- Derivations are determined by their sentence: under `ParseWF`, two well-formed derivations of the same
nonterminal with the same token sequence are EQUAL (same forms everywhere, not only the same tree). -/
theorem derivation_unique (G : Table) (hp : ParseWF G = true) (d₁ d₂ : Deriv) (h₁ : d₁.WF G = true)
    (h₂ : d₂.WF G = true) (ho : d₁.form.origin = d₂.form.origin) (hy : d₁.yield = d₂.yield) : d₁ = d₂ :=
  deriv_unique G hp h₁ h₂ ho hy

/-- Unique readability (the design's stretch goal, formerly the open `unique_readability_full`): a token sequence
has at most one tree.  `ParseWF` is the check of Model/C10.lean as it is now; the check as first written was too
weak for this statement, see `parseWF0_too_weak` below.  (`IdsOK` is not needed.) -/
theorem unique_readability (G : Table) (hp : ParseWF G = true) (_hi : IdsOK G = true) (d₁ d₂ : Deriv)
    (h₁ : d₁.WF G = true) (h₂ : d₂.WF G = true) (s₁ : d₁.form.origin = G.start) (s₂ : d₂.form.origin = G.start)
    (hy : d₁.yield = d₂.yield) : toTree d₁ = toTree d₂ := by
  rw [deriv_unique G hp h₁ h₂ (s₁.trans s₂.symm) hy]

/-- for the grammar as it is now: no hypothesis on the table is left -/
theorem unique_readability_gen (d₁ d₂ : Deriv) (h₁ : d₁.WF gen = true) (h₂ : d₂.WF gen = true)
    (s₁ : d₁.form.origin = gen.start) (s₂ : d₂.form.origin = gen.start) (hy : d₁.yield = d₂.yield) :
    toTree d₁ = toTree d₂ :=
  unique_readability gen gen_parseWF gen_idsOK d₁ d₂ h₁ h₂ s₁ s₂ hy

/-- The statement is FALSE for the lookahead check as it was first written (`ParseWF0`, kept in Lemmas/C10U.lean):
three small tables pass it and are ambiguous —
`cex1` (`S → A*`, `A → "a" | "(" S A* ")"`): the start symbol was assumed never to be followed by anything;
`cex2` (`S → B? ";"`, `B → C*`): an optional part that can be empty;
`cex3` (`S → M* ";"`, `M → "m" N*`, `N → "m"`): after one `M` of `M*` another `M` can follow.
The present `ParseWF` rejects all three. -/
theorem parseWF0_ambiguous :
    (ParseWF0 cex1 = true ∧ Ambiguous cex1 cex1_d1 cex1_d2 ∧ ParseWF cex1 = false) ∧
    (ParseWF0 cex2 = true ∧ Ambiguous cex2 cex2_d1 cex2_d2 ∧ ParseWF cex2 = false) ∧
    (ParseWF0 cex3 = true ∧ Ambiguous cex3 cex3_d1 cex3_d2 ∧ ParseWF cex3 = false) := by decide

theorem parseWF0_too_weak :
    ¬ ∀ (G : Table), ParseWF0 G = true → IdsOK G = true → ∀ d₁ d₂ : Deriv, d₁.WF G = true → d₂.WF G = true →
      d₁.form.origin = G.start → d₂.form.origin = G.start → d₁.yield = d₂.yield → toTree d₁ = toTree d₂ := by
  intro h
  obtain ⟨hw, ⟨hi, a1, a2, a3, a4, a5, a6⟩, _⟩ := parseWF0_ambiguous.2.1
  exact a6 (h cex2 hw hi _ _ a1 a2 a3 a4 a5)

/-- Completeness of the model parser: under `ParseWFT` (lookahead on token texts) and `DepthOK` (no recursion), the
token texts of ANY well-formed derivation from the start symbol whose tokens are `tokOK` (keyword ids of the table,
named tokens whose text matches their terminal) parse back to that very derivation — ordered choice never takes a
wrong alternative, greedy repetition stops where the sentence does, the fuel never runs out. -/
theorem parse_complete (G : Table) (hp : ParseWFT G = true) (hi : IdsOK G = true) (hdep : DepthOK G = true)
    (d : Deriv) (hd : d.WF G = true) (hstart : d.form.origin = G.start)
    (hok : ∀ t ∈ d.yield, tokOK G t = true) : parseToks G (d.yield.map G.tokText) = .ok d :=
  parseToks_complete G hp hi hdep hd hstart hok

/-- The model parser computes exactly "the derivation of the token list": it answers `d` iff `d` is a well-formed
derivation from the start symbol with `tokOK` tokens whose texts are the input (and by `parse_complete` /
`derivation_unique` there is at most one such `d`). -/
theorem parse_spec (G : Table) (hp : ParseWFT G = true) (hi : IdsOK G = true) (hdep : DepthOK G = true)
    (toks : List Text) (d : Deriv) :
    parseToks G toks = .ok d ↔
      d.WF G = true ∧ d.form.origin = G.start ∧ (∀ t ∈ d.yield, tokOK G t = true) ∧ d.yield.map G.tokText = toks := by
  constructor
  · intro h
    obtain ⟨h1, h2, h3⟩ := parseToks_sound G hi h
    exact ⟨h1, h2, parseToks_tokOK G h, h3⟩
  · rintro ⟨h1, h2, h3, rfl⟩
    exact parseToks_complete G hp hi hdep h1 h2 h3

/-- for the grammar as it is now -/
theorem parse_complete_gen (d : Deriv) (hd : d.WF gen = true) (hstart : d.form.origin = gen.start)
    (hok : ∀ t ∈ d.yield, tokOK gen t = true) : parseToks gen (d.yield.map gen.tokText) = .ok d :=
  parse_complete gen gen_parseWFT gen_idsOK gen_depthOK d hd hstart hok

/-- The parse-back direction for trees that did NOT come from the parser (builder-made trees, C11): for any
well-formed derivation `d` from the start symbol with `tokOK`, lexable tokens, `as_text` of its tree exists and
`from_text` of that text is `d` again — hence the very same tree. -/
theorem text_of_derivation_parses (G : Table) (hw : PrintWF G = true) (hp : ParseWFT G = true) (hi : IdsOK G = true)
    (hdep : DepthOK G = true) (hk : KwClean G.words = true) (ht : TerminatedWF G = true) (idc : Nat → Bool)
    (hc : IdcOK idc) (d : Deriv) (hd : d.WF G = true) (hstart : d.form.origin = G.start)
    (hok : ∀ t ∈ d.yield, tokOK G t = true) (hl : ∀ t ∈ d.yield, lexableTok G.words (G.tokText t) = true) :
    ∃ text, asText G idc (toTree d) = some text ∧ parseText G text = .ok d := by
  have hrl := as_text_relex G hw hk idc hc d hd hl (yield_terminated G ht hd hstart)
  have hprint := print_eq_source G hw d hd
  refine ⟨asTextOf G idc d.yield, by simp [asText, hprint], ?_⟩
  simp only [asText, hprint, Option.map_some, Option.bind_some] at hrl
  unfold parseText
  rw [hrl]
  exact parseToks_complete G hp hi hdep hd hstart hok

/-- for the grammar as it is now -/
theorem text_of_derivation_parses_gen (idc : Nat → Bool) (hc : IdcOK idc) (d : Deriv) (hd : d.WF gen = true)
    (hstart : d.form.origin = gen.start) (hok : ∀ t ∈ d.yield, tokOK gen t = true)
    (hl : ∀ t ∈ d.yield, lexableTok gen.words (gen.tokText t) = true) :
    ∃ text, asText gen idc (toTree d) = some text ∧ parseText gen text = .ok d :=
  text_of_derivation_parses gen gen_printWF gen_parseWFT gen_idsOK gen_depthOK gen_kwClean gen_terminatedWF idc hc d hd
    hstart hok hl

/-! ### Non-vacuity (stated through the source text, so that it does not depend on how names are interned) -/

/-- `set sleeptime"5";#x` -/
def exampleSrc : Text := [115, 101, 116, 32, 115, 108, 101, 101, 112, 116, 105, 109, 101, 34, 53, 34, 59, 35, 120]

/-- the hypotheses of the theorems above hold for the derivation of `exampleSrc`, and it is not the empty profile -/
def exampleHolds : Bool :=
  match parseText gen exampleSrc with
  | .ok d =>
    d.WF gen && d.form.origin == gen.start && d.yield.length == 4 &&
    d.yield.map gen.tokText == [[115, 101, 116], [115, 108, 101, 101, 112, 116, 105, 109, 101], [34, 53, 34], [59]] &&
    printTree gen (toTree d) == some d.yield &&
    d.yield.all (fun t => lexableTok gen.words (gen.tokText t)) &&
    d.yield.all (fun t => tokOK gen t) &&
    terminated (d.yield.map gen.tokText)
  | _ => false

example : exampleHolds = true := by decide +kernel
example : IdcOK (fun c => c == 95 || (48 ≤ c && c ≤ 57) || (65 ≤ c && c ≤ 90) || (97 ≤ c && c ≤ 122)) :=
  ⟨by decide, by decide, by decide⟩

end C10

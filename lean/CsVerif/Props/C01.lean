import CsVerif.Lemmas.C01
import CsVerif.Model.C08
/-! C01 — Beacon configuration extraction is exact and complete: property theorems.

Model: `Model/C01.lean` (`fromFile` = `BeaconConfig.from_file/from_bytes/from_path`, `iterConfigBlocks`,
`findConfigBytes`, scan loop over a `FileLike`).  Specification: `candidates (views data det) keys` = all
`(view, key, offset)` with `CONFIG_HEADER ⊕ key` occurring at `offset` of `view`, in (view, key priority, file order).
Parameters (see the model): `det` = answer of the XorEncoded detector (C09), `left` = order of the residual keys of the
all-keys retry, `guard` = Guardrails fallback (C17), `B` = `io.DEFAULT_BUFFER_SIZE`.
Section "end to end" discharges the three parameters: `fromFileReal` (what the driver runs) computes them, and
`extract_raw_end_to_end`, `extract_xorencoded_end_to_end`, `extract_none_end_to_end`, `extract_guardrails_end_to_end` have
hypotheses about the bytes of the payload only (C09 `detect_rejects_real` / `detect_correct_real_clean`, C17
`scan_reports_iff` / `recover_from_file_partial`); `fromFile_C08_factors` ties C08's composition to the same function. -/
namespace C01
open Gen.Extract

/-! ### generated constants are the ones the property text names -/

/-- default keys `0x69, 0x2e, 0x00` in this order, 4096-byte blocks, header `00 01 00 01 00 02 00` -/
theorem constants :
    defaultXorKeys = [[0x69], [0x2e], [0x00]] ∧ patchSize = 4096 ∧ configHeader = [0, 1, 0, 1, 0, 2, 0] := by
  decide

/-- the only fact about the detector's answer the theorems use: a view at nonce offset `c` has its 8 header bytes
inside the file (true for every successful detection: the MZ check needs 64 decoded bytes) -/
def DetOk (data : Bytes) (det : Option Nat) : Prop := ∀ c, det = some c → c + 8 ≤ data.length

/-! ### what a candidate is -/

/-- `i` is listed for `key` in `plain` iff the 7 bytes at `i` are `CONFIG_HEADER ⊕ key` (key tiled, all-zero or empty
key = identity) -/
theorem occK_iff (plain key : Bytes) (i : Nat) :
    i ∈ occK plain key ↔
      i + configHeader.length ≤ plain.length ∧ (plain.drop i).take configHeader.length = C20.xor configHeader key := by
  unfold occK
  rw [C15.occ_iff, C20.xor_length]

/-- the candidates are exactly: view ∈ {decoded view (when detected), file}, key ∈ tried keys, header ⊕ key at offset -/
theorem candidate_iff (data : Bytes) (det : Option Nat) (keys : List Bytes) (c : Cand) :
    c ∈ candidates (views data det) keys ↔
      ((c.xorencoded = true ∧ ∃ n, det = some n ∧ c.plain = decodedView data n) ∨
       (c.xorencoded = false ∧ c.plain = data)) ∧
      c.key ∈ keys ∧ c.offset ∈ occK c.plain c.key :=
  mem_candidates

/-- the head of the candidate list is the least candidate: decoded view before the file itself, then the key that comes
first in the key list, then the smallest offset -/
theorem first_is_least (data : Bytes) (det : Option Nat) (keys : List Bytes) (c : Cand)
    (h : (candidates (views data det) keys).head? = some c) :
    c ∈ candidates (views data det) keys ∧
    ∀ c' ∈ candidates (views data det) keys,
      (c'.xorencoded = true → c.xorencoded = true) ∧
      (c'.xorencoded = c.xorencoded →
        keys.idxOf c.key ≤ keys.idxOf c'.key ∧ (c'.key = c.key → c.offset ≤ c'.offset)) :=
  candidates_head_least data det keys c h

/-! ### the central equation -/

/-- `from_file` computes exactly the declarative specification, for every content, key list, mode, detector answer,
residual key order, Guardrails outcome, file kind and buffer size. -/
theorem extract_eq_spec (B : Nat) (hB : 1 ≤ B) (f : PyFile) (ks : List Bytes) (allKeys : Bool) (det : Option Nat)
    (hdet : DetOk f.data det) (left : List Bytes) (guard : Option Result) :
    fromFile B f ks allKeys det left guard = extractSpec f.data ks allKeys det left guard :=
  fromFile_spec B hB f ks allKeys det hdet left guard

/-- **Central theorem.**  When some candidate exists under the tried keys, the result is the *least* candidate in
(view, key priority, offset) order: its block is `xor(view[i : i+4096], k)` (shorter at the end of the view), `xorkey`
is the key it was found under, `xorencoded` says whether it was found in the decoded view — wherever the block lies,
whatever surrounds it, for every buffer size. -/
theorem extract_first (B : Nat) (hB : 1 ≤ B) (f : PyFile) (ks : List Bytes) (allKeys : Bool) (det : Option Nat)
    (hdet : DetOk f.data det) (left : List Bytes) (guard : Option Result) (c : Cand)
    (hc : (candidates (views f.data det) (effKeys ks)).head? = some c) :
    fromFile B f ks allKeys det left guard
      = .ok ⟨C20.xor ((c.plain.drop c.offset).take patchSize) c.key, c.key, c.xorencoded⟩ ∧
    c ∈ candidates (views f.data det) (effKeys ks) ∧
    ∀ c' ∈ candidates (views f.data det) (effKeys ks),
      (c'.xorencoded = true → c.xorencoded = true) ∧
      (c'.xorencoded = c.xorencoded →
        (effKeys ks).idxOf c.key ≤ (effKeys ks).idxOf c'.key ∧ (c'.key = c.key → c.offset ≤ c'.offset)) := by
  refine ⟨?_, first_is_least _ _ _ c hc⟩
  rw [extract_eq_spec B hB f ks allKeys det hdet]
  simp only [extractSpec, hc]
  rfl

/-- the same for the all-keys retry: nothing under the given keys, `all_xor_keys=True`, and the least candidate with
respect to the residual key order `left` is returned -/
theorem extract_first_retry (B : Nat) (hB : 1 ≤ B) (f : PyFile) (ks : List Bytes) (det : Option Nat)
    (hdet : DetOk f.data det) (left : List Bytes) (guard : Option Result) (c : Cand)
    (hnone : candidates (views f.data det) (effKeys ks) = [])
    (hc : (candidates (views f.data det) (effKeys left)).head? = some c) :
    fromFile B f ks true det left guard
      = .ok ⟨C20.xor ((c.plain.drop c.offset).take patchSize) c.key, c.key, c.xorencoded⟩ ∧
    c ∈ candidates (views f.data det) (effKeys left) ∧
    ∀ c' ∈ candidates (views f.data det) (effKeys left),
      (c'.xorencoded = true → c.xorencoded = true) ∧
      (c'.xorencoded = c.xorencoded →
        (effKeys left).idxOf c.key ≤ (effKeys left).idxOf c'.key ∧ (c'.key = c.key → c.offset ≤ c'.offset)) := by
  refine ⟨?_, first_is_least _ _ _ c hc⟩
  rw [extract_eq_spec B hB f ks true det hdet]
  simp only [extractSpec, hnone, hc, List.head?_nil, if_true]
  rfl

/-- the same for the generator itself: the first block `iter_beacon_config_blocks` yields (if any) is the least candidate
(the later yields are compared by correspondence only: `find_beacon_config_bytes` moves the file under the running
`iter_find_needle`, so a fully consumed generator can skip or repeat later candidates) -/
theorem blocks_first_yield (B : Nat) (hB : 1 ≤ B) (f : PyFile) (ks : List Bytes) (allKeys : Bool) (det : Option Nat)
    (hdet : DetOk f.data det) (left : List Bytes) :
    (iterConfigBlocks B f ks allKeys det left).1.head? = (extractSpec f.data ks allKeys det left none).toOption := by
  have h := extract_eq_spec B hB f ks allKeys det hdet left none
  unfold fromFile at h
  rw [← h]
  generalize iterConfigBlocks B f ks allKeys det left = r
  obtain ⟨ys, e⟩ := r
  cases ys with
  | cons y ys => rfl
  | nil => cases e <;> rfl

/-! ### completeness and the negative case -/

/-- a candidate under a tried key exists ⇒ extraction succeeds, with a candidate's block (never the fallback, never an
exception) -/
theorem extract_complete (B : Nat) (hB : 1 ≤ B) (f : PyFile) (ks : List Bytes) (allKeys : Bool) (det : Option Nat)
    (hdet : DetOk f.data det) (left : List Bytes) (guard : Option Result) (c0 : Cand)
    (h : c0 ∈ candidates (views f.data det) (effKeys ks) ∨
         (allKeys = true ∧ c0 ∈ candidates (views f.data det) (effKeys left))) :
    ∃ c, fromFile B f ks allKeys det left guard = .ok c.result ∧
      (c ∈ candidates (views f.data det) (effKeys ks) ∨
       (allKeys = true ∧ c ∈ candidates (views f.data det) (effKeys left))) := by
  rw [extract_eq_spec B hB f ks allKeys det hdet]
  unfold extractSpec
  cases h1 : (candidates (views f.data det) (effKeys ks)).head? with
  | some c => exact ⟨c, rfl, Or.inl (List.mem_of_mem_head? (by rw [h1]; rfl))⟩
  | none =>
    have hnil := List.head?_eq_none_iff.mp h1
    rcases h with h | ⟨hak, h⟩
    · rw [hnil] at h; cases h
    · subst hak
      cases h2 : (candidates (views f.data det) (effKeys left)).head? with
      | some c => exact ⟨c, by simp, Or.inr ⟨rfl, List.mem_of_mem_head? (by rw [h2]; rfl)⟩⟩
      | none => rw [List.head?_eq_none_iff.mp h2] at h; cases h

/-- no candidate under the tried keys ⇒ the Guardrails outcome, and without one the documented `ValueError` -/
theorem extract_none (B : Nat) (hB : 1 ≤ B) (f : PyFile) (ks : List Bytes) (allKeys : Bool) (det : Option Nat)
    (hdet : DetOk f.data det) (left : List Bytes) (guard : Option Result)
    (h1 : candidates (views f.data det) (effKeys ks) = [])
    (h2 : allKeys = true → candidates (views f.data det) (effKeys left) = []) :
    fromFile B f ks allKeys det left guard =
      match guard with
      | some g => .ok g
      | none => .error .valueError := by
  rw [extract_eq_spec B hB f ks allKeys det hdet]
  unfold extractSpec
  rw [h1]
  cases allKeys with
  | false => rfl
  | true => rw [h2 rfl]; rfl

/-- … and no other exception can come out of the extraction (no negative seek, no divergence): an error is always
`ValueError`, and only when there is neither a candidate nor a Guardrails recovery.  (This is where the defect repaired
by fc7bca0 lived: a key-`0x00` header at offset 0 made the scan report offset −1 and `from_bytes` died in `seek(-1)`.) -/
theorem extract_only_valueError (B : Nat) (hB : 1 ≤ B) (f : PyFile) (ks : List Bytes) (allKeys : Bool)
    (det : Option Nat) (hdet : DetOk f.data det) (left : List Bytes) (guard : Option Result) (e : PyExc)
    (h : fromFile B f ks allKeys det left guard = .error e) :
    e = .valueError ∧ guard = none ∧ candidates (views f.data det) (effKeys ks) = [] ∧
      (allKeys = true → candidates (views f.data det) (effKeys left) = []) := by
  rw [extract_eq_spec B hB f ks allKeys det hdet] at h
  unfold extractSpec at h
  cases h1 : (candidates (views f.data det) (effKeys ks)).head? with
  | some c => rw [h1] at h; cases h
  | none =>
    rw [h1] at h
    have hnil := List.head?_eq_none_iff.mp h1
    cases allKeys with
    | false =>
      cases guard with
      | some g => cases h
      | none =>
        simp only [Bool.false_eq_true, if_false] at h
        injection h with h
        exact ⟨h.symm, rfl, hnil, fun hh => by cases hh⟩
    | true =>
      simp only [if_true] at h
      cases h2 : (candidates (views f.data det) (effKeys left)).head? with
      | some c => rw [h2] at h; cases h
      | none =>
        rw [h2] at h
        cases guard with
        | some g => cases h
        | none =>
          injection h with h
          exact ⟨h.symm, rfl, hnil, fun _ => List.head?_eq_none_iff.mp h2⟩

/-- Why the theorem above rests on C15's `needle_exact` (offsets are true, hence non-negative, occurrences): the model of
`find_beacon_config_bytes` does raise as soon as the scanner hands it a negative offset — `ValueError` on a BytesIO,
`OSError` on an OS file — which is what the scanner before fix fc7bca0 did for a key-`0x00` header at the start of the
file (it reported −1). -/
theorem negative_offset_would_raise (f : PyFile) (key : Bytes) (qs : List Int) :
    (consume rawFile key (-1) (0 :: qs) f).yields = [] ∧
    (consume rawFile key (-1) (0 :: qs) f).fin = .error f.negSeekExc := by
  simp [consume, rawFile, PyFile.seekSet, Except.map]

/-! ### the settings of the returned block -/

/-- `settings_tuple` is the C02 decoding of the returned block -/
theorem settings_eq (r : Result) : settingsTuple r = C02.iterSettings r.block := rfl

/-- If the bytes at the winning candidate are a serialized well-formed settings list, a `00 00` terminator and any
padding, XORed with the key, the settings returned are exactly that list (C02 `parse_serialize`, C20 `xor_involutive`). -/
theorem extract_settings (c : Cand) (ss : List C02.Setting) (hw : C02.WellFormedList ss) (tail : Bytes)
    (hblk : (c.plain.drop c.offset).take patchSize = C20.xor (C02.serialize ss ++ [0, 0] ++ tail) c.key) :
    c.result.block = C02.serialize ss ++ [0, 0] ++ tail ∧ settingsTuple c.result = ss := by
  have hb : c.result.block = C02.serialize ss ++ [0, 0] ++ tail := by
    show C20.xor ((c.plain.drop c.offset).take patchSize) c.key = _
    rw [hblk, C20.xor_involutive]
  refine ⟨hb, ?_⟩
  rw [settings_eq, hb]
  exact (C02.parse_serialize ss hw tail).1

/-- End to end for a raw payload: a 4096-byte configuration block (settings, terminator, padding) XORed with `key`
and embedded at any offset between arbitrary bytes is returned exactly — block, key, `xorencoded = False`, settings —
provided its position is the least candidate (no earlier header under a key of higher or equal priority). -/
theorem extract_planted (B : Nat) (hB : 1 ≤ B) (f : PyFile) (ks : List Bytes) (allKeys : Bool) (left : List Bytes)
    (guard : Option Result) (key pre post tail : Bytes) (ss : List C02.Setting) (hw : C02.WellFormedList ss)
    (hlen : (C02.serialize ss ++ [0, 0] ++ tail).length = patchSize)
    (hdata : f.data = pre ++ C20.xor (C02.serialize ss ++ [0, 0] ++ tail) key ++ post)
    (hfirst : (candidates (views f.data none) (effKeys ks)).head? = some ⟨false, f.data, key, pre.length⟩) :
    fromFile B f ks allKeys none left guard = .ok ⟨C02.serialize ss ++ [0, 0] ++ tail, key, false⟩ ∧
    settingsTuple ⟨C02.serialize ss ++ [0, 0] ++ tail, key, false⟩ = ss := by
  have hslice : (f.data.drop pre.length).take patchSize = C20.xor (C02.serialize ss ++ [0, 0] ++ tail) key := by
    rw [hdata, List.append_assoc, List.drop_left, List.take_left']
    rw [C20.xor_length, hlen]
  obtain ⟨h1, _, _⟩ := extract_first B hB f ks allKeys none (by intro c hc; cases hc) left guard _ hfirst
  have hs := extract_settings ⟨false, f.data, key, pre.length⟩ ss hw tail hslice
  simp only at h1
  rw [hslice, C20.xor_involutive] at h1
  exact ⟨h1, by rw [settings_eq]; exact (C02.parse_serialize ss hw tail).1⟩

/-! ### all-keys mode -/

/-- For **every** order `left` of the residual keys: when nothing is found under the given keys, the key chosen by the
retry is the `left`-first among the keys that have a candidate in the winning view (and within it the first offset). -/
theorem allkeys_any_order (B : Nat) (hB : 1 ≤ B) (f : PyFile) (ks : List Bytes) (det : Option Nat)
    (hdet : DetOk f.data det) (left : List Bytes) (guard : Option Result)
    (hnone : candidates (views f.data det) (effKeys ks) = []) :
    (∀ c, (candidates (views f.data det) (effKeys left)).head? = some c →
      fromFile B f ks true det left guard = .ok c.result ∧
      ∀ c' ∈ candidates (views f.data det) (effKeys left),
        (c'.xorencoded = true → c.xorencoded = true) ∧
        (c'.xorencoded = c.xorencoded →
          (effKeys left).idxOf c.key ≤ (effKeys left).idxOf c'.key ∧ (c'.key = c.key → c.offset ≤ c'.offset))) ∧
    (candidates (views f.data det) (effKeys left) = [] →
      fromFile B f ks true det left guard = match guard with | some g => .ok g | none => .error .valueError) := by
  constructor
  · intro c hc
    obtain ⟨h1, _, h3⟩ := extract_first_retry B hB f ks det hdet left guard c hnone hc
    exact ⟨h1, h3⟩
  · intro h
    exact extract_none B hB f ks true det hdet left guard hnone (fun _ => h)

/-- In particular, when only ONE residual key `k0` has a candidate, the answer does not depend on the order at all:
two key lists with the same members give the same result. -/
theorem allkeys_single_key (B : Nat) (hB : 1 ≤ B) (f : PyFile) (ks : List Bytes) (allKeys : Bool) (det : Option Nat)
    (hdet : DetOk f.data det) (left₁ left₂ : List Bytes) (guard : Option Result) (k0 : Bytes)
    (hsame : ∀ k, k ∈ left₁ ↔ k ∈ left₂)
    (honly : ∀ k ∈ left₁, k ≠ k0 → ∀ v ∈ views f.data det, occK v.2 k = []) :
    fromFile B f ks allKeys det left₁ guard = fromFile B f ks allKeys det left₂ guard := by
  rw [extract_eq_spec B hB f ks allKeys det hdet, extract_eq_spec B hB f ks allKeys det hdet]
  have key : (candidates (views f.data det) (effKeys left₁)).head?
      = (candidates (views f.data det) (effKeys left₂)).head? := by
    by_cases hnil : left₁ = []
    · have : left₂ = [] := by
        apply List.eq_nil_iff_forall_not_mem.mpr
        intro k hk
        have := (hsame k).mpr hk
        rw [hnil] at this; cases this
      rw [hnil, this]
    · have hnil2 : left₂ ≠ [] := by
        intro h2
        obtain ⟨k, hk⟩ := List.exists_mem_of_ne_nil _ hnil
        have := (hsame k).mp hk
        rw [h2] at this; cases this
      simp only [effKeys, hnil, hnil2, if_false]
      unfold candidates
      apply head?_flatMap_congr
      intro v hv
      rw [candsIn_head_single v.1 v.2 k0 left₁ (fun k hk hne => honly k hk hne v hv),
          candsIn_head_single v.1 v.2 k0 left₂ (fun k hk hne => honly k ((hsame k).mpr hk) hne v hv)]
      by_cases hm : k0 ∈ left₁
      · rw [if_pos hm, if_pos ((hsame k0).mp hm)]
      · rw [if_neg hm, if_neg (fun h => hm ((hsame k0).mpr h))]
  unfold extractSpec
  rw [key]

/-- the order the code computes (4-gram counter, `most_common`, stable sort) is a permutation of
`make_byte_list(exclude=xor_keys)`: every single-byte key that is not among the given keys, each exactly once -/
theorem leftKeys_perm (B : Nat) (f : PyFile) (det : Option Nat) (failPos : Nat) (ks left : List Bytes)
    (h : leftKeys B f det failPos ks = .ok left) :
    left.Perm (makeByteList (effKeys ks)) ∧
    ∀ k, k ∈ left ↔ (∃ b : UInt8, k = [b]) ∧ k ∉ effKeys ks := by
  have hp : left.Perm (makeByteList (effKeys ks)) := by
    unfold leftKeys at h
    cases hc : leftCounts B f det failPos with
    | error e => rw [hc] at h; cases h
    | ok cnt =>
      rw [hc] at h
      injection h with h
      rw [← h]
      exact stableSort_perm _ _
  exact ⟨hp, fun k => (hp.mem_iff).trans (mem_makeByteList _ k)⟩

/-! ### the detector used for the correspondence runs -/

/-- `detectRun` — the executable detector the driver uses to supply `det` (and the position a failing detection leaves
behind) — returns a view exactly when C09's `fromFileFull` does, and the same view; so C09's `detect_*` theorems
(`detect_first_passing`, `detect_correct_full_partial`, …) speak about the `det` of the correspondence runs. -/
theorem detector_is_C09 (B : Nat) (f : PyFile) (offs : List Nat) (f1 : PyFile) (hits : List Int) (f2 : PyFile)
    (h1 : C09.iterNonceOffsets f none 1024 = .ok (offs, f1))
    (h2 : C15.iterFindNeedle B f1 [0xff, 0xff, 0xff] (some 0) 1024 = .ok (hits, f2)) :
    (∀ x g, detectRun B f = .ok (some x, g) → C09.fromFileFull f 1024 (hits.map Int.toNat) = .ok x) ∧
    (∀ g, detectRun B f = .ok (none, g) → C09.fromFileFull f 1024 (hits.map Int.toNat) = .error .valueError) :=
  detectRun_refines B f offs f1 hits f2 h1 h2

/-- the hypothesis `DetOk` holds for whatever that detector returns (an image that passes the MZ check has 64 decoded
bytes, so the nonce and the size dword lie inside the file) … -/
theorem detOk_of_detectRun (B : Nat) (f : PyFile) (x : C09.XorFile) (g : PyFile)
    (h : detectRun B f = .ok (some x, g)) : DetOk f.data (some x.nonceOff) := by
  intro c hc
  injection hc with hc
  subst hc
  exact Nat.le_of_lt (detectRun_bound B f x g h)

/-- … so with `det` computed as the driver does, the central equation needs no hypothesis about the detector -/
theorem extract_eq_spec_detected (B : Nat) (hB : 1 ≤ B) (f : PyFile) (ks : List Bytes) (allKeys : Bool)
    (left : List Bytes) (guard : Option Result) (r : Option C09.XorFile × PyFile) (h : detectRun B f = .ok r) :
    fromFile B f ks allKeys (r.1.map (·.nonceOff)) left guard
      = extractSpec f.data ks allKeys (r.1.map (·.nonceOff)) left guard := by
  apply extract_eq_spec B hB
  obtain ⟨o, g⟩ := r
  cases o with
  | none => intro c hc; cases hc
  | some x => exact detOk_of_detectRun B f x g h

/-! ### buffer size -/

/-- the answer does not depend on `io.DEFAULT_BUFFER_SIZE` (blocks straddling read boundaries included) -/
theorem buffer_size_independent (B B' : Nat) (hB : 1 ≤ B) (hB' : 1 ≤ B') (f : PyFile) (ks : List Bytes)
    (allKeys : Bool) (det : Option Nat) (hdet : DetOk f.data det) (left : List Bytes) (guard : Option Result) :
    fromFile B f ks allKeys det left guard = fromFile B' f ks allKeys det left guard := by
  rw [extract_eq_spec B hB f ks allKeys det hdet, extract_eq_spec B' hB' f ks allKeys det hdet]

/-- … nor on whether the payload comes from `from_bytes` / `from_file(BytesIO)` or `from_path` (OS file), nor on the
position of the file object when `from_file` is called -/
theorem entry_point_independent (B : Nat) (hB : 1 ≤ B) (f g : PyFile) (hd : f.data = g.data) (ks : List Bytes)
    (allKeys : Bool) (det : Option Nat) (hdet : DetOk f.data det) (left : List Bytes) (guard : Option Result) :
    fromFile B f ks allKeys det left guard = fromFile B g ks allKeys det left guard := by
  rw [extract_eq_spec B hB f ks allKeys det hdet, extract_eq_spec B hB g ks allKeys det (hd ▸ hdet), hd]

/-! ### end to end: detector, residual key order and Guardrails fallback discharged

The theorems above take the detector's answer `det`, the residual key order `left` and the Guardrails outcome `guard` as
parameters.  `fromFileReal` (Model/C01.lean, run by the driver on the `ext` stream) computes all three: `detectRun` (= C09's
`fromFileReal`, `detectRun_real`), `leftKeys`, `C17.fromFileFallback`.  The theorems of this section are about that function
and their hypotheses speak about the bytes of the payload only:
  * "not detected as XorEncoded" is `∀ c ∈ C09.realCandidates B f 1024, C09.mzVerdict f c = false` (by C09
    `detect_rejects_real` exactly: the detector raises ValueError), or — `…_bytes` variants — `NotXorEncoded f`: every offset
    behind an `ff ff ff` in the first 2 KiB or satisfying the size relation (C09 `real_candidates_characterised`) decodes to
    something that fails the MZ check; `notXorEncoded_of_no_candidate` gives a condition without `mzVerdict`;
  * "is a XorEncoded stage" is the hypothesis set of C09 `detect_correct_real_clean`;
  * "Guardrails finds nothing" is `GuardClean B v` (C17 `scan_reports_iff` / `NoMatch`), trivially true below 6138 bytes.
What remains a parameter: nothing of the model.  The buffer size `B ≥ 1` is universally quantified (the detector's
answer may depend on it for `B < 1027`, C09 `detect_buffer_independent`, so it appears in the `realCandidates` form of the
hypotheses; the `…_bytes` forms hold for every `B`). -/

/-- `fromFileReal` is the parameterised `fromFile` of the theorems above with the detector's answer (characterised through
`C09.fromFileReal`, and satisfying `DetOk`), the residual key order `leftKeys` computes, and `C17.fromFileFallback` on the
decoded view (when detected) or the file as Guardrails outcome — so every theorem about `fromFile` is a theorem about what
the driver runs. -/
theorem fromFileReal_instantiates (B : Nat) (hB : 1 ≤ B) (f : PyFile) (ks : List Bytes) (allKeys : Bool) :
    ∃ (det : Option Nat) (failPos : Nat) (left : List Bytes),
      (match det with
       | some c => ∃ x, C09.fromFileReal B f 1024 = .ok x ∧ x.nonceOff = c
       | none => C09.fromFileReal B f 1024 = .error .valueError) ∧
      DetOk f.data det ∧
      leftKeys B f det failPos ks = .ok left ∧
      fromFileReal B f ks allKeys =
        match fromFile B f ks allKeys det left none with
        | .ok r => .ok r.extracted
        | .error _ => guardFallback B (fhFor f det) := by
  obtain ⟨det, failPos, left, h1, h2, h3, h4⟩ := fromFileReal_spec B hB f ks allKeys
  refine ⟨det, failPos, left, h1, h2, h3, ?_⟩
  rw [h4, extract_eq_spec B hB f ks allKeys det h2]
  unfold extractSpec searchSpec
  cases (candidates (views f.data det) (effKeys ks)).head? with
  | some c => rfl
  | none =>
    cases allKeys with
    | false => rfl
    | true =>
      simp only [if_true]
      cases (candidates (views f.data det) (effKeys left)).head? <;> rfl

/-- the same as an equation with the declarative specification -/
theorem fromFileReal_eq_spec (B : Nat) (hB : 1 ≤ B) (f : PyFile) (ks : List Bytes) (allKeys : Bool) :
    ∃ (det : Option Nat) (failPos : Nat) (left : List Bytes),
      (match det with
       | some c => ∃ x, C09.fromFileReal B f 1024 = .ok x ∧ x.nonceOff = c
       | none => C09.fromFileReal B f 1024 = .error .valueError) ∧
      DetOk f.data det ∧
      leftKeys B f det failPos ks = .ok left ∧
      fromFileReal B f ks allKeys =
        match searchSpec f.data ks allKeys det left with
        | some c => .ok c.result.extracted
        | none => guardFallback B (fhFor f det) :=
  fromFileReal_spec B hB f ks allKeys

/-- **Raw payload, end to end.**  A payload (any bytes, any file kind, any initial position, any buffer size) that is not
detected as XorEncoded and contains `CONFIG_HEADER ⊕ k` at offset `i` for a tried key `k`, `(k, i)` being least in
(key priority, offset) order: `from_file` returns `xor(data[i : i+4096], k)` as configuration block, `xorkey = k`,
`xorencoded = False`, no Guardrails record; and if those bytes are a serialized well-formed settings list (terminator,
padding) XORed with `k`, `settings_tuple` is that list.  `all_xor_keys` is irrelevant (the retry is not reached). -/
theorem extract_raw_end_to_end (B : Nat) (hB : 1 ≤ B) (f : PyFile) (ks : List Bytes) (allKeys : Bool)
    (hrej : ∀ c ∈ C09.realCandidates B f 1024, C09.mzVerdict f c = false)
    (k : Bytes) (i : Nat) (hk : k ∈ effKeys ks) (hi : i ∈ occK f.data k)
    (hleast : ∀ k' ∈ effKeys ks, ∀ i' ∈ occK f.data k',
      (effKeys ks).idxOf k ≤ (effKeys ks).idxOf k' ∧ (k' = k → i ≤ i')) :
    fromFileReal B f ks allKeys = .ok ⟨C20.xor ((f.data.drop i).take patchSize) k, k, false, none⟩ ∧
    ∀ (ss : List C02.Setting) (tail : Bytes), C02.WellFormedList ss →
      (f.data.drop i).take patchSize = C20.xor (C02.serialize ss ++ [0, 0] ++ tail) k →
      (⟨C20.xor ((f.data.drop i).take patchSize) k, k, false, none⟩ : Extracted).settings = ss := by
  constructor
  · obtain ⟨det, failPos, left, hdet, _, _, heq⟩ := fromFileReal_spec B hB f ks allKeys
    have hnone : det = none := by
      cases det with
      | none => rfl
      | some c =>
        obtain ⟨x, hx, _⟩ := hdet
        rw [((C09.detect_rejects_real B f 1024).2).mpr hrej] at hx
        cases hx
    subst hnone
    have hhead : (candidates (views f.data none) (effKeys ks)).head? = some ⟨false, f.data, k, i⟩ := by
      rw [candidates_views]
      exact candsIn_head_of_least false f.data (effKeys ks) k i hk hi hleast
    rw [heq]
    simp only [searchSpec, hhead]
    rfl
  · intro ss tail hw hblk
    show C02.iterSettings (C20.xor ((f.data.drop i).take patchSize) k) = ss
    rw [hblk, C20.xor_involutive]
    exact (C02.parse_serialize ss hw tail).1

/-- the same with the hypothesis on the detector read off the bytes, for every buffer size -/
theorem extract_raw_end_to_end_bytes (B : Nat) (hB : 1 ≤ B) (f : PyFile) (ks : List Bytes) (allKeys : Bool)
    (hne : NotXorEncoded f)
    (k : Bytes) (i : Nat) (hk : k ∈ effKeys ks) (hi : i ∈ occK f.data k)
    (hleast : ∀ k' ∈ effKeys ks, ∀ i' ∈ occK f.data k',
      (effKeys ks).idxOf k ≤ (effKeys ks).idxOf k' ∧ (k' = k → i ≤ i')) :
    fromFileReal B f ks allKeys = .ok ⟨C20.xor ((f.data.drop i).take patchSize) k, k, false, none⟩ :=
  (extract_raw_end_to_end B hB f ks allKeys (notXorEncoded_rejects B hB f hne) k i hk hi hleast).1

/-- **XorEncoded stage, end to end.**  A payload `stub ++ nonce ++ size ++ enc` whose decoded content
`rollDecode nonce enc` starts with a PE image, under the byte-level cleanliness hypotheses of C09
`detect_correct_real_clean` (stub ends with the marker or the size dword is right; no other `ff ff ff` in the first 2 KiB,
no other size-consistent offset), and whose decoded content contains `CONFIG_HEADER ⊕ k` at offset `i`, `(k, i)` least in
the DECODED view: `from_file` returns `xor(decoded[i : i+4096], k)`, `xorkey = k`, `xorencoded = True`.  There is no
hypothesis about the raw bytes: candidates there (a decoy block in the stub, under a key of higher priority) are not
looked at. -/
theorem extract_xorencoded_end_to_end (B : Nat) (hB : 1 ≤ B) (stub nonce size enc : Bytes)
    (hn : nonce.length = 4) (hs : size.length = 4)
    (f : PyFile) (hd : f.data = stub ++ nonce ++ size ++ enc) (ks : List Bytes) (allKeys : Bool)
    (hcand : (∃ s0, stub = s0 ++ C09.eofMarker ∧ stub.length ≤ 1024) ∨
         (C09.u32 (C20.xor nonce size) + (stub.length : Int) + 8 = (f.data.length : Int) ∧ stub.length < 1024))
    (e : Nat) (hpe : C09.PeHeaderAt0 (C09.rollDecode nonce enc) 1024 e)
    (hmark : ∀ h ∈ C15.occ f.data C09.eofMarker, h ≤ 2 * 1024 → h + 3 = stub.length)
    (hsize : ∀ c, c < 1024 → C09.SizeRel f.data (f.data.length : Int) c → c = stub.length)
    (k : Bytes) (i : Nat) (hk : k ∈ effKeys ks) (hi : i ∈ occK (C09.rollDecode nonce enc) k)
    (hleast : ∀ k' ∈ effKeys ks, ∀ i' ∈ occK (C09.rollDecode nonce enc) k',
      (effKeys ks).idxOf k ≤ (effKeys ks).idxOf k' ∧ (k' = k → i ≤ i')) :
    fromFileReal B f ks allKeys
      = .ok ⟨C20.xor (((C09.rollDecode nonce enc).drop i).take patchSize) k, k, true, none⟩ ∧
    ∀ (ss : List C02.Setting) (tail : Bytes), C02.WellFormedList ss →
      ((C09.rollDecode nonce enc).drop i).take patchSize = C20.xor (C02.serialize ss ++ [0, 0] ++ tail) k →
      (⟨C20.xor (((C09.rollDecode nonce enc).drop i).take patchSize) k, k, true, none⟩ : Extracted).settings = ss := by
  constructor
  · obtain ⟨det, failPos, left, hdet, _, _, heq⟩ := fromFileReal_spec B hB f ks allKeys
    obtain ⟨x, hx, hL, _, _⟩ := C09.detect_correct_real_clean B hB stub nonce size enc hn hs f hd 1024 (by omega)
      hcand e hpe hmark hsize
    have hsome : det = some stub.length := by
      cases det with
      | none => rw [hx] at hdet; cases hdet
      | some c =>
        obtain ⟨x', hx', hc⟩ := hdet
        rw [hx] at hx'
        injection hx' with hx'
        subst hx'
        rw [← hc, hL.off]
    subst hsome
    have hview : decodedView f.data stub.length = C09.rollDecode nonce enc := by
      rw [hd]; exact decodedView_layout stub nonce size enc hn hs
    have hhead : (candidates (views f.data (some stub.length)) (effKeys ks)).head?
        = some ⟨true, C09.rollDecode nonce enc, k, i⟩ := by
      rw [candidates_views]
      simp only [hview]
      have := candsIn_head_of_least true (C09.rollDecode nonce enc) (effKeys ks) k i hk hi hleast
      cases hc : candsIn true (C09.rollDecode nonce enc) (effKeys ks) with
      | nil => rw [hc] at this; cases this
      | cons a as => rw [hc] at this; exact this
    rw [heq]
    simp only [searchSpec, hhead]
    rfl
  · intro ss tail hw hblk
    show C02.iterSettings (C20.xor (((C09.rollDecode nonce enc).drop i).take patchSize) k) = ss
    rw [hblk, C20.xor_involutive]
    exact (C02.parse_serialize ss hw tail).1

theorem effKeys_left_mem (B : Nat) (f : PyFile) (det : Option Nat) (failPos : Nat) (ks left : List Bytes)
    (h : leftKeys B f det failPos ks = .ok left) (k : Bytes) (hk : k ∈ effKeys left) :
    k ∈ makeByteList [] ++ defaultXorKeys := by
  unfold effKeys at hk
  split at hk
  · exact List.mem_append_right _ hk
  · exact List.mem_append_left _ (leftKeys_mem B f det failPos ks left h k hk)

theorem searchSpec_none (data : Bytes) (ks : List Bytes) (allKeys : Bool) (det : Option Nat) (left : List Bytes)
    (h1 : candidates (views data det) (effKeys ks) = [])
    (h2 : allKeys = true → candidates (views data det) (effKeys left) = []) :
    searchSpec data ks allKeys det left = none := by
  unfold searchSpec
  rw [h1]
  cases allKeys with
  | false => rfl
  | true => rw [h2 rfl]; rfl

/-- **Nothing to extract, end to end.**  No `CONFIG_HEADER ⊕ k` under a tried key in the file itself nor in the decoded
view of any detector candidate that passes the MZ check (whichever the detector settles on); in all-keys mode the same for
all 256 single-byte keys (and the defaults, which the retry falls back to when the residual list is empty); and the
Guardrails scan of the view the fallback looks at cannot complete a record: `from_file` raises the documented `ValueError`. -/
theorem extract_none_end_to_end (B : Nat) (hB : 1 ≤ B) (f : PyFile) (ks : List Bytes) (allKeys : Bool)
    (hraw : ∀ k ∈ effKeys ks, occK f.data k = [])
    (hdec : ∀ c ∈ C09.realCandidates B f 1024, C09.mzVerdict f c = true →
      ∀ k ∈ effKeys ks, occK (decodedView f.data c) k = [])
    (hall : allKeys = true → ∀ k ∈ makeByteList [] ++ defaultXorKeys,
      occK f.data k = [] ∧
      ∀ c ∈ C09.realCandidates B f 1024, C09.mzVerdict f c = true → occK (decodedView f.data c) k = [])
    (hgraw : (∀ c ∈ C09.realCandidates B f 1024, C09.mzVerdict f c = false) → GuardClean B f.data)
    (hgdec : ∀ c ∈ C09.realCandidates B f 1024, C09.mzVerdict f c = true → GuardClean B (decodedView f.data c)) :
    fromFileReal B f ks allKeys = .error .valueError := by
  obtain ⟨det, failPos, left, hdet, _, hleft, heq⟩ := fromFileReal_spec B hB f ks allKeys
  have hlk := effKeys_left_mem B f det failPos ks left hleft
  cases det with
  | none =>
    have hrej := ((C09.detect_rejects_real B f 1024).2).mp hdet
    rw [heq, searchSpec_none]
    · exact guardFallback_clean B f (hgraw hrej)
    · rw [candidates_views]
      exact candsIn_nil_of_noHeader false f.data _ hraw
    · intro ha
      rw [candidates_views]
      exact candsIn_nil_of_noHeader false f.data _ (fun k hk => (hall ha k (hlk k hk)).1)
  | some c =>
    obtain ⟨x, hx, hc⟩ := hdet
    obtain ⟨pre, post, x0, hsplit, _, hok, _⟩ := C09.detect_sound_real B f 1024 x hx
    rw [hc] at hsplit hok
    have hmem : c ∈ C09.realCandidates B f 1024 := by rw [hsplit]; simp
    rw [heq, searchSpec_none]
    · exact guardFallback_clean B (viewFile f c) (hgdec c hmem hok)
    · rw [candidates_views]
      simp only
      rw [candsIn_nil_of_noHeader true _ _ (hdec c hmem hok), candsIn_nil_of_noHeader false f.data _ hraw]
      rfl
    · intro ha
      rw [candidates_views]
      simp only
      rw [candsIn_nil_of_noHeader true _ _ (fun k hk => (hall ha k (hlk k hk)).2 c hmem hok),
          candsIn_nil_of_noHeader false f.data _ (fun k hk => (hall ha k (hlk k hk)).1)]
      rfl

open Gen.Guardrails C17 in
/-- **Guardrails-protected payload, end to end** (C17 `recover_from_file_partial`, under its own hypotheses): the payload
`pre ++ masked configuration ++ masked guard configuration ++ post` is not detected as XorEncoded and has no plain
candidate under the tried keys: `from_file` returns the recovered configuration `cfg`, `xorkey = 0x2e`,
`xorencoded = False` and the Guardrails record (environmental key `K`, offsets, guard settings). -/
theorem extract_guardrails_end_to_end (B : Nat) (hB : 1 ≤ B) (f : PyFile) (ks : List Bytes) (allKeys : Bool)
    (pre post cfg K gc : Bytes)
    (hcfg : cfg.length = BEACON_CONFIG_PATCH_SIZE) (hgc : gc.length = GUARD_PATCH_SIZE)
    (h2 : 2 ≤ K.length) (h256 : K.length ≤ 256)
    (hstart : gc.take 6 ∈ GUARD_CONFIG_STARTS)
    (hstored : (settingsPure gc [] 0).2 = payloadChecksum cfg + 1)
    (hdom : StrictlyMostCommon K (gramsOf B K.length (C20.xor cfg K)))
    (hno : NoEarlierChecksumHit B (C20.xor cfg K) (payloadChecksum cfg + 1) K.length)
    (hd : f.data = pre ++ C20.xor (C20.xor cfg K) beaconXorKey
            ++ maskGuard gc defaultGuardXorKey (C20.xor (C20.xor cfg K) beaconXorKey) ++ post)
    (hfirst : NoEarlierRecord B f.data (pre.length + (BEACON_CONFIG_PATCH_SIZE - 6)))
    (hrej : ∀ c ∈ C09.realCandidates B f 1024, C09.mzVerdict f c = false)
    (hraw : ∀ k ∈ effKeys ks, occK f.data k = [])
    (hall : allKeys = true → ∀ k ∈ makeByteList [] ++ defaultXorKeys, occK f.data k = []) :
    fromFileReal B f ks allKeys = .ok
      { block := cfg, xorkey := beaconXorKey, xorencoded := false,
        guardrails := some { areaMeta pre (C20.xor (C20.xor cfg K) beaconXorKey) gc defaultGuardXorKey with
          beaconXorKey := beaconXorKey, payloadXorKey := some K, unmaskedBeaconConfig := some cfg } } := by
  obtain ⟨det, failPos, left, hdet, _, hleft, heq⟩ := fromFileReal_spec B hB f ks allKeys
  have hlk := effKeys_left_mem B f det failPos ks left hleft
  have hnone : det = none := by
    cases det with
    | none => rfl
    | some c =>
      obtain ⟨x, hx, _⟩ := hdet
      rw [((C09.detect_rejects_real B f 1024).2).mpr hrej] at hx
      cases hx
  subst hnone
  rw [heq, searchSpec_none]
  · simp only [fhFor, guardFallback]
    rw [fromFileFallback_data f (PyFile.ofBytes f.data) rfl]
    rw [hd] at hfirst ⊢
    rw [recover_from_file_partial B pre post cfg K gc hcfg hgc h2 h256 hstart hstored hdom hno hfirst]
  · rw [candidates_views]
    exact candsIn_nil_of_noHeader false f.data _ hraw
  · intro ha
    rw [candidates_views]
    exact candsIn_nil_of_noHeader false f.data _ (fun k hk => hall ha k (hlk k hk))

/-! #### the same composition in C08 -/

/-- the file object `from_file` hands to `pe.find_compile_stamps` / `pe.find_architecture` (C18; not part of this property):
the XorEncoded view for a block found in it and for a Guardrails recovery, otherwise `fobj` -/
def peSource (B : Nat) (f : PyFile) (x : Extracted) : PyFile :=
  match detectRun B f with
  | .ok (dx, _) => if x.xorencoded || x.guardrails.isSome then fhFor f (dx.map (·.nonceOff)) else f
  | .error _ => f

/-- `C08.fromFile` (the composition used for "only ValueError") is `fromFileReal` followed by C08's `finish` — settings
decoding as an `Except` and the PE artifacts, both proved total in `Lemmas/C08.lean` (`finish_ok`), which copies block, key
and flags unchanged.  (`Lemmas/C08.lean` imports this file, so the statement lives here, over `Model/C08.lean` only.) -/
theorem fromFile_C08_factors (B : Nat) (f : PyFile) (ks : List Bytes) (allKeys : Bool) :
    C08.fromFile B f ks allKeys =
      match fromFileReal B f ks allKeys with
      | .error e => .error e
      | .ok x => C08.finish x.guardrails.isSome x.xorkey x.xorencoded x.block (peSource B f x) := by
  unfold C08.fromFile fromFileReal peSource
  cases hd : detectRun B f with
  | error e => rfl
  | ok p =>
    obtain ⟨dx, fFail⟩ := p
    simp only
    have hs : C08.search B f ks allKeys (dx.map (·.nonceOff)) fFail.pos
        = search B f ks allKeys (dx.map (·.nonceOff)) fFail.pos := rfl
    rw [hs]
    cases search B f ks allKeys (dx.map (·.nonceOff)) fFail.pos with
    | error e => rfl
    | ok o =>
      cases o with
      | some y =>
        simp only [Result.extracted, Option.isSome_none, Bool.or_false]
        rfl
      | none =>
        simp only [guardFallback]
        have hf : C08.fhFor f (dx.map (·.nonceOff)) = fhFor f (dx.map (·.nonceOff)) := rfl
        rw [hf]
        cases C17.fromFileFallback (fhFor f (dx.map (·.nonceOff))) B with
        | error e => rfl
        | ok m =>
          simp only
          cases m.unmaskedBeaconConfig with
          | none => rfl
          | some cfg => simp only [Option.isSome_some, Bool.or_true, if_true]

/-! ### the hypotheses are satisfiable / concrete instances -/

/-- `A` followed by the block `00 01 00 01 00 02 00 08 00 00` under key `0x2e` -/
def exRaw : Bytes := [0x41] ++ C20.xor [0, 1, 0, 1, 0, 2, 0, 8, 0, 0] [0x2e]

example : fromFile 8192 ⟨exRaw, 0, .bytesIO⟩ [] false none [] none
    = .ok ⟨[0, 1, 0, 1, 0, 2, 0, 8, 0, 0], [0x2e], false⟩ := by
  rw [extract_eq_spec 8192 (by omega) _ _ _ _ (by intro c h; cases h)]
  decide +kernel

/-- the input of the repaired defect (fc7bca0): a key-`0x00` header at offset 0 of an OS file is found at offset 0 -/
example : fromFile 8192 ⟨[0, 1, 0, 1, 0, 2, 0, 8, 0, 0], 0, .osFile⟩ [] false none [] none
    = .ok ⟨[0, 1, 0, 1, 0, 2, 0, 8, 0, 0], [0x00], false⟩ := by
  rw [extract_eq_spec 8192 (by omega) _ _ _ _ (by intro c h; cases h)]
  decide +kernel

/-- key priority beats file order: a `0x2e` block at offset 0, a `0x69` block behind it — `0x69` wins with the default
keys, `0x2e` wins with the custom list `[2e, 69]`; buffer size 3 so that both headers straddle read boundaries -/
def exTwo : Bytes := C20.xor [0, 1, 0, 1, 0, 2, 0, 4] [0x2e] ++ [0x55] ++ C20.xor [0, 1, 0, 1, 0, 2, 0, 8, 0, 0] [0x69]

example : fromFile 3 ⟨exTwo, 0, .bytesIO⟩ [] false none [] none
    = .ok ⟨[0, 1, 0, 1, 0, 2, 0, 8, 0, 0], [0x69], false⟩ := by
  rw [extract_eq_spec 3 (by omega) _ _ _ _ (by intro c h; cases h)]
  decide +kernel

example : fromFile 3 ⟨exTwo, 0, .bytesIO⟩ [[0x2e], [0x69]] false none [] none
    = .ok ⟨[0, 1, 0, 1, 0, 2, 0, 4, 0x55 ^^^ 0x2e] ++ C20.xor (C20.xor [0, 1, 0, 1, 0, 2, 0, 8, 0, 0] [0x69]) [0x2e], [0x2e], false⟩ := by
  rw [extract_eq_spec 3 (by omega) _ _ _ _ (by intro c h; cases h)]
  decide +kernel

/-- a XorEncoded stage (stub `90`, nonce `01 02 03 04`): the block under key `0x69` lies in the decoded view -/
def exStage : Bytes :=
  [0x90] ++ [1, 2, 3, 4] ++ [9, 9, 9, 9] ++ C09.rollEncode [1, 2, 3, 4] (C20.xor [0, 1, 0, 1, 0, 2, 0, 8, 0, 0] [0x69])

example : DetOk exStage (some 1) := by intro c h; cases h; decide

example : fromFile 8192 ⟨exStage, 0, .bytesIO⟩ [] false (some 1) [] none
    = .ok ⟨[0, 1, 0, 1, 0, 2, 0, 8, 0, 0], [0x69], true⟩ := by
  rw [extract_eq_spec 8192 (by omega) _ _ _ _ (by intro c h; cases h; decide)]
  decide +kernel

/-- all-keys mode: nothing under the defaults, the block under `0xaf` is found by the retry -/
example : fromFile 8192 ⟨C20.xor [0, 1, 0, 1, 0, 2, 0, 8, 0, 0] [0xaf], 0, .bytesIO⟩ [] true none [[0x01], [0xaf]] none
    = .ok ⟨[0, 1, 0, 1, 0, 2, 0, 8, 0, 0], [0xaf], false⟩ := by
  rw [extract_eq_spec 8192 (by omega) _ _ _ _ (by intro c h; cases h)]
  decide +kernel

/-- … and without `all_xor_keys` the same payload gives the documented `ValueError` -/
example : fromFile 8192 ⟨C20.xor [0, 1, 0, 1, 0, 2, 0, 8, 0, 0] [0xaf], 0, .bytesIO⟩ [] false none [] none
    = .error .valueError := by
  rw [extract_eq_spec 8192 (by omega) _ _ _ _ (by intro c h; cases h)]
  decide +kernel

/-- the hypotheses of `extract_settings` at the candidate of `exRaw` (block cut short by the end of the file) -/
example : settingsTuple (⟨false, exRaw, [0x2e], 1⟩ : Cand).result = [{ index := 1, type := 1, length := 2, value := [0, 8] }] :=
  (extract_settings ⟨false, exRaw, [0x2e], 1⟩ [{ index := 1, type := 1, length := 2, value := [0, 8] }]
    (by decide) [] (by decide +kernel)).2

example : makeByteList [[0x69], [0x2e], [0x00], [1, 2]] = ((List.range 256).filter (fun n => n ≠ 0x69 ∧ n ≠ 0x2e ∧ n ≠ 0)).map
    (fun n => [UInt8.ofNat n]) := by decide +kernel

/-! #### end-to-end theorems: concrete payloads meeting the hypotheses (every hypothesis discharged by the kernel) -/

-- `extract_raw_end_to_end`: `exRaw` as an OS file, all-keys mode requested (not reached)
set_option maxRecDepth 100000 in
example : fromFileReal 8192 ⟨exRaw, 0, .osFile⟩ [] true
      = .ok ⟨[0, 1, 0, 1, 0, 2, 0, 8, 0, 0], [0x2e], false, none⟩ ∧
    (⟨[0, 1, 0, 1, 0, 2, 0, 8, 0, 0], [0x2e], false, none⟩ : Extracted).settings
      = [{ index := 1, type := 1, length := 2, value := [0, 8] }] := by
  obtain ⟨h1, h2⟩ := extract_raw_end_to_end 8192 (by omega) ⟨exRaw, 0, .osFile⟩ [] true (by decide +kernel)
    [0x2e] 1 (by decide) (by decide +kernel) (by decide +kernel)
  have hb : C20.xor ((exRaw.drop 1).take patchSize) [0x2e] = [0, 1, 0, 1, 0, 2, 0, 8, 0, 0] := by decide +kernel
  rw [hb] at h1 h2
  exact ⟨h1, h2 [{ index := 1, type := 1, length := 2, value := [0, 8] }] [] (by decide) (by decide +kernel)⟩

-- … and the model evaluated by the kernel gives the same answer (small buffer, BytesIO not at the start)
set_option maxRecDepth 100000 in
example : fromFileReal 3 ⟨exRaw, 5, .bytesIO⟩ [] false = .ok ⟨[0, 1, 0, 1, 0, 2, 0, 8, 0, 0], [0x2e], false, none⟩ := by
  decide +kernel

/-- a 64-byte "image": `MZ`, `e_lfanew = 4`, i386 file header at offset 8 -/
def exImage : Bytes := [0x4d, 0x5a] ++ List.replicate 6 0 ++ [0x4c, 0x01] ++ List.replicate 50 0 ++ [4, 0, 0, 0]
/-- decoded content: the image, a filler byte, a block under the SECOND default key `0x2e` -/
def exPlain : Bytes := exImage ++ [0x55] ++ C20.xor [0, 1, 0, 1, 0, 2, 0, 8, 0, 0] [0x2e]
/-- loader stub with a decoy: a complete block under the FIRST default key `0x69`, in the raw bytes -/
def exStub : Bytes := [0x90] ++ C20.xor [0, 1, 0, 1, 0, 2, 0, 4, 0, 0] [0x69] ++ [0x90]
def exNonce : Bytes := [1, 2, 3, 4]
/-- `len(enc) = 75` as a little-endian dword, XORed with the nonce -/
def exSize : Bytes := [74, 2, 3, 4]
def exEnc : Bytes := C09.rollEncode exNonce exPlain

-- `extract_xorencoded_end_to_end`: size relation holds, no marker; the `0x69` decoy in the stub is not looked at
set_option maxRecDepth 100000 in
example : fromFileReal 8192 ⟨exStub ++ exNonce ++ exSize ++ exEnc, 7, .bytesIO⟩ [] false
      = .ok ⟨[0, 1, 0, 1, 0, 2, 0, 8, 0, 0], [0x2e], true, none⟩ := by
  have hdec : C09.rollDecode exNonce exEnc = exPlain := C09.rollDecode_rollEncode exNonce exPlain rfl
  obtain ⟨h1, _⟩ := extract_xorencoded_end_to_end 8192 (by omega) exStub exNonce exSize exEnc rfl rfl
    ⟨exStub ++ exNonce ++ exSize ++ exEnc, 7, .bytesIO⟩ rfl [] false
    (Or.inr (by decide +kernel)) 4
    (by rw [hdec]; exact ⟨by decide +kernel, by decide +kernel, by decide, by decide, by decide +kernel, by decide +kernel⟩)
    (by decide +kernel)
    (by simp only [C09.SizeRel]; decide +kernel)
    [0x2e] 65 (by decide) (by rw [hdec]; decide +kernel) (by rw [hdec]; decide +kernel)
  rw [hdec] at h1
  have hb : C20.xor ((exPlain.drop 65).take patchSize) [0x2e] = [0, 1, 0, 1, 0, 2, 0, 8, 0, 0] := by decide +kernel
  rw [hb] at h1
  exact h1

-- … and by evaluation of the model, as an OS file
set_option maxRecDepth 100000 in
example : fromFileReal 8192 ⟨exStub ++ exNonce ++ exSize ++ exEnc, 0, .osFile⟩ [] false
      = .ok ⟨[0, 1, 0, 1, 0, 2, 0, 8, 0, 0], [0x2e], true, none⟩ := by decide +kernel

-- `extract_none_end_to_end`: nothing under the default keys (the block is under `0xaf`), no XorEncoded stage, too short
-- for a Guardrails area
set_option maxRecDepth 100000 in
example : fromFileReal 8192 ⟨C20.xor [0, 1, 0, 1, 0, 2, 0, 8, 0, 0] [0xaf], 0, .bytesIO⟩ [] false = .error .valueError :=
  extract_none_end_to_end 8192 (by omega) _ [] false (by decide +kernel) (by decide +kernel) (by intro h; cases h)
    (fun _ => guardClean_of_short _ _ (by decide))
    (fun c _ _ => guardClean_of_short _ _ (Nat.le_trans (Nat.add_le_add_right (decodedView_length_le _ c) 6) (by decide)))

-- … all-keys mode on a payload shorter than the header: all 256 keys (and the defaults) find nothing
set_option maxRecDepth 100000 in
example : fromFileReal 16 ⟨[0, 1, 0, 1, 0, 2], 3, .osFile⟩ [[0x41]] true = .error .valueError :=
  extract_none_end_to_end 16 (by omega) _ [[0x41]] true (by decide +kernel) (by decide +kernel) (fun _ => by decide +kernel)
    (fun _ => guardClean_of_short _ _ (by decide))
    (fun c _ _ => guardClean_of_short _ _ (Nat.le_trans (Nat.add_le_add_right (decodedView_length_le _ c) 6) (by decide)))

/-! `extract_guardrails_end_to_end`: an 8192-byte Guardrails-protected payload — configuration `SETTING_PROTOCOL = 8`
padded to 6144 bytes, environmental key `05 05`, guard configuration `GUARD_COMPUTER = ab cd`, `GUARD_PAYLOAD_CHECKSUM = 26`.
The masked areas are written out as literals (`exMb`, `exMg`) and proved equal to what the masking produces, so that no
hypothesis needs a kernel evaluation over the whole payload. -/
section guardrailsExample
open Gen.Guardrails C17

def exCfg : Bytes := [0, 1, 0, 1, 0, 2, 0, 8, 0, 0] ++ List.replicate 6134 0
def exGc : Bytes := [0, 6, 0, 1, 0, 2, 0xab, 0xcd, 0, 9, 0, 2, 0, 4, 0, 0, 0, 26, 0, 0] ++ List.replicate 2028 0
def exKey : Bytes := [5, 5]
def exMb : Bytes := [0x2b, 0x2a, 0x2b, 0x2a, 0x2b, 0x29, 0x2b, 0x23, 0x2b, 0x2b] ++ List.replicate 6134 0x2b
def exMg : Bytes :=
  [0xa1, 0xa7, 0xa1, 0xa0, 0xa1, 0xa3, 0x0a, 0x6c, 0xa1, 0xa8, 0xa1, 0xa3, 0xa1, 0xa5, 0xa1, 0xa1, 0xa1, 0xbb, 0xa1, 0xa1]
    ++ List.replicate 2028 0xa1
def exGuarded : Bytes := exMb ++ exMg

theorem exCfg_length : exCfg.length = 6144 := by rw [exCfg, List.length_append, List.length_replicate]; rfl
theorem exGc_length : exGc.length = 2048 := by rw [exGc, List.length_append, List.length_replicate]; rfl

theorem exMb_eq : C20.xor (C20.xor exCfg exKey) beaconXorKey = exMb := by
  rw [xor_const_key _ exKey 5 (by decide) (by decide), xor_const_key _ beaconXorKey 0x2e (by decide) (by decide)]
  simp only [exCfg, List.map_append, List.map_replicate]
  rfl

theorem exMg_eq : maskGuard exGc defaultGuardXorKey exMb = exMg := by
  unfold maskGuard
  rw [xor_eq_zipWith _ exMb.reverse (by
        rw [C17.xor_length, exGc_length, List.length_reverse, exMb, List.length_append, List.length_replicate]; decide),
      xor_const_key _ defaultGuardXorKey 0x8a (by decide) (by decide)]
  have hr : exMb.reverse = List.replicate 6134 0x2b ++ [0x2b, 0x2a, 0x2b, 0x2a, 0x2b, 0x29, 0x2b, 0x23, 0x2b, 0x2b].reverse := by
    rw [exMb, List.reverse_append, List.reverse_replicate]
  rw [hr, zipWith_replicate_right _ _ _ _ _ (by rw [List.length_map, exGc_length]; decide)]
  simp only [exGc, List.map_append, List.map_replicate]
  rfl

theorem exGuarded_eq : exGuarded =
    [] ++ C20.xor (C20.xor exCfg exKey) beaconXorKey
      ++ maskGuard exGc defaultGuardXorKey (C20.xor (C20.xor exCfg exKey) beaconXorKey) ++ [] := by
  rw [exMb_eq, exMg_eq, List.nil_append, List.append_nil]; rfl

theorem exGuarded_bytes : ∀ b ∈ [(0xff : UInt8), 0, 0x69, 0x2e], b ∉ exGuarded := by
  intro b hb
  simp only [exGuarded, exMb, exMg, List.mem_append, List.mem_replicate]
  revert b
  decide

theorem exGuarded_length : exGuarded.length = 8192 := by
  simp only [exGuarded, exMb, exMg, List.length_append, List.length_replicate, List.length_cons, List.length_nil]

theorem exGuarded_sizeRel : ∀ c, c < 1024 → ¬ C09.SizeRel exGuarded (exGuarded.length : Int) c := by
  intro c hc
  rw [exGuarded_length]
  by_cases h10 : c < 10
  · have h : ∀ c, c < 10 → ¬ C09.SizeRel exGuarded ((8192 : Nat) : Int) c := by
      simp only [C09.SizeRel]; decide +kernel
    exact h c h10
  · rintro ⟨_, h⟩
    have e1 : (exGuarded.drop c).take 4 = List.replicate 4 0x2b :=
      slice_in_replicate _ exMg 6134 0x2b c 4 (by simp only [List.length_cons, List.length_nil]; omega)
        (by simp only [List.length_cons, List.length_nil]; omega)
    have e2 : (exGuarded.drop (c + 4)).take 4 = List.replicate 4 0x2b :=
      slice_in_replicate _ exMg 6134 0x2b (c + 4) 4 (by simp only [List.length_cons, List.length_nil]; omega)
        (by simp only [List.length_cons, List.length_nil]; omega)
    rw [e1, e2] at h
    have hz : C09.u32 (C20.xor (List.replicate 4 0x2b) (List.replicate 4 0x2b)) = 0 := by decide +kernel
    rw [hz] at h
    omega

set_option maxRecDepth 100000 in
example : ∃ m, fromFileReal 8192 ⟨exGuarded, 0, .bytesIO⟩ [] false = .ok ⟨exCfg, [0x2e], false, some m⟩ ∧
    m.payloadXorKey = some exKey ∧ m.beaconConfigOffset = 0 ∧ m.guardConfigOffset = 6144 :=
  ⟨_, extract_guardrails_end_to_end 8192 (by omega) ⟨exGuarded, 0, .bytesIO⟩ [] false [] [] exCfg exKey exGc
    exCfg_length exGc_length (by decide) (by decide) (by decide +kernel) (by decide +kernel)
    (zero_padding_dominates 8192 exCfg exKey (by decide) (by rw [exCfg_length]; decide) (by decide +kernel))
    (by intro k hk; simp [exKey] at hk) exGuarded_eq
    (noEarlierRecord_start _ _ _ (by decide))
    (notXorEncoded_rejects 8192 (by omega) _ (notXorEncoded_of_no_candidate _
      (by intro h hh
          rw [show C15.occ exGuarded C09.eofMarker = [] from
            occ_nil_of_byte _ _ 0xff (by decide) (exGuarded_bytes 0xff (by decide))] at hh
          cases hh)
      exGuarded_sizeRel))
    (by intro k hk
        have hk' : k ∈ [[(0x69 : UInt8)], [0x2e], [0]] := hk
        simp only [List.mem_cons, List.not_mem_nil, or_false] at hk'
        rcases hk' with rfl | rfl | rfl
        · exact occ_nil_of_byte _ _ 0x69 (by decide) (exGuarded_bytes 0x69 (by decide))
        · exact occ_nil_of_byte _ _ 0x2e (by decide) (exGuarded_bytes 0x2e (by decide))
        · exact occ_nil_of_byte _ _ 0 (by decide) (exGuarded_bytes 0 (by decide)))
    (by intro h; cases h),
   rfl, rfl, rfl⟩

-- the settings of the recovered configuration (C02 `parse_serialize`, no evaluation over the 6144 bytes)
example : (⟨exCfg, [0x2e], false, none⟩ : Extracted).settings = [{ index := 1, type := 1, length := 2, value := [0, 8] }] :=
  (C02.parse_serialize [{ index := 1, type := 1, length := 2, value := [0, 8] }] (by decide) (List.replicate 6134 0)).1

end guardrailsExample

end C01

import CsVerif.Gen.PyExtract
import CsVerif.Props.C01
import CsVerif.Lemmas.C01Gen
/-!
C01 — the tie between the source text and the model, by (untyped) translation.

`Gen/PyExtract.lean` is produced on every run by `tools/py2leanu.py` (plug-in `tools/gen/py_extractu.py`) from the *source* of
`utils.iter_find_needle`, `beacon.find_beacon_config_bytes` and `beacon.iter_beacon_config_blocks`, in FIRST-YIELD FORM: the entry
points of the property (`BeaconConfig.from_file / from_bytes / from_path`) never resume `iter_beacon_config_blocks` after its first
`yield`, which in turn resumes `find_beacon_config_bytes` only after it has yielded itself, and so on down to `iter_find_needle`; the
first-yield form `g__first` of a generator function `g` is the ordinary function that runs the body of `g` up to its first `yield e`
and answers `(e,)` — or `None` when the body ends without a yield — together with the file object as it is at that moment.  It is
obtained from the source by an exact rewriting (documented in the plug-in); nothing about what the generator would do when resumed
is assumed.

File-like objects are dispatched dynamically (Model/PyU_T01.lean): `fh.read / seek / tell` run the file operations of
Model/PyU_T15.lean on an ordinary file and the methods TRANSLATED from xordecode.py (Gen/PyXor.lean, proved in Props/C09Gen.lean) on
an `XorEncodedFile` view.  `XorEncodedFile.from_file` (C09's detector) and the statements that compute the order of the residual
keys of the all-keys retry are EXTERNAL: parameters `xff`, `left_keys` of the translated definitions, constrained in the theorems
by their contracts `XffSpec` (the answer depends on the content only: a view at nonce offset `c` — the hypothesis `det` of the
theorems of Props/C01.lean — or ValueError) and `LeftSpec` (they answer SOME list `left`; as in `C01.allkeys_any_order` the theorems
hold for every order).

  * `firstOf_*`: what a consumer that never resumes the generator observes of the TRACES of `Model/C01.lean` is the first-yield run
    (`C01Gen.findFirst`, `overKeysFirst`) — for every file-like object, without assumption.  This turns the harness ASSUMPTION
    "generators consumed only up to the first yield behave as the prefix of the fully consumed run" into a theorem about the model.
  * `gen_iter_find_needle_first`, `gen_find_beacon_config_bytes_first`: the translated definitions compute `C01Gen.iterNeedleFirst`
    / `findFirst` on the encoding of every ordinary file (any kind, any position) and of every XorEncodedFile view of a well-formed
    stage, for every buffer size, key and every fuel from an explicit bound on.
  * `gen_from_file_found / _fallback / _eq_model / _none`: the translated `BeaconConfig.from_file` against the specification and
    against `C01.fromFile`, the function the theorems of `Props/C01.lean` are stated on.
  * `gen_iter_beacon_config_blocks_first`: **the translated source of `iter_beacon_config_blocks` yields first exactly the first
    candidate of the declarative specification** (`C01.searchSpec`: decoded view before the file, key priority, file order; then
    the residual keys) — the content of `C01.extract_first` / `extract_none`, for the source text.  `gen_blocks_eq_model` restates it
    against the hand-written model (the head of the yields of `C01.iterConfigBlocks`).
Helper lemmas: `Lemmas/C01Gen.lean`.
-/
namespace C01Gen
open PyU C01 C15Gen C09Gen Gen.Extract

/-! ### first-yield runs are prefixes of the model's traces (no assumption) -/

/-- what a consumer that never resumes `find_beacon_config_bytes` observes of the model's trace — the first yielded block, or how
the generator ends without one — is the first-yield run, for EVERY file-like object -/
theorem first_yield_find {σ : Type} (F : FileLike σ) (B : Nat) (s : σ) (key : Bytes) :
    firstOf (findConfigBytes F B s key) = (findFirst F B s key).map (·.1) :=
  firstOf_findConfigBytes F B s key

/-- the same for the key loop `for xorkey in keys: for config_block in find_beacon_config_bytes(fh, xorkey): yield …` -/
theorem first_yield_keys {σ : Type} (F : FileLike σ) (B : Nat) (enc : Bool) (keys : List Bytes) (s : σ) :
    firstOf (overKeys F B enc keys s) = (overKeysFirst F B enc keys s).map (·.1) :=
  firstOf_overKeys F B enc keys s

/-! ### `iter_find_needle` and `find_beacon_config_bytes`, first-yield form -/

/-- the translated `iter_find_needle__first` (no limit) on an ORDINARY FILE — any content, position and kind, any needle and buffer
size, `start_offset` `None` or a non-negative int — equals the encoding of the first-yield run of the model -/
theorem gen_iter_find_needle_first (B : Nat) (f : PyFile) (needle : Bytes) (start : Option Nat) (fuel : Nat)
    (hf : f.data.length + 3 ≤ fuel) :
    Gen.PyExtract.iter_find_needle__first (.int (B : Int)) fuel (encFile f) (.bytes needle) (encOptNat start) (.int 0)
      = (iterNeedleFirst rawFile B f needle start).map (encFirst V.int encFile) := by
  obtain ⟨r, _, e1, e2, _⟩ := gen_iter_find_needle_first_aux sim_raw encOps_raw B f f rfl needle start fuel (by omega)
  rw [e1, e2]; rfl

/-- the same through an `XorEncodedFile` VIEW of a well-formed stage `stub ++ nonce ++ size ++ enc` (at any logical position): every
`tell / read / seek` is the method translated from xordecode.py -/
theorem gen_iter_find_needle_first_view (stub nonce size enc : Bytes) (x : C09.XorFile) (pf : PyFile)
    (hA : C09.Abs stub nonce size enc x pf) (B : Nat) (needle : Bytes) (start : Option Nat) (fuel : Nat)
    (hf : (stub.length + 8 + enc.length + 1) + pf.data.length + 3 ≤ fuel) :
    Gen.PyExtract.iter_find_needle__first (.int (B : Int)) fuel (encXor x) (.bytes needle) (encOptNat start) (.int 0)
      = (iterNeedleFirst xorView B x needle start).map (encFirst V.int encXor) := by
  obtain ⟨r, _, e1, e2, _⟩ := gen_iter_find_needle_first_aux (sim_xor stub nonce size enc) (encOps_xor stub nonce size enc) B x pf hA
    needle start fuel hf
  rw [e1, e2]; rfl

/-- the translated `find_beacon_config_bytes__first` on an ordinary file: for every content, position, kind, key (any `bytes`, also
empty) and buffer size, and every fuel of at least `len(file) + 3` -/
theorem gen_find_beacon_config_bytes_first (B : Nat) (f : PyFile) (key : Bytes) (fuel : Nat) (hf : f.data.length + 3 ≤ fuel) :
    Gen.PyExtract.find_beacon_config_bytes__first (.int (B : Int)) fuel (encFile f) (.bytes key)
      = (findFirst rawFile B f key).map (encFirst V.bytes encFile) := by
  obtain ⟨r, _, e1, e2, _⟩ := gen_find_first_aux sim_raw encOps_raw B f f rfl key fuel (by omega)
  rw [e1, e2]; rfl

/-- … and through an `XorEncodedFile` view of a well-formed stage -/
theorem gen_find_beacon_config_bytes_first_view (stub nonce size enc : Bytes) (x : C09.XorFile) (pf : PyFile)
    (hA : C09.Abs stub nonce size enc x pf) (B : Nat) (key : Bytes) (fuel : Nat)
    (hf : (stub.length + 8 + enc.length + 1) + pf.data.length + 3 ≤ fuel) :
    Gen.PyExtract.find_beacon_config_bytes__first (.int (B : Int)) fuel (encXor x) (.bytes key)
      = (findFirst xorView B x key).map (encFirst V.bytes encXor) := by
  obtain ⟨r, _, e1, e2, _⟩ := gen_find_first_aux (sim_xor stub nonce size enc) (encOps_xor stub nonce size enc) B x pf hA key fuel hf
  rw [e1, e2]; rfl

/-- **what the translated `find_beacon_config_bytes` yields first** on an ordinary file: the un-XORed `PATCH_SIZE` bytes at the
LEAST offset where `CONFIG_HEADER ⊕ key` occurs (fewer at the end of the file) — or nothing when there is no occurrence; for every
buffer size `≥ 1` (C01 `findConfigBytes_spec` through `first_yield_find`) -/
theorem gen_find_first_exact (B : Nat) (hB : 1 ≤ B) (f : PyFile) (key : Bytes) (fuel : Nat) (hf : f.data.length + 3 ≤ fuel) :
    ∃ f' : PyFile, f'.data = f.data ∧
      Gen.PyExtract.find_beacon_config_bytes__first (.int (B : Int)) fuel (encFile f) (.bytes key)
        = .ok (.tuple [encRet V.bytes ((occK f.data key).head?.map fun i => C20.xor ((f.data.drop i).take patchSize) key),
                       encFile f']) := by
  obtain ⟨r, pf', e1, e2, a', hd'⟩ := gen_find_first_aux sim_raw encOps_raw B f f rfl key fuel (by omega)
  have a'' : r.2 = pf' := a'
  subst a''
  refine ⟨r.2, hd', ?_⟩
  rw [e2]
  have h1 := first_yield_find rawFile B f key
  rw [e1] at h1
  obtain ⟨s1, s2⟩ := findConfigBytes_spec sim_raw B hB key f f rfl
  generalize findConfigBytes rawFile B f key = t at h1 s1 s2
  obtain ⟨ys, fin⟩ := t
  cases hO : occK f.data key with
  | nil =>
    obtain ⟨hy, s', pf2, hfin, _, _⟩ := s1 hO
    simp only at hy hfin
    subst hy; subst hfin
    simp only [firstOf, Except.map, Except.ok.injEq] at h1
    simp only [encFirst, ← h1, List.head?_nil, Option.map_none]
  | cons i rest =>
    have hh := s2 i rest hO
    cases ys with
    | nil => simp at hh
    | cons y ys' =>
      simp only [List.head?_cons, Option.some.injEq] at hh
      simp only [firstOf, Except.map, Except.ok.injEq] at h1
      simp only [encFirst, ← h1, List.head?_cons, Option.map_some, hh]

/-! ### `iter_beacon_config_blocks`, first-yield form -/

/-- **Central theorem for the source text.**  The definition translated from the source of `iter_beacon_config_blocks` (as
`BeaconConfig.from_file` calls it: `xordecode` left to its default), run up to its first yield on ANY ordinary file (content,
position, kind), with any key-list argument (`None`, `[]`, a list of `bytes` of any length), either value of `all_xor_keys`, any
buffer size `≥ 1`, any detector `xff` that honours the contract `XffSpec` (answer `det`, well-formed: `c + 8 ≤ len`), any key-order
function that honours `LeftSpec` (for ANY order `left`), and every fuel of at least `2·len(file) + 4`, yields first exactly the FIRST
CANDIDATE of the declarative specification `C01.searchSpec` — decoded view before the file itself, then key priority, then file
order; under the residual keys when nothing is found under the given ones and `all_xor_keys` is set — as the tuple
`(config_block, {"xorkey": key, "xorencoded": flag})`, and `None` when there is no candidate; it never raises. -/
theorem gen_iter_beacon_config_blocks_first (B : Nat) (hB : 1 ≤ B) (f : PyFile) (ks : Option (List Bytes)) (ak : Bool)
    (det : Option Nat) (hdet : DetOk f.data det) (xff : V → Py V) (hx : XffSpec xff f.data det)
    (lk : V → V → Py V) (left : List Bytes) (hl : LeftSpec lk f.data (effKeysOpt ks) left) (fuel : Nat)
    (hf : 2 * f.data.length + 4 ≤ fuel) :
    ∃ g : PyFile, g.data = f.data ∧
      Gen.PyExtract.iter_beacon_config_blocks__first xff (.int (B : Int)) lk fuel (encFile f) (encKeysOpt ks) (.bool ak)
        = .ok (.tuple [encRet encResult ((searchSpec f.data (ks.getD []) ak det left).map Cand.result), encFile g]) :=
  gen_blocks_aux B hB f.data f rfl ks ak det hdet xff hx lk left hl fuel hf

/-- the source default `all_xor_keys=False` -/
theorem gen_iter_beacon_config_blocks_first_default (B : Nat) (hB : 1 ≤ B) (f : PyFile) (ks : Option (List Bytes))
    (det : Option Nat) (hdet : DetOk f.data det) (xff : V → Py V) (hx : XffSpec xff f.data det)
    (lk : V → V → Py V) (left : List Bytes) (hl : LeftSpec lk f.data (effKeysOpt ks) left) (fuel : Nat)
    (hf : 2 * f.data.length + 4 ≤ fuel) :
    ∃ g : PyFile, g.data = f.data ∧
      Gen.PyExtract.iter_beacon_config_blocks__first_default1 xff (.int (B : Int)) lk fuel (encFile f) (encKeysOpt ks)
        = .ok (.tuple [encRet encResult ((searchSpec f.data (ks.getD []) false det left).map Cand.result), encFile g]) :=
  gen_iter_beacon_config_blocks_first B hB f ks false det hdet xff hx lk left hl fuel hf

/-- the specialisation `xordecode=True, all_xor_keys=False` that the source calls recursively for the residual keys -/
theorem gen_iter_beacon_config_blocks_nr_first (B : Nat) (hB : 1 ≤ B) (f : PyFile) (ks : Option (List Bytes))
    (det : Option Nat) (hdet : DetOk f.data det) (xff : V → Py V) (hx : XffSpec xff f.data det) (fuel : Nat)
    (hf : 2 * f.data.length + 4 ≤ fuel) :
    ∃ g : PyFile, g.data = f.data ∧
      Gen.PyExtract.iter_beacon_config_blocks_nr__first xff (.int (B : Int)) fuel (encFile f) (encKeysOpt ks)
        = .ok (.tuple [encRet encResult ((candidates (views f.data det) (effKeysOpt ks)).head?.map Cand.result), encFile g]) :=
  gen_blocks_nr_aux B hB f.data f rfl ks det hdet xff hx fuel hf

/-- the same against the hand-written model: the translated source yields first what `C01.iterConfigBlocks` yields first (the model
the theorems of `Props/C01.lean` are stated on; `C01.blocks_first_yield`) -/
theorem gen_blocks_eq_model (B : Nat) (hB : 1 ≤ B) (f : PyFile) (ks : Option (List Bytes)) (ak : Bool)
    (det : Option Nat) (hdet : DetOk f.data det) (xff : V → Py V) (hx : XffSpec xff f.data det)
    (lk : V → V → Py V) (left : List Bytes) (hl : LeftSpec lk f.data (effKeysOpt ks) left) (fuel : Nat)
    (hf : 2 * f.data.length + 4 ≤ fuel) :
    ∃ g : PyFile, g.data = f.data ∧
      Gen.PyExtract.iter_beacon_config_blocks__first xff (.int (B : Int)) lk fuel (encFile f) (encKeysOpt ks) (.bool ak)
        = .ok (.tuple [encRet encResult (iterConfigBlocks B f (ks.getD []) ak det left).1.head?, encFile g]) := by
  obtain ⟨g, hg, h⟩ := gen_iter_beacon_config_blocks_first B hB f ks ak det hdet xff hx lk left hl fuel hf
  refine ⟨g, hg, ?_⟩
  rw [h, blocks_first_yield B hB f (ks.getD []) ak det hdet left]
  congr 3
  simp only [extractSpec, searchSpec]
  cases (candidates (views f.data det) (effKeys (ks.getD []))).head? with
  | some c => rfl
  | none =>
    cases ak with
    | false => rfl
    | true =>
      simp only [if_true]
      cases (candidates (views f.data det) (effKeys left)).head? <;> rfl

/-- **`extract_first` for the source text**: when a candidate exists under the tried keys, the first yield of the translated
`iter_beacon_config_blocks` is the LEAST candidate `c` in (view, key priority, offset) order, with its block, key and flag -/
theorem gen_extract_first (B : Nat) (hB : 1 ≤ B) (f : PyFile) (ks : Option (List Bytes)) (ak : Bool)
    (det : Option Nat) (hdet : DetOk f.data det) (xff : V → Py V) (hx : XffSpec xff f.data det)
    (lk : V → V → Py V) (left : List Bytes) (hl : LeftSpec lk f.data (effKeysOpt ks) left) (fuel : Nat)
    (hf : 2 * f.data.length + 4 ≤ fuel) (c : Cand)
    (hc : (candidates (views f.data det) (effKeysOpt ks)).head? = some c) :
    (∃ g : PyFile, g.data = f.data ∧
      Gen.PyExtract.iter_beacon_config_blocks__first xff (.int (B : Int)) lk fuel (encFile f) (encKeysOpt ks) (.bool ak)
        = .ok (.tuple [.tuple [encResult ⟨C20.xor ((c.plain.drop c.offset).take patchSize) c.key, c.key, c.xorencoded⟩], encFile g])) ∧
    c ∈ candidates (views f.data det) (effKeysOpt ks) ∧
    ∀ c' ∈ candidates (views f.data det) (effKeysOpt ks),
      (c'.xorencoded = true → c.xorencoded = true) ∧
      (c'.xorencoded = c.xorencoded →
        (effKeysOpt ks).idxOf c.key ≤ (effKeysOpt ks).idxOf c'.key ∧ (c'.key = c.key → c.offset ≤ c'.offset)) := by
  refine ⟨?_, first_is_least _ _ _ c hc⟩
  obtain ⟨g, hg, h⟩ := gen_iter_beacon_config_blocks_first B hB f ks ak det hdet xff hx lk left hl fuel hf
  refine ⟨g, hg, ?_⟩
  rw [h, searchSpec_some f.data (ks.getD []) ak det left c hc]
  rfl

/-- **`extract_none` for the source text**: no candidate under the tried keys (nor, in all-keys mode, under the residual ones) —
the translated generator ends without a yield (`None`), so `from_file` goes on to its Guardrails fallback -/
theorem gen_extract_none (B : Nat) (hB : 1 ≤ B) (f : PyFile) (ks : Option (List Bytes)) (ak : Bool)
    (det : Option Nat) (hdet : DetOk f.data det) (xff : V → Py V) (hx : XffSpec xff f.data det)
    (lk : V → V → Py V) (left : List Bytes) (hl : LeftSpec lk f.data (effKeysOpt ks) left) (fuel : Nat)
    (hf : 2 * f.data.length + 4 ≤ fuel)
    (h1 : candidates (views f.data det) (effKeysOpt ks) = [])
    (h2 : ak = true → candidates (views f.data det) (effKeys left) = []) :
    ∃ g : PyFile, g.data = f.data ∧
      Gen.PyExtract.iter_beacon_config_blocks__first xff (.int (B : Int)) lk fuel (encFile f) (encKeysOpt ks) (.bool ak)
        = .ok (.tuple [.none, encFile g]) := by
  obtain ⟨g, hg, h⟩ := gen_iter_beacon_config_blocks_first B hB f ks ak det hdet xff hx lk left hl fuel hf
  refine ⟨g, hg, ?_⟩
  have hn : (candidates (views f.data det) (effKeys (ks.getD []))).head? = none := by
    show (candidates (views f.data det) (effKeysOpt ks)).head? = none
    rw [h1]; rfl
  rw [h, searchSpec_none f.data (ks.getD []) ak det left hn]
  cases ak with
  | false => rfl
  | true => rw [h2 rfl]; rfl

/-- the order of the residual keys does not matter when at most one of them has a candidate — in particular the answer of the
translated definition is the same for any two key-order functions (`allkeys_any_order` / `allkeys_single_key` carry over through
`gen_blocks_eq_model`); here: two contracts with the same list give the same answer up to the final file position -/
theorem gen_blocks_order_only (B : Nat) (hB : 1 ≤ B) (f : PyFile) (ks : Option (List Bytes)) (ak : Bool)
    (det : Option Nat) (hdet : DetOk f.data det) (xff xff' : V → Py V) (hx : XffSpec xff f.data det) (hx' : XffSpec xff' f.data det)
    (lk lk' : V → V → Py V) (left : List Bytes) (hl : LeftSpec lk f.data (effKeysOpt ks) left)
    (hl' : LeftSpec lk' f.data (effKeysOpt ks) left) (fuel fuel' : Nat) (hf : 2 * f.data.length + 4 ≤ fuel)
    (hf' : 2 * f.data.length + 4 ≤ fuel') :
    ∃ r g g', Gen.PyExtract.iter_beacon_config_blocks__first xff (.int (B : Int)) lk fuel (encFile f) (encKeysOpt ks) (.bool ak)
        = .ok (.tuple [r, encFile g]) ∧
      Gen.PyExtract.iter_beacon_config_blocks__first xff' (.int (B : Int)) lk' fuel' (encFile f) (encKeysOpt ks) (.bool ak)
        = .ok (.tuple [r, encFile g']) := by
  obtain ⟨g, _, h⟩ := gen_iter_beacon_config_blocks_first B hB f ks ak det hdet xff hx lk left hl fuel hf
  obtain ⟨g', _, h'⟩ := gen_iter_beacon_config_blocks_first B hB f ks ak det hdet xff' hx' lk' left hl' fuel' hf'
  exact ⟨_, g, g', h, h'⟩

/-! ### `BeaconConfig.from_file`

The translated `from_file` is parameterised by the external functions it calls: the detector `xff` and the key order `left_keys` (as
above), the constructor `BeaconConfig(config_block)` (`new_config`; contract `CfgSpec`: it builds the object that the definition
translated from `BeaconConfig.__init__` builds — `cfgSpec_newConfigG`), `pe.find_compile_stamps` / `pe.find_architecture` (C18;
contract `FileExtSpec`: they answer SOME stamps / architecture and hand the file-like object back — their values are recorded in the
result and are not part of this property) and `iter_guardrail_configs_with_beacon` (C17; it answers the records `ms`). -/

/-- the constructor translated from the source of `BeaconConfig.__init__` (Gen/PyBeaconCfg.lean), with fuel for its argument, honours
the contract -/
theorem cfgSpec_newConfigG : CfgSpec newConfigG := fun b => C02Gen.gen_beacon_config_init (b.length + 1) b (by omega)

/-- **`from_file`, a candidate exists** (under the given keys, or — all-keys mode — under the residual ones): the translated
`from_file` returns the `BeaconConfig` object built from the block of the LEAST candidate `c` of the specification, with `xorkey` the
key it was found under, `xorencoded` the view flag, `settings_tuple` the C02 decoding of the block and `guardrails = None`; the
Guardrails scan is not consulted.  For every file, key-list argument, mode, buffer size `≥ 1` and every fuel `≥ 2·len + 4`. -/
theorem gen_from_file_found (B : Nat) (hB : 1 ≤ B) (f : PyFile) (ks : Option (List Bytes)) (ak : Bool)
    (det : Option Nat) (hdet : DetOk f.data det) (xff : V → Py V) (hx : XffSpec xff f.data det)
    (lk : V → V → Py V) (left : List Bytes) (hl : LeftSpec lk f.data (effKeysOpt ks) left)
    (nc : V → Py V) (hnc : CfgSpec nc)
    (fcs : V → Py V) (hfcs : FileExtSpec fcs f.data (fun r => ∃ c e, r = .tuple [c, e]))
    (fa : V → Py V) (hfa : FileExtSpec fa f.data (fun _ => True))
    (ig : V → Py V) (fuel : Nat) (hf : 2 * f.data.length + 4 ≤ fuel)
    (c : Cand) (hc : searchSpec f.data (ks.getD []) ak det left = some c) :
    ∃ pe_e pe_c arch out,
      Gen.PyExtract.from_file xff (.int (B : Int)) lk nc fcs fa ig fuel (encFile f) (encKeysOpt ks) (.bool ak)
        = .ok (.tuple [encExtracted (C20.xor ((c.plain.drop c.offset).take patchSize) c.key) (.bytes c.key) c.xorencoded
                         pe_e pe_c arch .none, out]) :=
  gen_from_file_found_aux B hB f.data f rfl ks ak det hdet xff hx lk left hl nc hnc fcs hfcs fa hfa ig fuel hf c hc

/-- **`from_file`, no candidate**: the Guardrails fallback — the first record of the scan with a non-empty unmasked configuration
gives the object (`xorkey = beacon_xor_key`, `guardrails` = the record, `xorencoded = False`); without one the documented
`ValueError("No valid Beacon configuration found")` -/
theorem gen_from_file_fallback (B : Nat) (hB : 1 ≤ B) (f : PyFile) (ks : Option (List Bytes)) (ak : Bool)
    (det : Option Nat) (hdet : DetOk f.data det) (xff : V → Py V) (hx : XffSpec xff f.data det)
    (lk : V → V → Py V) (left : List Bytes) (hl : LeftSpec lk f.data (effKeysOpt ks) left)
    (nc : V → Py V) (hnc : CfgSpec nc)
    (fcs : V → Py V) (hfcs : FileExtSpec fcs f.data (fun r => ∃ c e, r = .tuple [c, e]))
    (fa : V → Py V) (hfa : FileExtSpec fa f.data (fun _ => True))
    (ig : V → Py V) (ms : List C17.Meta) (hig : FileExtSpec ig f.data (fun r => r = .list (ms.map C17Gen.encMeta)))
    (fuel : Nat) (hf : 2 * f.data.length + 4 ≤ fuel)
    (hc : searchSpec f.data (ks.getD []) ak det left = none) :
    match ms.find? usable with
    | none => Gen.PyExtract.from_file xff (.int (B : Int)) lk nc fcs fa ig fuel (encFile f) (encKeysOpt ks) (.bool ak) = .error .valueError
    | some m =>
      ∃ cfg pe_e pe_c arch out, m.unmaskedBeaconConfig = some cfg ∧
        Gen.PyExtract.from_file xff (.int (B : Int)) lk nc fcs fa ig fuel (encFile f) (encKeysOpt ks) (.bool ak)
          = .ok (.tuple [encExtracted cfg (.bytes m.beaconXorKey) false pe_e pe_c arch (C17Gen.encMeta m), out]) :=
  gen_from_file_fallback_aux B hB f.data f rfl ks ak det hdet xff hx lk left hl nc hnc fcs hfcs fa hfa ig ms hig fuel hf hc

/-- the Guardrails outcome as the hand-written model takes it (`guard : Option Result` of `C01.fromFile`) -/
def guardOf (ms : List C17.Meta) : Option Result :=
  (ms.find? usable).bind fun m => m.unmaskedBeaconConfig.map fun cfg => ⟨cfg, m.beaconXorKey, false⟩

/-- **the translated `from_file` against the hand-written model** `C01.fromFile` (the function `extract_first`, `extract_eq_spec`,
`extract_none`, `extract_only_valueError`, `allkeys_any_order` … of `Props/C01.lean` are stated on): the same exception, or the
object with the model's `config_block`, `xorkey`, `xorencoded` (and `settings_tuple` its C02 decoding) -/
theorem gen_from_file_eq_model (B : Nat) (hB : 1 ≤ B) (f : PyFile) (ks : Option (List Bytes)) (ak : Bool)
    (det : Option Nat) (hdet : DetOk f.data det) (xff : V → Py V) (hx : XffSpec xff f.data det)
    (lk : V → V → Py V) (left : List Bytes) (hl : LeftSpec lk f.data (effKeysOpt ks) left)
    (nc : V → Py V) (hnc : CfgSpec nc)
    (fcs : V → Py V) (hfcs : FileExtSpec fcs f.data (fun r => ∃ c e, r = .tuple [c, e]))
    (fa : V → Py V) (hfa : FileExtSpec fa f.data (fun _ => True))
    (ig : V → Py V) (ms : List C17.Meta) (hig : FileExtSpec ig f.data (fun r => r = .list (ms.map C17Gen.encMeta)))
    (fuel : Nat) (hf : 2 * f.data.length + 4 ≤ fuel) :
    match fromFile B f (ks.getD []) ak det left (guardOf ms) with
    | .error e => Gen.PyExtract.from_file xff (.int (B : Int)) lk nc fcs fa ig fuel (encFile f) (encKeysOpt ks) (.bool ak) = .error e
    | .ok r =>
      ∃ pe_e pe_c arch gr out,
        Gen.PyExtract.from_file xff (.int (B : Int)) lk nc fcs fa ig fuel (encFile f) (encKeysOpt ks) (.bool ak)
          = .ok (.tuple [encExtracted r.block (.bytes r.xorkey) r.xorencoded pe_e pe_c arch gr, out]) := by
  rw [extract_eq_spec B hB f (ks.getD []) ak det hdet left (guardOf ms)]
  have hss : extractSpec f.data (ks.getD []) ak det left (guardOf ms)
      = match searchSpec f.data (ks.getD []) ak det left with
        | some c => .ok c.result
        | none => match guardOf ms with | some g => .ok g | none => .error .valueError := by
    simp only [extractSpec, searchSpec]
    cases (candidates (views f.data det) (effKeys (ks.getD []))).head? with
    | some c => rfl
    | none =>
      cases ak with
      | false => rfl
      | true => simp only [if_true]; cases (candidates (views f.data det) (effKeys left)).head? <;> rfl
  rw [hss]
  cases hc : searchSpec f.data (ks.getD []) ak det left with
  | some c =>
    obtain ⟨pe_e, pe_c, arch, out, h⟩ := gen_from_file_found B hB f ks ak det hdet xff hx lk left hl nc hnc fcs hfcs fa hfa ig fuel hf c hc
    exact ⟨pe_e, pe_c, arch, .none, out, h⟩
  | none =>
    have h := gen_from_file_fallback B hB f ks ak det hdet xff hx lk left hl nc hnc fcs hfcs fa hfa ig ms hig fuel hf hc
    simp only [guardOf]
    cases hfind : ms.find? usable with
    | none => rw [hfind] at h; exact h
    | some m =>
      rw [hfind] at h
      obtain ⟨cfg, pe_e, pe_c, arch, out, hcfg, h⟩ := h
      simp only [Option.bind_some, hcfg, Option.map_some]
      exact ⟨pe_e, pe_c, arch, _, out, h⟩

/-- **`extract_none` for the source text of `from_file`**: no candidate under the tried keys and no usable Guardrails record —
`ValueError`, nothing else -/
theorem gen_from_file_none (B : Nat) (hB : 1 ≤ B) (f : PyFile) (ks : Option (List Bytes)) (ak : Bool)
    (det : Option Nat) (hdet : DetOk f.data det) (xff : V → Py V) (hx : XffSpec xff f.data det)
    (lk : V → V → Py V) (left : List Bytes) (hl : LeftSpec lk f.data (effKeysOpt ks) left)
    (nc : V → Py V) (hnc : CfgSpec nc)
    (fcs : V → Py V) (hfcs : FileExtSpec fcs f.data (fun r => ∃ c e, r = .tuple [c, e]))
    (fa : V → Py V) (hfa : FileExtSpec fa f.data (fun _ => True))
    (ig : V → Py V) (ms : List C17.Meta) (hig : FileExtSpec ig f.data (fun r => r = .list (ms.map C17Gen.encMeta)))
    (hms : ms.find? usable = none) (fuel : Nat) (hf : 2 * f.data.length + 4 ≤ fuel)
    (h1 : candidates (views f.data det) (effKeysOpt ks) = [])
    (h2 : ak = true → candidates (views f.data det) (effKeys left) = []) :
    Gen.PyExtract.from_file xff (.int (B : Int)) lk nc fcs fa ig fuel (encFile f) (encKeysOpt ks) (.bool ak) = .error .valueError := by
  have hn : (candidates (views f.data det) (effKeys (ks.getD []))).head? = none := by
    show (candidates (views f.data det) (effKeysOpt ks)).head? = none
    rw [h1]; rfl
  have hc : searchSpec f.data (ks.getD []) ak det left = none := by
    rw [searchSpec_none f.data (ks.getD []) ak det left hn]
    cases ak with
    | false => rfl
    | true => rw [h2 rfl]; rfl
  have h := gen_from_file_fallback B hB f ks ak det hdet xff hx lk left hl nc hnc fcs hfcs fa hfa ig ms hig fuel hf hc
  rw [hms] at h
  exact h

/-! ### Non-vacuity: the translated definitions evaluated on concrete inputs -/

/-- `A`, then the block `00 01 00 01 00 02 00 08 00 00` under key `0x2e` (the example of `Props/C01.lean`) -/
def exRawV : V := mkFile C01.exRaw 0 0

-- the scanner finds the header under 0x2e at offset 1 (buffer size 4: the needle straddles block boundaries)
example : Gen.PyExtract.iter_find_needle__first (.int 4) 20 exRawV (.bytes (C20.xor configHeader [0x2e])) (.int 0) (.int 0)
    = .ok (.tuple [.tuple [.int 1], mkFile C01.exRaw 8 0]) := by decide +kernel
-- `find_beacon_config_bytes` yields the un-XORed block first and leaves the file at its end
example : Gen.PyExtract.find_beacon_config_bytes__first (.int 8192) 20 exRawV (.bytes [0x2e])
    = .ok (.tuple [.tuple [.bytes [0, 1, 0, 1, 0, 2, 0, 8, 0, 0]], mkFile C01.exRaw 11 0]) := by decide +kernel
-- nothing under 0x69
example : Gen.PyExtract.find_beacon_config_bytes__first (.int 8192) 20 exRawV (.bytes [0x69])
    = .ok (.tuple [.none, mkFile C01.exRaw 11 0]) := by decide +kernel
-- wrong argument kinds: a `str` key (`xor` of the typed translation: TypeError), `None` as the file (AttributeError)
example : Gen.PyExtract.find_beacon_config_bytes__first (.int 8192) 20 exRawV (lit "i") = .error .typeError := by decide +kernel
example : Gen.PyExtract.find_beacon_config_bytes__first (.int 8192) 20 .none (.bytes [0x69]) = .error .attributeError := by decide +kernel
-- too little fuel is a Timeout, never a wrong answer
example : Gen.PyExtract.find_beacon_config_bytes__first (.int 2) 3 exRawV (.bytes [0x69]) = .error .timeoutDiverge := by decide +kernel

/-- a detector that never finds a view (raises ValueError, leaves the file where it is) and a key order that answers `[0xaf]` -/
def xffNone (v : V) : Py V := .ok (.tuple [.none, v])
def lkAf (a _keys : V) : Py V := .ok (.tuple [.list [.bytes [0xaf]], a])

-- default keys: the block under 0x2e is found in the file itself (`xorencoded = False`)
example : Gen.PyExtract.iter_beacon_config_blocks__first xffNone (.int 8192) lkAf 40 exRawV .none (.bool false)
    = .ok (.tuple [.tuple [.tuple [.bytes [0, 1, 0, 1, 0, 2, 0, 8, 0, 0],
        .dict [lit "xorkey", lit "xorencoded"] [.bytes [0x2e], .bool false]]], mkFile C01.exRaw 11 0]) := by decide +kernel
-- a key list without 0x2e: nothing; with `all_xor_keys` the retry runs (the residual order `[0xaf]` does not contain 0x2e: still nothing)
example : Gen.PyExtract.iter_beacon_config_blocks__first xffNone (.int 8192) lkAf 40 exRawV (.list [.bytes [0x41]]) (.bool false)
    = .ok (.tuple [.none, mkFile C01.exRaw 11 0]) := by decide +kernel
example : Gen.PyExtract.iter_beacon_config_blocks__first xffNone (.int 8192) lkAf 40 exRawV (.list [.bytes [0x41]]) (.bool true)
    = .ok (.tuple [.none, mkFile C01.exRaw 11 0]) := by decide +kernel
-- the hypotheses of the central theorem are satisfiable: `xffNone` honours the contract for `det = none`
example : XffSpec xffNone C01.exRaw none := fun g hg => ⟨g, rfl, hg⟩

/-- a Guardrails scan that finds nothing -/
def igNone (a : V) : Py V := .ok (.tuple [.list [], a])

-- `from_file` on the example: the object with the block, key `2e`, `xorencoded = False`, one decoded setting, no Guardrails record
example : Gen.PyExtract.from_file xffNone (.int 8192) lkAf newConfigG peStamps peArch igNone 40 exRawV .none (.bool false)
    = .ok (.tuple [encExtracted [0, 1, 0, 1, 0, 2, 0, 8, 0, 0] (.bytes [0x2e]) false .none .none .none .none, mkFile C01.exRaw 11 0]) := by
  decide +kernel
-- … and the documented ValueError when the key list does not contain the key (also in all-keys mode with a residual order without it)
example : Gen.PyExtract.from_file xffNone (.int 8192) lkAf newConfigG peStamps peArch igNone 40 exRawV (.list [.bytes [0x41]]) (.bool true)
    = .error .valueError := by decide +kernel
-- the contracts of the PE place holders and of the empty Guardrails scan are satisfiable
example : FileExtSpec peArch C01.exRaw (fun _ => True) := fun v hv => ⟨.none, v, rfl, trivial, hv⟩
example : FileExtSpec igNone C01.exRaw (fun r => r = .list (([] : List C17.Meta).map C17Gen.encMeta)) := fun v hv => ⟨_, v, rfl, rfl, hv⟩

end C01Gen

import CsVerif.Lemmas.C15
/-! C15 property theorems: pattern scanners report exactly the true occurrences. -/
namespace C15

/-! ### the specification `occ` says what it should, and `bytes.find` finds the first occurrence -/

theorem occ_iff (hay needle : Bytes) (i : Nat) :
    i ∈ occ hay needle ↔ i + needle.length ≤ hay.length ∧ (hay.drop i).take needle.length = needle :=
  mem_occ

theorem occ_ascending (hay needle : Bytes) : (occ hay needle).Pairwise (· < ·) := occ_sorted hay needle

theorem find_first (hay needle : Bytes) (s r : Nat) (h : bytesFind? hay needle s = some r) :
    r ∈ occ hay needle ∧ s ≤ r ∧ ∀ j ∈ occ hay needle, s ≤ j → r ≤ j := bytesFind?_some h

theorem find_none (hay needle : Bytes) (s : Nat) (h : bytesFind? hay needle s = none) :
    ∀ j ∈ occ hay needle, j < s := bytesFind?_none h

/-- the inner `find` loop enumerates all occurrences in the buffer `d`, ascending
(up to the buffer-index cut `p > max_offset` when a limit is given). -/
theorem find_enumerates (d needle : Bytes) (maxOff pos savedLen : Nat) :
    findLoop d needle maxOff pos savedLen 0
      = ((occ d needle).filter (fun p => maxOff = 0 ∨ p ≤ maxOff)).map
          (fun (p : Nat) => (pos : Int) + (p : Int) - (savedLen : Int)) := by
  rw [findLoop_eq]
  congr 1
  apply List.filter_congr
  intro p _
  simp

/-! ### `iter_find_needle` without a limit -/

/-- **Central theorem.** For every content, every non-empty needle, every buffer size `B ≥ 1`, every file
kind and every start (explicit non-negative `start_offset` or the current position), the scan without a
limit returns exactly the occurrences at or after the start, in ascending order, and leaves the file
at `max(start, EOF)`. -/
theorem needle_exact (B : Nat) (hB : 1 ≤ B) (f : PyFile) (needle : Bytes) (hn : needle ≠ [])
    (start : Option Int) (hs : ∀ s, start = some s → 0 ≤ s) :
    iterFindNeedle B f needle start 0
      = .ok (((occ f.data needle).filter (fun i => startPos f start ≤ i)).map Int.ofNat,
             { f with pos := max (startPos f start) f.data.length }) := by
  unfold iterFindNeedle
  cases start with
  | none => simp only [startPos]; rw [needleLoop_start B hB needle hn f]; rfl
  | some s =>
    have h0 := hs s rfl
    obtain ⟨n, rfl⟩ : ∃ n : Nat, s = n := ⟨s.toNat, by omega⟩
    simp only [PyFile.seekSet_ok, startPos, Int.toNat_natCast]
    rw [needleLoop_start B hB needle hn]; rfl

/-- A negative `start_offset` raises (`ValueError` on BytesIO, `OSError` on an OS file); nothing is reported. -/
theorem needle_negative_start (B : Nat) (f : PyFile) (needle : Bytes) (s : Int) (hs : s < 0) (maxOff : Nat) :
    iterFindNeedle B f needle (some s) maxOff = .error f.negSeekExc := by
  simp [iterFindNeedle, PyFile.seekSet, hs]

/-- The answer does not depend on the read-buffer size. -/
theorem needle_buffer_independent (B B' : Nat) (hB : 1 ≤ B) (hB' : 1 ≤ B') (f : PyFile) (needle : Bytes)
    (hn : needle ≠ []) (start : Option Int) :
    iterFindNeedle B f needle start 0 = iterFindNeedle B' f needle start 0 := by
  cases start with
  | none => rw [needle_exact B hB f needle hn none (by intro s h; cases h),
               needle_exact B' hB' f needle hn none (by intro s h; cases h)]
  | some s =>
    by_cases hs : s < 0
    · rw [needle_negative_start B f needle s hs, needle_negative_start B' f needle s hs]
    · rw [needle_exact B hB f needle hn (some s) (by intro t h; cases h; omega),
          needle_exact B' hB' f needle hn (some s) (by intro t h; cases h; omega)]

/-- DESIGN Appendix A form. -/
theorem needle_exact_bytesIO (B : Nat) (hB : 1 ≤ B) (hay needle : Bytes) (hn : needle ≠ []) (start : Nat) :
    (iterFindNeedle B ⟨hay, 0, .bytesIO⟩ needle (some start) 0).map (·.1)
      = .ok (((occ hay needle).filter (start ≤ ·)).map Int.ofNat) := by
  rw [needle_exact B hB _ needle hn (some (start : Int)) (by intro s h; cases h; omega)]
  simp only [startPos, Except.map, Int.toNat_natCast]
  rfl

/-! ### corollaries: ascending, no duplicates, non-negative -- with or without a limit -/

/-- whatever the limit, the reported list is a sublist of the exact no-limit answer. -/
theorem needle_limit_sublist (B : Nat) (hB : 1 ≤ B) (f : PyFile) (needle : Bytes) (hn : needle ≠ [])
    (start : Option Int) (maxOff : Nat) (r : List Int) (f' : PyFile)
    (h : iterFindNeedle B f needle start maxOff = .ok (r, f')) :
    List.Sublist r (((occ f.data needle).filter (fun i => startPos f start ≤ i)).map Int.ofNat) := by
  unfold iterFindNeedle at h
  cases start with
  | none =>
    injection h with h
    have h1 := needleLoop_sublist B needle maxOff f []
    rw [needleLoop_start B hB needle hn f, h] at h1
    exact h1
  | some s =>
    by_cases hs : s < 0
    · simp [PyFile.seekSet, hs] at h
    · obtain ⟨n, rfl⟩ : ∃ n : Nat, s = n := ⟨s.toNat, by omega⟩
      simp only [PyFile.seekSet_ok] at h
      injection h with h
      have h1 := needleLoop_sublist B needle maxOff { f with pos := n } []
      rw [needleLoop_start B hB needle hn, h] at h1
      exact h1

/-- reported offsets are strictly ascending (with or without a limit). -/
theorem needle_ascending (B : Nat) (hB : 1 ≤ B) (f : PyFile) (needle : Bytes) (hn : needle ≠ [])
    (start : Option Int) (maxOff : Nat) (r : List Int) (f' : PyFile)
    (h : iterFindNeedle B f needle start maxOff = .ok (r, f')) : r.Pairwise (· < ·) :=
  (exact_list_ascending _ _ _).sublist (needle_limit_sublist B hB f needle hn start maxOff r f' h)

/-- no offset is reported twice. -/
theorem needle_no_duplicates (B : Nat) (hB : 1 ≤ B) (f : PyFile) (needle : Bytes) (hn : needle ≠ [])
    (start : Option Int) (maxOff : Nat) (r : List Int) (f' : PyFile)
    (h : iterFindNeedle B f needle start maxOff = .ok (r, f')) : r.Nodup :=
  (needle_ascending B hB f needle hn start maxOff r f' h).imp (fun h => Int.ne_of_lt h)

/-- **Soundness under a limit** (and without): every reported offset is non-negative, is a true occurrence
of the needle in the file, and is not before the start. -/
theorem needle_limit_sound (B : Nat) (hB : 1 ≤ B) (f : PyFile) (needle : Bytes) (hn : needle ≠ [])
    (start : Option Int) (maxOff : Nat) (r : List Int) (f' : PyFile)
    (h : iterFindNeedle B f needle start maxOff = .ok (r, f')) :
    ∀ off ∈ r, 0 ≤ off ∧ off.toNat ∈ occ f.data needle ∧ startPos f start ≤ off.toNat := by
  intro off hoff
  have := (needle_limit_sublist B hB f needle hn start maxOff r f' h).subset hoff
  simp only [List.mem_map, List.mem_filter, decide_eq_true_eq] at this
  obtain ⟨i, ⟨hi, hsi⟩, rfl⟩ := this
  exact ⟨Int.natCast_nonneg i, by simpa using hi, by simpa using hsi⟩

theorem needle_nonneg (B : Nat) (hB : 1 ≤ B) (f : PyFile) (needle : Bytes) (hn : needle ≠ [])
    (start : Option Int) (maxOff : Nat) (r : List Int) (f' : PyFile)
    (h : iterFindNeedle B f needle start maxOff = .ok (r, f')) : ∀ off ∈ r, 0 ≤ off :=
  fun off hoff => (needle_limit_sound B hB f needle hn start maxOff r f' h off hoff).1

/-- **Completeness under a limit**: every occurrence at or after the start that lies entirely before the
limit (`i + |needle| ≤ max_offset`) is reported. -/
theorem needle_limit_complete (B : Nat) (hB : 1 ≤ B) (f : PyFile) (needle : Bytes) (hn : needle ≠ [])
    (start : Option Int) (maxOff : Nat) (r : List Int) (f' : PyFile)
    (h : iterFindNeedle B f needle start maxOff = .ok (r, f')) :
    ∀ i ∈ occ f.data needle, startPos f start ≤ i → i + needle.length ≤ maxOff → (i : Int) ∈ r := by
  intro i hi hsi hlim
  unfold iterFindNeedle at h
  have hn' := List.length_pos_iff.mpr hn
  cases start with
  | none =>
    injection h with h
    have := needleLoop_complete B hB needle hn maxOff f [] f.pos rfl (by simp) hn' i hi hsi (Or.inr hlim)
    rw [h] at this; exact this
  | some s =>
    by_cases hs : s < 0
    · simp [PyFile.seekSet, hs] at h
    · obtain ⟨n, rfl⟩ : ∃ n : Nat, s = n := ⟨s.toNat, by omega⟩
      simp only [PyFile.seekSet_ok] at h
      injection h with h
      have := needleLoop_complete B hB needle hn maxOff { f with pos := n } [] n rfl (by simp) hn' i hi
        (by simpa [startPos] using hsi) (Or.inr hlim)
      rw [h] at this; exact this

/-! ### the EXACT result under a limit, as a function of the buffer size

`max_offset` is compared with two different quantities (utils.py 178 and 187): the file offset `pos` of a block START
(`pos > max_offset` ends the scan before the block is read) and the index `p` of a hit in the search buffer
`saved + block` (`p > max_offset` ends the scan of that buffer) — `p` is NOT a file offset. With `s0` the start position,
`n = |needle|`, `B = io.DEFAULT_BUFFER_SIZE`, an occurrence at file offset `o ≥ s0` is looked for in block
`j = blockOf B n s0 o = (o + n - 1 - s0) / B` (the block holding its last byte), whose buffer begins at file offset
`bufStart B n s0 j = s0 + (j*B - (n-1))`; it is reported iff `s0 + j*B ≤ max_offset` and `o - bufStart … ≤ max_offset`
(`limitKeeps`). -/

/-- **Exact result under a limit.** For every buffer size `B ≥ 1`, content, file kind, non-empty needle, start and
`max_offset > 0`: the reported list is exactly the occurrences `o ≥ start` with `limitKeeps B |needle| start max_offset o`,
ascending, and the file is left at `limitEnd` (the end of the last block that was read). -/
theorem needle_limit_exact (B : Nat) (hB : 1 ≤ B) (f : PyFile) (needle : Bytes) (hn : needle ≠ [])
    (start : Option Int) (hs : ∀ s, start = some s → 0 ≤ s) (maxOff : Nat) (hm : 0 < maxOff) :
    iterFindNeedle B f needle start maxOff
      = .ok ((((occ f.data needle).filter (fun o => startPos f start ≤ o)).filter
                (limitKeeps B needle.length (startPos f start) maxOff)).map Int.ofNat,
             { f with pos := limitEnd B maxOff f.data.length (startPos f start) }) := by
  have hk : ∀ s0, limitKeeps B needle.length s0 maxOff = keepRel B needle.length maxOff s0 0 :=
    fun s0 => funext (limitKeeps_eq_keepRel B needle.length s0 maxOff)
  have hn' := List.length_pos_iff.mpr hn
  have key : ∀ g : PyFile, needleLoop B needle maxOff g []
      = ((((occ g.data needle).filter (fun o => g.pos ≤ o)).filter (limitKeeps B needle.length g.pos maxOff)).map Int.ofNat,
          { g with pos := limitEnd B maxOff g.data.length g.pos }) := by
    intro g
    apply Prod.ext
    · rw [needleLoop_limit B hB needle hn maxOff hm g [] g.pos rfl (by simp) hn', hk]; rfl
    · exact needleLoop_limit_file B hB needle maxOff hm g []
  unfold iterFindNeedle
  cases start with
  | none => simp only [startPos]; rw [key f]; rfl
  | some s =>
    have h0 := hs s rfl
    obtain ⟨n, rfl⟩ : ∃ n : Nat, s = n := ⟨s.toNat, by omega⟩
    simp only [PyFile.seekSet_ok, startPos, Int.toNat_natCast]
    rw [key]; rfl

/-- which offsets are reported under a limit (membership form of `needle_limit_exact`) -/
theorem needle_limit_reported_iff (B : Nat) (hB : 1 ≤ B) (f : PyFile) (needle : Bytes) (hn : needle ≠ [])
    (start : Option Int) (hs : ∀ s, start = some s → 0 ≤ s) (maxOff : Nat) (hm : 0 < maxOff) (r : List Int) (f' : PyFile)
    (h : iterFindNeedle B f needle start maxOff = .ok (r, f')) (o : Nat) :
    (o : Int) ∈ r ↔
      o ∈ occ f.data needle ∧ startPos f start ≤ o ∧
      startPos f start + blockOf B needle.length (startPos f start) o * B ≤ maxOff ∧
      o - bufStart B needle.length (startPos f start) (blockOf B needle.length (startPos f start) o) ≤ maxOff := by
  rw [needle_limit_exact B hB f needle hn start hs maxOff hm] at h
  injection h with h
  injection h with h _
  subst h
  simp only [List.mem_map, List.mem_filter, decide_eq_true_eq, limitKeeps, Bool.and_eq_true]
  constructor
  · rintro ⟨i, ⟨⟨hi, hsi⟩, hb, hp⟩, hio⟩
    have : i = o := Int.ofNat.inj hio
    subst this
    exact ⟨hi, hsi, hb, hp⟩
  · rintro ⟨hi, hsi, hb, hp⟩
    exact ⟨o, ⟨⟨hi, hsi⟩, hb, hp⟩, rfl⟩

/-- an occurrence lying entirely before the limit passes both tests, whatever `B` (so `needle_limit_complete` is a
corollary of `needle_limit_exact`) -/
theorem limitKeeps_before (B n s0 m o : Nat) (hs : s0 ≤ o) (hlim : o + n ≤ m) (hn : 0 < n) :
    limitKeeps B n s0 m o = true := by
  unfold limitKeeps blockOf bufStart
  have := Nat.div_mul_le_self (o + n - 1 - s0) B
  simp only [Bool.and_eq_true, decide_eq_true_eq]
  omega

/-- a limit beyond `B + |needle|` never cuts inside a buffer: then ONLY the block start is tested, and every occurrence
whose last byte lies in a block that starts at or before `max_offset` is reported — up to `B - 1` bytes past the limit -/
theorem limitKeeps_large (B n s0 m o : Nat) (hB : 1 ≤ B) (hn : 0 < n) (hs : s0 ≤ o) (hbig : B + n ≤ m + 2) :
    limitKeeps B n s0 m o = decide (s0 + blockOf B n s0 o * B ≤ m) := by
  unfold limitKeeps bufStart blockOf
  have h1 := Nat.div_mul_le_self (o + n - 1 - s0) B
  have h2 := Nat.lt_div_mul_add (a := o + n - 1 - s0) (b := B) (by omega)
  generalize (o + n - 1 - s0) / B * B = t at *
  have : o - (s0 + (t - (n - 1))) ≤ m := by omega
  simp only [this, decide_true, Bool.and_true]

/-! ### ArtifactKit scanner -/

/-- `iter_artifactkit_payloads` reports exactly the records of `artifactHits`: the offsets `pos ≥ start`
(`≤ maxrange`) with four readable bytes whose little-endian value is `pos + 16`, ascending, each with
size / key / hints read from the fixed layout and the payload decoded by the 4-byte key. -/
theorem artifact_exact (f : PyFile) (start : Option Int) (hs : ∀ s, start = some s → 0 ≤ s)
    (maxrange : Option Nat) :
    ∃ f', iterArtifactkit f start maxrange = .ok (artifactHits f.data (startPos f start) maxrange, f')
      ∧ f'.data = f.data := by
  unfold iterArtifactkit
  cases start with
  | none => exact artLoop_spec maxrange f f.tell
  | some s =>
    have h0 := hs s rfl
    obtain ⟨n, rfl⟩ : ∃ n : Nat, s = n := ⟨s.toNat, by omega⟩
    simp only [PyFile.seekSet_ok, startPos, Int.toNat_natCast]
    exact artLoop_spec maxrange { f with pos := n } n

theorem artifact_negative_start (f : PyFile) (s : Int) (hs : s < 0) (maxrange : Option Nat) :
    iterArtifactkit f (some s) maxrange = .error f.negSeekExc := by
  simp [iterArtifactkit, PyFile.seekSet, hs]

/-- which offsets are reported. -/
theorem artifact_offsets_iff (hay : Bytes) (start : Nat) (maxrange : Option Nat) (pos : Nat) :
    pos ∈ (artifactHits hay start maxrange).map (·.offset) ↔
      pos + 4 ≤ hay.length ∧ start ≤ pos ∧ (∀ m, maxrange = some m → pos ≤ m) ∧
      C20.fromLE ((hay.drop pos).take 4) = pos + 16 := by
  have : (artifactHits hay start maxrange).map (·.offset) = artifactOffsets hay start maxrange := by
    unfold artifactHits
    rw [List.map_map]
    conv => rhs; rw [← List.map_id (artifactOffsets hay start maxrange)]
    apply List.map_congr_left
    intro a _; rfl
  rw [this, mem_artifactOffsets]
  unfold pastRange u32le
  cases maxrange with
  | none => simp
  | some m => simp

/-- what is reported for each offset: fixed layout, payload = xor of the data slice with the 4-byte key. -/
theorem artifact_payload (hay : Bytes) (start : Nat) (maxrange : Option Nat) :
    ∀ h ∈ artifactHits hay start maxrange,
      h.size = C20.fromLE ((hay.drop (h.offset + 4)).take 4) ∧
      h.xorkey = (hay.drop (h.offset + 8)).take 4 ∧
      h.hints = (hay.drop (h.offset + 12)).take 8 ∧
      h.payload = C20.xor ((hay.drop (h.offset + 20)).take h.size) h.xorkey := by
  intro h hh
  unfold artifactHits at hh
  simp only [List.mem_map] at hh
  obtain ⟨pos, _, rfl⟩ := hh
  exact ⟨rfl, rfl, rfl, rfl⟩

/-- offsets of the reported records are strictly ascending (hence no duplicates). -/
theorem artifact_ascending (hay : Bytes) (start : Nat) (maxrange : Option Nat) :
    ((artifactHits hay start maxrange).map (·.offset)).Pairwise (· < ·) := by
  unfold artifactHits
  rw [List.map_map, List.pairwise_map]
  exact (artifactOffsets_sorted hay start maxrange).imp (fun h => h)

/-! ### concrete instances (hypotheses are satisfiable; boundary-straddling occurrences) -/

/-- needle `01 00` in `00 01 00 01 00` read in blocks of 2: both occurrences straddle a block boundary. -/
example : iterFindNeedle 2 ⟨[0, 1, 0, 1, 0], 0, .bytesIO⟩ [1, 0] (some 0) 0
    = .ok ([1, 3], ⟨[0, 1, 0, 1, 0], 5, .bytesIO⟩) := by
  rw [needle_exact 2 (by omega) _ _ (by simp) (some 0) (by intro s h; cases h; omega)]
  rfl

/-- the input of the repaired defect (fc7bca0): no fabricated offset `-1`. -/
example : iterFindNeedle 8192 ⟨[1, 0x61, 0x62, 0x63], 0, .osFile⟩ [0, 1] none 0
    = .ok ([], ⟨[1, 0x61, 0x62, 0x63], 4, .osFile⟩) := by
  rw [needle_exact 8192 (by omega) _ _ (by simp) none (by intro s h; cases h)]
  rfl

/-- self-overlapping needle, buffer size 1, start offset 1. -/
example : iterFindNeedle 1 ⟨[7, 7, 7, 7], 0, .bytesIO⟩ [7, 7] (some 1) 0
    = .ok ([1, 2], ⟨[7, 7, 7, 7], 4, .bytesIO⟩) := by
  rw [needle_exact 1 (by omega) _ _ (by simp) (some 1) (by intro s h; cases h; omega)]
  rfl

/-- the limit depends on the buffer size: five `01` bytes, `max_offset = 2`. With `B = 4` offsets 0..2 are reported; with
`B = 2` the block that starts at 2 is read completely and offset 3 (beyond the limit) is reported as well. -/
example : iterFindNeedle 4 ⟨[1, 1, 1, 1, 1], 0, .bytesIO⟩ [1] (some 0) 2 = .ok ([0, 1, 2], ⟨[1, 1, 1, 1, 1], 4, .bytesIO⟩) := by
  rw [needle_limit_exact 4 (by omega) _ _ (by simp) (some 0) (by intro s h; cases h; omega) 2 (by omega)]
  rfl

example : iterFindNeedle 2 ⟨[1, 1, 1, 1, 1], 0, .bytesIO⟩ [1] (some 0) 2 = .ok ([0, 1, 2, 3], ⟨[1, 1, 1, 1, 1], 4, .bytesIO⟩) := by
  rw [needle_limit_exact 2 (by omega) _ _ (by simp) (some 0) (by intro s h; cases h; omega) 2 (by omega)]
  rfl

/-- the buffer-index test is relative to the start: from `start_offset = 3` with `max_offset = 3` the occurrences at file
offsets 4 and 6 (both beyond 3) are reported (indices 1 and 3 in the buffer), while from `start_offset = 4` (`> max_offset`)
nothing is. -/
example : iterFindNeedle 8192 ⟨[1, 0, 0, 0, 1, 0, 1, 1], 0, .bytesIO⟩ [1] (some 3) 3
    = .ok ([4, 6], ⟨[1, 0, 0, 0, 1, 0, 1, 1], 8, .bytesIO⟩) := by
  rw [needle_limit_exact 8192 (by omega) _ _ (by simp) (some 3) (by intro s h; cases h; omega) 3 (by omega)]
  rfl

example : iterFindNeedle 8192 ⟨[1, 0, 0, 0, 1, 0, 1, 1], 0, .bytesIO⟩ [1] (some 4) 3
    = .ok ([], ⟨[1, 0, 0, 0, 1, 0, 1, 1], 4, .bytesIO⟩) := by
  rw [needle_limit_exact 8192 (by omega) _ _ (by simp) (some 4) (by intro s h; cases h; omega) 3 (by omega)]
  rfl

/-- an occurrence that STARTS before the limit but ends in a block starting after it is not reported (`B = 4`, needle
`01 01` at offset 3, `max_offset = 3`); with `B = 5` the same occurrence is reported. -/
example : iterFindNeedle 4 ⟨[0, 0, 0, 1, 1, 0], 0, .bytesIO⟩ [1, 1] (some 0) 3 = .ok ([], ⟨[0, 0, 0, 1, 1, 0], 4, .bytesIO⟩) := by
  rw [needle_limit_exact 4 (by omega) _ _ (by simp) (some 0) (by intro s h; cases h; omega) 3 (by omega)]
  rfl

example : iterFindNeedle 5 ⟨[0, 0, 0, 1, 1, 0], 0, .bytesIO⟩ [1, 1] (some 0) 3 = .ok ([3], ⟨[0, 0, 0, 1, 1, 0], 5, .bytesIO⟩) := by
  rw [needle_limit_exact 5 (by omega) _ _ (by simp) (some 0) (by intro s h; cases h; omega) 3 (by omega)]
  rfl

example : occ [0, 1, 0, 1, 0] [1, 0] = [1, 3] := by decide

/-- an ArtifactKit header at offset 2 (`18 = 2 + 16`), size 3, key `01 02 03 04`. -/
example : artifactHits [9, 9, 18, 0, 0, 0, 3, 0, 0, 0, 1, 2, 3, 4, 1, 2, 3, 4, 5, 6, 7, 8, 0x11, 0x22, 0x33, 0x44] 0 none
    = [{ offset := 2, size := 3, xorkey := [1, 2, 3, 4], hints := [1, 2, 3, 4, 5, 6, 7, 8],
         payload := [0x10, 0x20, 0x30] }] := by
  decide +kernel

end C15

import CsVerif.Lemmas.C03
/-!
C03 property theorems: structured settings decode Cobalt Strike's binary encodings exactly.

Reference tables (`ref*`), encoders (`enc*`), program types (`TStep`, `RStep`, `EItem`) and their
well-formedness predicates are defined in `Lemmas/C03.lean`; the model is `Model/C03.lean`.
-/
namespace C03
open Gen.Beacon

/-! ## Generated-table obligations (re-checked against the imported package on every run) -/

def refBofAllocator : List (Nat × String) := [(0, "VirtualAlloc"), (1, "MapViewOfFile"), (2, "HeapAlloc")]
def refBeaconProtocol : List (Nat × String) :=
  [(0, "http"), (1, "dns"), (2, "smb"), (4, "tcp"), (8, "https"), (16, "bind")]
def refCryptoScheme : List (Nat × String) := [(0, "CRYPTO_LICENSED_PRODUCT"), (1, "CRYPTO_TRIAL_PRODUCT")]
/-- BeaconGate API names in Cobalt Strike's order: comms, core, cleanup -/
def refGateFields : List String := [
  "InternetOpenA", "InternetConnectA", "VirtualAlloc", "VirtualAllocEx", "VirtualProtect", "VirtualProtectEx",
  "VirtualFree", "GetThreadContext", "SetThreadContext", "ResumeThread", "CreateThread", "CreateRemoteThread",
  "OpenProcess", "OpenThread", "CloseHandle", "CreateFileMappingA", "MapViewOfFile", "UnmapViewOfFile",
  "VirtualQuery", "DuplicateHandle", "ReadProcessMemory", "WriteProcessMemory", "ExitThread"]

theorem table_transformStep : transformStep = refTransformStep := by decide
theorem table_injectExecutor : injectExecutor = refInjectExecutor := by decide
theorem table_bofAllocator : bofAllocator = refBofAllocator := by decide
theorem table_beaconProtocol : beaconProtocol = refBeaconProtocol := by decide
theorem table_cryptoScheme : cryptoScheme = refCryptoScheme := by decide
theorem table_beaconGateFields : beaconGateFields = refGateFields := by decide

/-- the three groups of `beacon_gate_options_string` partition the structure's fields, in field order -/
theorem table_gate_groups : gateAll = beaconGateFields ∧ beaconGateFields.Nodup ∧ beaconGateFields.length = 23 := by
  decide

/-- opcode sets of `parse_transform_binary` resolved through the generated enum -/
theorem table_transform_opcode_sets :
    tsv "BUILD" = some 7 ∧ enableVals = refEnable.map some ∧ argVals = refArg.map some := by decide

/-- opcodes of `parse_recover_binary` resolved through the generated enum -/
theorem table_recover_opcodes :
    [tsv "APPEND", tsv "PREPEND", tsv "BASE64", tsv "PRINT", tsv "NETBIOS", tsv "NETBIOSU", tsv "BASE64URL",
      tsv "MASK"] = [some 1, some 2, some 3, some 4, some 8, some 11, some 13, some 15] := by decide

theorem table_execute_opcodes : iev "CreateThread_" = some 6 ∧ iev "CreateRemoteThread_" = some 7 := by decide

/-- the hand-written dispatch table of the model has exactly the keys of SETTING_TO_PRETTYFUNC, in dict order -/
theorem table_prettyKeys : prettyTable.map (·.1) = prettyKeys := by decide

/-- names under which the derived properties look settings up, and the settings that carry them -/
theorem table_setting_names_used :
    enumName settingNames 1 = some "SETTING_PROTOCOL" ∧ enumName settingNames 2 = some "SETTING_PORT" ∧
    enumName settingNames 7 = some "SETTING_PUBKEY" ∧ enumName settingNames 8 = some "SETTING_DOMAINS" ∧
    enumName settingNames 31 = some "SETTING_CRYPTO_SCHEME" ∧ enumName settingNames 37 = some "SETTING_WATERMARK" ∧
    enumName settingNames 40 = some "SETTING_KILLDATE" ∧ enumName settingNames 18 = some "SETTING_KILLDATE_DAY" ∧
    typeShort = 1 ∧ typeInt = 2 ∧ typePtr = 3 := by decide

/-! ## HTTP transform programs (`parse_transform_binary`) -/

instance : DecidablePred TStep.WF := fun st => by
  cases st <;> simp only [TStep.WF] <;> exact inferInstance

/-- Compositional form: a well-formed program followed by arbitrary bytes decodes to the program's view
followed by whatever the remaining bytes decode to. -/
theorem transform_roundtrip_append (build : String) (p : List TStep) (h : ∀ st ∈ p, st.WF) (t : Bytes) :
    parseTransform build (encTransform p ++ t) = p.filterMap (TStep.view build) ++ parseTransform build t :=
  parseTransform_enc_append build p h t

/-- parse (enc p) = p: every BUILD / enable / argument step is decoded with its name and exact argument bytes
(any length, including empty), in order; undefined and unused opcodes (`skip`) contribute nothing. -/
theorem transform_roundtrip (build : String) (p : List TStep) (h : ∀ st ∈ p, st.WF) :
    parseTransform build (encTransform p) = p.filterMap (TStep.view build) := by
  have := parseTransform_enc_append build p h []
  rw [parseTransform_short build [] (by decide)] at this
  simpa using this

/-- a zero opcode ends the program: everything after it is ignored; so is a tail of fewer than 4 bytes -/
theorem transform_prefix_stable (build : String) (p : List TStep) (h : ∀ st ∈ p, st.WF) (junk : Bytes) :
    parseTransform build (encTransform p ++ (be32 0 ++ junk)) = p.filterMap (TStep.view build) ∧
    (junk.length < 4 → parseTransform build (encTransform p ++ junk) = p.filterMap (TStep.view build)) := by
  constructor
  · rw [parseTransform_enc_append build p h, parseTransform_zero]; simp
  · intro hj
    rw [parseTransform_enc_append build p h, parseTransform_short build junk hj]; simp

/-- the views are exactly the encoded steps: names are Cobalt Strike's, and distinct steps have distinct views -/
theorem transform_view_names :
    (∀ build b, TStep.view build (.build b) = some (some "BUILD", .str (buildMap build b))) ∧
    (refEnable.map fun v => (v, enumName refTransformStep v)) =
      [(3, some "BASE64"), (13, some "BASE64URL"), (8, some "NETBIOS"), (11, some "NETBIOSU"),
       (12, some "URI_APPEND"), (4, some "PRINT"), (15, some "MASK")] ∧
    (refArg.map fun v => (v, enumName refTransformStep v)) =
      [(10, some "_HEADER"), (6, some "HEADER"), (5, some "PARAMETER"), (9, some "_PARAMETER"),
       (16, some "_HOSTHEADER"), (1, some "APPEND"), (2, some "PREPEND")] := by
  refine ⟨fun _ _ => rfl, by decide, by decide⟩

theorem transform_view_injective (build : String) (v w : Nat) (a b : Bytes)
    (hv : v ∈ refEnable ++ refArg) (hw : w ∈ refEnable ++ refArg) :
    (TStep.view build (.enable v) = TStep.view build (.enable w) → v = w) ∧
    (TStep.view build (.arg v a) = TStep.view build (.arg w b) → v = w ∧ a = b) := by
  have key : ∀ v ∈ refEnable ++ refArg, ∀ w ∈ refEnable ++ refArg,
      enumName refTransformStep v = enumName refTransformStep w → v = w := by decide
  constructor
  · intro h
    simp only [TStep.view, Option.some.injEq, Prod.mk.injEq, and_true] at h
    exact key v hv w hw h
  · intro h
    simp only [TStep.view, Option.some.injEq, Prod.mk.injEq, TVal.bytes.injEq] at h
    exact ⟨key v hv w hw h.1, h.2⟩

/-- non-vacuity: three BUILD blocks, every kind of step, empty and non-empty arguments, unknown opcodes -/
example : parseTransform "metadata" (encTransform
    [.build 0, .enable 3, .arg 1 [], .skip 14, .arg 6 [0x41, 0, 0xFF], .build 1, .enable 4, .skip 17, .build 5]) =
    [(some "BUILD", .str "metadata"), (some "BASE64", .flag), (some "APPEND", .bytes []),
     (some "HEADER", .bytes [0x41, 0, 0xFF]), (some "BUILD", .str "output"), (some "PRINT", .flag),
     (some "BUILD", .str "UNKNOWN BUILD ARG")] := by
  rw [transform_roundtrip _ _ (by decide)]; decide

/-! ## Recover programs (`parse_recover_binary`) -/

instance : DecidablePred RStep.WF := fun st => by
  cases st <;> simp only [RStep.WF] <;> exact inferInstance

theorem recover_roundtrip_append (p : List RStep) (h : ∀ st ∈ p, st.WF) (t : Bytes) :
    parseRecover (encRecover p ++ t) = p.filterMap RStep.view ++ parseRecover t :=
  parseRecover_enc_append p h t

/-- parse (enc p) = p for recover programs: append/prepend with their 32-bit lengths, the six flag steps,
in order; unknown steps are skipped; a zero opcode ends the program. -/
theorem recover_roundtrip (p : List RStep) (h : ∀ st ∈ p, st.WF) (junk : Bytes) :
    parseRecover (encRecover p) = p.filterMap RStep.view ∧
    parseRecover (encRecover p ++ (be32 0 ++ junk)) = p.filterMap RStep.view := by
  constructor
  · have := parseRecover_enc_append p h []
    rw [parseRecover_nil] at this
    simpa using this
  · rw [parseRecover_enc_append p h, parseRecover_unfold 0 (by decide)]
    obtain ⟨a1, a2, a3, a4, a8, a11, a13, a15⟩ := tsv_vals
    simp [a1, a2, a3, a4, a8, a11, a13, a15]

theorem recover_view_names :
    (refRecLen ++ refRecFlag).map (fun v => (v, recName v)) =
      [(1, "append"), (2, "prepend"), (3, "base64"), (4, "print"), (8, "netbios"), (11, "netbiosu"),
       (13, "base64url"), (15, "mask")] := by decide

example : parseRecover (encRecover [.flag 3, .len 2 0, .skip 7, .len 1 4294967295, .flag 15]) =
    [("base64", .flag), ("prepend", .len 0), ("append", .len 4294967295), ("mask", .flag)] := by
  rw [(recover_roundtrip _ (by decide) []).1]; decide

/-! ## Process-inject execute lists (`parse_execute_list`) -/

/-- parse (enc items) = items: plain opcodes give the executor name (`None` for an undefined opcode),
CreateThread_/CreateRemoteThread_ give `Name "module!function+0xoffset"` with the offset omitted when 0;
NUL padding of the two strings is stripped; a zero byte (or the end of the data) terminates the list. -/
theorem execute_roundtrip (items : List EItem) (h : ∀ it ∈ items, it.WF) (junk : Bytes) :
    parseExecute (encExecute items) = .ok (items.map EItem.view) ∧
    parseExecute (encExecute items ++ 0 :: junk) = .ok (items.map EItem.view) := by
  constructor
  · have := parseExecute_enc_append items h []
    rw [parseExecute_nil] at this
    simpa [Except.map] using this
  · rw [parseExecute_enc_append items h, parseExecute_zero]
    simp [Except.map]

/-- the same for module / function names that are arbitrary valid UTF-8 (not ending in NUL): the decoded text
appears in the rendering; `decodedText` is what `bytes.decode()` returns -/
theorem execute_roundtrip_utf8 (items : List EItem) (h : ∀ it ∈ items, it.WFu) (junk : Bytes) :
    parseExecute (encExecute items) = .ok (items.map EItem.viewU) ∧
    parseExecute (encExecute items ++ 0 :: junk) = .ok (items.map EItem.viewU) := by
  constructor
  · have := parseExecute_enc_appendU items h []
    rw [parseExecute_nil] at this
    simpa [Except.map] using this
  · rw [parseExecute_enc_appendU items h, parseExecute_zero]
    simp [Except.map]

/-- a module or function name that is not valid UTF-8 aborts the whole list with a ValueError
(UnicodeDecodeError), whatever follows -/
theorem execute_invalid_utf8 (v off : Nat) (m : Bytes) (mp : Nat) (f : Bytes) (fp : Nat) (t : Bytes)
    (hv : v = 6 ∨ v = 7) (hoff : off < 65536) (hm : m.length + mp < 4294967296)
    (hf : f.length + fp < 4294967296) (hmn : NoTrailNul m) (hfn : NoTrailNul f)
    (hbad : (∃ e, utf8Decode m = .error e) ∨ ((∃ ms, utf8Decode m = .ok ms) ∧ ∃ e, utf8Decode f = .error e)) :
    parseExecute (encEItem (.call v off m mp f fp) ++ t) = .error .valueError := by
  rcases hbad with ⟨e, he⟩ | ⟨hms, e, he⟩
  · have := utf8Decode_error_kind m e he
    subst this
    exact parseExecute_call_invalid v off m mp f fp t hv hoff hm hf hmn hfn _ (Or.inl he)
  · have := utf8Decode_error_kind f e he
    subst this
    exact parseExecute_call_invalid v off m mp f fp t hv hoff hm hf hmn hfn _ (Or.inr ⟨hms, he⟩)

/-- `é` = C3 A9 is a valid name, C0 80 (overlong NUL) is not: both hypotheses are satisfiable -/
example : ValidName [0xC3, 0xA9] ∧ ∃ e, utf8Decode [0xC0, 0x80] = .error e :=
  ⟨⟨⟨_, utf8_examples.1⟩, by unfold NoTrailNul; decide⟩, ⟨_, utf8_examples.2.2.1⟩⟩

theorem execute_view_names :
    ((List.range 10).map fun v => (EItem.view (.plain v)).map (String.ofList ∘ List.map Char.ofNat)) =
      [none, some "CreateThread", some "SetThreadContext", some "CreateRemoteThread", some "RtlCreateUserThread",
       some "NtQueueApcThread", some "CreateThread_", some "CreateRemoteThread_", some "NtQueueApcThread_s", none] := by
  decide

/-- the rendered strings determine the items: defined plain opcodes have distinct names, a plain name never equals
a quoted call, and a call `Name "module!function+0xoff"` determines opcode, offset, module and function whenever the
module contains no `!` and the function no `+` (the NUL padding is, by design, not observable). -/
theorem execute_view_injective :
    (∀ v ∈ [1, 2, 3, 4, 5, 8], ∀ w ∈ [1, 2, 3, 4, 5, 8], EItem.view (.plain v) = EItem.view (.plain w) → v = w) ∧
    (∀ v w off m mp f fp, EItem.view (.plain v) ≠ EItem.view (.call w off m mp f fp)) ∧
    (∀ v off m mp f fp v' off' m' mp' f' fp', (v = 6 ∨ v = 7) → (v' = 6 ∨ v' = 7) →
      (33 : UInt8) ∉ m → (33 : UInt8) ∉ m' → (43 : UInt8) ∉ f → (43 : UInt8) ∉ f' →
      EItem.view (.call v off m mp f fp) = EItem.view (.call v' off' m' mp' f' fp') →
      v = v' ∧ off = off' ∧ m = m' ∧ f = f') :=
  ⟨plain_view_injective, plain_ne_call,
   fun v off m mp f fp v' off' m' mp' f' fp' hv hv' hm hm' hf hf' h =>
     call_view_injective v off m mp f fp v' off' m' mp' f' fp' hv hv' hm hm' hf hf' h⟩

instance : DecidablePred NoTrailNul := fun b => by unfold NoTrailNul; exact inferInstance
instance : DecidablePred AsciiName := fun b => by unfold AsciiName; exact inferInstance
instance : DecidablePred EItem.WF := fun it => by
  cases it <;> simp only [EItem.WF] <;> exact inferInstance

/-- `CreateThread "ntdll!RtlUserThreadStart+0x21"` with NUL-terminated strings, then a plain and an undefined opcode -/
example : parseExecute (encExecute [.call 6 0x21 (asc "ntdll") 1 (asc "RtlUserThreadStart") 1,
      .plain 8, .plain 200, .call 7 0 (asc "k") 0 [] 3]) =
    .ok [some (strCps "CreateThread \"ntdll!RtlUserThreadStart+0x21\""), some (strCps "NtQueueApcThread_s"), none,
      some (strCps "CreateRemoteThread \"k!\"")] := by
  rw [(execute_roundtrip _ (by decide) []).1]; decide

/-! ## Process-inject transforms, sleep-mask sections, pivot frames -/

theorem inj_transform_roundtrip (a p junk : Bytes) (ha : a.length < 4294967296) (hp : p.length < 4294967296) :
    parseInjTransform (encInjTransform a p ++ junk) = [("append", a), ("prepend", p)] :=
  parseInjTransform_enc a p junk ha hp

theorem inj_transform_empty : parseInjTransform [] = [] := parseInjTransform_nil

/-- the section table decodes to exactly the encoded (start, end) rows, in order, minus the (0,0) rows -/
theorem gargle_roundtrip (rows : List (Nat × Nat)) (h : ∀ r ∈ rows, r.1 < 4294967296 ∧ r.2 < 4294967296) :
    parseGarglePairs (encGargle rows) = rows.filter (· ≠ (0, 0)) ∧
    parseGargle (encGargle rows) = (rows.filter (· ≠ (0, 0))).map fmtRange := by
  have := parseGarglePairs_enc_append rows h []
  rw [parseGarglePairs_nil] at this
  simp only [List.append_nil] at this
  exact ⟨this, by rw [parseGargle, this]⟩

/-- the textual rendering `0x<start>-0x<end>` determines the row (lower-case hex without padding) -/
theorem gargle_format_injective (p q : Nat × Nat) (h : fmtRange p = fmtRange q) : p = q :=
  fmtRange_injective p q h

example : parseGargle (encGargle [(4096, 172032), (0, 0), (0, 15)]) = ["0x1000-0x2a000", "0x0-0xf"] := by
  rw [(gargle_roundtrip _ (by decide)).2]; decide

/-- the frame header is exactly the `length - 4` bytes that follow the 16-bit length; for a length below 4
Python's `read(negative)` returns everything that follows -/
theorem pivot_roundtrip (d junk : Bytes) (h : d.length + 4 < 65536) :
    parsePivot (encPivot d ++ junk) = d :=
  parsePivot_enc d junk h

theorem pivot_short_length (n : Nat) (t : Bytes) (h : n < 4) : parsePivot (be16 n ++ t) = t :=
  parsePivot_short n t h

/-! ## NUL-terminated strings and the public-key digest -/

/-- the text before the first NUL, exactly (high bytes are kept: latin-1 never drops anything) -/
theorem nullstr_terminated (s t : Bytes) (h : ∀ x ∈ s, x ≠ 0) :
    nullTerminatedStr (s ++ 0 :: t) = s ∧ nullTerminatedStr s = s ∧ nullTerminatedBytes (s ++ 0 :: t) = s :=
  ⟨nullTerminatedBytes_append s t h, nullTerminatedBytes_no_nul s h, nullTerminatedBytes_append s t h⟩

/-- for arbitrary data: the result is NUL-free, a prefix of the data, and followed by a NUL or the end -/
theorem nullstr_characterisation (s : Bytes) :
    (∀ x ∈ nullTerminatedStr s, x ≠ 0) ∧ nullTerminatedStr s <+: s ∧
    (s = nullTerminatedStr s ∨ ∃ t, s = nullTerminatedStr s ++ 0 :: t) :=
  ⟨nullTerminatedBytes_mem s, nullTerminatedBytes_prefix s, nullTerminatedBytes_split s⟩

/-- the digest is taken over the key without its NUL padding, whatever the hash function is -/
theorem pubkey_digest_preimage (sha : Bytes → Bytes) (k : Bytes) (h : NoTrailNul k) (n : Nat) :
    sha256sumPubkey sha (k ++ List.replicate n 0) = Hex.encode (sha k) ∧
    rstripNul (k ++ List.replicate n 0) = k :=
  ⟨sha256sumPubkey_pad sha k h n, rstripNul_pad k h n⟩

theorem rstripNul_result (b : Bytes) : NoTrailNul (rstripNul b) := rstripNul_noTrail b

/-! ## BeaconGate -/

/-- For every set of enabled APIs `o` (hence for every one of the 2^23 flag vectors, see `gate_options`):
  1. expanding the reported groups and adding the individually listed names gives exactly `o`;
  2. `All` is reported iff every API is enabled; `Comms`/`Core`/`Cleanup` iff the group is enabled and `All` is not;
  3. groups appear at most once and in the order All, Comms, Core, Cleanup;
  4. the individually listed names are a sub-list of `o` (no duplicates when `o` has none);
  5. no name covered by a reported group is listed individually. -/
theorem gate_sound_complete (o : List String) :
    (∀ x, (x ∈ (gateString o).2 ∨ ∃ g ∈ (gateString o).1, x ∈ expandGroup g) ↔ x ∈ o) ∧
    (("All" ∈ (gateString o).1 ↔ ∀ x ∈ gateAll, x ∈ o) ∧
     ("Comms" ∈ (gateString o).1 ↔ (∀ x ∈ gateComms, x ∈ o) ∧ ¬ ∀ x ∈ gateAll, x ∈ o) ∧
     ("Core" ∈ (gateString o).1 ↔ (∀ x ∈ gateCore, x ∈ o) ∧ ¬ ∀ x ∈ gateAll, x ∈ o) ∧
     ("Cleanup" ∈ (gateString o).1 ↔ (∀ x ∈ gateCleanup, x ∈ o) ∧ ¬ ∀ x ∈ gateAll, x ∈ o)) ∧
    (gateString o).1.Sublist ["All", "Comms", "Core", "Cleanup"] ∧
    (gateString o).2.Sublist o ∧
    (∀ x ∈ (gateString o).2, ∀ g ∈ (gateString o).1, x ∉ expandGroup g) := by
  rw [gateString_eq_spec]
  refine ⟨gateSpec_cover o, ?_, gateSpec_groups_sublist o, gateSpec_sublist o, gateSpec_no_overlap o⟩
  obtain ⟨g0, g1, g2, g3⟩ := gateSpec_groups o
  simp only [← isSuperset_iff, Bool.not_eq_true]
  exact ⟨g0, g1, g2, g3⟩

/-- the enabled set of a flag vector: the fields whose byte is non-zero, each once -/
theorem gate_options (flags : List UInt8) :
    (∀ x, x ∈ gateOptions flags ↔ ∃ b, (x, b) ∈ beaconGateFields.zip flags ∧ b ≠ 0) ∧ (gateOptions flags).Nodup :=
  ⟨mem_gateOptions flags, gateOptions_nodup flags⟩

theorem gate_parse (data : Bytes) :
    (data.length < 23 → parseBeaconGate data = .error .eofError) ∧
    (23 ≤ data.length → parseBeaconGate data = .ok (data.take 23)) := by
  have h23 : beaconGateFields.length = 23 := by decide
  unfold parseBeaconGate
  rw [h23]
  constructor
  · intro h; simp [h]
  · intro h; have : ¬ data.length < 23 := by omega
    simp [this]

/-- all ones → `All`; all zeros → nothing; Core off, rest on → Comms, Cleanup -/
example : beaconGatePretty (List.replicate 23 1) = .ok (["All"], []) ∧
    beaconGatePretty (List.replicate 23 0) = .ok ([], []) ∧
    beaconGatePretty ([1, 1] ++ List.replicate 20 0 ++ [7]) = .ok (["Comms", "Cleanup"], []) ∧
    beaconGatePretty ([0, 1] ++ List.replicate 20 1 ++ [0]) = .ok (["Core"], ["InternetConnectA"]) := by decide

/-! ## DNS idle address, BOF allocator, protocol, trial flag -/

theorem dns_idle_quad (a b c d : UInt8) :
    dnsIdle (u32be [a, b, c, d]) = .ok s!"{a.toNat}.{b.toNat}.{c.toNat}.{d.toNat}" :=
  dnsIdle_quad a b c d

theorem dns_idle_domain (x : Nat) :
    (x < 4294967296 → dnsIdle x = .ok (dottedQuad x)) ∧ (4294967296 ≤ x → dnsIdle x = .error .valueError) := by
  unfold dnsIdle
  constructor
  · intro h; simp [h]
  · intro h; have : ¬ x < 4294967296 := by omega
    simp [this]

example : dnsIdle 134744072 = .ok "8.8.8.8" := by decide

theorem bof_allocator_names :
    (List.range 4).map bofAllocatorName = [some "VirtualAlloc", some "MapViewOfFile", some "HeapAlloc", none] := by
  decide

/-- on the defined flag values the protocol name is the member name (combined / undefined values follow
Python's `enum.Flag` naming, modelled by `flagName` and covered by the correspondence only) -/
theorem protocol_defined_values :
    [0, 1, 2, 4, 8, 16].map protocolName =
      [some "http", some "dns", some "smb", some "tcp", some "https", some "bind"] := by decide

theorem derived_scalars (cfg : List RawSetting) :
    (isTrial cfg = true ↔ rawGet cfg "SETTING_CRYPTO_SCHEME" = some (.int 1)) ∧
    (port cfg = rawGet cfg "SETTING_PORT") ∧ (watermark cfg = rawGet cfg "SETTING_WATERMARK") ∧
    (∀ b, rawGet cfg "SETTING_PUBKEY" = some (.bytes b) → publicKey cfg = some (rstripNul b)) ∧
    (∀ x, rawGet cfg "SETTING_PROTOCOL" = some (.int x) → protocol cfg = some (protocolName x)) := by
  have hc : enumVal cryptoScheme "CRYPTO_TRIAL_PRODUCT" = some 1 := by decide
  refine ⟨?_, rfl, rfl, ?_, ?_⟩
  · unfold isTrial
    rw [hc]
    cases h : rawGet cfg "SETTING_CRYPTO_SCHEME" with
    | none => simp
    | some v => cases v <;> simp
  · intro b hb; simp [publicKey, hb]
  · intro x hx; simp [protocol, hx]

/-! ## Domain / URI pairs -/

/-- For a SETTING_DOMAINS value `d1,u1,d2,u2,…` (items free of `,` and NUL), NUL-terminated with arbitrary
bytes after the terminator: the pairs are exactly the encoded ones in order; `domains`/`uris` are their
order-preserving de-duplications; every pair's members occur in them; neither list repeats an entry. -/
theorem domains_pairs (cfg : List RawSetting) (ps : List (Bytes × Bytes)) (junk : Bytes) (hne : ps ≠ [])
    (hitems : ∀ i ∈ interleave ps, ∀ x ∈ i, x ≠ 44 ∧ x ≠ 0)
    (hcfg : rawGet cfg "SETTING_DOMAINS" = some (.bytes (joinComma (interleave ps) ++ 0 :: junk))) :
    domainUriPairs cfg = ps.map (fun p => (p.1, some p.2)) ∧
    domains cfg = dedup (ps.map (·.1)) ∧ uris cfg = dedup (ps.map (fun p => some p.2)) ∧
    (∀ p ∈ ps, p.1 ∈ domains cfg ∧ some p.2 ∈ uris cfg) ∧
    (domains cfg).Nodup ∧ (uris cfg).Nodup := by
  have hjoin : ∀ x ∈ joinComma (interleave ps), x ≠ 0 := by
    have : ∀ (l : List Bytes), (∀ i ∈ l, ∀ x ∈ i, x ≠ 44 ∧ x ≠ 0) → ∀ x ∈ joinComma l, x ≠ 0 := by
      intro l
      induction l with
      | nil => simp [joinComma]
      | cons a r ih =>
        cases r with
        | nil => intro h x hx; exact (h a (by simp) x (by simpa [joinComma] using hx)).2
        | cons b r =>
          intro h x hx
          simp only [joinComma, List.mem_append, List.mem_cons] at hx
          rcases hx with hx | hx | hx
          · exact (h a (by simp) x hx).2
          · subst hx; decide
          · exact ih (fun i hi => h i (by simp [hi])) x hx
    exact this _ hitems
  have hil : interleave ps ≠ [] := by
    cases ps with
    | nil => exact absurd rfl hne
    | cons p r => simp [interleave]
  have hpairs : domainUriPairs cfg = ps.map (fun p => (p.1, some p.2)) := by
    unfold domainUriPairs
    rw [hcfg]
    simp only [nullTerminatedStr]
    rw [nullTerminatedBytes_append _ _ hjoin,
      splitComma_join _ hil (fun i hi x hx => (hitems i hi x hx).1), grouper2_interleave]
  have hd : domains cfg = dedup (ps.map (·.1)) := by
    unfold domains; rw [hpairs, List.map_map]; rfl
  have hu : uris cfg = dedup (ps.map (fun p => some p.2)) := by
    unfold uris; rw [hpairs, List.map_map]; rfl
  refine ⟨hpairs, hd, hu, ?_, ?_, ?_⟩
  · intro p hp
    rw [hd, hu, mem_dedup, mem_dedup]
    exact ⟨List.mem_map.mpr ⟨p, hp, rfl⟩, List.mem_map.mpr ⟨p, hp, rfl⟩⟩
  · rw [hd]; exact nodup_dedup _
  · rw [hu]; exact nodup_dedup _

/-- an odd number of items: the last domain is paired with `None` -/
theorem domains_pairs_odd (ps : List (Bytes × Bytes)) (d : Bytes) :
    grouper2 (interleave ps ++ [d]) = (ps.map fun p => (p.1, some p.2)) ++ [(d, none)] :=
  grouper2_interleave_odd ps d

/-- hypotheses of `domains_pairs` are satisfiable by a real TLV setting (index 8, TYPE_PTR) -/
example : rawGet [⟨8, 3, asc "a.com,/x,b.com,/x" ++ [0, 0, 0]⟩] "SETTING_DOMAINS" =
    some (.bytes (joinComma (interleave [(asc "a.com", asc "/x"), (asc "b.com", asc "/x")]) ++ 0 :: [0, 0])) := by
  decide

/-! ## SETTING_TO_PRETTYFUNC dispatch: the parsers above are what `settings[...]` shows -/

theorem pretty_dispatch (sha : Bytes → Bytes) (b : Bytes) :
    prettyVal sha ⟨11, 3, b⟩ = some (.ok (.recover (parseRecover b))) ∧
    prettyVal sha ⟨12, 3, b⟩ = some (.ok (.transform (parseTransform "metadata" b))) ∧
    prettyVal sha ⟨13, 3, b⟩ = some (.ok (.transform (parseTransform "id" b))) ∧
    prettyVal sha ⟨51, 3, b⟩ = some ((parseExecute b).map .execute) ∧
    prettyVal sha ⟨46, 3, b⟩ = some (.ok (.injTransform (parseInjTransform b))) ∧
    prettyVal sha ⟨47, 3, b⟩ = some (.ok (.injTransform (parseInjTransform b))) ∧
    prettyVal sha ⟨42, 3, b⟩ = some (.ok (.gargle (parseGargle b))) ∧
    prettyVal sha ⟨57, 3, b⟩ = some (.ok (.bytes (parsePivot b))) ∧
    prettyVal sha ⟨58, 3, b⟩ = some (.ok (.bytes (parsePivot b))) ∧
    prettyVal sha ⟨8, 3, b⟩ = some (.ok (.lstr (nullTerminatedStr b))) ∧
    prettyVal sha ⟨7, 3, b⟩ = some (.ok (.text (sha256sumPubkey sha b))) ∧
    prettyVal sha ⟨78, 3, b⟩ = some ((beaconGatePretty b).map .gate) ∧
    prettyVal sha ⟨19, 2, b⟩ = some ((dnsIdle (u32be b)).map .text) ∧
    prettyVal sha ⟨16, 1, b⟩ = some (.ok (.optText (bofAllocatorName (u16be b)))) := by
  simp [prettyVal, prettyTable, settingWatermarkHash, parseVal, typeShort, typeInt, applyPretty]

/-! ## Kill date

`killdate` falls back to SETTING_KILLDATE_YEAR/MONTH/DAY when SETTING_KILLDATE is absent or zero, but the
name-indexed view never has the keys SETTING_KILLDATE_YEAR / SETTING_KILLDATE_MONTH (values 16 and 17 resolve to
SETTING_BOF_ALLOCATOR / SETTING_SYSCALL_METHOD, and 16 is prettified to an allocator name), so the legacy date
of a Cobalt Strike < 3.12 beacon is never derived.  Recorded as finding C03-killdate-legacy-fallback-dead. -/

def killdate_legacy_full : Prop :=
  ∀ y m d : Nat, 0 < y → y < 65536 → 0 < m → m < 65536 → 0 < d → d < 65536 →
    killdate (fun _ => []) [⟨16, 1, be16 y⟩, ⟨17, 1, be16 m⟩, ⟨18, 1, be16 d⟩] =
      some (.ok (some (fmt02 y ++ "-" ++ fmt02 m ++ "-" ++ fmt02 d)))

theorem killdate_legacy_full_fails : ¬ killdate_legacy_full := by
  intro h
  have := h 2020 12 31 (by decide) (by decide) (by decide) (by decide) (by decide) (by decide)
  revert this
  decide

/-- what the code does instead: the legacy settings never produce a date -/
theorem killdate_legacy_is_none :
    killdate (fun _ => []) [⟨16, 1, be16 2020⟩, ⟨17, 1, be16 12⟩, ⟨18, 1, be16 31⟩] = some (.ok none) := by decide

/-- SETTING_KILLDATE = YYYYMMDD (four-digit year, any two-digit month/day, e.g. 9999-99-99) is rendered
`YYYY-MM-DD` with zero padding, for every such value -/
theorem killdate_yyyymmdd_format (sha : Bytes → Bytes) (y m d : Nat) (h1 : 1000 ≤ y) (h2 : y < 10000)
    (hm : m < 100) (hd : d < 100) :
    killdate sha [⟨40, 2, be32 ((y * 100 + m) * 100 + d)⟩] =
      some (.ok (some (fmt02 y ++ "-" ++ fmt02 m ++ "-" ++ fmt02 d))) :=
  killdate_yyyymmdd sha y m d h1 h2 hm hd

/-- other shapes of SETTING_KILLDATE (concrete values): the int is split by decimal digits; fewer than 7 digits
raise ValueError (`int("")`); zero / absent gives `None` -/
theorem killdate_partial :
    killdate (fun _ => []) [⟨40, 2, be32 20201231⟩] = some (.ok (some "2020-12-31")) ∧
    killdate (fun _ => []) [⟨40, 2, be32 2020123⟩] = some (.ok (some "2020-12-03")) ∧
    killdate (fun _ => []) [⟨40, 2, be32 202012⟩] = some (.error .valueError) ∧
    killdate (fun _ => []) [⟨40, 2, be32 0⟩] = some (.ok none) ∧
    killdate (fun _ => []) [] = some (.ok none) := by decide

end C03

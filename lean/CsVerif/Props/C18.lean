import CsVerif.Lemmas.C18
/-!
C18 property theorems — PE artifacts and the deduced Cobalt Strike version.

Generated-table obligations (`table_*`) are re-checked by `decide +kernel` against `Gen/Version.lean`, i.e. against
the dictionaries of the imported `dissect.cobaltstrike.version` and the values the real `BeaconVersion` computes.
-/
namespace C18
open Gen.Version Gen.PeStruct

/-! ## generated tables -/

/-- the model's parser is written for exactly this regular expression -/
theorem table_regex_unchanged :
    regexVersion = [67, 111, 98, 97, 108, 116, 32, 83, 116, 114, 105, 107, 101, 32, 40, 63, 80, 60, 109, 97, 106, 111, 114,
      62, 92, 100, 43, 41, 92, 46, 40, 63, 80, 60, 109, 105, 110, 111, 114, 62, 92, 100, 43, 41, 40, 92, 46, 40, 63, 80, 60,
      112, 97, 116, 99, 104, 62, 92, 100, 43, 41, 41, 63, 32, 92, 40, 40, 63, 80, 60, 100, 97, 116, 101, 62, 46, 42, 41, 92, 41]
    ∧ unknownText = unknownTxt := by decide +kernel

/-- for every entry the model's own parse of the text equals the `(tuple, date)` the code computed -/
theorem table_parse_agrees_export : ∀ e ∈ peExportStampEntries,
    ∃ v, parseVersion e.text = .ok (some v) ∧ e.tuple = some v.tuple ∧ e.date = some (v.date.y, v.date.m, v.date.d) := by
  have h : peExportStampEntries.all entryAgrees = true := by decide +kernel
  intro e he
  have := List.all_eq_true.mp h e he
  unfold entryAgrees at this
  split at this
  · rename_i v hv
    simp only [Bool.and_eq_true, beq_iff_eq] at this
    exact ⟨v, hv, this.1, this.2⟩
  · cases this

theorem table_parse_agrees_enum : ∀ e ∈ maxEnumEntries,
    ∃ v, parseVersion e.text = .ok (some v) ∧ e.tuple = some v.tuple ∧ e.date = some (v.date.y, v.date.m, v.date.d) := by
  have h : maxEnumEntries.all entryAgrees = true := by decide +kernel
  intro e he
  have := List.all_eq_true.mp h e he
  unfold entryAgrees at this
  split at this
  · rename_i v hv
    simp only [Bool.and_eq_true, beq_iff_eq] at this
    exact ⟨v, hv, this.1, this.2⟩
  · cases this

/-- later export timestamps never map to earlier releases (version tuple and release date, as parsed from the text) -/
theorem table_monotone_export : ∀ a ∈ peExportStampEntries, ∀ b ∈ peExportStampEntries, a.key < b.key →
    ∃ va vb, parseVersion a.text = .ok (some va) ∧ parseVersion b.text = .ok (some vb) ∧
      tupleLe va.tuple vb.tuple = true ∧ dateLe va.date vb.date = true :=
  monotone_of_checks _ (by decide +kernel) (by decide +kernel)

/-- higher setting indices never map to earlier releases -/
theorem table_monotone_enum : ∀ a ∈ maxEnumEntries, ∀ b ∈ maxEnumEntries, a.key < b.key →
    ∃ va vb, parseVersion a.text = .ok (some va) ∧ parseVersion b.text = .ok (some vb) ∧
      tupleLe va.tuple vb.tuple = true ∧ dateLe va.date vb.date = true :=
  monotone_of_checks _ (by decide +kernel) (by decide +kernel)

/-- the same fact in the executable form the driver evaluates (`mono` stream of the correspondence) -/
theorem table_monotone_at :
    (∀ a ∈ peExportStampEntries, ∀ b ∈ peExportStampEntries, monotoneAt peExportStampEntries (a.key : Int) (b.key : Int) = true) ∧
    (∀ a ∈ maxEnumEntries, ∀ b ∈ maxEnumEntries, monotoneAt maxEnumEntries (a.key : Int) (b.key : Int) = true) :=
  ⟨monotoneAt_of _ (by decide +kernel) table_monotone_export, monotoneAt_of _ (by decide +kernel) table_monotone_enum⟩

/-- every table text has exactly the documented shape `Cobalt Strike M.m[.p] (Mon DD, YYYY)` with a valid date;
keys are distinct, export-stamp keys are non-zero (so a table hit is never shadowed by the `if self.pe_export_stamp:` test),
and the `String` tables list the same keys and texts as the entry tables. -/
theorem table_shape :
    (∀ e ∈ peExportStampEntries, ∃ major minor patch d, validDate d.y d.m d.d = true ∧ e.text = formatVersion major minor patch d) ∧
    (∀ e ∈ maxEnumEntries, ∃ major minor patch d, validDate d.y d.m d.d = true ∧ e.text = formatVersion major minor patch d) ∧
    keysNodup peExportStampEntries = true ∧ keysNodup maxEnumEntries = true ∧
    (∀ e ∈ peExportStampEntries, e.key ≠ 0) := by
  refine ⟨shape_of_check _ (by decide +kernel), shape_of_check _ (by decide +kernel), by decide +kernel, by decide +kernel, ?_⟩
  have h : peExportStampEntries.all (fun e => e.key != 0) = true := by decide +kernel
  intro e he
  simpa using List.all_eq_true.mp h e he

/-- the `String` tables list the same keys and texts (as code points) as the entry tables
(split in three so that each kernel evaluation of `String.toList` stays short) -/
theorem table_strings_agree_enum :
    maxEnumToVersion.map (fun p => (p.1, toTxt p.2)) = maxEnumEntries.map (fun e => (e.key, e.text)) := by
  decide +kernel

theorem table_strings_agree_export_head :
    (peExportStampToVersion.take 27).map (fun p => (p.1, toTxt p.2))
      = (peExportStampEntries.take 27).map (fun e => (e.key, e.text)) := by
  decide +kernel

theorem table_strings_agree_export_tail :
    (peExportStampToVersion.drop 27).map (fun p => (p.1, toTxt p.2))
      = (peExportStampEntries.drop 27).map (fun e => (e.key, e.text)) := by
  decide +kernel

/-! ## BeaconVersion parsing and precedence -/

/-- every string of the documented shape parses back to the fields it was formatted from (`re.match` + `strptime`) -/
theorem version_parse_format (major minor : Nat) (patch : Option Nat) (d : Date) (h : validDate d.y d.m d.d = true) :
    parseVersion (formatVersion major minor patch d) = .ok (some ⟨major :: minor :: patch.toList, d⟩) :=
  version_parse_format' major minor patch d h

example : validDate 2022 9 16 = true ∧
    formatVersion 4 7 (some 1) ⟨2022, 9, 16⟩ = toTxt "Cobalt Strike 4.7.1 (Sep 16, 2022)" := by decide +kernel

/-- `version_only` of a parsed version is the dotted tuple, e.g. `4.7.1` -/
example : versionOnly (some ⟨[4, 7, 1], ⟨2022, 9, 16⟩⟩) = toTxt "4.7.1" := by decide +kernel

/-- `BeaconConfig.version`: a non-zero export stamp decides alone (table text or "Unknown", the setting index is not
consulted); `None` and `0` fall through to the highest setting index; absent keys give "Unknown", whose tuple and
date are `None`. -/
theorem version_precedence :
    (∀ e ∈ peExportStampEntries, ∀ maxEnum, versionFor (some (e.key : Int)) maxEnum = e.text) ∧
    (∀ s : Int, s ≠ 0 → (∀ e ∈ peExportStampEntries, (e.key : Int) ≠ s) → ∀ maxEnum, versionFor (some s) maxEnum = unknownText) ∧
    (∀ e ∈ maxEnumEntries, versionFor none (e.key : Int) = e.text ∧ versionFor (some 0) (e.key : Int) = e.text) ∧
    (∀ m : Int, (∀ e ∈ maxEnumEntries, (e.key : Int) ≠ m) → versionFor none m = unknownText ∧ versionFor (some 0) m = unknownText) ∧
    parseVersion unknownText = .ok none := by
  obtain ⟨_, _, nd1, nd2, nz⟩ := table_shape
  refine ⟨?_, ?_, ?_, ?_, by decide +kernel⟩
  · intro e he m
    have : ((e.key : Int) ≠ 0) := by have := nz e he; omega
    simp only [versionFor, this, ne_eq, not_false_eq_true, ↓reduceIte]
    exact lookup_mem _ nd1 e he
  · intro s hs habs m
    simp only [versionFor, hs, ne_eq, not_false_eq_true, ↓reduceIte]
    exact lookup_absent _ _ habs
  · intro e he
    simp only [versionFor, ne_eq, not_true_eq_false, ↓reduceIte]
    exact ⟨lookup_mem _ nd2 e he, lookup_mem _ nd2 e he⟩
  · intro m habs
    simp only [versionFor, ne_eq, not_true_eq_false, ↓reduceIte]
    exact ⟨lookup_absent _ _ habs, lookup_absent _ _ habs⟩

/-- the property as a whole for a configuration: with setting indices `enums ≠ []` the reported text is
`versionFor stamp (max enums)`; an empty configuration with a falsy stamp raises (Python `max([])`). -/
theorem config_version (stamp : Option Int) (x : Nat) (xs : List Nat) :
    configVersion stamp (x :: xs) = .ok (versionFor stamp ((xs.foldl max x : Nat) : Int)) := by
  unfold configVersion versionFor enumVersion maxEnumOf
  cases stamp with
  | none => rfl
  | some s => by_cases h : s ≠ 0 <;> simp [h]

example : versionFor (some 0x5F94C216) 20 = toTxt "Cobalt Strike 4.2 (Nov 06, 2020)" ∧
    versionFor none 20 = toTxt "Cobalt Strike 3.4 (Jul 29, 2016)" ∧
    versionFor (some 0) 78 = toTxt "Cobalt Strike 4.10 (Jul 16, 2024)" ∧
    versionFor (some 12345) 78 = toTxt "Unknown" := by decide +kernel

/-! ## histories on one `BeaconConfig` object -/

/-- a `.version` read after ANY history returns the stateless value for the export stamp in force at that moment:
earlier reads, earlier stamps, and assignments of the other attributes have no influence. -/
theorem version_history_independent (enums : List Nat) (s : CfgState) (ops : List CfgOp) :
    cfgRun enums s (ops ++ [.readVersion]) =
      cfgRun enums s ops ++ [.version (configVersion (lastStamp s.exportStamp ops) enums)] := by
  rw [cfgRun_append, ← cfgAfter_stamp]
  simp [cfgRun, cfgRead]


/-- assignments of `pe_compile_stamp` / `architecture` never influence any read -/
theorem version_history_ignores_other_attrs (enums : List Nat) (s : CfgState) (ops : List CfgOp) :
    cfgRun enums s ops = cfgRun enums ⟨s.exportStamp, none, none⟩ (ops.filter (fun op => !op.isOtherAttr)) :=
  cfgRun_ignores_other_attrs enums s ops

example : cfgRun [20] {} [.readVersion, .setExportStamp (some 0x5F94C216), .setArch (some .x64), .readVersion,
      .setExportStamp (some 0), .readVersion] =
    [.version (.ok (toTxt "Cobalt Strike 3.4 (Jul 29, 2016)")), .version (.ok (toTxt "Cobalt Strike 4.2 (Nov 06, 2020)")),
     .version (.ok (toTxt "Cobalt Strike 3.4 (Jul 29, 2016)"))] := by decide +kernel

/-! ## PE artifacts of a stage, for every `start_offset` and every `maxrange`

The file is `J ++ P ++ I` and the helper is called with `start_offset = |J|` and `maxrange = m`:
`J` = the bytes in front of the start offset (arbitrary; the scan never looks at them — they may even contain a complete
image), `P` = the bytes between the start offset and the image, `I` = the image.
`StageAt J P I m` (Lemmas): `I` starts with a DOS header whose signed `e_lfanew` lies in `(0, m)`, the `IMAGE_FILE_HEADER`
at `e_lfanew + 4` is inside `I` and names machine 0x8664 or 0x14c, `|P| < m`, and
`NoEarlierCandidate (J ++ P ++ I) |J| m |P|` (no offset `|J| + o`, `o < |P|`, passes the e_lfanew + Machine test).
`Img.*` are the fields of the image at their offsets inside the image.

What the code does (pe.py 193-205, 346-348), and what is therefore stated:
* the reported offset is ABSOLUTE: `return start_offset + offset`, i.e. `|J| + |P|`;
* `maxrange` bounds both the scanned window (`|P| < m`) and `e_lfanew` (`e_lfanew < m`);
* `find_stage_prepend_append` reads the prepend with `fh.seek(0); fh.read(mz_offset)`: with a non-zero start offset the
  reported prepend is `J ++ P` — everything in front of the image, including the bytes BEFORE `start_offset`;
* no helper restores the file position: each leaves it where its last read ended (`Img.endPos`), independent of the
  position it found (`pe_position_independent`).
Every statement holds for any initial file position and for both file kinds (BytesIO / OS file). -/

/-- every helper on a stage: the reported value AND the file it leaves behind -/
theorem stage_call_at {J P I : Bytes} {maxrange : Nat} (h : StageAt J P I maxrange)
    (hc : Img.headersEnd I ≤ I.length) (pos : Nat) (k : FileKind) (op : PeOp) :
    peCall ⟨J ++ P ++ I, pos, k⟩ (some J.length) maxrange op
      = (stageAnswerAt J P I op, ⟨J ++ P ++ I, J.length + P.length + Img.endPos I op, k⟩) := by
  have hlen : J.length + P.length = (J ++ P).length := List.length_append.symm
  have hmz := findMzOffset_at h pos k
  cases op
  · simp only [peCall, hmz, stageAnswerAt, Img.endPos]
  · simp only [peCall, findArchitecture_at h pos k, stageAnswerAt, Img.endPos]
  · simp only [peCall, findCompileStamps, hmz, stageAnswerAt, Img.endPos]
    rw [hlen, compileStampsAt_image (J ++ P) h.image hc]
  · simp only [peCall, findMagicMz, hmz, stageAnswerAt, Img.endPos]
    rw [hlen, magicMzAt_image (J ++ P) I]
  · simp only [peCall, findMagicPe, hmz, stageAnswerAt, Img.endPos]
    rw [hlen, magicPeAt_image (J ++ P) h.image]
  · simp only [peCall, findStagePrependAppend, hmz, stageAnswerAt, Img.endPos]
    rw [hlen, prependAppendAt_image (J ++ P) h.image hc, Nat.add_assoc]

/-- `find_mz_offset(fh, start_offset=s, maxrange=m)` returns the absolute offset `s + |P|` of the image -/
theorem mz_offset_found_at {J P I : Bytes} {maxrange : Nat} (h : StageAt J P I maxrange) (pos : Nat) (k : FileKind) :
    (findMzOffset ⟨J ++ P ++ I, pos, k⟩ (some J.length) maxrange).1 = some (J.length + P.length) := by
  rw [findMzOffset_at h pos k]

/-- … and leaves the position at the end of the image's `IMAGE_FILE_HEADER` (it is not restored) -/
theorem mz_offset_position_at {J P I : Bytes} {maxrange : Nat} (h : StageAt J P I maxrange) (pos : Nat) (k : FileKind) :
    (findMzOffset ⟨J ++ P ++ I, pos, k⟩ (some J.length) maxrange).2.tell = J.length + P.length + Img.optOff I := by
  rw [findMzOffset_at h pos k]; rfl

theorem architecture_found_at {J P I : Bytes} {maxrange : Nat} (h : StageAt J P I maxrange) (pos : Nat) (k : FileKind) :
    (findArchitecture ⟨J ++ P ++ I, pos, k⟩ (some J.length) maxrange).1 = some (Img.arch I) := by
  rw [findArchitecture_at h pos k]

theorem compile_stamps_found_at {J P I : Bytes} {maxrange : Nat} (h : StageAt J P I maxrange)
    (hc : Img.headersEnd I ≤ I.length) (pos : Nat) (k : FileKind) :
    (findCompileStamps ⟨J ++ P ++ I, pos, k⟩ (some J.length) maxrange).1
      = .ok (some (Img.compileStamp I), Img.exportStamp I) :=
  congrArg (fun r => match r.1 with | .stamps x => x | _ => .ok (none, none)) (stage_call_at h hc pos k .stamps)

theorem compile_stamp_truncated_at {J P I : Bytes} {maxrange : Nat} (h : StageAt J P I maxrange)
    (hc : I.length < Img.optOff I + optSize (Img.is64 I)) (pos : Nat) (k : FileKind) :
    (findCompileStamps ⟨J ++ P ++ I, pos, k⟩ (some J.length) maxrange).1 = .ok (some (Img.compileStamp I), none) := by
  unfold findCompileStamps
  rw [findMzOffset_at h pos k]
  simp only
  rw [← List.length_append]
  exact compileStampsAt_image_truncated (J ++ P) h.image hc _ k

theorem magic_mz_found_at {J P I : Bytes} {maxrange : Nat} (h : StageAt J P I maxrange) (pos : Nat) (k : FileKind) :
    (findMagicMz ⟨J ++ P ++ I, pos, k⟩ (some J.length) maxrange).1 = Img.magicMz I := by
  unfold findMagicMz
  rw [findMzOffset_at h pos k]
  simp only
  rw [← List.length_append, magicMzAt_image (J ++ P) I]

theorem magic_pe_found_at {J P I : Bytes} {maxrange : Nat} (h : StageAt J P I maxrange) (pos : Nat) (k : FileKind) :
    (findMagicPe ⟨J ++ P ++ I, pos, k⟩ (some J.length) maxrange).1 = .ok (some (Img.magicPe I)) := by
  unfold findMagicPe
  rw [findMzOffset_at h pos k]
  simp only
  rw [← List.length_append, magicPeAt_image (J ++ P) h.image]

/-- prepend = `J ++ P`, EVERYTHING in front of the image (`None` when empty) — the code reads it from offset 0, not from
`start_offset`; append = the bytes after `SizeOfHeaders + Σ SizeOfRawData` -/
theorem prepend_append_found_at {J P I : Bytes} {maxrange : Nat} (h : StageAt J P I maxrange)
    (hc : Img.headersEnd I ≤ I.length) (pos : Nat) (k : FileKind) :
    (findStagePrependAppend ⟨J ++ P ++ I, pos, k⟩ (some J.length) maxrange).1
      = .ok (prependOf (J ++ P), Img.append I) :=
  congrArg (fun r => match r.1 with | .ppa x => x | _ => .ok (none, none)) (stage_call_at h hc pos k .ppa)

/-- DESIGN §C18 `mz_found` for every start offset and every maxrange -/
theorem mz_found_at {J P I : Bytes} {maxrange : Nat} (h : StageAt J P I maxrange)
    (hc : Img.headersEnd I ≤ I.length) (pos : Nat) (k : FileKind) :
    let f : PyFile := ⟨J ++ P ++ I, pos, k⟩
    let s := some J.length
    (findMzOffset f s maxrange).1 = some (J.length + P.length) ∧
    (findArchitecture f s maxrange).1 = some (Img.arch I) ∧
    (findCompileStamps f s maxrange).1 = .ok (some (Img.compileStamp I), Img.exportStamp I) ∧
    (findMagicMz f s maxrange).1 = Img.magicMz I ∧
    (findMagicPe f s maxrange).1 = .ok (some (Img.magicPe I)) ∧
    (findStagePrependAppend f s maxrange).1 = .ok (prependOf (J ++ P), Img.append I) :=
  ⟨mz_offset_found_at h pos k, architecture_found_at h pos k, compile_stamps_found_at h hc pos k, magic_mz_found_at h pos k,
    magic_pe_found_at h pos k, prepend_append_found_at h hc pos k⟩

/-! ### file position: what the helpers depend on and what they leave behind -/

/-- with an explicit `start_offset` no helper depends on the position of the file object it is handed: the reported value is
the same from any position, and (as soon as the loop runs at all, `maxrange > 0`) so is the file left behind.
This holds for ARBITRARY content, not only for stages. (`maxrange = 0`: nothing is read and the position is untouched.) -/
theorem pe_position_independent (op : PeOp) (d : Bytes) (p q : Nat) (k : FileKind) (s maxrange : Nat) :
    (peCall ⟨d, p, k⟩ (some s) maxrange op).1 = (peCall ⟨d, q, k⟩ (some s) maxrange op).1 ∧
    (0 < maxrange → peCall ⟨d, p, k⟩ (some s) maxrange op = peCall ⟨d, q, k⟩ (some s) maxrange op) := by
  by_cases hm : 0 < maxrange
  · have e1 := findMzOffset_pos_indep d p q k s maxrange hm
    have e2 := findArchitecture_pos_indep d p q k s maxrange hm
    have : peCall ⟨d, p, k⟩ (some s) maxrange op = peCall ⟨d, q, k⟩ (some s) maxrange op := by
      cases op <;> simp only [peCall, findCompileStamps, findMagicMz, findMagicPe, findStagePrependAppend, e1, e2]
    exact ⟨by rw [this], fun _ => this⟩
  · have : maxrange = 0 := by omega
    subst this
    cases op <;> exact ⟨rfl, fun h => absurd h (by omega)⟩

/-- `start_offset=None` means "from `fh.tell()`" — the only way the initial position enters a result -/
theorem pe_start_none_is_tell (f : PyFile) (maxrange : Nat) (op : PeOp) :
    peCall f none maxrange op = peCall f (some f.tell) maxrange op := by
  cases op <;> rfl

/-- no helper changes the bytes or the kind of the file object; the position is the only side effect -/
theorem pe_only_moves_position (f : PyFile) (start : Option Nat) (maxrange : Nat) (op : PeOp) :
    (peCall f start maxrange op).2.data = f.data ∧ (peCall f start maxrange op).2.kind = f.kind :=
  same_peCall f start maxrange op

/-! ### the `start_offset = 0` instances (the statements of DESIGN §C18) -/

/-- `find_mz_offset` returns the length of the prepended data -/
theorem mz_offset_found {P I : Bytes} {maxrange : Nat} (h : Stage P I maxrange) (pos : Nat) (k : FileKind) :
    (findMzOffset ⟨P ++ I, pos, k⟩ (some 0) maxrange).1 = some P.length := by
  simpa using mz_offset_found_at h.at pos k

/-- with `start_offset=None` the search starts at `fh.tell()`; at position 0 this is the same search -/
theorem mz_offset_found_from_tell {P I : Bytes} {maxrange : Nat} (h : Stage P I maxrange) (k : FileKind) :
    (findMzOffset ⟨P ++ I, 0, k⟩ none maxrange).1 = some P.length :=
  mz_offset_found h 0 k

/-- no offset in range passes the test ⇒ `None` (any start offset, any maxrange, any content) -/
theorem mz_offset_none (f : PyFile) (start maxrange : Nat)
    (h : NoEarlierCandidate f.data start maxrange maxrange) : (findMzOffset f (some start) maxrange).1 = none := by
  obtain ⟨s1, _, _⟩ := scanLoop_spec classifyMz start maxrange (List.range maxrange) f
  have hn : ∀ (l : List Nat), (∀ o ∈ l, o < maxrange) → firstHit classifyMz f.data start maxrange l = none := by
    intro l
    induction l with
    | nil => intro _; rfl
    | cons o os ih =>
      intro hl
      unfold firstHit
      rw [h o (hl o (by simp))]
      exact ih (fun x hx => hl x (by simp [hx]))
  rw [hn _ (fun o ho => List.mem_range.mp ho)] at s1
  unfold findMzOffset startOf
  simp only
  rcases hr : scanLoop classifyMz start maxrange (List.range maxrange) f with ⟨r, f1⟩
  rw [hr] at s1
  simp only at s1
  subst s1
  rfl

/-- `find_architecture` reports the machine encoded in the image -/
theorem architecture_found {P I : Bytes} {maxrange : Nat} (h : Stage P I maxrange) (pos : Nat) (k : FileKind) :
    (findArchitecture ⟨P ++ I, pos, k⟩ (some 0) maxrange).1 = some (Img.arch I) :=
  architecture_found_at h.at pos k

/-- compile stamp = `IMAGE_FILE_HEADER.TimeDateStamp`; export stamp = `IMAGE_EXPORT_DIRECTORY.TimeDateStamp` found through
the first section containing the export RVA, `None` when no section contains it (or the directory is cut off) -/
theorem compile_stamps_found {P I : Bytes} {maxrange : Nat} (h : Stage P I maxrange)
    (hc : Img.headersEnd I ≤ I.length) (pos : Nat) (k : FileKind) :
    (findCompileStamps ⟨P ++ I, pos, k⟩ (some 0) maxrange).1 = .ok (some (Img.compileStamp I), Img.exportStamp I) :=
  compile_stamps_found_at h.at hc pos k

/-- truncated image (optional header cut off): the compile stamp that was read is still reported, the export stamp is
`None` (the behaviour introduced by fix 5e250e6; before it EOFError escaped) -/
theorem compile_stamp_truncated {P I : Bytes} {maxrange : Nat} (h : Stage P I maxrange)
    (hc : I.length < Img.optOff I + optSize (Img.is64 I)) (pos : Nat) (k : FileKind) :
    (findCompileStamps ⟨P ++ I, pos, k⟩ (some 0) maxrange).1 = .ok (some (Img.compileStamp I), none) :=
  compile_stamp_truncated_at h.at hc pos k

theorem magic_mz_found {P I : Bytes} {maxrange : Nat} (h : Stage P I maxrange) (pos : Nat) (k : FileKind) :
    (findMagicMz ⟨P ++ I, pos, k⟩ (some 0) maxrange).1 = Img.magicMz I :=
  magic_mz_found_at h.at pos k

theorem magic_pe_found {P I : Bytes} {maxrange : Nat} (h : Stage P I maxrange) (pos : Nat) (k : FileKind) :
    (findMagicPe ⟨P ++ I, pos, k⟩ (some 0) maxrange).1 = .ok (some (Img.magicPe I)) :=
  magic_pe_found_at h.at pos k

/-- prepend = exactly `P` (`None` when empty); append = the bytes after `SizeOfHeaders + Σ SizeOfRawData` -/
theorem prepend_append_found {P I : Bytes} {maxrange : Nat} (h : Stage P I maxrange)
    (hc : Img.headersEnd I ≤ I.length) (pos : Nat) (k : FileKind) :
    (findStagePrependAppend ⟨P ++ I, pos, k⟩ (some 0) maxrange).1 = .ok (prependOf P, Img.append I) :=
  prepend_append_found_at h.at hc pos k

/-- DESIGN §C18 `mz_found`: all reported artifacts of a stage equal those of the image, irrespective of `P`. -/
theorem mz_found {P I : Bytes} {maxrange : Nat} (h : Stage P I maxrange)
    (hc : Img.headersEnd I ≤ I.length) (pos : Nat) (k : FileKind) :
    let f : PyFile := ⟨P ++ I, pos, k⟩
    (findMzOffset f (some 0) maxrange).1 = some P.length ∧
    (findArchitecture f (some 0) maxrange).1 = some (Img.arch I) ∧
    (findCompileStamps f (some 0) maxrange).1 = .ok (some (Img.compileStamp I), Img.exportStamp I) ∧
    (findMagicMz f (some 0) maxrange).1 = Img.magicMz I ∧
    (findMagicPe f (some 0) maxrange).1 = .ok (some (Img.magicPe I)) ∧
    (findStagePrependAppend f (some 0) maxrange).1 = .ok (prependOf P, Img.append I) :=
  ⟨mz_offset_found h pos k, architecture_found h pos k, compile_stamps_found h hc pos k, magic_mz_found h pos k,
    magic_pe_found h pos k, prepend_append_found h hc pos k⟩

/-- several calls on ONE file object (any order, any `fh.seek` in between, any position left behind by earlier calls), each
with `start_offset = |J|`: every call reports the image's artifacts and leaves the position at its own `Img.endPos` — no
result and no final position depends on call order or on the previous position -/
theorem pe_history_independent_at {J P I : Bytes} {maxrange : Nat} (h : StageAt J P I maxrange)
    (hc : Img.headersEnd I ≤ I.length)
    (calls : List PeCall) (hs : ∀ c ∈ calls, c.start = some J.length) (f : PyFile) (hf : f.data = J ++ P ++ I) :
    peRun maxrange f calls
      = calls.map (fun c => (stageAnswerAt J P I c.op, J.length + P.length + Img.endPos I c.op)) := by
  induction calls generalizing f with
  | nil => rfl
  | cons c cs ih =>
    have hstart : c.start = some J.length := hs c (by simp)
    unfold peRun
    simp only [List.map_cons]
    have hf0 : ∃ pos k, seekOpt f c.seekTo = ⟨J ++ P ++ I, pos, k⟩ := by
      obtain ⟨d, p, k⟩ := f
      simp only at hf
      subst hf
      cases c.seekTo with
      | none => exact ⟨p, k, rfl⟩
      | some q => exact ⟨q, k, rfl⟩
    obtain ⟨pos, k, hf0⟩ := hf0
    rw [hf0, hstart, stage_call_at h hc pos k c.op]
    simp only
    rw [ih (fun c' hc' => hs c' (by simp [hc'])) _ rfl]
    rfl

/-- the `start_offset = 0` instance (values only) -/
theorem pe_history_independent {P I : Bytes} {maxrange : Nat} (h : Stage P I maxrange) (hc : Img.headersEnd I ≤ I.length)
    (calls : List PeCall) (hs : ∀ c ∈ calls, c.start = some 0) (f : PyFile) (hf : f.data = P ++ I) :
    (peRun maxrange f calls).map (·.1) = calls.map (fun c => stageAnswer P I c.op) := by
  rw [pe_history_independent_at h.at hc calls hs f hf, List.map_map]
  apply List.map_congr_left
  intro c _
  exact stageAnswerAt_nil P I c.op


/-! ## the file-like-generic functions (used over the XorEncoded view by C01/C09) coincide with the PyFile models -/

theorem generic_agrees (f : PyFile) (start : Option Nat) (maxrange : Nat) :
    Generic.findMzOffset pyFileLike f (start.map Int.ofNat) maxrange
      = .ok ((findMzOffset f start maxrange).1.map Int.ofNat, (findMzOffset f start maxrange).2) ∧
    Generic.findArchitecture pyFileLike f (start.map Int.ofNat) maxrange = .ok (findArchitecture f start maxrange) ∧
    Generic.findCompileStamps pyFileLike f (start.map Int.ofNat) maxrange = liftPy (findCompileStamps f start maxrange) ∧
    Generic.findMagicMz pyFileLike f (start.map Int.ofNat) maxrange = .ok (findMagicMz f start maxrange) ∧
    Generic.findMagicPe pyFileLike f (start.map Int.ofNat) maxrange = liftPy (findMagicPe f start maxrange) ∧
    Generic.findStagePrependAppend pyFileLike f (start.map Int.ofNat) maxrange
      = liftPy (findStagePrependAppend f start maxrange) :=
  ⟨generic_findMzOffset f start maxrange, generic_findArchitecture f start maxrange,
    generic_findCompileStamps f start maxrange, generic_findMagicMz f start maxrange,
    generic_findMagicPe f start maxrange, generic_findStagePrependAppend f start maxrange⟩

/-- the scan loop never raises on a Python file object: the seeks it performs have non-negative arguments
(`fh.seek(start_offset + offset + 4 + e_lfanew)` is only reached with `e_lfanew > 0`) -/
theorem scan_seek_faithful (f : PyFile) (base : Nat) (e : Int) (h : 0 < e) :
    f.seekSet ((base : Int) + 4 + e) = .ok (base + 4 + e.toNat, seekNat f (base + 4 + e.toNat)) :=
  seekNat_faithful f base e h

/-! ### the hypotheses are satisfiable: a concrete x86 image with one section, an export directory and appended bytes -/

example : Stage samplePrepend sampleImage 1024 :=
  ⟨by decide +kernel, by decide +kernel, by decide +kernel, by decide +kernel, by decide +kernel, by decide +kernel,
    by decide +kernel⟩

example : Img.headersEnd sampleImage ≤ sampleImage.length := by decide +kernel

example : Img.arch sampleImage = .x86 ∧ Img.compileStamp sampleImage = 0x5F94C216 ∧
    Img.exportStamp sampleImage = some 0x603E2D9D ∧ Img.magicMz sampleImage = some [77, 90] ∧
    Img.magicPe sampleImage = [80, 69] ∧ Img.append sampleImage = some [65, 66] ∧
    prependOf samplePrepend = some [0x90, 0x90, 0xCC] := by decide +kernel

/-- the executable model on the same bytes (independent of the theorems above) -/
example : (findCompileStamps (PyFile.ofBytes (samplePrepend ++ sampleImage)) (some 0) 1024).1
    = .ok (some 0x5F94C216, some 0x603E2D9D) := by decide +kernel


/-- a non-zero start offset and a non-default maxrange: a COMPLETE x64 image in front of the start offset (328 bytes, never
inspected), then 3 bytes, then the x86 image; `maxrange = 65` (`e_lfanew = 64` is the largest value it admits) -/
example : StageAt sampleImage64 samplePrepend sampleImage 65 :=
  ⟨⟨by decide +kernel, by decide +kernel, by decide +kernel, by decide +kernel, by decide +kernel⟩, by decide +kernel,
    by decide +kernel⟩

/-- the executable model on those bytes (OS file, initial position 7): absolute offset 328 + 3, x86 (not the x64 image in
front), prepend = all 331 bytes in front of the image, position left at the end of the file header / after the append read -/
example :
    (findMzOffset sampleFileAt (some 328) 65).1 = some 331 ∧
    (findMzOffset sampleFileAt (some 328) 65).2.pos = 331 + 88 ∧
    (findArchitecture sampleFileAt (some 328) 65).1 = some .x86 ∧
    (findStagePrependAppend sampleFileAt (some 328) 65).1 = .ok (some (sampleImage64 ++ samplePrepend), some [65, 66]) ∧
    (findStagePrependAppend sampleFileAt (some 328) 65).2.pos = 331 + 420 ∧
    -- one less of maxrange and the image is no longer accepted (`e_lfanew < maxrange`)
    (findMzOffset sampleFileAt (some 328) 64).1 = none ∧
    -- from start offset 0 the x64 image in front is found instead
    (findArchitecture sampleFileAt (some 0) 65).1 = some .x64 := by decide +kernel

/-- x64, no section contains the export RVA ⇒ export stamp `None`; nothing prepended ⇒ prepend `None`; nothing appended ⇒ `None` -/
example : Stage [] sampleImage64 1024 :=
  ⟨by decide +kernel, by decide +kernel, by decide +kernel, by decide +kernel, by decide +kernel, by decide +kernel,
    by decide +kernel⟩

example : Img.headersEnd sampleImage64 ≤ sampleImage64.length ∧ Img.arch sampleImage64 = .x64 ∧
    Img.compileStamp sampleImage64 = 0x674E0D02 ∧ Img.exportStamp sampleImage64 = none ∧
    Img.magicMz sampleImage64 = some [77, 90, 65, 82] ∧ Img.append sampleImage64 = none ∧ prependOf [] = none := by
  decide +kernel

end C18

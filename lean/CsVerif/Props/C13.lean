import CsVerif.Lemmas.C13
/-! C13 property theorems -/
namespace C13

/-- no setting value is tested twice in the if/elif chain -/
theorem chain_keys_nodup : (actionTable.map (·.1)).Nodup := by decide +kernel

end C13
